"""C10 — constants and attributes are embedded exactly and captured at the call.

Models: coq/Tensor.v (array <-> TensorProto: encode / encode_pinned / decode), coq/TensorAttr.v (attribute kinds,
make_attr, FLOAT rounding on bit patterns), coq/TensorHeap.v (object heap, capture, caller-side mutations).
Theorems: coq/props/C10.v.

Correspondence (every run):
  T  arrays of all 26 element types x shapes x adversarial bit patterns x memory layouts, through const / constant /
     initializer / argument default / const(list, alias dtype) / ConstantOfShape.value, mutated after the call, then
     built: the TensorProto found in the RETURNED ModelProto (read off the wire, floats as bit patterns) vs the model's
     encode (fixed tree) / encode_pinned (pinned tree), bit for bit; model decode vs numpy_helper.to_array.
  X  exhaustive: every bit pattern of the 8/4/2-bit element types (and a dense sample of the 16-bit ones) through
     from_array, same comparison -> validates the packing table and the lossy-word table [canon] on every run.
  A  every attribute class x right and wrong kinds of values: outcome (AttributeProto name/type/value or exception
     class) vs make_attr; Constant built from value_float/... : Var type and propagated value vs constant_of.
  H  random operator calls on caller-owned arrays / lists / lists of Vars, random mutation histories, then build:
     AttributeProtos, Attr.value, node inputs and the caller's own objects vs the model's run.
Direct oracle on the implementation alone: to_array of the embedded TensorProto, Var.type, Var._get_value() and the
onnxruntime output must equal (dtype, shape, every bit) the snapshot of the array taken BEFORE the call and the
mutations; wrong-kind attribute values must raise TypeError; emitted attribute values are checked against numpy.
"""

from __future__ import annotations

import copy
import warnings

import numpy as np

from harness.common import Run
from harness import c10_reflect as R
from harness.c10_reflect import N, Z, lst

CONE = ["Tensor.v", "TensorFacts.v", "TensorAttr.v", "TensorAttrFacts.v", "TensorHeap.v", "TensorHeapFacts.v"]
PROPS = "props/C10.v"

HEADER = """From Coq Require Import NArith ZArith List Bool String.
From Spox Require Import Tensor TensorAttr TensorHeap.
Import ListNotations.
Open Scope N_scope.
Definition chk (t : tensor) (p : proto) :=
  (wf t, proto_eqb (encode t) p, proto_eqb (encode_pinned t) p, otensor_eqb (decode p) t, otensor_eqb (decode p) (canon_tensor t)).
Definition chkD (p : proto) (r : option tensor) :=
  match decode p, r with Some a, Some b => tensor_eqb a b | None, None => true | _, _ => false end.
Definition chkA (k : akind) (name : string) (v : pyval) (real : res aproto) :=
  (res_eqb (make_attr true k name v) real, res_eqb (make_attr false k name v) real, modelled k v, kind_ok k v).
Definition chkC (k : akind) (name : string) (v : pyval) (ra : res aproto) (rt : option (elem * list N)) (rv : option tensor) :=
  match constant_of true k name v, ra with
  | Ok c, Ok a => (match c_attrs c with [a'] => res_eqb (Ok a') ra | _ => false end,
                   match c_type c, rt with Some (e, d), Some (e', d') => elem_eqb e e' && list_eqb N.eqb d d' | None, None => true | _, _ => false end,
                   match c_value c, rv with Some t, Some t' => tensor_eqb t t' | None, None => true | _, _ => false end)
  | Err e, Err e' => (err_code e =? err_code e', true, true)
  | _, _ => (false, false, false)
  end.
Definition chkH (st : state) (c : call) (ms : list mut) (attrs : list (res aproto)) (live : list pyval) (inputs : pyval)
                (watch : list oid) (final : list pyval) :=
  let '(s1, n1) := construct Copy true st c in
  let '(s0, n0) := construct Copy false st c in
  (state_ok st && call_ok st c && scoped s1 ms,
   built_matches (build (run s1 ms) n1) (build (run s0 ms) n0) attrs live inputs,
   leqb _ pyval_eqb (map (fun o => obj_val (lookup (s_heap (run s1 ms)) o)) watch) final).
"""


def parse_bools(term: str):
    return [t == "true" for t in term.replace("(", " ").replace(")", " ").replace(",", " ").split()]


# ================================================================================================ implementation access


class Impl:
    def __init__(self):
        import onnx
        import onnx.numpy_helper
        import onnxruntime as ort
        import spox
        import spox._attributes as A
        import spox.opset.ai.onnx.v17 as op17
        import spox.opset.ai.onnx.v19 as op19
        import spox.opset.ai.onnx.v21 as op21
        from spox._future import initializer
        from spox._graph import arguments
        from spox._utils import from_array

        self.onnx, self.nh, self.ort, self.spox, self.A = onnx, onnx.numpy_helper, ort, spox, A
        self.op17, self.op19, self.op21 = op17, op19, op21
        self.initializer, self.arguments, self.from_array = initializer, arguments, from_array
        self.so = ort.SessionOptions()
        self.so.log_severity_level = 4
        self.so.graph_optimization_level = ort.GraphOptimizationLevel.ORT_DISABLE_ALL

    def op_for(self, name):
        if name in R.CONSTANT13:
            return self.op17
        if name in R.CONSTANT19:
            return self.op19
        if name in R.CONSTANT21:
            return self.op21
        return None

    def default_field(self, code: int) -> str:
        return self.onnx.helper.tensor_dtype_to_field(code)

    def ort_run(self, model):
        s = self.ort.InferenceSession(model.SerializeToString(), self.so, providers=["CPUExecutionProvider"])
        return dict(zip([o.name for o in s.get_outputs()], s.run(None, {})))


PATHS = ["const", "constant", "initializer", "argdefault", "const_list", "constant_of_shape"]
COS_TYPES = {"float16", "float32", "float64", "int8", "int16", "int32", "int64", "uint8", "uint16", "uint32", "uint64", "bool"}
ALIASES = {
    "int64": ["int64", "longlong", "q", ">i8", "<i8", "int_"], "uint64": ["uint64", "ulonglong", "Q", ">u8"],
    "int32": ["int32", "intc", "i", ">i4"], "uint32": ["uint32", "uintc", "I", ">u4"],
    "int16": ["int16", "short", "h", ">i2"], "uint16": ["uint16", "ushort", "H"], "int8": ["int8", "byte", "b"],
    "uint8": ["uint8", "ubyte", "B"], "float32": ["float32", "single", "f", ">f4"],
    "float64": ["float64", "double", "d", ">f8", "float"], "float16": ["float16", "half", "e", ">f2"],
    "complex64": ["complex64", "csingle", "F", ">c8"], "complex128": ["complex128", "cdouble", "D", "complex"],
    "bool": ["bool", "bool_", "?"], "str": ["str", "U", "str_"],
}


def paths_for(name: str, snap: dict):
    ps = ["initializer", "from_array"]
    if name in R.CONSTANT21:
        ps += ["const", "constant", "argdefault"]
    if name in ALIASES:
        ps.append("const_list")
    if name in COS_TYPES and snap["shape"] == [1]:
        ps += ["constant_of_shape"] * 3
    return ps


def mutate_array(rng, arr):
    """Caller-side in-place mutations of an array after the call; returns descriptions of what was done."""
    done = []
    if not arr.flags.writeable:
        try:
            arr.setflags(write=True)
            done.append("setflags(write=True)")
        except ValueError:
            return done
    for _ in range(rng.choice([1, 1, 2, 3])):
        k = rng.randrange(6)
        try:
            if arr.dtype.kind == "U":
                junk = "ZZ"
            else:
                junk = np.frombuffer(bytes(rng.getrandbits(8) for _ in range(max(arr.dtype.itemsize, 1))), dtype=arr.dtype.newbyteorder("=") if arr.dtype.kind in "iufc" else arr.dtype)[0]
            if k == 0 and arr.size:
                i = rng.randrange(arr.size)
                arr[np.unravel_index(i, arr.shape)] = junk
                done.append(f"write[{i}]")
            elif k == 1:
                arr.fill(junk)
                done.append("fill")
            elif k == 2 and arr.flags.owndata and arr.flags.c_contiguous:
                new = tuple(rng.choice([0, 1, 2, 3]) for _ in range(rng.choice([1, 2])))
                arr.resize(new, refcheck=False)
                done.append(f"resize{new}")
            elif k == 3 and arr.flags.c_contiguous and arr.size:
                arr.shape = (arr.size,)
                done.append("shape=(n,)")
            elif k == 4 and arr.dtype.itemsize > 1 and arr.dtype.kind in "iufc":
                arr.byteswap(inplace=True)
                done.append("byteswap")
            elif k == 5 and arr.size:
                arr[...] = junk
                done.append("assign")
        except (ValueError, TypeError, AttributeError):
            pass
    return done


# ================================================================================================ family T: tensors


def make_var(I: Impl, case: dict, arr, argname: str):
    name, path = case["snap"]["dtype"], case["path"]
    op = I.op_for(name) or I.op17
    if path == "const":
        return op.const(arr)
    if path == "constant":
        return op.constant(value=arr)
    if path == "initializer":
        return I.initializer(arr)
    if path == "argdefault":
        (v,) = I.arguments(**{argname: arr})
        return v
    if path == "const_list":
        return op.const(case["value_list"], dtype=case["alias"])
    if path == "constant_of_shape":
        return I.op17.constant_of_shape(I.op17.const(np.array([2], dtype=np.int64)), value=arr)
    raise ValueError(path)


def gen_tensor_case(rng, name: str, corpus=None) -> dict:
    if corpus is not None:
        return corpus
    snap = R.gen_snapshot(rng, name)
    if rng.random() < 0.12 and name in COS_TYPES:
        snap = R.gen_snapshot(rng, name, [1])
    path = rng.choice(paths_for(name, snap))
    case = {"snap": snap, "layout": rng.choice(R.LAYOUTS), "path": path, "mutate": rng.random() < 0.7,
            "mseed": rng.getrandbits(32)}
    if path == "const_list":
        case["alias"] = rng.choice(ALIASES[name])
    return case


def prepare_case(case: dict):
    """The caller's array, and for const(list, dtype) the list + the numpy oracle array; fills case['snap'] anew."""
    arr = R.array_from(case["snap"], case["layout"])
    if case["path"] == "const_list":
        alias = case["alias"]
        alias_dt = {"float": float, "complex": complex, "str": str, "bool": bool}.get(alias, None)
        dt = alias_dt if alias_dt is not None else (getattr(np, alias) if hasattr(np, alias) and not isinstance(getattr(np, alias), np.dtype) and alias not in ("i", "e", "f", "d", "b", "h", "q") else alias)
        case["alias_obj"] = dt
        case["value_list"] = arr.tolist()
        with warnings.catch_warnings():
            warnings.simplefilter("ignore")
            expected = np.array(case["value_list"], dtype=dt)
        case["expect"] = R.reflect_array(expected)
        return arr
    case["expect"] = R.reflect_array(arr)
    return arr


def norm_arr(a):
    """onnx and onnxruntime present string tensors as object arrays of str."""
    a = np.asarray(a)
    return a.astype(str) if a.dtype == object else a


def run_tensor_batch(I: Impl, cases: list[dict], use_ort: bool):
    """Runs a batch through one build; fills case['obs'] = observations or case['error']."""
    import random

    outs, ins, arrays = {}, {}, []
    for i, case in enumerate(cases):
        case["obs"] = {}
        if case["path"] == "from_array":     # the anchored helper itself, on the caller's array in its own memory layout
            arrays.append(None)
            try:
                arr = prepare_case(case)
                tp = I.from_array(arr, f"t{i}")
                case["obs"]["wire"] = R.parse_tensor(tp.SerializeToString())
                back = norm_arr(I.nh.to_array(tp))
                case["obs"]["decoded"] = R.reflect_array(back) if R.dtype_name(back.dtype) else {"dtype": str(back.dtype)}
                case["obs"]["direct"] = True
            except Exception as e:  # noqa: BLE001
                case["error"] = f"from_array raised {type(e).__name__}: {str(e)[:200]}"
            continue
        try:
            arr = prepare_case(case)
            if case["path"] == "const_list":
                c2 = dict(case)
                c2["alias"] = case["alias_obj"]
                with warnings.catch_warnings():
                    warnings.simplefilter("ignore")
                    v = make_var(I, c2, arr, f"a{i}")
            else:
                v = make_var(I, case, arr, f"a{i}")
        except Exception as e:  # noqa: BLE001
            case["error"] = f"call raised {type(e).__name__}: {str(e)[:200]}"
            arrays.append(None)
            continue
        arrays.append((arr, v))
        name = case["snap"]["dtype"]
        if case["path"] == "argdefault":
            ins[f"a{i}"] = v
            outs[f"y{i}"] = (I.op_for(name) or I.op17).identity(v)
        else:
            outs[f"y{i}"] = v
        if case.get("mutate") and case["path"] != "const_list":
            case["obs"]["mutations"] = mutate_array(random.Random(case["mseed"]), arr)
            case["obs"]["caller_after"] = R.reflect_array(arr) if R.dtype_name(arr.dtype) else None
    if not outs:
        return
    try:
        model = I.spox.build(ins, outs)
    except Exception as e:  # noqa: BLE001
        for case in cases:
            case.setdefault("error", f"build raised {type(e).__name__}: {str(e)[:300]}")
        return
    g = model.graph
    prod = {o: n for n in g.node for o in n.output}
    inits = {t.name: t for t in g.initializer}
    ort_out = None
    if use_ort:
        try:
            ort_out = I.ort_run(model)
        except Exception as e:  # noqa: BLE001
            for case in cases:
                case["obs"]["ort_error"] = f"{type(e).__name__}: {str(e)[:200]}"
    for i, case in enumerate(cases):
        if "error" in case or arrays[i] is None:
            continue
        arr, v = arrays[i]
        obs = case["obs"]
        nm = f"y{i}"
        while nm in prod and prod[nm].op_type == "Identity":
            nm = prod[nm].input[0]
        node = prod.get(nm)
        tp = inits.get(nm)
        if tp is None and node is not None and node.op_type in ("Constant", "ConstantOfShape"):
            (tp,) = [a.t for a in node.attribute if a.name == "value"]
        if tp is None:
            case["error"] = f"could not locate the embedded tensor for y{i} (producer {node.op_type if node else None})"
            continue
        obs["wire"] = R.parse_tensor(tp.SerializeToString())
        try:
            back = norm_arr(I.nh.to_array(tp))
            obs["decoded"] = R.reflect_array(back) if R.dtype_name(back.dtype) else {"dtype": str(back.dtype)}
            obs["decoded_np_dtype"] = str(back.dtype)
        except Exception as e:  # noqa: BLE001
            obs["decoded"] = None
            obs["decode_error"] = f"{type(e).__name__}: {str(e)[:200]}"
        try:
            t = v.unwrap_tensor()
            obs["var_type"] = {"dtype": R.dtype_name(t.dtype), "np_dtype": str(np.dtype(t.dtype)), "shape": list(t.shape),
                               "normalised": np.dtype(t.dtype) == R.np_dtype(R.dtype_name(t.dtype) or "float32")}
        except Exception as e:  # noqa: BLE001
            obs["var_type"] = {"error": f"{type(e).__name__}: {e}"}
        if case["path"] not in ("argdefault", "constant_of_shape"):
            try:
                val = v._get_value()
                obs["value"] = R.reflect_array(val.astype(str) if val.dtype == object else val)
            except Exception as e:  # noqa: BLE001
                obs["value"] = {"error": f"{type(e).__name__}: {e}"}
        if ort_out is not None and f"y{i}" in ort_out:
            o = ort_out[f"y{i}"]
            o = o.astype(str) if o.dtype == object else o
            obs["ort"] = R.reflect_array(o)


def tensor_oracle(case: dict):
    """Decides the property on the implementation's observations alone. Returns list of (what, detail)."""
    exp, obs, bad = case["expect"], case["obs"], []
    if obs.get("decoded") is None or not R.same_snapshot(obs["decoded"], exp):
        bad.append(("embedded", "to_array(TensorProto in the returned model) differs from the array at the call"))
    if obs.get("direct"):
        return bad
    vt = obs.get("var_type", {})
    if case["path"] == "constant_of_shape":
        if vt.get("dtype") != exp["dtype"]:
            bad.append(("type", f"Var.type {vt} for ConstantOfShape value of {exp['dtype']}"))
    elif vt.get("dtype") != exp["dtype"] or vt.get("shape") != exp["shape"] or not vt.get("normalised"):
        bad.append(("type", f"Var.type {vt} is not the array type {exp['dtype']}{exp['shape']}"))
    if "value" in obs and (not isinstance(obs["value"], dict) or "error" in obs["value"] or not R.same_snapshot(obs["value"], exp)):
        bad.append(("value", "Var._get_value() differs from the array at the call"))
    if "ort" in obs:
        o = obs["ort"]
        if case["path"] == "constant_of_shape":
            ok = o["dtype"] == exp["dtype"] and o["shape"] == [2] and o.get("words") == exp["words"] * 2
        else:
            ok = R.same_snapshot(o, exp)
        if not ok:
            bad.append(("ort", "onnxruntime output differs from the array at the call"))
    return bad


LOSSY_KEYS = {
    "float32": "C10/float32-signalling-nan-quieted",
    "complex64": "C10/complex64-signalling-nan-quieted",
    "float8_e5m2": "C10/float8e5m2-inf-nan-saturated",
    "float8_e8m0fnu": "C10/float8e8m0-zero-pattern-becomes-one",
}
LOSSY_WHAT = {
    "C10/float32-signalling-nan-quieted": "float32 signalling NaN embedded as quiet NaN (0x7f800001 -> 0x7fc00001): from_array hands a numpy float32 array to protobuf's float_data, which converts through C double",
    "C10/complex64-signalling-nan-quieted": "complex64 component that is a float32 signalling NaN is embedded as quiet NaN (same float_data path)",
    "C10/float8e5m2-inf-nan-saturated": "float8e5m2 +-inf embedded as +-max finite, NaN payloads canonicalised (make_tensor(raw=False) saturate-casts float8 values)",
    "C10/float8e8m0-zero-pattern-becomes-one": "float8e8m0 bit pattern 0x00 (2^-127) embedded as 0x01 (make_tensor(raw=False) re-rounds float8e8m0 through float32)",
}


def slim(case: dict) -> dict:
    keep = {k: case[k] for k in ("snap", "layout", "path", "mutate", "mseed", "alias") if k in case}
    return keep


def eval_tensor_cases(run: Run, I: Impl, cases, name="t", shard=120):
    exprs, idx = [], []
    for i, case in enumerate(cases):
        if "error" in case or "wire" not in case.get("obs", {}):
            continue
        pt = case["obs"]["wire"]
        term = R.proto_term(pt, I.default_field(pt["dtype"]) if pt["dtype"] in R.CODE2NAME else "float_data")
        if term is None:
            case["error"] = f"TensorProto has several data fields: {sorted(pt['fields'])}"
            continue
        exprs.append(f"chk {R.tensor_term(case['expect'])} {term}")
        idx.append(i)
    res = run.coq_eval(name, HEADER, exprs, shard=shard)
    for i, r in zip(idx, res):
        cases[i]["coq"] = parse_bools(r)


def judge_tensor_case(run: Run, I: Impl, case: dict, stats: dict):
    """Classify one evaluated case; returns True if fine."""
    dt = case["snap"]["dtype"]
    if "error" in case:
        run.fail("impl", f"C10/embedding-raises/{dt}/{case['path']}", "embedding an ONNX-representable array fails",
                 {"case": slim(case), "error": case["error"]})
        return False
    bad = tensor_oracle(case)
    wf, eq_fixed, eq_pinned, dec_exact, dec_canon = case.get("coq", [False] * 5)
    if not wf:
        run.fail("proof", "C10/harness-generated-ill-formed-tensor", "reflector produced an ill-formed tensor", slim(case))
        return False
    stats["matches_fixed"] += eq_fixed
    stats["matches_pinned"] += eq_pinned
    if bad:
        lossy = eq_pinned and dec_canon and not dec_exact and dt in LOSSY_KEYS
        embedded_only = all(w in ("embedded", "ort") for w, _ in bad)
        if lossy and embedded_only:
            key = LOSSY_KEYS[dt]
            small = shrink_tensor(I, case)
            run.fail("impl", key, LOSSY_WHAT[key], {"case": slim(small), "expected": small["expect"],
                     "embedded": small["obs"].get("decoded"), "wire": small["obs"].get("wire"), "violations": tensor_oracle(small)})
            stats["lossy_hits"][key] = stats["lossy_hits"].get(key, 0) + 1
        else:
            small = shrink_tensor(I, case)
            kinds = "+".join(sorted({w for w, _ in tensor_oracle(small)} or {w for w, _ in bad}))
            run.fail("impl", f"C10/embedding-mismatch/{dt}/{kinds}", "array not embedded exactly / not captured at the call",
                     {"case": slim(small), "expected": small["expect"], "observed": small["obs"], "violations": tensor_oracle(small) or bad,
                      "model": {"proto=encode": eq_fixed, "proto=encode_pinned": eq_pinned, "decode=array": dec_exact}})
        return False
    if not (eq_fixed or eq_pinned) or not dec_exact:
        run.fail("corr", f"C10/tensor-model-vs-impl/{dt}/{case['path']}", "model encode/decode and implementation disagree",
                 {"case": slim(case), "expected": case["expect"], "wire": case["obs"].get("wire"),
                  "model": {"proto=encode": eq_fixed, "proto=encode_pinned": eq_pinned, "decode=array": dec_exact}})
        return False
    return True


def shrink_tensor(I: Impl, case: dict) -> dict:
    """Smallest single-element variant that still violates the direct oracle (else the case itself)."""
    snap = case["snap"]
    if case["path"] == "const_list":
        return case
    elems = snap.get("words", snap.get("strs", []))
    if len(elems) <= 1 and case["layout"] == "c" and not case.get("mutate"):
        return case
    key = "words" if "words" in snap else "strs"
    cands = []
    for e in elems:
        for shape in ([1],) if case["path"] == "constant_of_shape" else ([], [1]):
            cands.append({"snap": {"dtype": snap["dtype"], "shape": shape, key: [e]}, "layout": "c", "path": case["path"],
                          "mutate": False, "mseed": 0})
    seen = set()
    for c in cands:
        k = repr(c["snap"])
        if k in seen:
            continue
        seen.add(k)
        run_tensor_batch(I, [c], use_ort=False)
        if "error" not in c and tensor_oracle(c):
            return c
    for c in ({**slim(case), "layout": "c"}, {**slim(case), "mutate": False}):
        c = copy.deepcopy(c)
        run_tensor_batch(I, [c], use_ort=False)
        if "error" not in c and tensor_oracle(c):
            return c
    return case


CORPUS_T = [
    {"snap": {"dtype": "float32", "shape": [1], "words": [0x7F800001]}, "layout": "c", "path": "const", "mutate": False, "mseed": 0},
    {"snap": {"dtype": "float32", "shape": [], "words": [0xFFC12345]}, "layout": "c", "path": "initializer", "mutate": True, "mseed": 1},
    {"snap": {"dtype": "uint64", "shape": [2], "words": [2**64 - 1, 2**63]}, "layout": "bigendian", "path": "const", "mutate": True, "mseed": 2},
    {"snap": {"dtype": "float64", "shape": [2, 2], "words": [0x7FF0000000000001, 0x8000000000000000, 1, 0xFFF8000000000001]}, "layout": "fortran", "path": "constant", "mutate": True, "mseed": 3},
    {"snap": {"dtype": "str", "shape": [3], "strs": [[0x1F40D], [], [0xE9, 0x61]]}, "layout": "strided", "path": "const", "mutate": True, "mseed": 4},
    {"snap": {"dtype": "float16", "shape": [2], "words": [0x7C01, 0xFE00]}, "layout": "c", "path": "argdefault", "mutate": True, "mseed": 5},
    {"snap": {"dtype": "complex64", "shape": [1], "words": [0x7F800001 | (0x80000000 << 32)]}, "layout": "c", "path": "const", "mutate": False, "mseed": 6},
    {"snap": {"dtype": "float8_e5m2", "shape": [2], "words": [0x7C, 0x7F]}, "layout": "c", "path": "initializer", "mutate": False, "mseed": 7},
    {"snap": {"dtype": "float8_e8m0fnu", "shape": [1], "words": [0]}, "layout": "c", "path": "initializer", "mutate": False, "mseed": 8},
    {"snap": {"dtype": "int4", "shape": [3], "words": [15, 8, 7]}, "layout": "c", "path": "initializer", "mutate": True, "mseed": 9},
    {"snap": {"dtype": "int64", "shape": [2, 3], "words": [1, 2, 3, 4, 5, 2**64 - 1]}, "layout": "transposed", "path": "const", "mutate": True, "mseed": 10},
    {"snap": {"dtype": "float32", "shape": [1], "words": [0x3DCCCCCD]}, "layout": "c", "path": "constant_of_shape", "mutate": True, "mseed": 11},
]


def family_tensors(run: Run, I: Impl, n: int, hist: dict):
    rng = run.rng
    cases = [copy.deepcopy(c) for c in CORPUS_T]
    names = list(R.ELEMS)
    while len(cases) < n:
        cases.append(gen_tensor_case(rng, names[len(cases) % len(names)] if rng.random() < 0.8 else rng.choice(["float32", "str", "uint64", "complex64", "float64"])))
    ort_cases = [c for c in cases if c["snap"]["dtype"] in R.ORT_OK]
    other = [c for c in cases if c["snap"]["dtype"] not in R.ORT_OK]
    for group, use_ort in ((ort_cases, True), (other, False)):
        for k in range(0, len(group), 10):
            run_tensor_batch(I, group[k:k + 10], use_ort)
    eval_tensor_cases(run, I, cases, "tensors")
    stats = {"matches_fixed": 0, "matches_pinned": 0, "lossy_hits": {}}
    good = 0
    for c in cases:
        good += judge_tensor_case(run, I, c, stats)
        s = c["snap"]
        hist["dtype"][s["dtype"]] = hist["dtype"].get(s["dtype"], 0) + 1
        hist["path"][c["path"]] = hist["path"].get(c["path"], 0) + 1
        hist["layout"][c["layout"]] = hist["layout"].get(c["layout"], 0) + 1
        nelem = len(s.get("words", s.get("strs", [])))
        b = "0-d" if s["shape"] == [] else ("zero-sized" if nelem == 0 else f"rank{len(s['shape'])}")
        hist["shape"][b] = hist["shape"].get(b, 0) + 1
        hist["mutated_after_call"] += bool(c.get("obs", {}).get("mutations"))
        hist["ort_checked"] += "ort" in c.get("obs", {})
    return cases, good, stats


# ================================================================================================ family X: exhaustive tables


def family_exhaustive(run: Run, I: Impl, thorough: bool):
    """Every bit pattern of the small element types (dense sample of the 16/32-bit ones) through from_array."""
    rng = run.rng
    cases = []
    for name, (_, width, _) in R.ELEMS.items():
        if name == "str":
            continue
        if name == "bool":
            words = [0, 1]
        elif width <= 8:
            words = list(range(1 << width))
        elif width == 16:
            words = list(range(1 << 16)) if thorough else sorted(set(R.special_words(name) + [rng.getrandbits(16) for _ in range(1200)] + list(range(0x7C00, 0x7C40)) + list(range(0x7F80, 0x7FC0))))
        else:
            words = R.special_words(name) + [rng.getrandbits(width) for _ in range(4000 if thorough else 600)]
            if name == "float32":   # NaN space densely
                words += [0x7F800000 | rng.getrandbits(23) | (rng.getrandbits(1) << 31) for _ in range(2000 if thorough else 700)]
            if name == "complex64":
                words += [(0x7F800000 | rng.getrandbits(23)) | ((0x7F800000 | rng.getrandbits(23)) << 32) for _ in range(500 if thorough else 200)]
        snap = {"dtype": name, "shape": [len(words)], "words": words}
        arr = R.array_from(snap)
        tp = I.from_array(arr)
        back = norm_arr(I.nh.to_array(tp))
        case = {"snap": snap, "expect": snap, "layout": "c", "path": "from_array", "obs": {
            "wire": R.parse_tensor(tp.SerializeToString()), "decoded": R.reflect_array(back)}}
        cases.append(case)
    eval_tensor_cases(run, I, cases, "exhaustive", shard=1)
    total = 0
    for c in cases:
        total += len(c["snap"]["words"])
        dt = c["snap"]["dtype"]
        wf, eq_fixed, eq_pinned, dec_exact, dec_canon = c.get("coq", [False] * 5)
        exact = R.same_snapshot(c["obs"]["decoded"], c["expect"])
        if not exact:
            words = c["snap"]["words"]
            diff = [(w, d) for w, d in zip(words, c["obs"]["decoded"].get("words", [])) if w != d]
            if eq_pinned and dec_canon and dt in LOSSY_KEYS:
                key = LOSSY_KEYS[dt]
                run.fail("impl", key, LOSSY_WHAT[key],
                         {"case": {"snap": {"dtype": dt, "shape": [1], "words": [diff[0][0]]}, "layout": "c", "path": "initializer", "mutate": False, "mseed": 0},
                          "examples": [(hex(a), hex(b)) for a, b in diff[:8]], "count": len(diff)})
            else:
                run.fail("impl", f"C10/from_array-not-exact/{dt}", "from_array -> to_array changes bit patterns",
                         {"case": {"snap": {"dtype": dt, "shape": [1], "words": [diff[0][0]] if diff else []}, "layout": "c", "path": "initializer", "mutate": False, "mseed": 0},
                          "examples": [(hex(a), hex(b)) for a, b in diff[:8]], "count": len(diff),
                          "model": {"proto=encode_pinned": eq_pinned, "decode=canon": dec_canon}})
        elif not ((eq_fixed or eq_pinned) and dec_exact):
            run.fail("corr", f"C10/packing-table/{dt}", "the model's packing table differs from make_tensor / to_array",
                     {"dtype": dt, "fields": sorted(c["obs"]["wire"]["fields"]), "model": {"proto=encode": eq_fixed, "proto=encode_pinned": eq_pinned, "decode=array": dec_exact}})
    return total


# ================================================================================================ family D: decode vs to_array


def family_decode(run: Run, I: Impl, n: int):
    """Model decode vs numpy_helper.to_array on TensorProtos NOT produced by spox (raw_data, odd typed fields)."""
    rng, onnx = run.rng, I.onnx
    exprs, metas = [], []
    for k in range(n):
        name = rng.choice([x for x in R.ELEMS])
        snap = R.gen_snapshot(rng, name, rng.choice([[], [1], [3], [2, 2], [0], [5]]))
        code = R.ELEMS[name][2]
        tp = onnx.TensorProto()
        tp.data_type = code
        mode = rng.choice(["raw", "typed_odd", "dims_wrong"]) if name != "str" else "dims_wrong"
        try:
            if mode == "raw":
                arr = R.array_from(snap)
                tp = onnx.helper.make_tensor("t", code, snap["shape"], arr.reshape(-1) if arr.ndim == 0 else arr, raw=True)
            else:
                tp = I.from_array(R.array_from(snap))
                if mode == "typed_odd":
                    fld = I.default_field(code)
                    cont = getattr(tp, fld)
                    if fld == "int32_data":
                        cont.extend([rng.choice([-1, 255, 256, 65535, 65536, -32768, 2**31 - 1, -2**31])])
                        tp.dims[:] = [len(cont)] if R.ELEMS[name][1] >= 8 else [len(cont) * (8 // R.ELEMS[name][1]) - rng.choice([0, 1])]
                    elif fld in ("float_data", "double_data") and "complex" in name:
                        cont.extend([1.5])
                    elif fld == "uint64_data":
                        cont.extend([2**64 - 1])
                        tp.dims[:] = [len(cont)]
                    elif fld == "int64_data":
                        cont.extend([-1])
                        tp.dims[:] = [len(cont)]
                else:
                    tp.dims[:] = [d + 1 for d in tp.dims] or [2]
        except Exception:  # noqa: BLE001
            continue
        try:
            back = norm_arr(I.nh.to_array(tp))
            real = R.reflect_array(back) if R.dtype_name(back.dtype) == name else None
            if real is not None and name in ("uint4", "int4", "float4_e2m1fn", "uint2", "int2") and list(back.shape) != list(tp.dims):
                real = None
        except Exception:  # noqa: BLE001
            real = None
        pt = R.parse_tensor(tp.SerializeToString())
        term = R.proto_term(pt, I.default_field(code))
        if term is None:
            continue
        exprs.append(f"chkD {term} {'(Some ' + R.tensor_term(real) + ')' if real else 'None'}")
        metas.append({"dtype": name, "mode": mode, "wire": pt, "to_array": real})
    res = run.coq_eval("decode", HEADER, exprs, shard=150)
    bad = 0
    for m, r in zip(metas, res):
        if r.strip() != "true":
            bad += 1
            run.fail("corr", f"C10/decode-model-vs-to_array/{m['dtype']}/{m['mode']}", "model decode differs from numpy_helper.to_array", m)
    return len(exprs), bad


# ================================================================================================ family A: attributes

DECLARED = {"AFloat32": 1, "AInt64": 2, "AString": 3, "ATensor": 4, "AType": 13, "ADtype": 2, "AGraph": 5,
            "AFloat32s": 6, "AInt64s": 7, "AStrings": 8, "ATensors": 9}
ERR = {"TypeError": "EType", "AttributeError": "EAttribute", "ValueError": "EValue"}


def pyval_term(I: Impl, v, kind: str):
    """Reflect a Python value as the constructor of class ``kind`` sees it. None = not representable."""
    from spox import Var
    from spox._graph import Graph
    from spox._type_system import Type

    if kind == "ADtype":
        try:
            with warnings.catch_warnings():
                warnings.simplefilter("ignore")
                dt = np.dtype(v) if v is not None else None
        except Exception:  # noqa: BLE001
            dt = None
        if dt is not None:
            if dt == np.dtype(object):
                return "(POther false)"
            n = R.dtype_name(np.dtype(dt.type)) if dt.kind != "V" else None
            return f"(PDtype {R.ELEMS[n][0]})" if n else "PDtypeBad"
    if kind == "ATensor" and not isinstance(v, (np.ndarray, np.generic)):
        return f"(POther {'true' if hasattr(v, 'copy') else 'false'})"
    if kind == "ATensor":
        if R.dtype_name(v.dtype) is None:
            return "(POther true)"
        return f"(PArr {R.tensor_term(R.reflect_array(v))})"
    if isinstance(v, (bool, np.bool_)):
        return f"(PBool {'true' if v else 'false'})"
    if isinstance(v, int):
        return f"(PInt {Z(v)})"
    if isinstance(v, (np.str_, str)):
        return f"(PText {lst(N(ord(c)) for c in v)})"
    if isinstance(v, (bytes, np.bytes_)):
        return f"(PBytes {lst(N(c) for c in bytes(v))})"
    if isinstance(v, np.integer):
        return f"(PNpInt {Z(int(v))})"
    if isinstance(v, (float, np.floating)):
        return f"(PFloat {N(R.f64_bits(float(v)))})"
    if v is None:
        return "PNone"
    if isinstance(v, (np.ndarray, np.generic)):
        if isinstance(v, np.generic) and kind != "ATensor":
            return "(POther true)"
        if R.dtype_name(v.dtype) is None:
            return None
        if kind in ("AFloat32s", "AInt64s", "AStrings", "ATensors") and np.asarray(v).ndim >= 1:
            items = [pyval_term(I, x, "item") for x in v]
            return None if any(x is None for x in items) else f"(PList {lst(items)})"
        return f"(PArr {R.tensor_term(R.reflect_array(v))})"
    if isinstance(v, Type):
        t = stype_term(v)
        return f"(PType {t})" if t else None
    if isinstance(v, Graph):
        return "(PGraph 0)"
    if isinstance(v, Var):
        return "(PVar 0)"
    if isinstance(v, (list, tuple, set, frozenset, dict, range)) or hasattr(v, "__next__"):
        items = [pyval_term(I, x, "item") for x in v]
        return None if any(x is None for x in items) else f"(PList {lst(items)})"
    return "(POther false)"


def stype_term(t):
    from spox import Optional as SOptional, Sequence as SSequence, Tensor

    if isinstance(t, Tensor):
        n = R.dtype_name(t.dtype)
        if n is None:
            return None
        if t.shape is None:
            shp = "None"
        else:
            dims = []
            for d in t.shape:
                if isinstance(d, int):
                    dims.append(f"DimN {N(d)}")
                elif isinstance(d, str):
                    dims.append(f"DimS {R.coq_string(d)}")
                else:
                    dims.append("DimU")
            shp = f"(Some {lst(dims)})"
        return f"(STensor {R.ELEMS[n][0]} {shp})"
    if isinstance(t, SSequence):
        x = stype_term(t.elem_type)
        return f"(SSeq {x})" if x else None
    if isinstance(t, SOptional):
        x = stype_term(t.elem_type)
        return f"(SOpt {x})" if x else None
    return None


def typeproto_term(tp):
    if tp.HasField("tensor_type"):
        tt = tp.tensor_type
        n = R.CODE2NAME.get(tt.elem_type)
        if n is None:
            return None
        if not tt.HasField("shape"):
            shp = "None"
        else:
            dims = []
            for d in tt.shape.dim:
                if d.HasField("dim_value"):
                    dims.append(f"DimN {N(d.dim_value)}")
                elif d.HasField("dim_param"):
                    dims.append(f"DimS {R.coq_string(d.dim_param)}")
                else:
                    dims.append("DimU")
            shp = f"(Some {lst(dims)})"
        return f"(STensor {R.ELEMS[n][0]} {shp})"
    if tp.HasField("sequence_type"):
        x = typeproto_term(tp.sequence_type.elem_type)
        return f"(SSeq {x})" if x else None
    if tp.HasField("optional_type"):
        x = typeproto_term(tp.optional_type.elem_type)
        return f"(SOpt {x})" if x else None
    return None


def attr_term(I: Impl, proto, name_expected: str):
    """Gallina `Ok (mkA ...)` of a real AttributeProto (read off the wire), or None if not expressible."""
    pa = R.parse_attr(proto.SerializeToString())
    ty = R.ATYPE.get(pa["type"])
    if ty is None or not all(32 <= ord(c) < 127 for c in pa["name"]):
        return None, pa
    t = pa["type"]
    if t == 1:
        val = f"VF {N(pa.get('f', 0))}"
    elif t == 2:
        val = f"VI {Z(pa.get('i', 0))}"
    elif t == 3:
        val = f"VS {lst(N(c) for c in pa.get('s', []))}"
    elif t == 4:
        pt = R.parse_tensor(pa.get("t", b""))
        term = R.proto_term(pt, I.default_field(pt["dtype"]) if pt["dtype"] in R.CODE2NAME else "float_data")
        if term is None:
            return None, pa
        val = f"VT {term}"
    elif t == 5:
        val = "VG 0"
    elif t == 13:
        x = typeproto_term(proto.tp)
        if x is None:
            return None, pa
        val = f"VTP {x}"
    elif t == 6:
        val = f"VFs {lst(N(x) for x in pa['floats'])}"
    elif t == 7:
        val = f"VIs {lst(Z(x) for x in pa['ints'])}"
    elif t == 8:
        val = f"VSs {lst(lst(N(c) for c in s) for s in pa['strings'])}"
    elif t == 9:
        ts = []
        for b in pa["tensors"]:
            pt = R.parse_tensor(b)
            ts.append(R.proto_term(pt, I.default_field(pt["dtype"])))
        val = f"VTs {lst(ts)}"
    else:
        return None, pa
    return f"(Ok (mkA {R.coq_string(pa['name'])} {ty} ({val})))", pa


def value_pool(rng, I: Impl):
    """Factories of values (called afresh for every use: generators are one-shot) with a class label."""
    from spox import Optional as SOptional, Sequence as SSequence, Tensor

    f = R.f64_from_bits
    ints = [0, 1, -1, 5, 2**31, 2**63 - 1, -2**63, 2**63, -2**63 - 1, 2**64, 16777217, 2**53 + 1, 2**60 + 2**36 + 1,
            2**127 + 2**103, 2**128, -(2**128), 2**1024 - 2**970, 2**1023, 10**400, rng.getrandbits(70) - 2**69, rng.getrandbits(40)]
    b32 = rng.getrandbits(31)
    mid = (R.f64_bits(float(np.array(b32, dtype=np.uint32).view(np.float32))) + (1 << 28)) if (b32 >> 23) & 0xFF not in (0, 255) else 0x3FF0000010000000
    floats = [0.0, -0.0, 0.1, 1.5, 1e39, -1e39, 3.4028235677973366e38, 3.4028234663852886e38, 3.40282356779733e38, 1e-46,
              2.0**-149, 2.0**-150, f(0x3690000000000001), 2.0**-126, f(0x380FFFFFFFFFFFFF), 5e-324, float("nan"), float("inf"), float("-inf"),
              f(0x7FF0000000000001), f(0xFFF8000012345678), f(0x7FF4000020000000), f(mid), f(mid + 1), f(mid - 1),
              f(rng.getrandbits(64)), f(rng.getrandbits(64)), f(0x3FF0000010000000), f(0x3FF0000030000000)]
    strs = ["", "a", "axis", "é", "🐍", "日本語", "a\x00b", "\U0010ffff", "float32", rng.choice(R.STR_POOL)]
    pool = []
    pool += [("int", (lambda x=x: x)) for x in ints]
    pool += [("bool", lambda: True), ("bool", lambda: False)]
    pool += [("float", (lambda x=x: x)) for x in floats]
    pool += [("npint", (lambda x=x: x)) for x in (np.int64(3), np.int8(-5), np.uint64(2**64 - 1), np.uint8(255), np.int32(-2**31))]
    pool += [("npfloat", (lambda x=x: x)) for x in (np.float32(0.1), np.float16(65504), np.float64(1e300), np.float32("nan"), np.float32(-0.0))]
    pool += [("str", (lambda x=x: x)) for x in strs]
    pool += [("bytes", (lambda x=x: x)) for x in (b"", b"ab", b"\xff\xfe", "é".encode())]
    pool += [("none", lambda: None), ("complex", lambda: 1j), ("object", lambda: object()), ("surrogate", lambda: "\ud800")]
    arrs = [np.array([1, 2]), np.array(3.0), np.array([[1.5, 2.5]], dtype=np.float32), np.array(["a", "é"]), np.array([True, False]),
            np.array([2**64 - 1], dtype=np.uint64), np.array([], dtype=np.float32), np.float32(1.5), np.int64(7),
            np.array([0x7F800001], dtype=np.uint32).view(np.float32), np.array(["2020-01-01"], dtype="datetime64[D]"),
            np.array([1.5, 2.5]), np.array([1, 2], dtype=np.int8), np.array([[1], [2]]), np.array(5)]
    pool += [("array", (lambda x=x: x.copy() if isinstance(x, np.ndarray) else x)) for x in arrs]
    lists = [[], [1, 2], [1.0, 2.5], [1, 2.5], ["a", "é"], [True, False], [1, True], [b"a", "b"], [1, "a"], [2**63], [-2**63, 2**63 - 1],
             [2**64], [10**400], [0.1, float("nan"), -0.0, 1e39, 2.0**-150], [np.int64(1), np.int32(2)], [np.float32(0.1), 2],
             [None], [[1, 2]], [np.float64(0.5)], [16777217, 2**60 + 2**36 + 1], ["", "🐍", "a\x00"], [np.uint64(2**64 - 1)], [1.0], [f(mid), f(mid + 1)]]
    pool += [("list", (lambda x=x: list(x))) for x in lists]
    pool += [("tuple", (lambda x=x: tuple(x))) for x in lists[:8]]
    pool += [("generator", (lambda x=x: (y for y in x))) for x in lists[:6]]
    pool += [("range", lambda: range(3)), ("set", lambda: {1}), ("dict", lambda: {1: 2}), ("dict", lambda: {"a": 1})]
    types = [Tensor(np.float32, (1, None, "x")), Tensor(np.int64), Tensor(str, ()), SSequence(Tensor(np.float64, (2,))),
             SOptional(Tensor(np.bool_, ("N",))), SOptional(SSequence(Tensor(np.uint8, None)))]
    pool += [("type", (lambda x=x: x)) for x in types]
    dts = [np.float32, np.dtype(">i4"), "float32", str, float, int, bool, np.longlong, "uint16", np.dtype("U3"), np.complex128,
           np.datetime64, np.dtype("V4"), np.bytes_, np.longdouble, object, "abc", np.timedelta64, np.float16, np.dtype("S2")]
    pool += [("dtype", (lambda x=x: x)) for x in dts]
    return pool


def family_attrs(run: Run, I: Impl, n: int, hist: dict):
    rng = run.rng
    A = I.A
    classes = {"AFloat32": A.AttrFloat32, "AInt64": A.AttrInt64, "AString": A.AttrString, "ATensor": A.AttrTensor,
               "AType": A.AttrType, "ADtype": A.AttrDtype, "AGraph": A.AttrGraph, "AFloat32s": A.AttrFloat32s,
               "AInt64s": A.AttrInt64s, "AStrings": A.AttrStrings, "ATensors": A.AttrTensors}
    x = I.spox.argument(I.spox.Tensor(np.float32, (2,)))
    graph = None
    try:
        from spox._graph import results
        graph = results(y=I.op17.abs(x)).with_arguments(x)
    except Exception:  # noqa: BLE001
        pass
    pool = value_pool(rng, I)
    if graph is not None:
        pool.append(("graph", lambda: graph))
    pool.append(("var", lambda: x))
    combos = [(k, lab, fac) for k in classes for lab, fac in pool]
    if len(combos) > n:
        # always the whole cross product of kinds x value classes at least once, then a random remainder
        first, seen = [], set()
        rest = []
        for c in combos:
            if (c[0], c[1]) not in seen:
                seen.add((c[0], c[1]))
                first.append(c)
            else:
                rest.append(c)
        rng.shuffle(rest)
        combos = first + rest[: max(0, n - len(first))]
    names = ["value", "axis", "to", "alpha", "perm", "x_y1", "keepdims"]
    exprs, metas = [], []
    for kind, label, fac in combos:
        name = rng.choice(names)
        try:
            vterm = pyval_term(I, fac(), kind)
        except Exception:  # noqa: BLE001
            vterm = None
        meta = {"kind": kind, "class": label, "name": name, "value": repr(fac())[:120]}
        exc = None
        proto = None
        with warnings.catch_warnings():
            warnings.simplefilter("ignore")
            try:
                attr = classes[kind](fac(), name)
                proto = None if kind == "AGraph" else attr._to_onnx()
            except Exception as e:  # noqa: BLE001
                exc = e
        hist["attr_outcome"][(type(exc).__name__ if exc else "ok")] = hist["attr_outcome"].get((type(exc).__name__ if exc else "ok"), 0) + 1
        hist["attr_kind"][kind] = hist["attr_kind"].get(kind, 0) + 1
        # ---- direct oracle: exception class
        if exc is not None and not isinstance(exc, TypeError):
            key = {("ATensor", "AttributeError"): "C10/AttrTensor-non-array-raises-AttributeError",
                   ("ADtype", "ValueError"): "C10/AttrDtype-non-onnx-dtype-raises-ValueError"}.get(
                (kind, type(exc).__name__), f"C10/attr-wrong-exception/{kind}/{type(exc).__name__}")
            if label == "surrogate" and kind == "ADtype":
                key = "C10/AttrDtype-surrogate-string-raises-UnicodeEncodeError"
            meta["exception"] = f"{type(exc).__name__}: {str(exc)[:150]}"
            run.fail("impl", key, f"{classes[kind].__name__}(<{label}>) raises {type(exc).__name__} instead of TypeError at the call", dict(meta))
        if exc is None and kind != "AGraph":
            bad = attr_value_oracle(I, kind, name, fac(), proto)
            if bad:
                meta["violations"] = bad
                run.fail("impl", f"C10/attr-value/{kind}/{label}", "emitted attribute differs from the value given", dict(meta))
        # ---- model
        if vterm is None or (label == "surrogate" and kind == "ADtype"):
            hist["attr_unrepresentable"] += 1
            continue
        if exc is not None:
            e = ERR.get(type(exc).__name__) or ("EValue" if isinstance(exc, ValueError) else None)
            if e is None:
                continue
            real = f"(Err {e})"
        elif kind == "AGraph":
            real = f"(Ok (mkA {R.coq_string(name)} TGRAPH (VG 0)))"
        else:
            real, pa = attr_term(I, proto, name)
            if real is None:
                hist["attr_unrepresentable"] += 1
                continue
        exprs.append(f"chkA {kind} {R.coq_string(name)} {vterm} {real}")
        meta["real"] = real[:300]
        meta["model_value"] = vterm[:300]
        metas.append(meta)
    res = run.coq_eval("attrs", HEADER, exprs, shard=150)
    ok = unmodelled = 0
    for m, r in zip(metas, res):
        eq_fixed, eq_pinned, modelled, kind_ok = parse_bools(r)
        hist["attr_kind_ok"][str(kind_ok)] = hist["attr_kind_ok"].get(str(kind_ok), 0) + 1
        if not modelled:
            unmodelled += 1
            continue
        if eq_fixed:
            ok += 1
            continue
        if eq_pinned:
            if m["kind"] == "ATensors":
                run.fail("impl", "C10/AttrTensors-rejects-arrays",
                         "AttrTensors cannot hold arrays: the ndarrays are handed to protobuf unconverted, so every non-empty value raises TypeError", m)
            elif m["kind"] == "ATensor" and "Ok" in m["real"]:
                pass  # lossy tensor inside an attribute: reported by family T under its own key
            ok += 1
            continue
        run.fail("corr", f"C10/attr-model-vs-impl/{m['kind']}/{m['class']}", "make_attr and the implementation disagree", m)
    return len(exprs), ok, unmodelled


def attr_value_oracle(I: Impl, kind: str, name: str, v, proto):
    """Exactness of an emitted AttributeProto against numpy / Python (no model)."""
    bad = []
    pa = R.parse_attr(proto.SerializeToString())
    if pa["name"] != name:
        bad.append(f"name {pa['name']!r} != {name!r}")
    if pa["type"] != DECLARED[kind]:
        bad.append(f"type {pa['type']} != declared {DECLARED[kind]}")
        return bad
    with warnings.catch_warnings():
        warnings.simplefilter("ignore")
        try:
            if kind == "AFloat32" and pa.get("f", 0) != R.f32_bits(np.float32(float(v))):
                bad.append(f"f bits {pa.get('f', 0):#x} != float32({v!r}) bits {R.f32_bits(np.float32(float(v))):#x}")
            if kind == "AInt64" and pa.get("i", 0) != int(v):
                bad.append(f"i {pa.get('i')} != {int(v)}")
            if kind == "AString" and bytes(pa.get("s", [])) != (v.encode("utf8") if isinstance(v, str) else bytes(v)):
                bad.append("s is not the UTF-8 encoding of the value")
            if kind == "AFloat32s":
                exp = [R.f32_bits(np.float32(float(y))) for y in v]
                if pa["floats"] != exp:
                    bad.append(f"floats bits {pa['floats'][:4]} != {exp[:4]}")
            if kind == "AInt64s" and pa["ints"] != [int(y) for y in v]:
                bad.append("ints differ")
            if kind == "AStrings" and [bytes(s) for s in pa["strings"]] != [(y.encode("utf8") if isinstance(y, str) else bytes(y)) for y in v]:
                bad.append("strings differ")
            if kind == "ATensor":
                back = norm_arr(I.nh.to_array(proto.t))
                a, b = R.reflect_array(back), R.reflect_array(np.asarray(v))
                if not R.same_snapshot(a, b) and not (b["dtype"] in LOSSY_KEYS):
                    bad.append("tensor differs")
            if kind == "ADtype":
                n = R.dtype_name(np.dtype(np.dtype(v).type))
                if n is None or pa.get("i") != R.ELEMS[n][2]:
                    bad.append(f"dtype code {pa.get('i')} for {v!r}")
            if kind == "AType":
                from spox._type_system import Type
                if Type._from_onnx(proto.tp) != v:
                    bad.append("type proto does not round-trip to the given type")
        except Exception as e:  # noqa: BLE001
            bad.append(f"oracle could not evaluate: {type(e).__name__}: {e}")
    return bad


def family_rounding(run: Run, I: Impl, n: int):
    """FLOAT / FLOATS: the binary32 the implementation emits for random adversarial doubles and ints vs f64_to_f32 / z_to_f64."""
    rng = run.rng
    f = R.f64_from_bits
    vals = []
    for _ in range(n):
        r = rng.random()
        if r < 0.25:      # around a binary32 rounding tie
            b32 = rng.getrandbits(31)
            if (b32 >> 23) & 0xFF in (0, 255):
                b32 = 0x3F800000 | (b32 & 0x7FFFFF)
            d = R.f64_bits(float(np.array(b32, dtype=np.uint32).view(np.float32))) + (1 << 28) + rng.choice([-1, 0, 0, 1, 2])
            vals.append(f(d | (rng.getrandbits(1) << 63)))
        elif r < 0.40:    # binary32 denormal range and below
            e = rng.randrange(1023 - 155, 1023 - 120)
            vals.append(f((rng.getrandbits(1) << 63) | (e << 52) | (rng.getrandbits(52) if rng.random() < 0.7 else rng.choice([0, 1, 1 << 51, (1 << 51) + 1, (1 << 52) - 1]))))
        elif r < 0.50:    # overflow boundary
            vals.append(f((rng.getrandbits(1) << 63) | (0x47E << 52) | (0xFFFFFE0000000 + rng.randrange(-3, 0x20000000) & ((1 << 52) - 1))))
        elif r < 0.60:    # NaNs with payloads, infinities
            vals.append(f((rng.getrandbits(1) << 63) | (0x7FF << 52) | (rng.getrandbits(52) if rng.random() < 0.9 else 0)))
        elif r < 0.80:
            vals.append(f(rng.getrandbits(64)))
        else:             # Python ints: double rounding int -> binary64 -> binary32
            k = rng.choice([24, 25, 53, 54, 60, 64, 100, 127, 128, 129, 200, 1023, 1024])
            vals.append((rng.getrandbits(k) | (1 << (k - 1))) * rng.choice([1, -1]) + rng.choice([0, 1, -1]))
    exprs, metas = [], []
    A = I.A
    for k in range(0, len(vals), 40):
        chunk = vals[k:k + 40]
        with warnings.catch_warnings():
            warnings.simplefilter("ignore")
            try:
                proto = A.AttrFloat32s(list(chunk), "v")._to_onnx()
                real, _ = attr_term(I, proto, "v")
                # direct oracle: numpy's float32 of Python's float(v)
                exp = [R.f32_bits(np.float32(float(y))) for y in chunk]
                got = R.parse_attr(proto.SerializeToString())["floats"]
                if got != exp:
                    j = [i for i, (a, b) in enumerate(zip(got, exp)) if a != b][0]
                    run.fail("impl", "C10/attr-value/AFloat32s/rounding", "FLOATS value is not the binary32 rounding of the value given",
                             {"value": repr(chunk[j]), "emitted_bits": hex(got[j]), "numpy_float32_bits": hex(exp[j])})
            except TypeError:
                real = "(Err EType)"
        exprs.append(f"chkA AFloat32s {R.coq_string('v')} {pyval_term(I, list(chunk), 'AFloat32s')} {real}")
        metas.append([repr(c) for c in chunk])
        v = chunk[0]
        with warnings.catch_warnings():
            warnings.simplefilter("ignore")
            try:
                real1, _ = attr_term(I, A.AttrFloat32(v, "a")._to_onnx(), "a")
            except TypeError:
                real1 = "(Err EType)"
        exprs.append(f"chkA AFloat32 {R.coq_string('a')} {pyval_term(I, v, 'AFloat32')} {real1}")
        metas.append([repr(v)])
    res = run.coq_eval("rounding", HEADER, exprs, shard=6)
    bad = 0
    for m, r in zip(metas, res):
        b = parse_bools(r)
        if not b[0]:
            bad += 1
            run.fail("corr", "C10/rounding-model-vs-impl", "f64_to_f32 / z_to_f64 disagree with the emitted FLOAT(S) bits", {"values": m[:40]})
    return len(vals), bad


def family_constant_kw(run: Run, I: Impl, hist: dict):
    """constant(value_float= / value_int= / value_string= / value_floats= / value_ints= / value_strings=) through the
    public constructor + build: attribute in the returned model, Var.type, Var._get_value() vs constant_of."""
    rng = run.rng
    op = I.op17
    f = R.f64_from_bits
    table = {
        # (equal-but-different values next to each other: 0.0 / -0.0, 1 / 1.0 / True - an attribute is what was given NOW)
        "value_float": ("AFloat32", [0.0, -0.0, 0.0, 1, 1.0, True, 0.1, -0.0, 1e39, 2.0**-150, f(0x3690000000000001), float("nan"), f(0xFFF8000012345678), 5, True, 16777217,
                                     2**60 + 2**36 + 1, 10**400, np.float32(0.1), "a", [1.0], np.int64(3), f(rng.getrandbits(64))]),
        "value_int": ("AInt64", [1, True, 1, 0, False, 0, -1, 2**63 - 1, -2**63, 2**63, True, np.int64(-7), np.uint64(2**64 - 1), 1.0, "1", [1]]),
        "value_string": ("AString", ["", "a", "🐍é", "a\x00b", 5, ["a"], "\ud800"]),
        "value_floats": ("AFloat32s", [[0.0], [-0.0], [0.0], [], [0.1, -0.0], [1, 2.5, True], [float("nan"), 1e39, 2.0**-149], (1.0, 2.0), [2**60 + 2**36 + 1], ["a"], 1.0, "ab", [10**400],
                                       [f(rng.getrandbits(64)) for _ in range(4)]]),
        "value_ints": ("AInt64s", [[], [1, -2], [2**63 - 1, -2**63], [2**63], [1.0], [True], (3, 4), 5, range(3), [np.int64(5)]]),
        "value_strings": ("AStrings", [[], ["a", "🐍"], ["", "é"], "ab", [1], ["a", b"b"]]),
    }
    exprs, metas = [], []
    for kw, (kind, values) in table.items():
        for v in values:
            meta = {"kw": kw, "value": repr(v)[:100]}
            vterm = pyval_term(I, v, kind)
            if kw == "value_strings" and isinstance(v, list) and any(isinstance(y, bytes) for y in v):
                continue  # numpy cannot make a str_ array of bytes: propagation is outside the model
            exc = None
            with warnings.catch_warnings():
                warnings.simplefilter("ignore")
                try:
                    var = op.constant(**{kw: v})
                    model = I.spox.build({}, {"y": var})
                except Exception as e:  # noqa: BLE001
                    exc = e
            hist["constant_kw"][kw] = hist["constant_kw"].get(kw, 0) + 1
            if exc is not None:
                if not isinstance(exc, TypeError):
                    run.fail("impl", f"C10/constant-{kw}-wrong-exception/{type(exc).__name__}",
                             f"constant({kw}=<wrong kind>) raises {type(exc).__name__} instead of TypeError", {**meta, "exception": str(exc)[:200]})
                    continue
                real, rt, rv = "(Err EType)", "None", "None"
            else:
                (node,) = [nd for nd in model.graph.node if nd.op_type == "Constant"]
                (a,) = node.attribute
                real, _ = attr_term(I, a, kw)
                t = var.unwrap_tensor()
                val = var._get_value()
                val = val.astype(str) if val.dtype == object else val
                snap = R.reflect_array(val)
                rt = f"(Some ({R.ELEMS[R.dtype_name(t.dtype)][0]}, {lst(N(d) for d in t.shape)}))"
                rv = f"(Some {R.tensor_term(snap)})"
                # direct oracle: onnxruntime's value of the node == propagated value
                try:
                    o = I.ort_run(model)["y"]
                    o = o.astype(str) if o.dtype == object else o
                    if not R.same_snapshot(R.reflect_array(o), snap):
                        run.fail("impl", f"C10/constant-{kw}-propagated-differs-from-runtime", "propagated value of Constant differs from the runtime value",
                                 {**meta, "ort": R.reflect_array(o), "propagated": snap})
                except Exception:  # noqa: BLE001
                    pass
            if vterm is None or real is None:
                continue
            exprs.append(f"chkC {kind} {R.coq_string(kw)} {vterm} {real} {rt} {rv}")
            metas.append({**meta, "real": real[:200], "type": rt, "value_term": rv[:200]})
    res = run.coq_eval("constkw", HEADER, exprs, shard=100)
    bad = 0
    for m, r in zip(metas, res):
        b = parse_bools(r)
        if not all(b):
            bad += 1
            run.fail("corr", f"C10/constant_of-model-vs-impl/{m['kw']}", "constant_of (attr, Var type, propagated value) disagrees with the implementation",
                     {**m, "attr/type/value agree": b})
    return len(exprs), bad


# ================================================================================================ family S: Python scalars through const()
def family_const_scalars(run: Run, I: Impl, hist: dict):
    """const(<Python scalar>[, dtype]) of every shipped ai.onnx module, as ONE history per module in this process: values that are
    EQUAL as Python objects but are different constants follow each other (0.0 / -0.0, 1 / 1.0 / True, 0 / False / 0.0, "" / "a").
    Every call is judged on its own: the embedded tensor, Var.type and the propagated value are numpy's np.array(value, dtype), bit
    for bit (sign of zero, element type), whatever was requested earlier.  Direct oracle (no model involved)."""
    import importlib
    from onnx import numpy_helper
    n = bad = 0
    seq = [0.0, -0.0, 0.0, 1, 1.0, True, 0, False, 0.0, -0.0, 2.5, -0.0, "a", "", "a", 1, True, 1.0, float("inf"), -0.0, 0.0]
    dtypes = [None, np.float32, np.float64, np.float16, None]
    for ver in (17, 18, 19, 20, 21):
        op = importlib.import_module(f"spox.opset.ai.onnx.v{ver}")
        for dt in dtypes:
            for v in seq:
                if isinstance(v, str) and dt is not None:
                    continue
                ref = np.array(v, dt)
                want = R.reflect_array(ref.astype(str) if ref.dtype.kind in "US" else ref)
                n += 1
                hist["const_scalar"][type(v).__name__] = hist["const_scalar"].get(type(v).__name__, 0) + 1
                problems = []
                try:
                    with warnings.catch_warnings():
                        warnings.simplefilter("ignore")
                        var = op.const(v) if dt is None else op.const(v, dt)
                        model = I.spox.build({}, {"y": var})
                        val = var._get_value()
                        t = var.unwrap_tensor()
                except Exception as e:  # noqa: BLE001
                    problems = [("the call / build (it raised)", f"{type(e).__name__}: {str(e)[:200]}")]
                if not problems:
                    (node,) = [nd for nd in model.graph.node if nd.op_type == "Constant"]
                    emb = numpy_helper.to_array(node.attribute[0].t)
                    emb = emb.astype(str) if emb.dtype == object else emb
                    val = val.astype(str) if val.dtype == object else val
                    if not R.same_snapshot(R.reflect_array(emb), want):
                        problems.append(("embedded tensor", R.reflect_array(emb)))
                    if not R.same_snapshot(R.reflect_array(val), want):
                        problems.append(("propagated value", R.reflect_array(val)))
                    if R.dtype_name(t.dtype) != want["dtype"] or list(t.shape) != want["shape"]:
                        problems.append(("Var.type", str(t)))
                if problems:
                    bad += 1
                    run.fail("impl", f"C10/const-scalar-not-embedded-exactly/{type(v).__name__}",
                             f"v{ver}.const({v!r}{'' if dt is None else ', ' + np.dtype(dt).name}) in a sequence of equal-but-different scalars: "
                             f"{problems[0][0]} is not numpy's array of the value given at THIS call",
                             {"module": f"v{ver}", "value": repr(v), "dtype": None if dt is None else np.dtype(dt).name, "expected": want,
                              "problems": [(k, str(x)[:300]) for k, x in problems], "sequence": [repr(x) for x in seq]})
    return n, bad


# ================================================================================================ family H: histories


def obj_term(I: Impl, ob, varids):
    if isinstance(ob, np.ndarray):
        n = R.dtype_name(ob.dtype)
        if n is None:
            return None
        return f"(OArr {R.tensor_term(R.reflect_array(ob))})"
    items = [item_term(I, x, varids) for x in ob]
    return None if any(i is None for i in items) else f"(OList {lst(items)})"


def item_term(I: Impl, x, varids):
    from spox import Var

    if isinstance(x, Var):
        return f"(PVar {N(varids[id(x)])})" if id(x) in varids else None
    return pyval_term(I, x, "item")


def val_term(I: Impl, v, varids):
    """pyval of an observed live value (tuple -> PList, ndarray -> PArr)."""
    if isinstance(v, np.ndarray):
        return f"(PArr {R.tensor_term(R.reflect_array(v))})"
    if isinstance(v, (tuple, list)):
        items = [item_term(I, x, varids) for x in v]
        return None if any(i is None for i in items) else f"(PList {lst(items)})"
    return item_term(I, v, varids)


def gen_history(rng, I: Impl):
    """One operator call on caller-owned objects + a mutation history. Returns a plain-data description."""
    kind = rng.choice(["tensor", "tensor", "ints", "floats", "strings", "perm", "variadic", "variadic", "tensor+variadic"])
    h = {"kind": kind, "seed": rng.getrandbits(32), "nmut": rng.choice([1, 2, 3, 4, 6, 8])}
    if "tensor" in kind:
        name = rng.choice(sorted(R.CONSTANT13))
        h["snap"] = R.gen_snapshot(rng, name)
        h["layout"] = rng.choice(R.LAYOUTS)
        h["path"] = rng.choice(["const", "constant", "initializer"])
    return h


def run_history(I: Impl, h: dict):
    """Executes the history on the implementation. Returns observations + the Gallina terms of the model run."""
    import random

    rng = random.Random(h["seed"])
    op, spox = I.op17, I.spox
    args = [spox.argument(spox.Tensor(np.float32, (2, 3))) for _ in range(4)]
    argnames = [f"in{i}" for i in range(4)]
    varids = {id(a): i + 1 for i, a in enumerate(args)}
    objs = {}          # model oid -> caller object
    kind = h["kind"]
    attrs_spec = []    # (akind, name, oid)
    inputs_oid = None
    if "tensor" in kind:
        arr = R.array_from(h["snap"], h["layout"])
        objs[1] = arr
    if kind == "ints":
        objs[1] = [rng.choice([0, 1, -1, 2**63 - 1, -2**63, 7]) for _ in range(rng.randrange(0, 5))]
    if kind == "floats":
        objs[1] = [rng.choice([0.1, -0.0, 1e39, 2.0**-150, 1.5, 3, True]) for _ in range(rng.randrange(0, 5))]
    if kind == "strings":
        objs[1] = [rng.choice(["", "a", "é", "🐍"]) for _ in range(rng.randrange(0, 4))]
    if kind == "perm":
        objs[1] = rng.choice([[1, 0], [0, 1]])
    if "variadic" in kind:
        oid = 2 if "tensor" in kind else 1
        objs[oid] = [rng.choice(args) for _ in range(rng.randrange(1, 4))]
        inputs_oid = oid
    st_objs = {o: copy.copy(v) if isinstance(v, list) else v.copy() for o, v in objs.items()}
    st_terms = {o: obj_term(I, v, varids) for o, v in objs.items()}
    if any(t is None for t in st_terms.values()):
        return None
    snap_before = {o: (R.reflect_array(v) if isinstance(v, np.ndarray) else list(v)) for o, v in objs.items()}
    # ---- the call
    outs = {}
    tvar = None
    with warnings.catch_warnings():
        warnings.simplefilter("ignore")
        if "tensor" in kind:
            tvar = {"const": op.const, "constant": lambda a: op.constant(value=a), "initializer": I.initializer}[h["path"]](objs[1])
            attrs_spec.append(("ATensor", "value", 1))
            outs["t"] = tvar
        if kind == "ints":
            outs["t"] = tvar = op.constant(value_ints=objs[1])
            attrs_spec.append(("AInt64s", "value_ints", 1))
        if kind == "floats":
            outs["t"] = tvar = op.constant(value_floats=objs[1])
            attrs_spec.append(("AFloat32s", "value_floats", 1))
        if kind == "strings":
            outs["t"] = tvar = op.constant(value_strings=objs[1])
            attrs_spec.append(("AStrings", "value_strings", 1))
        if kind == "perm":
            outs["t"] = tvar = op.transpose(args[0], perm=objs[1])
            attrs_spec.append(("AInt64s", "perm", 1))
        vnode = None
        if "variadic" in kind:
            which = rng.choice(["concat", "sum", "max"])
            vv = op.concat(objs[inputs_oid], axis=0) if which == "concat" else getattr(op, which)(objs[inputs_oid])
            outs["v"] = vv
            vnode = vv._op
    # ---- caller-side mutations
    ms = []
    next_oid = max(objs) + (1 if "tensor" in kind else 0) + 1   # the tensor attribute's private copy took one oid
    owned = list(objs)
    for _ in range(h["nmut"]):
        o = rng.choice(owned)
        ob = objs[o]
        r = rng.random()
        try:
            if r < 0.08:
                objs[next_oid] = []
                owned.append(next_oid)
                ms.append("MAlloc (OList [])")
                next_oid += 1
            elif isinstance(ob, np.ndarray):
                if not ob.flags.writeable:
                    ob.setflags(write=True)
                k = rng.randrange(6)
                isstr = ob.dtype.kind == "U"
                if k == 0 and ob.size and not isstr:
                    i = rng.randrange(ob.size)
                    w = rng.choice(R.special_words(R.dtype_name(ob.dtype)))
                    junk = R.array_from({"dtype": R.dtype_name(ob.dtype), "shape": [], "words": [w]})
                    ob[np.unravel_index(i, ob.shape)] = junk
                    ms.append(f"MWrite {o} {i}%nat {N(w)}")
                elif k == 0 and ob.size and isstr:
                    i = rng.randrange(ob.size)
                    s = "q" * min(ob.dtype.itemsize // 4, 2)
                    ob[np.unravel_index(i, ob.shape)] = s
                    ms.append(f"MWriteStr {o} {i}%nat {lst(N(ord(c)) for c in s)}")
                elif k == 1 and not isstr:
                    w = rng.choice(R.special_words(R.dtype_name(ob.dtype)))
                    ob.fill(R.array_from({"dtype": R.dtype_name(ob.dtype), "shape": [], "words": [w]}))
                    ms.append(f"MFill {o} {N(w)}")
                elif k == 2 and ob.flags.owndata and ob.flags.c_contiguous and ob.dtype.isnative:
                    new = [rng.choice([0, 1, 2, 3]) for _ in range(rng.choice([1, 2]))]
                    ob.resize(tuple(new), refcheck=False)
                    ms.append(f"MResize {o} {lst(N(d) for d in new)}")
                elif k == 3 and ob.flags.c_contiguous:
                    new = [ob.size] if rng.random() < 0.5 else [1, ob.size]
                    ob.shape = tuple(new)
                    ms.append(f"MReshape {o} {lst(N(d) for d in new)}")
                else:
                    if ob.dtype.itemsize > 1 and ob.dtype.kind in "iufc" and rng.random() < 0.5:
                        ob.byteswap(inplace=True)
                    elif ob.size:
                        ob[...] = ob.reshape(-1)[0]
                    ms.append(f"MSetArr {o} {R.tensor_term(R.reflect_array(ob))}")
            else:
                k = rng.randrange(8)
                pool = [a for a in args] if (inputs_oid == o) else [1, -5, 2.5, "z", True]
                v = rng.choice(pool)
                vt = item_term(I, v, varids)
                if k == 0:
                    ob.append(v)
                    ms.append(f"LAppend {o} {vt}")
                elif k == 1:
                    ob.clear()
                    ms.append(f"LClear {o}")
                elif k == 2 and ob:
                    i = rng.randrange(len(ob))
                    ob[i] = v
                    ms.append(f"LSetItem {o} {i}%nat {vt}")
                elif k == 3 and ob:
                    ob.pop()
                    ms.append(f"LPop {o}")
                elif k == 4:
                    ob.extend([v, v])
                    ms.append(f"LExtend {o} {lst([vt, vt])}")
                elif k == 5:
                    ob.reverse()
                    ms.append(f"LReverse {o}")
                elif k == 6:
                    i = rng.randrange(len(ob) + 1)
                    ob.insert(i, v)
                    ms.append(f"LInsert {o} {i}%nat {vt}")
                else:
                    ob *= 2
                    ms.append(f"MSetObj {o} {obj_term(I, ob, varids)}")
        except (ValueError, TypeError):
            continue
    # ---- build and observe
    obs = {"mutations": ms}
    with warnings.catch_warnings():
        warnings.simplefilter("ignore")
        model = spox.build(dict(zip(argnames, args)), outs)
    g = model.graph
    prod = {o_: n for n in g.node for o_ in n.output}
    inits = {t.name: t for t in g.initializer}

    def resolve(nm):
        while nm in prod and prod[nm].op_type == "Identity":
            nm = prod[nm].input[0]
        return nm

    real_attrs, live, bad = [], [], []
    if attrs_spec:
        akind, aname, aoid = attrs_spec[0]
        tname = resolve("t")
        node = prod.get(tname)
        if tname in inits:       # initializer
            tp = inits[tname]
            real_attr_term = None
            back = norm_arr(I.nh.to_array(tp))
            if not R.same_snapshot(R.reflect_array(back), snap_before[1]) and snap_before[1]["dtype"] not in LOSSY_KEYS:
                bad.append("initializer tensor differs from the array at the call")
            a_obj = tvar._op.attrs.value
            real_attr_term, _ = attr_term(I, a_obj._to_onnx(), "dummy")
            aname = "dummy"
        else:
            (a,) = [x for x in node.attribute if x.name == aname]
            real_attr_term, pa = attr_term(I, a, aname)
            if akind == "ATensor":
                back = norm_arr(I.nh.to_array(a.t))
                if not R.same_snapshot(R.reflect_array(back), snap_before[1]) and snap_before[1]["dtype"] not in LOSSY_KEYS:
                    bad.append("tensor attribute differs from the array at the call")
            elif akind == "AInt64s" and pa["ints"] != [int(y) for y in snap_before[1]]:
                bad.append(f"ints {pa['ints']} != list at the call {snap_before[1]}")
            elif akind == "AFloat32s" and pa["floats"] != [R.f32_bits(np.float32(float(y))) for y in snap_before[1]]:
                bad.append("floats differ from the list at the call")
            elif akind == "AStrings" and [bytes(s) for s in pa["strings"]] != [y.encode() for y in snap_before[1]]:
                bad.append("strings differ from the list at the call")
        attrs_spec[0] = (akind, aname, aoid)
        real_attrs.append(real_attr_term)
        field = {"value": "value", "dummy": "value"}.get(aname, aname)
        lv = getattr(tvar._op.attrs, field).value
        live.append(val_term(I, lv, varids))
        if akind == "ATensor":
            if not R.same_snapshot(R.reflect_array(lv), snap_before[1]):
                bad.append("Attr.value differs from the array at the call")
            val = tvar._get_value()
            val = val.astype(str) if val.dtype == object else val
            if not R.same_snapshot(R.reflect_array(val), snap_before[1]):
                bad.append("Var._get_value() differs from the array at the call")
            t = tvar.unwrap_tensor()
            if R.dtype_name(t.dtype) != snap_before[1]["dtype"] or list(t.shape) != snap_before[1]["shape"]:
                bad.append("Var.type differs from the array type at the call")
        elif akind != "ATensor" and list(lv) != list(snap_before[1]):
            bad.append(f"Attr.value {lv!r} != list at the call {snap_before[1]!r}")
    inputs_term = "(PList [])"
    if inputs_oid is not None:
        node = prod[resolve("v")]
        names = list(node.input)
        expected = [argnames[varids[id(v)] - 1] for v in snap_before[inputs_oid]]
        if names != expected:
            bad.append(f"node inputs {names} != Vars at the call {expected}")
        inputs_term = lst(f"PVar {N(argnames.index(nm) + 1)}" if nm in argnames else "PNone" for nm in names)
        inputs_term = f"(PList {inputs_term})"
        if tuple(vnode.inputs.get_fields().values())[0] != tuple(snap_before[inputs_oid]):
            bad.append("Inputs field differs from the Vars at the call")
    obs["violations"] = bad
    # ---- model terms
    heap = lst(f"({N(o)}, {st_terms[o]})" for o in sorted(st_terms, reverse=True))
    st = f"(mkS {heap} {lst(N(o) for o in sorted(st_terms))})"
    call = f"(mkCall {lst(f'({k}, {R.coq_string(nm)}, ARef {N(o)})' for k, nm, o in attrs_spec)} {'(Some ' + N(inputs_oid) + ')' if inputs_oid else 'None'})"
    watch = sorted(objs)
    finals = [val_term(I, objs[o], varids) if not isinstance(objs[o], np.ndarray) or R.dtype_name(objs[o].dtype) else None for o in watch]
    if any(x is None for x in real_attrs + live + finals):
        obs["model_expr"] = None
    else:
        obs["model_expr"] = (f"chkH {st} {call} {lst(ms)} {lst(real_attrs)} {lst(live)} {inputs_term} "
                             f"{lst(N(o) for o in watch)} {lst(finals)}")
    obs["caller_changed"] = any(
        (not R.same_snapshot(R.reflect_array(objs[o]), snap_before[o])) if isinstance(objs[o], np.ndarray) else (list(objs[o]) != list(snap_before[o]))
        for o in st_objs)
    return obs


def family_histories(run: Run, I: Impl, n: int, hist: dict):
    rng = run.rng
    hs = [gen_history(rng, I) for _ in range(n)]
    exprs, idx = [], []
    results = []
    for i, h in enumerate(hs):
        try:
            obs = run_history(I, h)
        except Exception as e:  # noqa: BLE001
            import traceback
            run.fail("impl", f"C10/history-raises/{h['kind']}/{type(e).__name__}", "a call / mutation history / build raised unexpectedly",
                     {"history": h, "traceback": traceback.format_exc()[-1500:]})
            results.append(None)
            continue
        results.append(obs)
        if obs is None:
            continue
        hist["history_kind"][h["kind"]] = hist["history_kind"].get(h["kind"], 0) + 1
        hist["history_len"][len(obs["mutations"])] = hist["history_len"].get(len(obs["mutations"]), 0) + 1
        hist["history_caller_changed"] += obs["caller_changed"]
        if obs["violations"]:
            run.fail("impl", f"C10/not-captured-at-call/{h['kind']}", "a caller-side mutation after the call changed the built model / propagated value",
                     {"history": h, "mutations": obs["mutations"], "violations": obs["violations"]})
        if obs.get("model_expr"):
            exprs.append(obs["model_expr"])
            idx.append(i)
    res = run.coq_eval("hist", HEADER, exprs, shard=60)
    agree = 0
    for i, r in zip(idx, res):
        b = parse_bools(r)
        if all(b):
            agree += 1
        elif not results[i]["violations"]:
            run.fail("corr", f"C10/history-model-vs-impl/{hs[i]['kind']}", "heap model and implementation disagree on a history",
                     {"history": hs[i], "mutations": results[i]["mutations"], "[pre, attrs, live, inputs, caller objects] agree": b})
    return len(exprs), agree


# ================================================================================================ entry points


def run(run: Run) -> int:
    run.check_theorems(PROPS, CONE, thorough_coqchk=(run.tier == "thorough"))
    quick = run.tier == "quick"
    I = Impl()
    hist = {"dtype": {}, "path": {}, "layout": {}, "shape": {}, "mutated_after_call": 0, "ort_checked": 0,
            "attr_outcome": {}, "attr_kind": {}, "attr_kind_ok": {}, "attr_unrepresentable": 0, "constant_kw": {},
            "history_kind": {}, "history_len": {}, "history_caller_changed": 0, "const_scalar": {}}
    n_t = 1300 if quick else 12000
    cases, good_t, stats = family_tensors(run, I, n_t, hist)
    n_x = family_exhaustive(run, I, thorough=not quick)
    n_d, bad_d = family_decode(run, I, 300 if quick else 3000)
    n_a, ok_a, unmod = family_attrs(run, I, 1500 if quick else 6000, hist)
    n_r, bad_r = family_rounding(run, I, 1200 if quick else 20000)
    n_c, bad_c = family_constant_kw(run, I, hist)
    n_s, bad_s = family_const_scalars(run, I, hist)
    n_h, ok_h = family_histories(run, I, 350 if quick else 4000, hist)
    distinct = {repr((c["snap"], c["layout"], c["path"])) for c in cases if len(c["snap"].get("words", c["snap"].get("strs", []))) >= 1}
    samples = []
    for c in cases[:4]:
        samples.append({"case": slim(c), "var_type": c.get("obs", {}).get("var_type"), "wire_fields": sorted(c.get("obs", {}).get("wire", {}).get("fields", {})),
                        "model[wf, =encode, =encode_pinned, decode=array, decode=canon]": c.get("coq")})
    hist["attr_outcome"] = {str(k): v for k, v in hist["attr_outcome"].items()}
    cov = {
        "evaluations": len(cases) + 25 + n_d + n_a + n_c + n_h + n_s,
        "distinct_nontrivial": len(distinct),
        "rule": "tensor cases distinct by (element type, shape, bit patterns, memory layout, construction path) with at least one element; "
                "plus attribute cases (class x value), Constant keyword cases, decode cases and mutation histories counted in their own fields",
        "tensor_cases": len(cases), "tensor_cases_ok": good_t, "tensor_protos_equal_encode": stats["matches_fixed"],
        "tensor_protos_equal_encode_pinned": stats["matches_pinned"], "lossy_hits": stats["lossy_hits"],
        "exhaustive_bit_patterns_through_from_array": n_x, "decode_vs_to_array_cases": n_d, "decode_disagreements": bad_d,
        "attribute_cases": n_a, "attribute_cases_agree": ok_a, "attribute_cases_outside_model": unmod,
        "float_rounding_values": n_r, "float_rounding_disagreements": bad_r,
        "constant_keyword_cases": n_c, "constant_keyword_disagreements": bad_c,
        "const_python_scalar_calls": n_s, "const_python_scalar_failures": bad_s,
        "histories": n_h, "histories_model_agrees": ok_h,
        "traces_validated_against_impl": good_t + ok_a + (n_c - bad_c) + ok_h + (n_d - bad_d),
        "disagreements_checked": len([f for f in run.failures if f.kind == "corr"]),
        "input_distribution": hist,
        "samples": samples,
    }
    return run.finish(cov, [
        "packing table (store_of) and lossy-word table (canon) are onnx 1.22 make_tensor's + protobuf's: validated on every run, exhaustively for the 8/4/2-bit element types",
        "decode is numpy_helper.to_array: validated on spox-produced and on foreign TensorProtos (raw_data, odd typed fields, wrong dims)",
        "f64_to_f32 / z_to_f64 are the C cast and Python's float(int): validated against the implementation on adversarial values (ties, denormals, overflow, NaN payloads)",
        "the logical content of an array is read by the harness element by element (numpy indexing), memory layout is an input of that reflector",
        "captured_at_call assumes the caller mutates only objects it owns: not Attr._value, not the array returned by the private Var._get_value()",
        "list attributes hold immutable items (ints, floats, strs, Vars); AttrTensors (list of arrays) cannot be constructed on the pinned tree at all",
    ])


def replay(run: Run, case) -> int:
    I = Impl()
    d = case.get("detail") or {}
    if isinstance(d, dict) and "case" in d and "snap" in d["case"]:
        c = copy.deepcopy(d["case"])
        c.setdefault("mutate", False)
        c.setdefault("mseed", 0)
        run_tensor_batch(I, [c], use_ort=c["snap"]["dtype"] in R.ORT_OK)
        if "error" in c:
            print("error:", c["error"])
            print(f"VIOLATION property=C10 replay={run.pid}")
            return 1
        eval_tensor_cases(run, I, [c], "replay")
        bad = tensor_oracle(c)
        print("case:", slim(c))
        print("array at the call:", c["expect"])
        print("embedded (to_array):", c["obs"].get("decoded"))
        print("wire:", c["obs"].get("wire"))
        print("Var.type:", c["obs"].get("var_type"), " value:", c["obs"].get("value"), " ort:", c["obs"].get("ort"))
        print("model [wf, proto=encode, proto=encode_pinned, decode=array, decode=canon(array)]:", c.get("coq"))
        print("violations:", bad)
        if bad:
            print(f"VIOLATION property=C10 replay={run.pid}")
        return 1 if bad else 0
    if isinstance(d, dict) and "history" in d:
        obs = run_history(I, d["history"])
        print("history:", d["history"], "\nmutations:", obs["mutations"], "\nviolations:", obs["violations"])
        if obs["violations"]:
            print(f"VIOLATION property=C10 replay={run.pid}")
        return 1 if obs["violations"] else 0
    if isinstance(d, dict) and "kind" in d and "class" in d:
        # attribute case: re-run the whole (cheap, deterministic) attribute family and look for the same key
        r2 = Run("C10", "quick", case.get("seed", 0))
        hist = {"attr_outcome": {}, "attr_kind": {}, "attr_kind_ok": {}, "attr_unrepresentable": 0}
        family_attrs(r2, I, 10**9, hist)
        hit = [f for f in r2.failures if f.key == case.get("key")]
        r2.cleanup()
        for f in hit:
            print(f.kind, f.key, f.what, f.detail)
        if hit:
            print(f"VIOLATION property=C10 replay={run.pid}")
        return 1 if hit else 0
    print("replay: unrecognised case; re-run ./check C10 quick with the recorded seed")
    return 1
