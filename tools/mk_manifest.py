#!/usr/bin/env python3
"""Regenerates /verif/MANIFEST.json from the table below (kept in one place so the file is always schema-valid)."""
import json, sys
from pathlib import Path

V = Path("/verif")
TB = ("Trusted base: Coq 8.16.1 kernel + vm_compute (no native_compute, no axioms: every property theorem is "
      "'Closed under the global context' per Print Assumptions, audited on every run); the hand-written Gallina model "
      "(tied to /repo only by the per-run correspondence on generated inputs); the Python harness (generators, "
      "reflector, term printer, output parser). ")

CHECKS = {
 "C16": dict(
    text="PROOF of the block-structured restore discipline (coq/props/C16.v: every tree of with-blocks/decorated calls over the "
         "three settings, any nesting, any raising position, restores all settings; a block restores its own setting even if the "
         "body calls the global setters; exceptions propagate unchanged; frame: a block touches no other setting; after any completed scoped "
         "prefix inside a block the block's settings are in force again; on exception-free programs managers without try/finally are "
         "indistinguishable from the protected ones - why the suite could not see the defect - and with a raising body they restore "
         "nothing) + per-run CORRESPONDENCE of the model with the real "
         "context managers on random block histories (states after every event, outcome) + direct oracle on the implementation "
         "(setting at block exit == setting at entry; behaviour follows the setting).",
    note=TB + "Modelled, not verified: contextlib's generator protocol (with/decorator forms treated as the same block).",
    technique="Coq proof (nested induction over block trees) + model/implementation correspondence by vm_compute",
    ref="4 C16"),
 "C01": dict(
    text="PROOF (coq/props/C01.v): C01_build_sem_named - whenever the model of build returns a model m, executing the emitted nested "
         "graphs BY NAME (environment string->value threaded through bodies, inlined blocks and result identities) on any values of the "
         "inputs yields, for each requested output, the meaning of the requested Var, for EVERY extensional operator semantics; proved "
         "through the linearisation theorem run_correct (any well-formed plan computes eval; nested induction over graph trees, "
         "unbounded), named_is_plan (named execution = name-erased plan execution under the name-table validators) and proved-sound "
         "executable well-formedness checks that the model applies to its own output; BY CONSTRUCTION (no validator): no application a requested "
         "output depends on is dropped and nothing else is emitted (C01_no_application_is_dropped_by_construction), the plan of a returned model "
         "IS the ownership map unfolded (C01_plan_is_the_ownership_map_unfolded), hence C01_build_sem_by_construction: the semantic statement "
         "with a decidable premise on the PROGRAM only (its specification-level plan is well-formed; evaluated on every generated program), and "
         "C01_build_sem_for_legal_programs: for programs meeting the decidable LEGALITY condition (acyclic, arguments local, no leak of a body "
         "argument outside the graphs that declare it) the plan's well-formedness itself is proved from discovery / placement / def-use / "
         "coverage facts - no output check, no evaluated plan. Per-run CORRESPONDENCE: the real ModelProto equals the model's output name-for-name on generated programs "
         "(If/Loop/Scan nesting, closures, sharing, leaks). Direct ORACLE: every built model executed by onnxruntime vs an "
         "independent numpy evaluator of the object graph.",
    note=TB + "Assumed: onnxruntime implements the abstract opsem (each operator's ONNX semantics). 'Legal programs always build' is "
         "validated (correspondence + oracle: a legal generated program that is refused is reported), not proved; the theorems are of the form "
         "'whatever build returns ...'.",
    technique="Coq proof (linearisation theorem + verified plan validator) + exact model/implementation correspondence + ORT-vs-numpy oracle",
    ref="4 C01"),
 "C02": dict(
    text="PROOF (coq/props/C02.v): a model is returned only after the final structural check; every value name is defined once in "
         "the whole model (all subgraphs, inlined blocks), node names unique, one import per domain - statements about the model's "
         "build incl. proved-sound validators; BY CONSTRUCTION (no validator, every fuel/nesting): the naming tables stay injective "
         "through compile and reserved names never name a Var (ScopeFacts via the generic CompilePres.compile_inv), the GraphProto of "
         "every scope is in SSA form at top level (SsaFacts), and EVERY non-empty value name of the whole model - all nested graphs and the "
         "internals of every inlined block - is defined once (GlobalFacts/GlobalInline/InlineSeq; premises decidable and evaluated on every "
         "program that builds: no source node twice in the unfolded ownership map, every inlined model defines each of its names once). "
         "CORRESPONDENCE: EXACT rendering (names, order, types, imports, functions) of the real "
         "ModelProto vs the model on programs with inlined models, functions, custom operators, benign and adversarial user names "
         "(harvested from a previous build), both drop_unused_inputs values. ORACLE: full ONNX checker + strict inference + "
         "onnxruntime load + independent whole-model walker on every returned model.",
    note=TB + "Assumed: onnx.checker/onnxruntime decide validity; struct_check mirrors the checker's structural rules (validated by "
         "outcome-class agreement incl. ValidationError cases).",
    technique="Coq proof (validated build model) + exact-name correspondence + checker/ORT/walker oracle",
    ref="4 C02"),
 "C03": dict(
    text="PROOF (coq/props/C03.v): C03_io_by_construction (no validator, no premise): the graph inputs of a returned model are the "
         "requested arguments (all in order; with drop_unused_inputs a sub-sequence of the listed Vars, compared as Vars), the graph "
         "outputs are the requested outputs in order, every entry under the name it was requested with and with the concrete type of "
         "its Var (IOFacts: a named Var is only ever bound to its name; bindings never change); with drop_unused_inputs exactly the "
         "inputs some output depends on (validator io_exact); TypeError/ValueError/KeyError rules of the public wrapper. CORRESPONDENCE: exact rendering + exception class on permuted/subset/extra/malformed requests. ORACLE: "
         "independent dependency walker; drop cases repeated in fresh processes under 4 PYTHONHASHSEEDs; requests with a dozen further "
         "outputs; onnxruntime-vs-numpy oracle for the value each output carries; unlisted arguments reached only through nested bodies.",
    note=TB + "Hash-seed independence of the real code is established by execution, not proof.",
    technique="Coq proof + exact correspondence + multi-process hash-seed repeats",
    ref="4 C03"),
 "C04": dict(
    text="PROOF (coq/props/C04.v): emitted exactly once = reachable set; each application sits in the innermost graph enclosing all "
         "consumers (LCA = longest common prefix, proved greatest lower bound); definition before use through enclosing graphs "
         "(well-formed plan) - by proved-sound validators; BY CONSTRUCTION: the builder's explicit-stack DFS lists every node once "
         "with dependencies first (postorder_spec), the GraphProto of scope g holds at top level exactly the nodes assigned to g in "
         "that order, the whole tree is the ownership map unfolded, no node twice (EmitFacts; premises evaluated on every program); and, proved of "
         "the ALGORITHM (no validator; premise: acyclic object graph, evaluated on every program): the emitted applications are EXACTLY those a "
         "requested output depends on (DiscoverFacts: invariant of Builder.discover; CoverageFacts), the alternating-walk lca returns the lowest "
         "common ancestor on any parent function (LcaFacts), the graph a node is placed in IS the lowest common ancestor - in the final scope "
         "tree - of all graphs whose traversal contains it (PlacementFacts), every non-argument operand is defined before use in the same or an "
         "enclosing graph (DefUseFacts). TRANSLATOR tie (every run): the source text of Builder.ScopeTree.parent / .lca is translated to Gallina "
         "(harness/pysrc.py) and coq/gen/SrcBuildFacts.v proves it equal to the model's parent / lca and transports the correctness theorem to the "
         "walk as written in src/spox/_build.py. CORRESPONDENCE on an EXHAUSTIVE skeleton family (scope trees x creation scope x body dependence x use "
         "sets) + random leak-heavy programs. ORACLE: independent placement walker on the ModelProto, operator counts, legality rule.",
    note=TB + "Exhaustive only for the stated skeleton family.",
    technique="Coq proof (algorithm-level invariants of discover / scope resolution / lca) + source-to-Gallina translator for ScopeTree + exhaustive skeleton enumeration + independent walker",
    ref="4 C04"),
 "C11": dict(
    text="TRANSLATOR mode: the signature/emission tables of all 980 shipped (module, operator) pairs and of onnx.defs are re-dumped "
         "from the current tree on every run into generated Coq files; theorems all_conform_<module> are re-proved by vm_compute and "
         "lifted (coq/props/C11.v: check_all = true -> every entry Conforms; completeness; slots_roundtrip unbounded). Exhaustive.",
    note=TB + "The translator (harness/c11_dump.py) observes the Python constructors behaviourally; listed deviations are explicit data "
         "(known findings).",
    technique="Coq proof by reflection over regenerated tables (translator) + check_node oracle",
    ref="4 C11"),
 "C12": dict(
    text="PROOF (coq/props/C12.v): build restores the name of every Var the caller holds on every outcome, also when one Var is "
         "listed under several names (save-once invariant; refutation of the pinned tree's overwrite-save); only reachable nodes are "
         "emitted (nothing constructed earlier can show up); during a build each listed Var carries a requested name and no other Var is "
         "renamed; ANY history of builds (succeeding or failing, any inputs) restores every name, hence the names a later build works with "
         "are those of a fresh process (StoreFacts2.v, induction over the history). CORRESPONDENCE: every build of random histories over a shared pool vs "
         "the model. ORACLE: snapshots of name/type/value of every reachable Var and of inlined model bytes around each step, "
         "byte-identical rebuilds, and the same histories in fresh processes under 4 PYTHONHASHSEEDs / prior allocations.",
    note=TB + "Address and hash-seed independence of the real code is established by execution, not proof.",
    technique="Coq proof (store invariant) + history correspondence + multi-process determinism runs",
    ref="4 C12"),


 "C05": dict(
    text="PROOF (coq/props/C05.v): plumbing between a constructor call and the one-node model handed to ONNX inference, for EVERY "
         "inference oracle: slots_roundtrip (positional binding recovers each argument's schema slot for all signatures/argument "
         "patterns, no over/under-trimming), attributes and constant operands forwarded, untyped input => no check and untyped outputs, "
         "raises iff infer rejects, invented dims stripped; an argument of the wrong kind for its field raises at the call; refutation for "
         "BatchNormalization inference mode. CORRESPONDENCE: every input field of every constructor once with a wrong-kind argument; captured "
         "singleton models + outcomes vs the model on ONNX's node-test corpus replayed through all five ai.onnx modules, mutated "
         "ill-typed calls and calling forms. ORACLE: onnx strict inference on an independently built one-node model.",
    note=TB + "ONNX's C++ inference is an oracle (Section variable); ai.onnx.ml modules not covered by C05 (their routines are C06's).",
    technique="Coq proof (slot binding round trip, parametric in the inference oracle) + corpus replay correspondence + independent strict-inference oracle",
    ref="4 C05"),
 "C18": dict(
    text="PROOF (coq/props/C18.v): custom operators emitted verbatim (name, domain, inputs/outputs in declared order, nothing trimmed, "
         "attributes under their own names), domain imported once at the maximum required version, hooks alone determine output "
         "types/values (missing => untyped + warning, values kept only if conforming), never converted. CORRESPONDENCE: node classes "
         "generated at run time over signatures x attribute kinds x domains/versions x hook behaviours x positions in a program. "
         "ORACLE: independent decoding of the returned ModelProto + onnx.checker.",
    note=TB + "Function subclasses and sequence/optional hook values not generated.",
    technique="Coq proof + correspondence with run-time generated operator classes",
    ref="4 C18"),
 "C06": dict(
    text="PROOF (coq/props/C06.v): infer_sound_<op> for every hand-written inference routine (ArrayFeatureExtractor, Binarizer, "
         "CategoryMapper, Imputer, OneHotEncoder, Scaler, TreeEnsembleRegressor, Compress, repaired Loop merge): runtime values given by a "
         "documentation-derived runtime specification conform to the inferred type, for all shapes and all sizes of unknown dims; "
         "refutations with witnesses for LinearRegressor, Normalizer, TreeEnsembleClassifier, the pinned Loop patch and the first planned "
         "repair; strip_dims / inline types sound. CORRESPONDENCE: real constructors vs model on generated types x attributes. ORACLE: "
         "onnxruntime output dtype/shape vs rt_spec and vs Var.type over sizes {0..3}; random programs exposing every Var.",
    note=TB + "Assumed: rt_spec describes onnxruntime (validated every run). Operators typed by ONNX's own inference are validated only.",
    technique="Coq proof (per-routine soundness vs runtime shape spec) + constructor correspondence + onnxruntime conformance oracle",
    ref="4 C06"),

 "C07": dict(
    text="PROOF (coq/props/C07.v): an attached value always conforms to the Var's reported type (every level), a Var with a value has "
         "no argument in its dependency cone (all DAGs), the value on output field f is the backend's entry for THAT output (no "
         "cross-mapping; refutation for the pinned mapping), inline outputs by declared order, unsafe_cast copies, Constant/initializer "
         "values typed, value_equals_runtime under the named premise 'backend agrees with opsem on constants'. CORRESPONDENCE: "
         "presence/dtype/shape of Var._value on generated constant programs under both backends. ORACLE: each valued Var exposed as "
         "output of a built model, onnxruntime (no optimisations, two bindings) vs Var._get_value(); ONNX node-test corpus with "
         "constant inputs vs expected outputs.",
    note=TB + "Premise 'backend agrees with opsem' is validated, not proved; DFT/STFT/Resize backend disagreements are environment findings.",
    technique="Coq proof (value attachment model) + correspondence + ORT-vs-propagated-value oracle + node-test corpus",
    ref="4 C07"),
 "C15": dict(
    text="PROOF (coq/props/C15.v): for EVERY backend result (exceptions, ill-typed arrays, lists, None, scalars, wrong names) at either "
         "backend, node construction succeeds (repaired code; refutations with witnesses for the pinned code), no non-conforming value "
         "is attached, output types are independent of the backend result, NONE backend attaches nothing; downstream types only more "
         "permissive under the named monotonicity premise. CORRESPONDENCE: systematic fault injection below spox (patched "
         "ReferenceEvaluator.run / InferenceSession.run, 201-entry fault catalogue) at each operator of generated programs vs the model. "
         "ORACLE: constructor outcome, independent conformance check, type comparison with the fault-free run, onnxruntime results of "
         "models built with vs without propagation.",
    note=TB + "Premise 'inference monotone in known constants' is tested on every fault run, not proved; BaseExceptions out of scope.",
    technique="Coq proof (all backend results) + fault-injection correspondence",
    ref="4 C15"),
 "C08": dict(
    text="PROOF (coq/props/C08.v): argument binding of the inlined callable (positional in input order, keywords, defaults; missing / "
         "duplicated / unknown / surplus -> TypeError; refutation of the pinned zip-truncation), type check at the boundary, declared "
         "output types; every emitted inlined block is the foreign graph under a functional renaming injective on internal names "
         "(validated-sound), disjoint from all other names (C02); BY CONSTRUCTION (InlineDefs/InlineInj, nested induction over the "
         "foreign graph): every definition of the block comes from a definition of the model through the renaming relation, which is a "
         "function of the inner name and injective; block internals are reserved names or outputs of the Inline node; the block's "
         "definitions are the renamed definitions of the model IN ORDER, so one definition per name is preserved (InlineSeq). "
         "CORRESPONDENCE: binding of random calling forms vs bind_args; exact "
         "rendering of models built around spox-built and hand-built corner models (initializers, sparse, defaults, pass-through, "
         "subgraphs capturing outer values, empty optionals, custom domain, hostile names), once/twice/inside If/chained. ORACLE: "
         "onnxruntime on m vs on the model built around inline(m); bytes of m unchanged; type boundary: arguments of another element "
         "type / rank / static extent (0 included) raise TypeError, declared output types are carried (also with an untyped argument).",
    note=TB + "Assumed: onnxruntime(m) is the meaning of m; onnx.version_converter preserves meaning (blocks that are converted are "
         "judged by the semantic oracle only). Semantic invariance under the renaming is argued from the alpha check, not proved end-to-end.",
    technique="Coq proof (binding function, renaming validator) + exact emission correspondence + ORT(m) vs ORT(build(inline m)) oracle",
    ref="4 C08"),

 "C09": dict(
    text="PROOF (coq/props/C09.v): algorithmic proofs about max_opset_policy itself - exactly one import per domain (sortedness "
         "invariant of the insertion), the imported version is the maximum required for the domain and is required by something, every "
         "requirement is covered; the imports depend only on the SET of requirements (order of collection and repeats do not matter), the "
         "alias ai.onnx never gets an import of its own and counts for the default domain, no domain is imported that nothing requires "
         "(PolicyFacts.v); default domain never below 14 in a returned model (validator AND by construction: "
         "C09_default_domain_floor_by_construction, an accumulator-level invariant through compile); which nodes are handed to the converter (never "
         "another domain, never a node already at the imported version). CORRESPONDENCE: imports of model and functions (exact), set "
         "of conversion decisions (recorded by wrapping adapt_node) vs Adapt.decisions with the schema-difference table regenerated "
         "from SCHEMAS each run, full rendering when nothing is converted. ORACLE: imports recomputed from the object graph, full "
         "checker + onnxruntime load, onnxruntime on the mixed-version build vs a single-version build of the same recipe.",
    note=TB + "Assumed: onnx.version_converter preserves operator meaning and produces valid nodes (oracle; judged by execution). "
         "'Mixed programs always build' is validated, not proved (the converter can fail: see DESIGN F9a-c).",
    technique="Coq proof (opset policy, adaptation decision) + decision/import correspondence + mixed-vs-single-version ORT oracle",
    ref="4 C09"),
 "C10": dict(
    text="PROOF (coq/props/C10.v): decode(encode t) = t for all 26 element types, shapes and payloads (bit patterns; induction over "
         "payloads); attribute kind checking; captured-at-call for every caller-side mutation history (heap model, privacy invariant); "
         "characterisation + refutation of the pinned lossy encodings. CORRESPONDENCE: TensorProto wire fields bit-for-bit, attribute "
         "classes x values, mutation histories. ORACLE: to_array / Var.type / _get_value / onnxruntime vs snapshot before the call.",
    note=TB + "Assumed: the make_tensor packing table (validated per element type on every run, exhaustively for <=16-bit types).",
    technique="Coq proof (codec round trip, heap aliasing invariant) + bit-exact correspondence",
    ref="4 C10"),
 "C13": dict(
    text="PROOF (coq/props/C13.v): ONNX round trip identity and injectivity; spelling canonicity as a forallb over a table regenerated "
         "from the tree each run; subtype_exact (compatible iff a common populated runtime value exists), structural corollaries; "
         "broadcast exact on constants, sound, raises iff impossible (lifting one-axis lemmas over ranks). CORRESPONDENCE: EXHAUSTIVE over "
         "a bounded domain enumerated inside Coq by the same index functions (72,989 types, 401^2 shape pairs, type pairs) via row "
         "digests. TRANSLATOR tie (additional, every run): the SOURCE TEXT of _broadcast_elem, Unknown/Constant.__le__, Shape.__le__ and the four "
         "_subtype methods is translated to Gallina (harness/pysrc.py, fail-closed) and coq/gen/SrcFacts.v proves, for ALL arguments, that the "
         "generated functions are the model's bce / dim_le / shape_le / subtype. ORACLE: numpy.broadcast_shapes, brute-force common-value search, real inline boundary.",
    note=TB + "hash is oracle-only; exhaustive for the stated bounded domain. The translator (accepted Python subset, the rendering of ==, <=, "
         "isinstance, issubclass on canonical scalar types as code equality, attribute access totalised behind the source's own guards, the dropped "
         "`isinstance(other, Class)` guards) is trusted; a source text outside its subset leaves the exhaustive correspondence as the only tie "
         "(recorded in the evidence).",
    technique="Coq proof + exhaustive digest correspondence over a bounded domain + source-to-Gallina translator with equivalence theorems + regenerated spelling table",
    ref="4 C13"),
 "C14": dict(
    text="PROOF (coq/props/C14.v): exactly one definition per used (domain, name) incl. functions used only in control-flow bodies or "
         "other functions; definitions merged only if identically rendered AND with identical attribute values inside the body, "
         "differing bodies rejected (fold invariant); BY CONSTRUCTION every function-call node at any nesting depth has a "
         "FunctionProto of its (domain, name) (C14_every_call_has_a_definition); imports cover "
         "body requirements; call_means_body (the FunctionProto body is a checked linearisation of the body graph, so C01's theorem "
         "applies to it, any nesting); C14_call_means_body_for_legal_bodies: the same WITHOUT the validator - well-formedness of every "
         "function body's plan proved from the build algorithm at any depth of function nesting (FunInd), premise = decidable legality "
         "of the body's object graph, evaluated on every generated function. CORRESPONDENCE: exact rendering incl. every FunctionProto. ORACLE: onnxruntime vs numpy "
         "evaluation with calls evaluated through their Python body; function keys; varying bodies must raise.",
    note=TB + "Assumed: onnxruntime executes FunctionProtos as inlined bodies. Bodies closed over their parameters.",
    technique="Coq proof + exact correspondence + ORT-vs-numpy oracle",
    ref="4 C14"),
 "C17": dict(
    text="PROOF (coq/props/C17.v): result dtype = numpy's for + - * / // over all operand kinds and settings (finite tables regenerated "
         "from numpy each run, lifted by forallb_forall); promotion-off TypeErrors; outside-block TypeErrors; integer + - * neg exact "
         "modulo 2^w for all Z; repaired floordiv = floor division for all in-range operands (fix_floordiv_ok), refutation of the "
         "truncating Div. CORRESPONDENCE: ~21k cases (dtype, emitted operator tree, error class) compared inside Coq. ORACLE: "
         "onnxruntime + propagated values vs numpy.",
    note=TB + "Float arithmetic validated against numpy only; INT_MIN // -1 and zero divisors never executed.",
    technique="Coq proof (Z arithmetic, regenerated numpy promotion tables) + correspondence + ORT-vs-numpy oracle",
    ref="4 C17"),
 "C19": dict(
    text="PROOF (coq/props/C19.v): every callback occurs exactly once in the constructor's trace; builds add no call; argument types "
         "as ONNX prescribes for If/Loop/Scan/SequenceMap; output count from results; malformed callbacks -> TypeError; refutations "
         "for the unrepaired code. CORRESPONDENCE: instrumented callbacks in v17-v21 (counts, argument types, out_variadic, "
         "exceptions, 0-3 builds). ORACLE: ONNX prescription + onnxruntime-observed body argument shapes.",
    note=TB + "Var identity/freshness and nested control flow are oracle-only.",
    technique="Coq proof (call-trace model) + correspondence with instrumented callbacks",
    ref="4 C19"),
}

NA = {}

def main():
    props = [json.loads(l)["id"] for l in open(V / "properties.jsonl")]
    checks = []
    for pid in props:
        if pid not in CHECKS:
            continue
        c = CHECKS[pid]
        checks.append({
            "property_id": pid,
            "quick_cmd": f"./check {pid} quick",
            "thorough_cmd": f"./check {pid} thorough",
            "evidence_file": f"/verif/evidence/{pid}.json",
            "replay_cmd_template": f"./check {pid} --replay {{path}}",
            "engine": "coq-model+correspondence",
            "level_claimed": {"category": "proof", "text": c["text"], "design_ref": "DESIGN.md section " + c["ref"]},
            "level_note": c["note"],
            "technique": c["technique"],
        })
    na = [{"property_id": p, "reason": NA.get(p, "check not built yet in this snapshot of /verif (planned, see DESIGN.md section 4); not claimed")}
          for p in props if p not in CHECKS]
    man = {
        "version": 1,
        "setup_cmd": "./check setup",
        "hooks": {
            "guard": "QUANTCO_SPOX_VERIF",
            "enable": "no source hooks: the harness observes spox through its public API, reflection on private attributes and "
                      "monkey-patching of third-party entry points; QUANTCO_SPOX_VERIF=1 is exported by ./check but read by nothing in /repo",
            "baseline_off_cmd": "cd /repo && /venv/bin/python -m pytest -ra -q -p no:cacheprovider --timeout=900 --continue-on-collection-errors",
            "source_commits": [],
            "add_only": True,
        },
        "engines": [{
            "name": "coq-model+correspondence", "path": "/verif/check",
            "serves_properties": [c["property_id"] for c in checks],
            "kind_free_text": "Machine-checked proofs in Coq 8.16.1 about hand-written executable Gallina models (coq/*.v, theorems in "
                              "coq/props/Cxx.v), tied to /repo on every run by evaluating the model with vm_compute on the inputs the real "
                              "implementation was run on (by regenerating table-shaped model data from the current tree, and - for the decision functions of C13 and the scope-tree walk of C04 - by translating the current SOURCE TEXT to Gallina and re-checking theorems that the translated functions are the model's)."}],
        "checks": checks,
        "notes": "Known findings and fix: commits are listed in /verif/known_findings.json; seeded breaking changes in /verif/seeded/. "
                 "Evidence is rewritten by every run.",
        "not_applicable": na,
    }
    (V / "MANIFEST.json").write_text(json.dumps(man, indent=1) + "\n")
    print("MANIFEST.json:", len(checks), "checks,", len(na), "not claimed")

if __name__ == "__main__":
    main()
