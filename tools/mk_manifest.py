#!/usr/bin/env python3
"""Regenerates /verif/MANIFEST.json from the table below (kept in one place so the file is always schema-valid)."""
import json, sys
from pathlib import Path

V = Path("/verif")
TB = ("Trusted base: Coq 8.16.1 kernel + vm_compute (no native_compute, no axioms: every property theorem is "
      "'Closed under the global context' per Print Assumptions, audited on every run); the hand-written Gallina model "
      "(tied to /repo only by the per-run correspondence on generated inputs); the Python harness (generators, "
      "reflector, term printer, output parser). ")

CHECKS = {
 "C16": dict(
    text="PROOF of the block-structured restore discipline (coq/props/C16.v: every tree of with-blocks/decorated calls over the "
         "three settings, any nesting, any raising position, restores all settings; a block restores its own setting even if the "
         "body calls the global setters; exceptions propagate unchanged) + per-run CORRESPONDENCE of the model with the real "
         "context managers on random block histories (states after every event, outcome) + direct oracle on the implementation "
         "(setting at block exit == setting at entry; behaviour follows the setting).",
    note=TB + "Modelled, not verified: contextlib's generator protocol (with/decorator forms treated as the same block).",
    technique="Coq proof (nested induction over block trees) + model/implementation correspondence by vm_compute",
    ref="4 C16"),
}

NA = {}

def main():
    props = [json.loads(l)["id"] for l in open(V / "properties.jsonl")]
    checks = []
    for pid in props:
        if pid not in CHECKS:
            continue
        c = CHECKS[pid]
        checks.append({
            "property_id": pid,
            "quick_cmd": f"./check {pid} quick",
            "thorough_cmd": f"./check {pid} thorough",
            "evidence_file": f"/verif/evidence/{pid}.json",
            "replay_cmd_template": f"./check {pid} --replay {{path}}",
            "engine": "coq-model+correspondence",
            "level_claimed": {"category": "proof", "text": c["text"], "design_ref": "DESIGN.md section " + c["ref"]},
            "level_note": c["note"],
            "technique": c["technique"],
        })
    na = [{"property_id": p, "reason": NA.get(p, "check not built yet in this snapshot of /verif (planned, see DESIGN.md section 4); not claimed")}
          for p in props if p not in CHECKS]
    man = {
        "version": 1,
        "setup_cmd": "./check setup",
        "hooks": {
            "guard": "QUANTCO_SPOX_VERIF",
            "enable": "no source hooks: the harness observes spox through its public API, reflection on private attributes and "
                      "monkey-patching of third-party entry points; QUANTCO_SPOX_VERIF=1 is exported by ./check but read by nothing in /repo",
            "baseline_off_cmd": "cd /repo && /venv/bin/python -m pytest -ra -q -p no:cacheprovider --timeout=900 --continue-on-collection-errors",
            "source_commits": [],
            "add_only": True,
        },
        "engines": [{
            "name": "coq-model+correspondence", "path": "/verif/check",
            "serves_properties": [c["property_id"] for c in checks],
            "kind_free_text": "Machine-checked proofs in Coq 8.16.1 about hand-written executable Gallina models (coq/*.v, theorems in "
                              "coq/props/Cxx.v), tied to /repo on every run by evaluating the model with vm_compute on the inputs the real "
                              "implementation was run on (and by regenerating table-shaped model data from the current tree)."}],
        "checks": checks,
        "notes": "Known findings and fix: commits are listed in /verif/known_findings.json; seeded breaking changes in /verif/seeded/. "
                 "Evidence is rewritten by every run.",
        "not_applicable": na,
    }
    (V / "MANIFEST.json").write_text(json.dumps(man, indent=1) + "\n")
    print("MANIFEST.json:", len(checks), "checks,", len(na), "not claimed")

if __name__ == "__main__":
    main()
