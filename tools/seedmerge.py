#!/usr/bin/env python3
"""tools/seedmerge.py <name> <checks...>: re-run the given checks against the stored change seeded/<name> and merge the results into its meta.json."""
import json, subprocess, sys, glob
name, pids = sys.argv[1], sys.argv[2:]
d = f"/verif/seeded/{name}"
demo = sorted(glob.glob(f"{d}/demo*.py"))[0]
out = subprocess.run([sys.executable, "/verif/tools/seedtest.py", f"{d}/patch.diff", demo] + pids, capture_output=True, text=True).stdout
rec = json.loads(out[out.index("{"):])
meta = json.load(open(f"{d}/meta.json"))
K = "checks_against_change (VERIF_REPO=<scratch worktree with patch> ./check <id> quick)"
meta.setdefault(K, {}).update(rec.get("checks") or {})
meta["caught_by"] = [p for p, r in meta[K].items() if r["rc"] == 1 and r["violations"] > 0]
json.dump(meta, open(f"{d}/meta.json", "w"), indent=1)
print(name, "caught_by", meta["caught_by"])
