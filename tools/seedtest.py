#!/usr/bin/env python3
"""Confirm a seeded breaking change and run checks against it, in a scratch worktree of /repo (removed afterwards).

usage: tools/seedtest.py <diff> <demo.py> <Cxx> [<Cyy> ...]     prints a JSON record."""
import json, os, subprocess, sys, tempfile, shutil, time

def sh(cmd, env=None, timeout=1800, cwd=None):
    p = subprocess.run(cmd, shell=True, capture_output=True, text=True, env=env, timeout=timeout, cwd=cwd)
    return p.returncode, (p.stdout + p.stderr)

def main():
    diff, demo, pids = sys.argv[1], sys.argv[2], sys.argv[3:]
    wt = tempfile.mkdtemp(prefix="seedwt_", dir="/tmp")
    os.rmdir(wt)
    rec = {"diff": diff, "demo": demo}
    try:
        rc, out = sh(f"git -C /repo worktree add --detach {wt} HEAD")
        assert rc == 0, out
        env = dict(os.environ, PYTHONPATH=f"{wt}/src", PYTHONHASHSEED="0")
        rc0, o0 = sh(f"/venv/bin/python -W ignore {demo}", env=env, cwd=wt, timeout=600)
        rec["demo_clean_rc"] = rc0
        rc, out = sh(f"git -C {wt} apply {diff}")
        rec["applies"] = rc == 0
        if rc != 0:
            rec["apply_error"] = out[-500:]
            return rec
        rc, out = sh("/venv/bin/python -m pytest -q -p no:cacheprovider 2>&1 | tail -1", env=env, cwd=wt, timeout=900)
        rec["suite"] = out.strip().splitlines()[-1] if out.strip() else ""
        rc1, o1 = sh(f"/venv/bin/python -W ignore {demo}", env=env, cwd=wt, timeout=600)
        rec["demo_mutant_rc"] = rc1
        rec["demo_mutant_tail"] = o1.strip().splitlines()[-1][:300] if o1.strip() else ""
        rec["checks"] = {}
        for pid in pids:
            t = time.time()
            e2 = dict(os.environ, VERIF_REPO=wt, VERIF_OUT=wt + "_out")
            rc, out = sh(f"/verif/check {pid} quick", env=e2, cwd="/verif", timeout=1800)
            lines = [l for l in out.splitlines() if l.startswith("VIOLATION") or l.startswith("KNOWN-FINDING")]
            keys = []
            for l in lines:
                if l.startswith("VIOLATION") and "replay=" in l:
                    rp = l.split("replay=")[1].split()[0]
                    try:
                        keys.append(json.load(open(rp))["key"] + (" [no-failing-input-found]" if "no-failing-input-found" in l else ""))
                    except Exception:
                        pass
            rec["checks"][pid] = {"rc": rc, "violations": sum(l.startswith("VIOLATION") for l in lines), "keys": keys[:6], "wall_s": round(time.time() - t, 1)}
        return rec
    finally:
        sh(f"git -C /repo worktree remove --force {wt}")
        shutil.rmtree(wt, ignore_errors=True)
        shutil.rmtree(wt + "_out", ignore_errors=True)
        sh("git -C /repo worktree prune")
        print(json.dumps(rec, indent=1))

if __name__ == "__main__":
    main()
