#!/usr/bin/env python3
"""tools/seedneeds.py: fills `needs_to_manifest` of seeded/*/meta.json that still carry the placeholder 'round N; see demo docstring'
from the first paragraph of the demo's module docstring."""
import ast, glob, json, re
for f in sorted(glob.glob("/verif/seeded/*/meta.json")):
    m = json.load(open(f))
    mm = re.match(r"(round \d+); see demo docstring$", m.get("needs_to_manifest", ""))
    if not mm:
        continue
    try:
        doc = ast.get_docstring(ast.parse(open(f.replace("meta.json", "demo.py")).read())) or ""
    except SyntaxError:
        doc = ""
    para = " ".join(doc.strip().split("\n\n")[0].split())
    if len(para) < 60 and len(doc.strip().split("\n\n")) > 1:
        para += " " + " ".join(doc.strip().split("\n\n")[1].split())
    m["needs_to_manifest"] = f"{mm.group(1)}: {para[:600]}" if para else m["needs_to_manifest"]
    json.dump(m, open(f, "w"), indent=1)
    print(f.split("/")[-2], "|", m["needs_to_manifest"][:110])
