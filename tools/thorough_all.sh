#!/bin/bash
./check setup > /dev/null 2>&1
for p in ${@:-C01 C02 C03 C04 C05 C06 C07 C08 C09 C10 C11 C12 C13 C14 C15 C16 C17 C18 C19}; do
  out=$(VERIF_SEED=${SEED:-0} ./check $p thorough 2>&1 | grep -v WARNING)
  echo "$out" | grep -E "^VIOLATION" | head -5
  echo "$out" | tail -1
  for f in $(echo "$out" | grep -E "^VIOLATION" | sed 's/.*replay=\([^ ]*\).*/\1/' | head -3); do python3 -c "
import json,sys; d=json.load(open('$f')); print('   ', d['kind'], d['key'], '|', str(d['what'])[:300])"; done
done
