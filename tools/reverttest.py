#!/usr/bin/env python3
"""tools/reverttest.py [N parallel]: for every `fixed:` entry of known_findings.json, re-introduce the defect (git revert -n of the fix commit
in a scratch worktree of /repo at HEAD), run the unedited suite there and the property's quick check against it (VERIF_REPO / VERIF_OUT
scratch).  A fixed entry suppresses nothing: the check must report the violation again.  Prints one line per entry and writes
reverts/RESULTS.json.  Scratch worktrees are removed."""
import json, os, re, subprocess, sys, tempfile
from concurrent.futures import ThreadPoolExecutor

K = json.load(open("/verif/known_findings.json"))
ENT = []
for f in K["fixed"]:
    m = re.match(r"fixed: property=(C\d\d) ([0-9a-f]{7}) (.*)", f)
    ENT.append((m.group(1), m.group(2), m.group(3)))


def one(ent):
    prop, commit, what = ent
    wt = tempfile.mkdtemp(prefix=f"spox_rev_{prop}_{commit}_", dir="/tmp")
    os.rmdir(wt)
    rec = {"property": prop, "fix_commit": commit, "what": what[:160]}
    try:
        subprocess.run(["git", "-C", "/repo", "worktree", "add", "--detach", wt, "HEAD", "-q"], check=True, capture_output=True)
        r = subprocess.run(["git", "-C", wt, "revert", "-n", commit], capture_output=True, text=True)
        if r.returncode != 0:
            rec["reverts_cleanly"] = False
            rec["note"] = "later commits touch the same lines: " + (r.stderr or r.stdout).strip().splitlines()[-1][:160]
            return rec
        rec["reverts_cleanly"] = True
        env = dict(os.environ, PYTHONPATH=wt + "/src")
        t = subprocess.run(["/venv/bin/python", "-m", "pytest", "-q", "-p", "no:cacheprovider", ], cwd=wt, env=env, capture_output=True, text=True)
        rec["suite"] = ([l for l in t.stdout.splitlines() if " passed" in l or " failed" in l or " error" in l] or ["?"])[-1].strip("= ")[:80]
        e2 = dict(os.environ, VERIF_REPO=wt, VERIF_OUT=wt + "_out")
        c = subprocess.run(["/verif/check", prop, "quick"], cwd="/verif", env=e2, capture_output=True, text=True)
        lines = [l for l in c.stdout.splitlines() if l.startswith("VIOLATION")]
        keys = []
        for l in lines[:6]:
            mm = re.search(r"replay=(\S+)", l)
            try:
                keys.append(json.load(open(mm.group(1)))["key"] + (" [no-failing-input-found]" if l.rstrip().endswith("no-failing-input-found") else ""))
            except Exception:  # noqa: BLE001
                pass
        rec.update(check_rc=c.returncode, violations=len(lines), keys=keys[:4])
        return rec
    finally:
        subprocess.run(["git", "-C", "/repo", "worktree", "remove", "--force", wt], capture_output=True)
        subprocess.run(["rm", "-rf", wt, wt + "_out"])


if __name__ == "__main__":
    n = int(sys.argv[1]) if len(sys.argv) > 1 else 4
    with ThreadPoolExecutor(n) as ex:
        res = list(ex.map(one, ENT))
    os.makedirs("/verif/reverts", exist_ok=True)
    json.dump(res, open("/verif/reverts/RESULTS.json", "w"), indent=1)
    for r in res:
        if not r.get("reverts_cleanly"):
            print(r["property"], r["fix_commit"], "NOT-REVERTIBLE", r.get("note", "")[:100])
        else:
            print(r["property"], r["fix_commit"], "REPORTED" if r["check_rc"] == 1 and r["violations"] else "MISSED", r["suite"][:44], r["keys"][:2])
