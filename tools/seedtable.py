#!/usr/bin/env python3
"""Prints the table of seeded breaking changes from seeded/*/meta.json (markdown)."""
import glob, json, os
rows = []
for d in sorted(glob.glob("/verif/seeded/*/meta.json")):
    m = json.load(open(d)); name = os.path.basename(os.path.dirname(d))
    checks = m.get("checks_against_change (VERIF_REPO=<scratch worktree with patch> ./check <id> quick)") or {}
    keys = "; ".join(f"{p}: {', '.join(k.split(' [')[0] for k in r['keys'][:2])}" + (" (no-failing-input-found)" if r['keys'] and all('no-failing-input-found' in k for k in r['keys']) else "")
                     for p, r in checks.items() if r["rc"] == 1)
    rows.append(f"| {name} | {m['breaks_property']} | {m['needs_to_manifest'][:150]} | {'yes' if m['confirmed'] else 'NO'} | {', '.join(m['caught_by']) or '—'} | {keys[:200]} |")
print("| id | property | needs to manifest | confirmed | caught by | reported keys |\n|---|---|---|---|---|---|")
print("\n".join(rows))
