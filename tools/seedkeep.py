#!/usr/bin/env python3
"""tools/seedkeep.py <name> <property> <diff> <demo> <needs-text> <checks...>: confirm (seedtest) and store under seeded/<name>/."""
import json, os, shutil, subprocess, sys
name, prop, diff, demo, needs, pids = sys.argv[1], sys.argv[2], sys.argv[3], sys.argv[4], sys.argv[5], sys.argv[6:]
out = subprocess.run([sys.executable, "/verif/tools/seedtest.py", diff, demo] + pids, capture_output=True, text=True).stdout
rec = json.loads(out[out.index("{"):])
d = f"/verif/seeded/{name}"
os.makedirs(d, exist_ok=True)
shutil.copy(diff, f"{d}/patch.diff"); shutil.copy(demo, f"{d}/demo.py")
confirmed = rec.get("applies") and rec.get("demo_clean_rc") == 0 and rec.get("demo_mutant_rc") not in (0, None) and rec.get("suite", "").startswith("517 passed, 3 skipped, 1 xfailed, 1 xpassed")
meta = {"breaks_property": prop, "needs_to_manifest": needs, "confirmed": bool(confirmed),
        "what_was_run": {"suite_with_change (PYTHONPATH=<worktree>/src pytest)": rec.get("suite"), "demo_exit_clean_tree": rec.get("demo_clean_rc"),
                         "demo_exit_with_change": rec.get("demo_mutant_rc"), "demo_message": rec.get("demo_mutant_tail")},
        "checks_against_change (VERIF_REPO=<scratch worktree with patch> ./check <id> quick)": rec.get("checks"),
        "caught_by": [p for p, r in (rec.get("checks") or {}).items() if r["rc"] == 1 and r["violations"] > 0]}
json.dump(meta, open(f"{d}/meta.json", "w"), indent=1)
print(name, "confirmed" if confirmed else "NOT CONFIRMED", "caught_by", meta["caught_by"], {p: r["keys"][:2] for p, r in (rec.get("checks") or {}).items()})
