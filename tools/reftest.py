#!/usr/bin/env python3
"""tools/reftest.py <diff> <checks...>: apply a HARMLESS refactoring to a scratch worktree of /repo and run the named checks (quick)
against it; every non-zero exit is a false alarm of the machinery.  Prints a JSON record."""
import json, os, shutil, subprocess, sys, tempfile, time

def sh(cmd, env=None, cwd=None, timeout=3600):
    p = subprocess.run(cmd, shell=True, env=env, cwd=cwd, capture_output=True, text=True, timeout=timeout)
    return p.returncode, p.stdout + p.stderr

diff, pids = sys.argv[1], sys.argv[2:]
wt = tempfile.mkdtemp(prefix="spox_ref_", dir="/tmp")
os.rmdir(wt)
rec = {"diff": diff, "checks": {}}
try:
    sh(f"git -C /repo worktree add -q --detach {wt} HEAD")
    rc, out = sh(f"git -C {wt} apply {diff}")
    rec["applies"] = rc == 0
    if rc == 0:
        env = dict(os.environ, PYTHONPATH=f"{wt}/src")
        rc, out = sh("/venv/bin/python -m pytest -q -p no:cacheprovider 2>&1 | tail -1", env=env, cwd=wt, timeout=900)
        rec["suite"] = out.strip().splitlines()[-1] if out.strip() else ""
        for pid in pids:
            t = time.time()
            e2 = dict(os.environ, VERIF_REPO=wt, VERIF_OUT=wt + "_out")
            rc, out = sh(f"/verif/check {pid} quick", env=e2, cwd="/verif", timeout=1800)
            keys = []
            for l in out.splitlines():
                if l.startswith("VIOLATION") and "replay=" in l:
                    try:
                        d = json.load(open(l.split("replay=")[1].split()[0]))
                        keys.append(d["kind"] + " " + d["key"] + " | " + str(d["what"])[:160])
                    except Exception:
                        keys.append(l[:160])
            rec["checks"][pid] = {"rc": rc, "alarms": keys[:4], "wall_s": round(time.time() - t, 1)}
finally:
    sh(f"git -C /repo worktree remove --force {wt}")
    shutil.rmtree(wt, ignore_errors=True)
    shutil.rmtree(wt + "_out", ignore_errors=True)
print(json.dumps(rec, indent=1))
