(* TensorHeap.v — "captured at the call": an object-heap model of what spox constructors keep of their arguments (C10).

   Mutable Python objects (numpy arrays, lists) live in a heap  oid -> contents.  The caller owns the objects it can
   name ([owned]); a constructor call captures each argument:
     AttrTensor.__init__         value.copy()      -> a fresh array object, private to the attribute
     _AttrIterable.__init__      tuple(value)      -> an immutable tuple of the items
     BaseVars.__post_init__      tuple(value)      -> the same for a variadic input field (items are Vars)
     scalars                     immutable values
   Afterwards the caller runs any sequence of mutations on objects it owns (in-place writes, fill, resize, in-place
   reshape, any other in-place change of an array; list append / clear / setitem / pop / extend / reverse / insert; it
   may also create new objects and mutate those).  What the build later reads (Attr.value for initializers, value
   propagation and shape inference; the input tuple of the node) is [read] of the captured thing.
   Policy [Alias] is the model of a constructor that keeps the caller's object (no copy / no tuple) — used only to show
   that the property is not vacuous.  No proofs in this file. *)
From Coq Require Import NArith ZArith List Bool String.
From Spox Require Import Tensor TensorAttr.
Import ListNotations.
Open Scope N_scope.

Definition oid := N.
Inductive obj :=
| OArr (t : tensor)              (* numpy.ndarray *)
| OList (l : list pyval).        (* list (of ints, floats, strs, Vars, ...) *)

Definition heap := list (oid * obj).          (* newest binding first; a newer binding shadows an older one *)
Record state := mkS { s_heap : heap; s_owned : list oid }.

Definition dom (h : heap) : list oid := map fst h.
Fixpoint lookup (h : heap) (o : oid) : option obj :=
  match h with
  | [] => None
  | (o', ob) :: t => if o' =? o then Some ob else lookup t o
  end.
Definition fresh (h : heap) : oid := 1 + fold_right N.max 0 (dom h).
Definition mem (o : oid) (l : list oid) : bool := existsb (N.eqb o) l.

(* ------------------------------------------------------------------ caller-side mutations *)
Inductive mut :=
| MWrite (o : oid) (i : nat) (w : N)            (* a.flat[i] = w           (numeric arrays) *)
| MWriteStr (o : oid) (i : nat) (s : list N)    (* a.flat[i] = "..."       (string arrays) *)
| MFill (o : oid) (w : N)                       (* a.fill(w) / a[...] = w *)
| MResize (o : oid) (dims : list N)             (* a.resize(dims, refcheck=False): truncate / zero-pad in C order *)
| MReshape (o : oid) (dims : list N)            (* a.shape = dims  (same number of elements) *)
| MSetArr (o : oid) (t : tensor)                (* any other in-place change of the array object *)
| LAppend (o : oid) (v : pyval)
| LClear (o : oid)
| LSetItem (o : oid) (i : nat) (v : pyval)
| LPop (o : oid)
| LExtend (o : oid) (l : list pyval)
| LReverse (o : oid)
| LInsert (o : oid) (i : nat) (v : pyval)
| MSetObj (o : oid) (ob : obj)                  (* anything else the caller may do to an object it can name *)
| MAlloc (ob : obj).                            (* the caller creates a new object (and owns it) *)

Definition target (m : mut) : option oid :=
  match m with
  | MWrite o _ _ | MWriteStr o _ _ | MFill o _ | MResize o _ | MReshape o _ | MSetArr o _ | LAppend o _ | LClear o
  | LSetItem o _ _ | LPop o | LExtend o _ | LReverse o | LInsert o _ _ | MSetObj o _ => Some o
  | MAlloc _ => None
  end.

Fixpoint set_nth {A} (l : list A) (i : nat) (a : A) : list A :=
  match l, i with
  | [], _ => []
  | _ :: t, O => a :: t
  | x :: t, S i' => x :: set_nth t i' a
  end.
Fixpoint pad_to {A} (n : nat) (z : A) (l : list A) : list A :=
  match n with
  | O => []
  | S n' => match l with [] => z :: pad_to n' z [] | x :: t => x :: pad_to n' z t end
  end.

Definition apply_obj (m : mut) (ob : obj) : obj :=
  match m, ob with
  | MWrite _ i w, OArr (mkT e d (PNum ws)) => OArr (mkT e d (PNum (set_nth ws i w)))
  | MWriteStr _ i s, OArr (mkT e d (PStr ss)) => OArr (mkT e d (PStr (set_nth ss i s)))
  | MFill _ w, OArr (mkT e d (PNum ws)) => OArr (mkT e d (PNum (map (fun _ => w) ws)))
  | MResize _ d', OArr (mkT e d (PNum ws)) => OArr (mkT e d' (PNum (pad_to (N.to_nat (prod d')) 0 ws)))
  | MResize _ d', OArr (mkT e d (PStr ss)) => OArr (mkT e d' (PStr (pad_to (N.to_nat (prod d')) [] ss)))
  | MReshape _ d', OArr (mkT e d p) => if prod d' =? prod d then OArr (mkT e d' p) else ob
  | MSetArr _ t, OArr _ => OArr t
  | LAppend _ v, OList l => OList (l ++ [v])
  | LClear _, OList _ => OList []
  | LSetItem _ i v, OList l => OList (set_nth l i v)
  | LPop _, OList l => OList (removelast l)
  | LExtend _ l', OList l => OList (l ++ l')
  | LReverse _, OList l => OList (rev l)
  | LInsert _ i v, OList l => OList (firstn i l ++ v :: skipn i l)
  | MSetObj _ ob', _ => ob'
  | _, _ => ob                                   (* wrong kind of object: Python raises, nothing changes *)
  end.

Definition step (st : state) (m : mut) : state :=
  match m with
  | MAlloc ob => let o := fresh (s_heap st) in mkS ((o, ob) :: s_heap st) (o :: s_owned st)
  | _ => match target m with
         | Some o => match lookup (s_heap st) o with
                     | Some ob => mkS ((o, apply_obj m ob) :: s_heap st) (s_owned st)
                     | None => st
                     end
         | None => st
         end
  end.
Definition run (st : state) (ms : list mut) : state := fold_left step ms st.

(* the caller can only touch what it owns: a boolean check along the history *)
Definition scoped1 (st : state) (m : mut) : bool :=
  match target m with Some o => mem o (s_owned st) | None => true end.
Fixpoint scoped (st : state) (ms : list mut) : bool :=
  match ms with
  | [] => true
  | m :: r => scoped1 st m && scoped (step st m) r
  end.

(* a sane state: the caller owns only objects that exist *)
Definition state_ok (st : state) : bool := forallb (fun o => mem o (dom (s_heap st))) (s_owned st).

(* ------------------------------------------------------------------ capturing an argument *)
Inductive carg := ARef (o : oid) | AImm (v : pyval).
Inductive cap :=
| CArr (o : oid)                 (* array object held by the attribute *)
| CTuple (items : list pyval)    (* immutable tuple *)
| CImm (v : pyval)
| CListRef (o : oid).            (* list object held by reference — produced by the Alias policy only *)
Inductive policy := Copy | Alias.

Definition capture (pol : policy) (st : state) (a : carg) : state * cap :=
  match a with
  | AImm v => (st, CImm v)
  | ARef o =>
      match lookup (s_heap st) o with
      | Some (OArr t) =>
          match pol with
          | Copy => let o' := fresh (s_heap st) in (mkS ((o', OArr t) :: s_heap st) (s_owned st), CArr o')
          | Alias => (st, CArr o)
          end
      | Some (OList l) => match pol with Copy => (st, CTuple l) | Alias => (st, CListRef o) end
      | None => (st, CImm PNone)
      end
  end.

Fixpoint capture_all (pol : policy) (st : state) (args : list carg) : state * list cap :=
  match args with
  | [] => (st, [])
  | a :: r => let '(st1, c) := capture pol st a in
              let '(st2, cs) := capture_all pol st1 r in (st2, c :: cs)
  end.

(* the Python value a captured thing denotes now / the value an argument denoted at the call *)
Definition obj_val (ob : option obj) : pyval :=
  match ob with Some (OArr t) => PArr t | Some (OList l) => PList l | None => PNone end.
Definition read (h : heap) (c : cap) : pyval :=
  match c with
  | CArr o | CListRef o => obj_val (lookup h o)
  | CTuple l => PList l
  | CImm v => v
  end.
Definition snapshot (h : heap) (a : carg) : pyval :=
  match a with ARef o => obj_val (lookup h o) | AImm v => v end.

Definition observe (st : state) (cs : list cap) : list pyval := map (read (s_heap st)) cs.

(* ------------------------------------------------------------------ an operator call and what the build emits for it *)
(* attribute arguments (kind, ONNX name, argument) + one variadic input field (a list object of Vars, or none) *)
Record call := mkCall { k_attrs : list (akind * string * carg); k_inputs : option oid }.

Record built := mkB {
  b_attrs : list (res aproto);        (* AttributeProtos: built and cached at the call (Attr._cached_onnx) *)
  b_live : list pyval;                (* Attr.value as read at build time: initializers, inference, value propagation *)
  b_inputs : pyval                    (* the node's input tuple as read at build time *)
}.

Record node := mkN { n_kinds : list (akind * string); n_cached : list (res aproto); n_caps : list cap; n_in : cap }.

Fixpoint zip_attr (fixed : bool) (ks : list (akind * string)) (vs : list pyval) : list (res aproto) :=
  match ks, vs with
  | k :: ks', v :: vs' => make_attr fixed (fst k) (snd k) v :: zip_attr fixed ks' vs'
  | _, _ => []
  end.

Definition construct (pol : policy) (fixed : bool) (st : state) (c : call) : state * node :=
  let '(st1, caps) := capture_all pol st (map snd (k_attrs c)) in
  let '(st2, cin) := match k_inputs c with Some o => capture pol st1 (ARef o) | None => (st1, CTuple []) end in
  (st2, mkN (map fst (k_attrs c)) (zip_attr fixed (map fst (k_attrs c)) (observe st1 caps)) caps cin).

Definition build (st : state) (n : node) : built :=
  mkB (n_cached n) (observe st (n_caps n)) (read (s_heap st) (n_in n)).

(* what the build must emit: everything computed from the arguments as they were at the call *)
Definition expected (fixed : bool) (st0 : state) (c : call) : built :=
  let vals := map (snapshot (s_heap st0)) (map snd (k_attrs c)) in
  mkB (zip_attr fixed (map fst (k_attrs c)) vals) vals
      (match k_inputs c with Some o => snapshot (s_heap st0) (ARef o) | None => PList [] end).

(* the caller passes objects it owns *)
Definition arg_ok (st : state) (a : carg) : bool := match a with ARef o => mem o (s_owned st) | AImm _ => true end.
Definition call_ok (st : state) (c : call) : bool :=
  forallb (arg_ok st) (map snd (k_attrs c)) && match k_inputs c with Some o => mem o (s_owned st) | None => true end.

(* ------------------------------------------------------------------ equality tests for the correspondence run *)
Section ListEqb.
  Variable A : Type.
  Variable eqb : A -> A -> bool.
  Fixpoint leqb (a b : list A) : bool :=
    match a, b with
    | [], [] => true
    | x :: a', y :: b' => eqb x y && leqb a' b'
    | _, _ => false
    end.
End ListEqb.

Fixpoint pyval_eqb (a b : pyval) : bool :=
  match a, b with
  | PInt x, PInt y | PNpInt x, PNpInt y => Z.eqb x y
  | PBool x, PBool y => Bool.eqb x y
  | PFloat x, PFloat y | PGraph x, PGraph y | PVar x, PVar y => x =? y
  | PText x, PText y | PBytes x, PBytes y => list_eqb N.eqb x y
  | PNone, PNone | PDtypeBad, PDtypeBad => true
  | PArr x, PArr y => tensor_eqb x y
  | PType x, PType y => stype_eqb x y
  | PDtype x, PDtype y => elem_eqb x y
  | PList x, PList y => leqb pyval pyval_eqb x y
  | POther x, POther y => Bool.eqb x y
  | _, _ => false
  end.

Definition res_either (model_fixed model_pinned real : res aproto) : bool :=
  res_eqb model_fixed real || res_eqb model_pinned real.

(* compare what the model's build yields with what was observed on the implementation *)
Definition built_matches (bf bp : built) (attrs : list (res aproto)) (live : list pyval) (inputs : pyval) : bool * bool * bool :=
  (leqb _ res_eqb (b_attrs bf) attrs || leqb _ res_eqb (b_attrs bp) attrs,
   leqb _ pyval_eqb (b_live bf) live,
   pyval_eqb (b_inputs bf) inputs).
