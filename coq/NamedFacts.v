(* NamedFacts.v — executing the emitted model by NAMES equals executing its name-erased plan, whenever the names are the image of
   the program's Vars under one injective table (names_ok).  Together with SemFacts.plan_sem this gives the end-to-end statement:
   the emitted ONNX graph structure, executed as ONNX executes it, computes the meaning of the requested Vars. *)
From Coq Require Import List String Arith Bool Lia.
From Spox Require Import Base IR Show Build Sem Plan Named Validate BuildFacts SemFacts FuncFacts.
Import ListNotations.
Open Scope list_scope.

(* ---------- induction principle for the nested emitted structure ---------- *)
Section MInd.
Variables (P : mgraph -> Prop) (Q : mnode -> Prop).
Hypothesis HG : forall gi b go_, Forall Q b -> P (MGraph gi b go_).
Hypothesis HN : forall nm op d u i o al,
  Forall (fun ka : String.string * option mgraph => match snd ka with Some g => P g | None => True end) al -> Q (MNode nm op d u i o al).
Hypothesis HI : forall nm u, Q (MInit nm u).
Hypothesis HT : forall nm u i o, Q (MIntro nm u i o).
Hypothesis HL : forall nm u i o b, Q (MInline nm u i o b).
Fixpoint mgraph_ind' (g : mgraph) : P g :=
  match g with MGraph gi b go_ =>
    HG gi b go_ ((fix go (l : list mnode) : Forall Q l :=
                    match l with [] => Forall_nil _ | n :: t => Forall_cons n (mnode_ind' n) (go t) end) b) end
with mnode_ind' (n : mnode) : Q n :=
  match n with
  | MNode nm op d u i o al =>
      HN nm op d u i o al
        ((fix go (l : list (String.string * option mgraph)) :
            Forall (fun ka : String.string * option mgraph => match snd ka with Some g => P g | None => True end) l :=
            match l with
            | [] => Forall_nil _
            | (k, Some g) :: t => Forall_cons (k, Some g) (mgraph_ind' g) (go t)
            | (k, None) :: t => Forall_cons (k, None) I (go t)
            end) al)
  | MInit nm u => HI nm u
  | MIntro nm u i o => HT nm u i o
  | MInline nm u i o b => HL nm u i o b
  end.
End MInd.

(* ---------- lookups ---------- *)
Section Lookups.
Variable val : Type.
Variable dv : val.
Notation lookupn := (lookupn val dv).
Notation bindn_from := (bindn_from val dv).

Lemma lookupn_bind_notin s names vals e : forall k, ~ In s names -> lookupn s (bindn_from k names vals ++ e)%list = lookupn s e.
Proof. induction names as [|x t IH]; intros k H; simpl; [reflexivity|].
  destruct (String.eqb_spec s x) as [->|Hn]; [exfalso; apply H; now left|]. apply IH. intros Hc. apply H. now right. Qed.
Lemma lookupn_bind_in names vals e : NoDup names -> forall k j, j < List.length names ->
  lookupn (nth j names ""%string) (bindn_from k names vals ++ e)%list = nth (k + j) vals dv.
Proof. induction 1 as [|x t Hnin Hnd IH]; intros k j Hj; simpl in *; [lia|].
  destruct j as [|j].
  - rewrite String.eqb_refl. now rewrite Nat.add_0_r.
  - destruct (String.eqb_spec (nth j t ""%string) x) as [E|Hn].
    + exfalso. apply Hnin. rewrite <- E. apply nth_In. lia.
    + rewrite IH by lia. f_equal. lia. Qed.
End Lookups.

Lemma lookup_In {A B} (eqb : A -> A -> bool) (Heq : forall a b, reflect (a = b) (eqb a b)) k (l : list (A * B)) v :
  lookup eqb k l = Some v -> In (k, v) l.
Proof. unfold lookup. destruct (find (fun kv => eqb k (fst kv)) l) as [[k' v']|] eqn:E; simpl; [|discriminate].
  intros H. inversion H; subst. apply find_some in E. destruct E as [Hin He]. simpl in He. destruct (Heq k k'); [subst; assumption|discriminate]. Qed.
Lemma In_lookup {A B} (eqb : A -> A -> bool) (Heq : forall a b, reflect (a = b) (eqb a b)) k (l : list (A * B)) v :
  NoDup (map fst l) -> In (k, v) l -> lookup eqb k l = Some v.
Proof. induction l as [|[k' v'] t IH]; simpl; intros Hnd Hin; [contradiction|]. inversion Hnd as [|a m Hnin Hnd']; subst.
  unfold lookup. simpl. destruct (Heq k k') as [->|Hne].
  - destruct Hin as [E|Hin]; [inversion E; reflexivity|]. exfalso. apply Hnin. apply in_map_iff. exists (k', v). auto.
  - destruct Hin as [E|Hin]; [inversion E; congruence|]. apply IH; assumption. Qed.

Section NameTable.
Variable tbl : list (var * String.string).
Hypothesis Hinj : table_inj tbl = true.
Notation nm := (nm_of tbl).

Lemma nm_In x : nm x <> ""%string -> In (x, nm x) tbl.
Proof. unfold nm_of. destruct (lookup var_eqb x tbl) as [s|] eqn:E; [|congruence]. intros _. now apply (lookup_In var_eqb var_eqb_spec). Qed.
Lemma nm_inj x y : nm x = nm y -> nm x <> ""%string -> x = y.
Proof. intros E Hx. pose proof (nm_In x Hx) as H1. assert (Hy : nm y <> ""%string) by congruence. pose proof (nm_In y Hy) as H2.
  unfold table_inj in Hinj. apply andb_prop in Hinj. destruct Hinj as [_ Hs]. apply (nodupb_NoDup String.eqb string_eqb_spec) in Hs.
  rewrite <- E in H2. pose proof (NoDup_map_inj snd tbl (x, nm x) (y, nm x) Hs H1 H2 eq_refl) as He. now inversion He. Qed.
End NameTable.

Section Main.
Variable p : prog.
Variable main : nat.
Variable val : Type.
Variable dv : val.
Variable opsem : nat -> list (option val) -> list (clos val) -> list val.
Hypothesis opsem_ext : forall n ivs c1 c2, Forall2 (fun a b => forall av, a av = b av) c1 c2 -> opsem n ivs c1 = opsem n ivs c2.
Variable tbl : list (var * String.string).
Hypothesis Hinj : table_inj tbl = true.

Notation nm := (nm_of tbl).
Notation insn := (insP p main).
Notation subsn := (subsP p main).
Notation gargsn := (gargsP p).
Notation gresn := (gresP p).
Notation noutsn := (noutsP p).
Notation isarg := (is_argP p).
Notation ops := (opsemP val dv opsem).
Notation rgraph := (run_graph val dv insn gargsn gresn noutsn ops).
Notation pstep := (step val dv insn noutsn ops).
Notation rnamed := (run_named p main val dv opsem).
Notation nstepN := (nstep p main val dv opsem).
Notation lookupn := (lookupn val dv).
Notation lookupd := (lookupd val dv).
Notation bindn := (bindn val dv).
Notation bindv := (bindv val dv).
Notation in_vals := (in_vals val dv).
Notation wfP := (wf isarg insn subsn gargsn gresn noutsn).

Definition R (D : list var) (ev : venv val) (en : nenv val) : Prop :=
  forall x, In x D -> nm x <> ""%string /\ lookupn (nm x) en = lookupd x ev.

Lemma ops_ext u ivs c1 c2 : Forall2 (fun a b => forall av, a av = b av) c1 c2 -> ops u ivs c1 = ops u ivs c2.
Proof. destruct u; simpl; intros H; [now apply opsem_ext|reflexivity]. Qed.

Lemma in_vals_ok D ev en l : (forall x, In (Some x) l -> In x D) -> R D ev en ->
  in_vals en (opt_names tbl l) = map (option_map (fun x => lookupd x ev)) l.
Proof.
  induction l as [|[x|] t IH]; intros Hin HR; simpl; [reflexivity| |].
  - destruct (HR x (Hin _ (or_introl eq_refl))) as [Hne Hl].
    destruct (String.eqb_spec (nm x) ""%string) as [E|_]; [contradiction|]. rewrite Hl. f_equal. apply IH; auto. intros y Hy. apply Hin. now right.
  - f_equal. apply IH; auto. intros y Hy. apply Hin. now right.
Qed.

Lemma nonempties_spec l : nonempties l = true -> forall s, In s l -> s <> ""%string.
Proof. unfold nonempties. rewrite forallb_forall. intros H s Hs E. specialize (H s Hs). subst. discriminate. Qed.

(* binding fresh Vars on the plan side and their names on the named side keeps the two environments related *)
Lemma R_extend D ev en xs names (vnew : venv val) vals :
  names = map nm xs -> nonempties names = true -> NoDup xs -> (forall x, In x xs -> ~ In x D) -> map fst vnew = xs ->
  (forall i, i < List.length xs -> forall d, lookupd (nth i xs d) (vnew ++ ev) = nth i vals dv) ->
  R D ev en -> R (xs ++ D) (vnew ++ ev) (bindn names vals ++ en).
Proof.
  intros En Hne Hnd Hfresh Hdom Hlook HR x Hx.
  assert (Hnames_nd : NoDup names).
  { subst names. clear - Hnd Hne Hinj. induction xs as [|a t IH]; simpl in *; [constructor|].
    apply andb_prop in Hne. destruct Hne as [Ha Ht]. inversion Hnd as [|b l Hnin Hnd']; subst. constructor; [|auto].
    intros Hc. apply in_map_iff in Hc. destruct Hc as [y [Ey Hy]]. apply negb_true_iff, String.eqb_neq in Ha.
    assert (y = a) by (apply (nm_inj tbl Hinj); [assumption|congruence]). subst. contradiction. }
  apply in_app_or in Hx. destruct Hx as [Hx|Hx].
  - destruct (In_nth _ _ x Hx) as [i [Hi Ei]]. split.
    + apply (nonempties_spec names Hne). subst names. now apply in_map.
    + assert (Enm : nm x = nth i names ""%string) by (subst names; rewrite <- Ei; symmetry; rewrite (nth_indep _ _ (nm x)) by (now rewrite map_length); apply map_nth).
      rewrite Enm. unfold Named.bindn. rewrite (lookupn_bind_in val dv names vals en Hnames_nd 0 i) by (subst names; now rewrite map_length).
      rewrite <- Ei at 1. rewrite Hlook by assumption. reflexivity.
  - destruct (HR x Hx) as [Hnx Hl]. split; [assumption|].
    unfold Named.bindn. rewrite lookupn_bind_notin.
    + rewrite Hl. symmetry. apply (lookupd_app_notin val dv). rewrite Hdom. intros Hc. exact (Hfresh x Hc Hx).
    + subst names. intros Hc. apply in_map_iff in Hc. destruct Hc as [y [Ey Hy]].
      assert (x = y) by (apply (nm_inj tbl Hinj); [congruence|assumption]). subst. exact (Hfresh y Hy Hx).
Qed.

Lemma outvars_nth u i d : i < noutsn u -> nth i (outvars noutsn u) d = V u i.
Proof. intros H. unfold outvars. rewrite (nth_indep _ d (V u 0)) by (now rewrite map_length, seq_length).
  rewrite (map_nth (V u)). now rewrite seq_nth. Qed.
Lemma outvars_NoDup u : NoDup (outvars noutsn u).
Proof. unfold outvars. generalize (seq_NoDup (noutsn u) 0). generalize (seq 0 (noutsn u)). induction l as [|a t IH]; simpl; intros H; [constructor|].
  inversion H as [|b m Hnin Hnd]; subst. constructor; [|auto]. intros Hc. apply in_map_iff in Hc. destruct Hc as [y [Ey Hy]]. inversion Ey; subst. contradiction. Qed.
Lemma outvars_In u x : In x (outvars noutsn u) -> exists o, x = V u o.
Proof. unfold outvars. intros H. apply in_map_iff in H. destruct H as [o [E _]]. eauto. Qed.

Lemma bindv_lookup xs : NoDup xs -> forall av e i, i < List.length xs -> forall d, lookupd (nth i xs d) (bindv xs av ++ e) = nth i av dv.
Proof.
  induction 1 as [|x t Hnin Hnd IH]; intros av e i Hi d; simpl in *; [lia|].
  destruct i as [|i].
  - destruct (var_eqb_spec x x); [|congruence]. destruct av; reflexivity.
  - destruct (var_eqb_spec (nth i t d) x) as [E|_]; [exfalso; apply Hnin; rewrite <- E; apply nth_In; lia|].
    rewrite IH by lia. destruct av; simpl; [destruct i; reflexivity|reflexivity].
Qed.

(* ---------- the per-node and per-graph statements ---------- *)
Definition wf_node (A D : list var) (nd : nref * list plan) : Prop :=
  isarg (fst nd) = false /\ (forall x, In (Some x) (insn (fst nd)) -> In x D) /\ map pgid (snd nd) = subsn (fst nd) /\
  (forall o, ~ In (V (fst nd) o) D) /\ fold_right (fun s acc => wfP s A D /\ acc) True (snd nd).

Definition Pg (g : mgraph) : Prop := forall gid A ev en,
  graph_names_ok p main tbl gid g = true -> wfP (plan_of_graph p gid g) A (map fst ev) -> R (map fst ev) ev en ->
  forall av, rnamed g en av = rgraph (plan_of_graph p gid g) ev av.
Definition Qn (n : mnode) : Prop := forall A ev en,
  node_names_ok p main tbl n = true -> wf_node A (map fst ev) (plan_of_node p n) -> R (map fst ev) ev en ->
  R (map fst (pstep rgraph ev (plan_of_node p n))) (pstep rgraph ev (plan_of_node p n)) (nstepN en n).

Lemma pstep_dom ev nd : map fst (pstep rgraph ev nd) = outvars noutsn (fst nd) ++ map fst ev.
Proof. unfold Sem.step. rewrite map_app, map_map. reflexivity. Qed.

(* binding the outputs of a node: common tail of all four node kinds *)
Lemma bind_outs_ok u outs vals ev en :
  outs_ok p tbl u outs = true -> (forall o, ~ In (V u o) (map fst ev)) -> R (map fst ev) ev en ->
  R (outvars noutsn u ++ map fst ev)
    (map (fun o => (V u o, nth o vals dv)) (seq 0 (noutsn u)) ++ ev) (bindn outs vals ++ en).
Proof.
  intros Hok Hfresh HR. unfold outs_ok in Hok. apply andb_prop in Hok. destruct Hok as [Hn Hne].
  apply (list_eqb_eq String.eqb string_eqb_spec) in Hn.
  apply (R_extend (map fst ev) ev en (outvars noutsn u) outs (map (fun o => (V u o, nth o vals dv)) (seq 0 (noutsn u))) vals); auto.
  - apply outvars_NoDup.
  - intros x Hx Hc. destruct (outvars_In u x Hx) as [o ->]. exact (Hfresh o Hc).
  - rewrite map_map. reflexivity.
  - intros i Hi d. unfold outvars in Hi. rewrite map_length, seq_length in Hi. rewrite outvars_nth by assumption.
    exact (lookupd_outbind val dv u vals ev (noutsn u) 0 i (conj (Nat.le_0_l i) Hi)).
Qed.

Lemma Qn_MNode nm0 op d u i o al :
  Forall (fun ka : String.string * option mgraph => match snd ka with Some g => Pg g | None => True end) al -> Qn (MNode nm0 op d u i o al).
Proof.
  intros HF A ev en Hok Hwf HR. cbn [plan_of_node] in *. cbn [node_names_ok] in Hok.
  apply andb_prop in Hok. destruct Hok as [Hok Hsubs]. apply andb_prop in Hok. destruct Hok as [Hins Houts].
  apply (list_eqb_eq String.eqb string_eqb_spec) in Hins.
  destruct Hwf as (Harg & Hin & Hsp & Hfresh & Hsw). cbn [fst snd] in *.
  rewrite pstep_dom. cbn [fst]. unfold Sem.step. cbn [fst snd nstep].
  rewrite Hins. rewrite (in_vals_ok (map fst ev) ev en (insn u) Hin HR).
  match goal with |- R _ (map _ (seq 0 _) ++ ev) (bindn o (ops u ?iv ?c1) ++ en) =>
    assert (Ecl : ops u iv c1 = ops u iv (map (fun s av => rgraph s ev av)
        ((fix go (l : list (String.string * option mgraph)) : list plan :=
            match l with [] => [] | (k, Some g) :: t => plan_of_graph p (sub_id p u k) g :: go t | (_, None) :: t => go t end) al))) end.
  { apply ops_ext. clear Hins Houts Hsp.
    induction al as [|[k [g|]] t IH]; cbn [fold_right] in *.
    - constructor.
    - inversion HF as [|x l Hg Ht]; subst. cbn [snd] in Hg. apply andb_prop in Hsubs. destruct Hsubs as [Hg_ok Ht_ok].
      destruct Hsw as [Hw Hws]. constructor; [|apply IH; assumption].
      intros av. apply (Hg (sub_id p u k) A ev en Hg_ok Hw HR).
    - inversion HF as [|x l Hg Ht]; subst. apply IH; assumption. }
  rewrite Ecl. apply bind_outs_ok; assumption.
Qed.

Lemma Qn_MInit nm0 u : Qn (MInit nm0 u).
Proof.
  intros A ev en Hok Hwf HR. cbn [plan_of_node node_names_ok] in *. apply andb_prop in Hok. destruct Hok as [Houts Hins0].
  destruct Hwf as (Harg & Hin & Hsp & Hfresh & Hsw). cbn [fst snd] in *.
  rewrite pstep_dom. cbn [fst]. unfold Sem.step. cbn [fst snd nstep map].
  destruct (insn u) eqn:Ei; [|discriminate]. cbn [map].
  apply bind_outs_ok; assumption.
Qed.

Lemma Qn_MIntro nm0 u i o : Qn (MIntro nm0 u i o).
Proof.
  intros A ev en Hok Hwf HR. cbn [plan_of_node node_names_ok] in *. apply andb_prop in Hok. destruct Hok as [Hins Houts].
  apply (list_eqb_eq String.eqb string_eqb_spec) in Hins.
  destruct Hwf as (Harg & Hin & Hsp & Hfresh & Hsw). cbn [fst snd] in *.
  rewrite pstep_dom. cbn [fst]. unfold Sem.step. cbn [fst snd nstep map].
  rewrite Hins, (in_vals_ok (map fst ev) ev en (insn u) Hin HR).
  apply bind_outs_ok; assumption.
Qed.

Lemma Qn_MInline nm0 u i o b : Qn (MInline nm0 u i o b).
Proof.
  intros A ev en Hok Hwf HR. cbn [plan_of_node node_names_ok] in *. apply andb_prop in Hok. destruct Hok as [Hins Houts].
  apply (list_eqb_eq String.eqb string_eqb_spec) in Hins.
  destruct Hwf as (Harg & Hin & Hsp & Hfresh & Hsw). cbn [fst snd] in *.
  rewrite pstep_dom. cbn [fst]. unfold Sem.step. cbn [fst snd nstep map].
  rewrite Hins, (in_vals_ok (map fst ev) ev en (insn u) Hin HR).
  apply bind_outs_ok; assumption.
Qed.

(* folding the body of a graph *)
Definition nfold (l : list mnode) (e : nenv val) : nenv val :=
  (fix go (l : list mnode) (e : nenv val) {struct l} : nenv val := match l with [] => e | n :: t => go t (nstepN e n) end) l e.
Definition plan_body (l : list mnode) : list (nref * list plan) :=
  (fix go (l : list mnode) : list (nref * list plan) := match l with [] => [] | n :: t => plan_of_node p n :: go t end) l.
Definition body_names_ok (l : list mnode) : bool :=
  (fix go (l : list mnode) : bool := match l with [] => true | n :: t => node_names_ok p main tbl n && go t end) l.

Lemma body_ok gid Ain : forall b ev en,
  Forall Qn b -> body_names_ok b = true ->
  wf_body isarg insn subsn gresn noutsn (fun s => wfP s Ain) gid (map fst ev) (plan_body b) -> R (map fst ev) ev en ->
  R (map fst (fold_left (pstep rgraph) (plan_body b) ev)) (fold_left (pstep rgraph) (plan_body b) ev) (nfold b en) /\
  (forall r, In r (gresn gid) -> In r (map fst (fold_left (pstep rgraph) (plan_body b) ev))).
Proof.
  induction b as [|n t IH]; intros ev en HF Hok Hwf HR.
  - cbn in *. split; assumption.
  - inversion HF as [|x l Hn Ht]; subst.
    change (body_names_ok (n :: t)) with (node_names_ok p main tbl n && body_names_ok t) in Hok.
    apply andb_prop in Hok. destruct Hok as [Hok_n Hok_t].
    change (plan_body (n :: t)) with (plan_of_node p n :: plan_body t) in *.
    cbn [wf_body] in Hwf. destruct Hwf as (Harg & Hin & Hsp & Hfresh & Hsw & Hrest).
    cbn [fold_left]. change (nfold (n :: t) en) with (nfold t (nstepN en n)).
    assert (HR' := Hn Ain ev en Hok_n (conj Harg (conj Hin (conj Hsp (conj Hfresh Hsw)))) HR).
    apply IH; auto. rewrite pstep_dom. exact Hrest.
Qed.

Lemma Pg_MGraph gi b go_ : Forall Qn b -> Pg (MGraph gi b go_).
Proof.
  intros HF gid A ev en Hok Hwf HR av.
  cbn [graph_names_ok] in Hok. apply andb_prop in Hok. destruct Hok as [Hok Hbody].
  apply andb_prop in Hok. destruct Hok as [Hok Hgo]. apply andb_prop in Hok. destruct Hok as [Hgi Hgine].
  apply (list_eqb_eq String.eqb string_eqb_spec) in Hgi. apply (list_eqb_eq String.eqb string_eqb_spec) in Hgo.
  change (plan_of_graph p gid (MGraph gi b go_)) with (PGraph gid (plan_body b)) in *.
  cbn [Sem.wf] in Hwf. destruct Hwf as (Hnd & Hargs & Hwb).
  change (rnamed (MGraph gi b go_) en av) with (map (fun o : String.string * String.string => lookupn (fst o) (nfold b (bindn (map fst gi) av ++ en))) go_).
  cbn [Sem.run_graph].
  assert (HR0 : R (gargsn gid ++ map fst ev) (bindv (gargsn gid) av ++ ev) (bindn (map fst gi) av ++ en)).
  { apply (R_extend (map fst ev) ev en (gargsn gid) (map fst gi) (bindv (gargsn gid) av) av); auto.
    - intros x Hx. destruct (Hargs x Hx) as (_ & _ & Hn). exact Hn.
    - apply (bind_dom val dv).
    - intros i Hi d. apply bindv_lookup; assumption. }
  assert (Hd0 : map fst (bindv (gargsn gid) av ++ ev) = gargsn gid ++ map fst ev) by (rewrite map_app; f_equal; apply (bind_dom val dv)).
  rewrite <- Hd0 in HR0, Hwb.
  destruct (body_ok gid (gargsn gid ++ A) b (bindv (gargsn gid) av ++ ev) (bindn (map fst gi) av ++ en) HF Hbody Hwb HR0) as [HR1 Hres].
  rewrite <- (map_map fst (fun s => lookupn s (nfold b (bindn (map fst gi) av ++ en)))), Hgo, map_map.
  apply map_ext_in. intros r Hr. destruct (HR1 r (Hres r Hr)) as [_ Hl]. exact Hl.
Qed.

Theorem named_is_plan : forall g, Pg g.
Proof.
  apply (mgraph_ind' Pg Qn).
  - exact Pg_MGraph.
  - exact Qn_MNode.
  - exact Qn_MInit.
  - exact Qn_MIntro.
  - exact Qn_MInline.
Qed.
End Main.


(* ---------- end to end: the emitted model, executed by names as ONNX executes it, computes the meaning of the requested Vars ---------- *)
Theorem build_sem_named p r m inputs outputs :
  build_checked p r = inl m -> all_vars (r_inputs r) = Some inputs -> all_vars (r_outputs r) = Some outputs ->
  let p' := final_prog p r inputs outputs in
  forall (val : Type) (dv : val) (opsem : nat -> list (option val) -> list (clos val) -> list val),
  (forall n ivs c1 c2, Forall2 (fun a b => forall av, a av = b av) c1 c2 -> opsem n ivs c1 = opsem n ivs c2) ->
  forall av,
  run_named p' 0 val dv opsem (mmain m) [] av =
  map (meaning p' 0 val dv opsem (bindv val dv (request_args p r inputs outputs) av)) (map snd outputs).
Proof.
  intros H Hi Ho p' val dv opsem Hext av.
  pose proof (build_sem p r m inputs outputs H Hi Ho val dv opsem Hext av) as Hsem. cbv zeta in Hsem. fold p' in Hsem. rewrite <- Hsem. clear Hsem.
  apply build_checked_inv in H. destruct H as [_ Hv].
  pose proof (names_checked p r m inputs outputs Hi Ho Hv) as Hn. fold p' in Hn.
  pose proof (plan_checked p r m inputs outputs Hi Ho Hv) as Hc. fold p' in Hc.
  unfold names_ok in Hn. apply andb_prop in Hn. destruct Hn as [Hinj Hok].
  unfold check_plan in Hc. apply andb_prop in Hc. destruct Hc as [_ Hwf]. apply wf_b_sound in Hwf.
  unfold run_plan.
  apply (named_is_plan p' 0 val dv opsem Hext (table_graph p' 0 (mmain m)) Hinj (mmain m) 0 [] [] [] Hok Hwf).
  intros x [].
Qed.
