(* SemFacts.v — the linearisation theorem: executing a well-formed plan computes, for every result of the graph, the value the
   source program denotes ([run_correct]); soundness of the executable well-formedness check; instantiation with a reflected
   program and the plan obtained by erasing the names of the emitted model. *)
From Coq Require Import List Arith Bool Lia.
From Spox Require Import Base IR Show Build Validate BuildFacts Sem.
Import ListNotations.

Lemma Forall2_map_in {A B} (P : B -> B -> Prop) (f h : A -> B) (l : list A) :
  (forall a, In a l -> P (f a) (h a)) -> Forall2 P (map f l) (map h l).
Proof. induction l as [|a l IH]; simpl; intros H; constructor; auto. Qed.

Section Lin.
Variable val : Type.
Variable dv : val.
Variable is_argn : nref -> bool.
Variable insn : nref -> list (option var).
Variable subsn : nref -> list nat.
Variable gargsn : nat -> list var.
Variable gresn : nat -> list var.
Variable noutsn : nref -> nat.
Variable opsem : nref -> list (option val) -> list (clos val) -> list val.
Hypothesis opsem_ext : forall n ivs c1 c2, Forall2 (fun a b => forall av, a av = b av) c1 c2 -> opsem n ivs c1 = opsem n ivs c2.
Variable rank : nref -> nat.
Definition rankv (v : var) := match v with V n _ => rank n end.
Hypothesis rank_ins : forall n x, is_argn n = false -> In (Some x) (insn n) -> rankv x < rank n.
Hypothesis rank_subs : forall n g r, is_argn n = false -> In g (subsn n) -> In r (gresn g) -> rankv r < rank n.

Notation eval := (eval val dv is_argn insn subsn gargsn gresn opsem).
Notation lookupd := (lookupd val dv).
Notation bindv := (bindv val dv).
Notation run_graph := (run_graph val dv insn gargsn gresn noutsn opsem).
Notation step := (step val dv insn noutsn opsem).
Notation wf := (wf is_argn insn subsn gargsn gresn noutsn).
Notation wf_body := (wf_body is_argn insn subsn gresn noutsn).
Notation outvars := (outvars noutsn).
Notation is_argv := (is_argv is_argn).

Lemma bind_dom xs av : map fst (bindv xs av) = xs.
Proof. revert av; induction xs as [|x t IH]; intros av; simpl; [reflexivity|]. now rewrite IH. Qed.

Lemma map_optmap_ext {A B} (f h : A -> B) (l : list (option A)) :
  (forall x, In (Some x) l -> f x = h x) -> map (option_map f) l = map (option_map h) l.
Proof. induction l as [|[a|] l IH]; simpl; intros H; [reflexivity| |].
  - rewrite (H a) by now left. f_equal. apply IH. intros x Hx. apply H. now right.
  - f_equal. apply IH. intros x Hx. apply H. now right. Qed.

Lemma eval_irrel : forall f f' rho v, rankv v < f -> rankv v < f' -> eval f rho v = eval f' rho v.
Proof.
  induction f as [|f IH]; intros f' rho v Hf Hf'; [lia|].
  destruct f' as [|f']; [lia|]. destruct v as [n o]. simpl in *.
  destruct (is_argn n) eqn:Ea; [reflexivity|]. f_equal.
  assert (Hi : map (option_map (eval f rho)) (insn n) = map (option_map (eval f' rho)) (insn n)).
  { apply map_optmap_ext. intros x Hx. pose proof (rank_ins n x Ea Hx). apply IH; lia. }
  rewrite Hi. apply opsem_ext. apply Forall2_map_in. intros g Hg av.
  apply map_ext_in. intros r Hr. pose proof (rank_subs n g r Ea Hg Hr). apply IH; lia.
Qed.

Definition ev (rho : venv val) (v : var) : val := eval (S (rankv v)) rho v.

Lemma var_eq_dec (a b : var) : {a = b} + {a <> b}.
Proof. destruct (var_eqb_spec a b); [left|right]; assumption. Qed.
Lemma lookupd_app_notin x a b : ~ In x (map fst a) -> lookupd x (a ++ b) = lookupd x b.
Proof. induction a as [|[y v] a IH]; simpl; intros H; [reflexivity|].
  destruct (var_eqb_spec x y) as [->|Hn]; [exfalso; apply H; now left|]. apply IH. intros Hc; apply H; now right. Qed.
Lemma lookupd_app_in x a b b' : In x (map fst a) -> lookupd x (a ++ b) = lookupd x (a ++ b').
Proof. induction a as [|[y v] a IH]; simpl; intros H; [contradiction|].
  destruct (var_eqb_spec x y) as [->|Hn]; [reflexivity|]. apply IH. destruct H as [H|H]; [congruence|assumption]. Qed.
Definition outbind (n : nref) (outs : list val) (s k : nat) : venv val := map (fun o => (V n o, nth o outs dv)) (seq s k).
Lemma outbind_dom n outs s k : map fst (outbind n outs s k) = map (V n) (seq s k).
Proof. unfold outbind. rewrite map_map. reflexivity. Qed.
Lemma nref_eqb_refl n : nref_eqb n n = true.
Proof. destruct (nref_eqb_spec n n); congruence. Qed.
Lemma lookupd_outbind n outs e : forall k s o, s <= o < s + k -> lookupd (V n o) (outbind n outs s k ++ e) = nth o outs dv.
Proof. unfold outbind. induction k as [|k IH]; intros s o Ho; [lia|]. simpl.
  rewrite nref_eqb_refl. simpl.
  destruct (Nat.eqb_spec o s) as [->|Hn]; [reflexivity|]. apply IH. lia. Qed.

Definition agree_on (A : list var) (rho rho' : venv val) := forall a, In a A -> lookupd a rho' = lookupd a rho.
Definition Inv (env rho : venv val) (A : list var) :=
  forall x, In x (map fst env) -> forall rho', agree_on A rho rho' -> lookupd x env = ev rho' x.
Lemma ev_arg rho x : is_argv x = true -> ev rho x = lookupd x rho.
Proof. destruct x as [n o]; unfold ev; simpl; intros ->; reflexivity. Qed.
Lemma ev_irrel rho x f : rankv x < f -> eval f rho x = ev rho x.
Proof. intros H. unfold ev. apply eval_irrel; lia. Qed.

Section PlanInd.
  Variable P : plan -> Prop.
  Hypothesis H : forall g body, Forall (fun nd => Forall P (snd nd)) body -> P (PGraph g body).
  Fixpoint plan_ind' (pl : plan) : P pl :=
    match pl with PGraph g body =>
      H g body ((fix go (b : list (nref * list plan)) : Forall (fun nd => Forall P (snd nd)) b :=
                   match b with [] => Forall_nil _
                   | nd :: t => Forall_cons nd
                       ((fix go2 (l : list plan) : Forall P l :=
                           match l with [] => Forall_nil _ | s :: t2 => Forall_cons s (plan_ind' s) (go2 t2) end) (snd nd)) (go t) end) body)
    end.
End PlanInd.

Definition correct (pl : plan) := forall env rho A, wf pl A (map fst env) -> Inv env rho A ->
  forall rho' av, agree_on A rho rho' ->
  run_graph pl env av = map (ev (bindv (gargsn (pgid pl)) av ++ rho')) (gresn (pgid pl)).

Lemma wfs_in (wfrec : plan -> list var -> Prop) D l : fold_right (fun s acc => wfrec s D /\ acc) True l -> forall s, In s l -> wfrec s D.
Proof. induction l as [|a l IH]; simpl; intros H s Hs; [contradiction|]. destruct H as [Ha Hl]. destruct Hs as [<-|Hs]; auto. Qed.

Lemma body_correct g rin Ain : forall b e,
  Forall (fun nd => Forall correct (snd nd)) b ->
  wf_body (fun s => wf s Ain) g (map fst e) b -> Inv e rin Ain ->
  Inv (fold_left (step run_graph) b e) rin Ain /\ forall r, In r (gresn g) -> In r (map fst (fold_left (step run_graph) b e)).
Proof.
  induction b as [|[n sp] t IH]; intros e Hc Hwf HI; simpl in *.
  - split; assumption.
  - destruct Hwf as (Harg & Hins & Hsp & Hfresh & Hsubs & Hrest).
    inversion Hc as [|nd t' Hcn Hct]; subst. simpl in Hcn.
    apply IH; auto.
    + unfold Sem.step at 1. simpl. rewrite map_app.
      fold (outbind n (opsem n (map (option_map (fun x => lookupd x e)) (insn n)) (map (fun s av => run_graph s e av) sp)) 0 (noutsn n)).
      rewrite outbind_dom. exact Hrest.
    + unfold Sem.step. simpl.
      set (outs := opsem n (map (option_map (fun x => lookupd x e)) (insn n)) (map (fun s av => run_graph s e av) sp)).
      fold (outbind n outs 0 (noutsn n)).
      intros x Hx rho2 Hag. rewrite map_app, outbind_dom in Hx. apply in_app_or in Hx. destruct Hx as [Hx|Hx].
      * apply in_map_iff in Hx. destruct Hx as (o & <- & Ho). apply in_seq in Ho.
        rewrite lookupd_outbind by lia.
        unfold ev. simpl. rewrite Harg. f_equal. unfold outs.
        assert (Hi : map (option_map (fun x => lookupd x e)) (insn n) = map (option_map (eval (rank n) rho2)) (insn n)).
        { apply map_optmap_ext. intros x Hxi. rewrite (HI x (Hins x Hxi) rho2 Hag). symmetry. apply ev_irrel. apply rank_ins; auto. }
        rewrite Hi. apply opsem_ext. rewrite <- Hsp, map_map. apply Forall2_map_in. intros s Hs av.
        rewrite Forall_forall in Hcn. rewrite (Hcn s Hs e rin Ain (wfs_in (fun s0 => wf s0 Ain) (map fst e) sp Hsubs s Hs) HI rho2 av Hag).
        apply map_ext_in. intros r Hr. symmetry. apply ev_irrel.
        apply (rank_subs n (pgid s)); auto. rewrite <- Hsp. now apply in_map.
      * rewrite lookupd_app_notin.
        -- apply HI; auto.
        -- rewrite outbind_dom. intros Hc2. apply in_map_iff in Hc2. destruct Hc2 as (o & <- & _). exact (Hfresh o Hx).
Qed.

Theorem run_correct : forall pl, correct pl.
Proof.
  induction pl as [g body IHb] using plan_ind'. intros env rho A Hwf HI rho' av Hag. simpl in *.
  destruct Hwf as (Hnd & Hargs & Hbody).
  set (rin := (bindv (gargsn g) av ++ rho')%list). set (Ain := (gargsn g ++ A)%list). set (e0 := (bindv (gargsn g) av ++ env)%list).
  assert (HI0 : Inv e0 rin Ain).
  { intros x Hx rho2 Hag2. unfold e0 in *. rewrite map_app, bind_dom in Hx.
    destruct (in_dec var_eq_dec x (gargsn g)) as [Hg|Hng].
    - destruct (Hargs x Hg) as (Hisarg & _ & _). rewrite ev_arg by assumption.
      rewrite (Hag2 x) by (apply in_or_app; now left). unfold rin.
      apply lookupd_app_in. now rewrite bind_dom.
    - apply in_app_or in Hx. destruct Hx as [Hx|Hx]; [contradiction|].
      rewrite lookupd_app_notin by (now rewrite bind_dom).
      apply HI; auto. intros a Ha. rewrite (Hag2 a) by (apply in_or_app; now right). unfold rin.
      rewrite lookupd_app_notin.
      + apply Hag; assumption.
      + rewrite bind_dom. intros Hc. destruct (Hargs a Hc) as (_ & Hna & _). contradiction. }
  assert (Hd0 : map fst e0 = (gargsn g ++ map fst env)%list) by (unfold e0; now rewrite map_app, bind_dom).
  rewrite <- Hd0 in Hbody.
  destruct (body_correct g rin Ain body e0 IHb Hbody HI0) as [HI1 Hres].
  apply map_ext_in. intros r Hr. apply HI1; auto. intros a _. reflexivity.
Qed.

(* ---------- the executable check implies well-formedness ---------- *)
Notation wf_b := (wf_b is_argn insn subsn gargsn gresn noutsn).
Notation wf_body_b := (wf_body_b is_argn insn subsn gresn noutsn).

Definition sound (pl : plan) := forall A D, wf_b pl A D = true -> wf pl A D.

Lemma wf_body_b_sound g (wr : plan -> list var -> bool) (wR : plan -> list var -> Prop) : forall b D,
  Forall (fun nd => Forall (fun s => forall D', wr s D' = true -> wR s D') (snd nd)) b ->
  wf_body_b wr g D b = true -> wf_body wR g D b.
Proof.
  induction b as [|[n sp] t IH]; intros D HF H; simpl in *.
  - intros r Hr. rewrite forallb_forall in H. apply (mem_In var_eqb var_eqb_spec). auto.
  - repeat (apply andb_prop in H; destruct H as [H ?]).
    inversion HF as [|nd t' Hn Ht]; subst. simpl in Hn.
    split; [now apply negb_true_iff in H|]. split.
    { intros x Hx. rewrite forallb_forall in H4. specialize (H4 _ Hx). now apply (mem_In var_eqb var_eqb_spec) in H4. }
    split; [now apply (list_eqb_eq Nat.eqb Nat.eqb_spec)|]. split.
    { intros o Hc. apply negb_true_iff in H2. assert (existsb (fun d => nref_eqb (vnode d) n) D = true); [|congruence].
      apply existsb_exists. exists (V n o). split; [assumption|]. simpl. destruct (nref_eqb_spec n n); congruence. }
    split.
    { clear - H1 Hn. induction sp as [|s sp IHs]; simpl in *; [exact I|].
      apply andb_prop in H1. destruct H1 as [Hs Hsp]. inversion Hn; subst. split; auto. }
    apply IH; assumption.
Qed.

Theorem wf_b_sound : forall pl, sound pl.
Proof.
  induction pl as [g body IHb] using plan_ind'. intros A D H. simpl in *.
  repeat (apply andb_prop in H; destruct H as [H ?]).
  split; [now apply (nodupb_NoDup var_eqb var_eqb_spec)|]. split.
  - intros a Ha. rewrite forallb_forall in H1. specialize (H1 a Ha).
    repeat (apply andb_prop in H1; destruct H1 as [H1 ?]). split; [assumption|]. split.
    + apply negb_true_iff in H3. now apply (mem_nIn var_eqb var_eqb_spec).
    + apply negb_true_iff in H2. now apply (mem_nIn var_eqb var_eqb_spec).
  - eapply wf_body_b_sound; [|exact H0].
    eapply Forall_impl; [|exact IHb]. intros nd Hnd. eapply Forall_impl; [|exact Hnd]. intros s Hs D' HD'. apply Hs. exact HD'.
Qed.

(* top-level corollary: a checked main plan, run on the values of its arguments, yields the meaning of each requested result *)
Corollary run_main_correct pl : wf_b pl [] [] = true -> forall av,
  run_graph pl [] av = map (ev (bindv (gargsn (pgid pl)) av)) (gresn (pgid pl)).
Proof.
  intros H av. pose proof (run_correct pl [] [] [] (wf_b_sound pl [] [] H)) as R.
  rewrite <- (app_nil_r (bindv (gargsn (pgid pl)) av)). apply R.
  - intros x [].
  - intros a [].
Qed.
(* the same from the declarative well-formedness *)
Corollary run_main_correct_wf pl : wf pl [] [] -> forall av,
  run_graph pl [] av = map (ev (bindv (gargsn (pgid pl)) av)) (gresn (pgid pl)).
Proof.
  intros H av. pose proof (run_correct pl [] [] [] H) as R.
  rewrite <- (app_nil_r (bindv (gargsn (pgid pl)) av)). apply R.
  - intros x [].
  - intros a [].
Qed.
End Lin.

(* ---------- instantiation with a reflected program ---------- *)
From Spox Require Import Plan.
Section InstFacts.
Variable p : prog.
Variable main : nat.
Hypothesis Hacyc : acyclic_b p main = true.

Lemma rank_insP n x : is_argP p n = false -> In (Some x) (insP p main n) -> rankP p main (vnode x) < rankP p main n.
Proof.
  intros Ha Hx. unfold insP in Hx. destruct (inR p main n) eqn:Er; [|destruct Hx].
  unfold acyclic_b in Hacyc. rewrite forallb_forall in Hacyc.
  assert (Hin : In n (topoP p main)) by (now apply (mem_In nref_eqb nref_eqb_spec)).
  specialize (Hacyc n Hin). rewrite Ha in Hacyc. simpl in Hacyc. apply andb_prop in Hacyc. destruct Hacyc as [H1 _].
  rewrite forallb_forall in H1. assert (Hx' : In (Some x) (insP p main n)) by (unfold insP; now rewrite Er).
  specialize (H1 _ Hx'). now apply Nat.ltb_lt in H1.
Qed.
Lemma rank_subsP n g r : is_argP p n = false -> In g (subsP p main n) -> In r (gresP p g) -> rankP p main (vnode r) < rankP p main n.
Proof.
  intros Ha Hg Hr. assert (Er : inR p main n = true). { unfold subsP in Hg. destruct (inR p main n); [reflexivity|destruct Hg]. }
  unfold acyclic_b in Hacyc. rewrite forallb_forall in Hacyc.
  assert (Hin : In n (topoP p main)) by (now apply (mem_In nref_eqb nref_eqb_spec)).
  specialize (Hacyc n Hin). rewrite Ha in Hacyc. simpl in Hacyc. apply andb_prop in Hacyc. destruct Hacyc as [_ H2].
  rewrite forallb_forall in H2. specialize (H2 _ Hg). rewrite forallb_forall in H2. specialize (H2 _ Hr). now apply Nat.ltb_lt in H2.
Qed.

Section WithSem.
Variable val : Type.
Variable dv : val.
Variable opsem : nat -> list (option val) -> list (clos val) -> list val.
Hypothesis opsem_ext : forall n ivs c1 c2, Forall2 (fun a b => forall av, a av = b av) c1 c2 -> opsem n ivs c1 = opsem n ivs c2.

Lemma opsemP_ext n ivs c1 c2 : Forall2 (fun a b => forall av, a av = b av) c1 c2 -> opsemP val dv opsem n ivs c1 = opsemP val dv opsem n ivs c2.
Proof. destruct n; simpl; intros H; [now apply opsem_ext|reflexivity]. Qed.

(* the meaning of the i-th output of a graph's result identity is the meaning of the i-th requested result Var *)
Lemma meaning_intro rho g i r : inR p main (NIntro g) = true -> nth_error (greqP p g) i = Some r ->
  meaning p main val dv opsem rho (V (NIntro g) i) = meaning p main val dv opsem rho r.
Proof.
  intros Hin Hr. unfold meaning. cbn [vnode].
  assert (Hins : insP p main (NIntro g) = map (fun kv => Some (snd kv)) (gres (getg p g))) by (unfold insP; now rewrite Hin).
  unfold greqP in Hr. rewrite nth_error_map in Hr. destruct (nth_error (gres (getg p g)) i) as [kv|] eqn:Ek; [|discriminate].
  cbn in Hr. inversion Hr; subst r. clear Hr.
  set (k := rankP p main (NIntro g)).
  assert (E1 : eval val dv (is_argP p) (insP p main) (subsP p main) (gargsP p) (gresP p) (opsemP val dv opsem) (S k) rho (V (NIntro g) i) =
               eval val dv (is_argP p) (insP p main) (subsP p main) (gargsP p) (gresP p) (opsemP val dv opsem) k rho (snd kv)).
  { cbn [eval]. unfold is_argP at 1. cbn [is_arg]. rewrite Hins. cbn [opsemP]. rewrite !map_map. cbn [option_map].
    rewrite (nth_indep _ dv (eval val dv (is_argP p) (insP p main) (subsP p main) (gargsP p) (gresP p) (opsemP val dv opsem) k rho (snd kv)))
      by (rewrite map_length; apply nth_error_Some; congruence).
    rewrite (map_nth (fun x : String.string * var => eval val dv (is_argP p) (insP p main) (subsP p main) (gargsP p) (gresP p) (opsemP val dv opsem) k rho (snd x))).
    now rewrite (nth_error_nth _ _ _ Ek). }
  rewrite E1. destruct (snd kv) as [n o] eqn:Esk.
  apply (eval_irrel val dv (is_argP p) (insP p main) (subsP p main) (gargsP p) (gresP p) (opsemP val dv opsem) opsemP_ext (rankP p main)
           (fun n0 x Ha Hx => match x as x0 return In (Some x0) (insP p main n0) -> rankv (rankP p main) x0 < rankP p main n0 with V m0 o0 => fun Hx0 => rank_insP n0 (V m0 o0) Ha Hx0 end Hx)
           (fun n0 g0 r0 Ha Hg Hr0 => match r0 as r1 return In r1 (gresP p g0) -> rankv (rankP p main) r1 < rankP p main n0 with V m0 o0 => fun Hr1 => rank_subsP n0 g0 (V m0 o0) Ha Hg Hr1 end Hr0)).
  - cbn [rankv]. change (rankP p main n) with (rankP p main (vnode (V n o))). apply rank_insP; [reflexivity|].
    rewrite Hins. apply in_map_iff. exists kv. split; [now rewrite Esk|]. eapply nth_error_In; eauto.
  - cbn [rankv vnode]. auto.
Qed.

(* Executing the emitted structure on the values of the main arguments yields, for each requested output, the meaning of the
   requested Var — for every operator semantics. *)
Theorem plan_sem g : check_plan p main g = true -> forall av,
  run_plan p main val dv opsem (plan_of_graph p main g) av = map (meaning p main val dv opsem (bindv val dv (gargsP p main) av)) (gresP p main).
Proof.
  intros H av. unfold check_plan in H. apply andb_prop in H. destruct H as [_ Hwf].
  unfold run_plan, meaning.
  pose proof (run_main_correct val dv (is_argP p) (insP p main) (subsP p main) (gargsP p) (gresP p) (noutsP p) (opsemP val dv opsem)
                opsemP_ext (rankP p main)
                (fun n x Ha Hx => match x as x0 return In (Some x0) (insP p main n) -> rankv (rankP p main) x0 < rankP p main n with V m o => fun Hx0 => rank_insP n (V m o) Ha Hx0 end Hx)
                (fun n g0 r Ha Hg Hr => match r as r0 return In r0 (gresP p g0) -> rankv (rankP p main) r0 < rankP p main n with V m o => fun Hr0 => rank_subsP n g0 (V m o) Ha Hg Hr0 end Hr)
                (plan_of_graph p main g) Hwf av) as R.
  assert (Hid : pgid (plan_of_graph p main g) = main) by (destruct g; reflexivity).
  rewrite Hid in R. rewrite R. apply map_ext. intros [n o]. reflexivity.
Qed.
Theorem plan_sem_wf g : wf (is_argP p) (insP p main) (subsP p main) (gargsP p) (gresP p) (noutsP p) (plan_of_graph p main g) [] [] -> forall av,
  run_plan p main val dv opsem (plan_of_graph p main g) av = map (meaning p main val dv opsem (bindv val dv (gargsP p main) av)) (gresP p main).
Proof.
  intros Hwf av. unfold run_plan, meaning.
  pose proof (run_main_correct_wf val dv (is_argP p) (insP p main) (subsP p main) (gargsP p) (gresP p) (noutsP p) (opsemP val dv opsem)
                opsemP_ext (rankP p main)
                (fun n x Ha Hx => match x as x0 return In (Some x0) (insP p main n) -> rankv (rankP p main) x0 < rankP p main n with V m o => fun Hx0 => rank_insP n (V m o) Ha Hx0 end Hx)
                (fun n g0 r Ha Hg Hr => match r as r0 return In r0 (gresP p g0) -> rankv (rankP p main) r0 < rankP p main n with V m o => fun Hr0 => rank_subsP n g0 (V m o) Ha Hg Hr0 end Hr)
                (plan_of_graph p main g) Hwf av) as R.
  assert (Hid : pgid (plan_of_graph p main g) = main) by (destruct g; reflexivity).
  rewrite Hid in R. rewrite R. apply map_ext. intros [n o]. reflexivity.
Qed.
End WithSem.
End InstFacts.

(* the semantic theorem for the checked public build *)
Theorem build_sem p r m inputs outputs :
  build_checked p r = inl m -> all_vars (r_inputs r) = Some inputs -> all_vars (r_outputs r) = Some outputs ->
  let p' := final_prog p r inputs outputs in
  forall (val : Type) (dv : val) (opsem : nat -> list (option val) -> list (clos val) -> list val),
  (forall n ivs c1 c2, Forall2 (fun a b => forall av, a av = b av) c1 c2 -> opsem n ivs c1 = opsem n ivs c2) ->
  forall av,
  run_plan p' 0 val dv opsem (plan_of_graph p' 0 (mmain m)) av =
  map (meaning p' 0 val dv opsem (bindv val dv (request_args p r inputs outputs) av)) (map snd outputs).
Proof.
  intros H Hi Ho p' val dv opsem Hext av. apply build_checked_inv in H. destruct H as [_ Hv].
  pose proof (plan_checked p r m inputs outputs Hi Ho Hv) as Hc. fold p' in Hc.
  assert (Ha : acyclic_b p' 0 = true) by (unfold check_plan in Hc; apply andb_prop in Hc; destruct Hc as [Hc _]; apply andb_prop in Hc; tauto).
  rewrite (plan_sem p' 0 Ha val dv opsem Hext (mmain m) Hc av).
  assert (Hin0 : inR p' 0 (NIntro 0) = true) by (unfold check_plan in Hc; apply andb_prop in Hc; destruct Hc as [Hc _]; apply andb_prop in Hc; tauto).
  unfold gresP. rewrite map_map. change (gres (getg p' 0)) with outputs.
  apply nth_ext with (d := dv) (d' := dv); [now rewrite !map_length, seq_length|].
  intros i Hi'. rewrite map_length, seq_length in Hi'.
  rewrite (nth_indep _ dv (meaning p' 0 val dv opsem (bindv val dv (request_args p r inputs outputs) av) (V (NIntro 0) 0))) by (now rewrite map_length, seq_length).
  rewrite (map_nth (fun x => meaning p' 0 val dv opsem (bindv val dv (request_args p r inputs outputs) av) (V (NIntro 0) x))), seq_nth by assumption. cbn [Nat.add].
  destruct (nth_error outputs i) as [kv|] eqn:Ek; [|apply nth_error_None in Ek; lia].
  rewrite (meaning_intro p' 0 Ha val dv opsem Hext _ 0 i (snd kv) Hin0) by (unfold greqP; change (gres (getg p' 0)) with outputs; now rewrite nth_error_map, Ek).
  symmetry. rewrite (nth_indep _ dv (meaning p' 0 val dv opsem (bindv val dv (request_args p r inputs outputs) av) (snd kv))) by (now rewrite !map_length).
  rewrite map_map. rewrite (map_nth (fun x : String.string * var => meaning p' 0 val dv opsem (bindv val dv (request_args p r inputs outputs) av) (snd x))).
  now rewrite (nth_error_nth _ _ _ Ek).
Qed.
