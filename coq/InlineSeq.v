(* InlineSeq.v — the names defined by an inlined block, IN ORDER: the list of definitions of the emitted block is the image, under the
   final renaming relation Rn, of a subsequence of the definitions of the inlined model (omitted "" outputs are dropped).  With Rn
   injective (InlineInj) this gives: if the inlined model defines every name once, so does the block.  (C02 / C08) *)
From Coq Require Import List String NArith Arith Bool Lia.
From Spox Require Import Base IR Show Build Sem Plan Named Validate BuildFacts CompilePres ScopeFacts InlineDefs InlineInj.
Import ListNotations.
Open Scope list_scope.

Section Seq.
Variables (nm : String.string) (u : nref) (operands : list (option var)) (in_names out_names : list String.string).
Notation rv := (rename_val nm u operands in_names out_names).
Notation ron := (rename_onode nm u operands in_names out_names).
Notation rog := (rename_ograph nm u operands in_names out_names).
Notation Rn := (InlineDefs.Rn u operands in_names out_names).

(* [renamed] is the Rn-image of a subsequence of [inner] *)
Inductive Seq (st : rstate) : list String.string -> list String.string -> Prop :=
| Seq_nil0 : Seq st [] []
| Seq_keep d r i t : Rn st d r -> Seq st i t -> Seq st (d :: i) (r :: t)
| Seq_drop d i t : Seq st i t -> Seq st (d :: i) t.

Lemma Seq_nil st i : Seq st i [].
Proof. induction i as [|d i IH]; [constructor|apply Seq_drop; exact IH]. Qed.
Lemma Seq_mono st st' i r : St_le st st' -> Seq st i r -> Seq st' i r.
Proof. intros L H. induction H as [|d r i t Hr H IH|d i t H IH]; [constructor|apply Seq_keep; [eapply Rn_mono; eauto|exact IH]|apply Seq_drop; exact IH]. Qed.
Lemma Seq_app st i1 r1 i2 r2 : Seq st i1 r1 -> Seq st i2 r2 -> Seq st (i1 ++ i2) (r1 ++ r2).
Proof. intros H1 H2. induction H1 as [|d r i t Hr H IH|d i t H IH]; cbn; [exact H2|apply Seq_keep; assumption|apply Seq_drop; assumption]. Qed.
Lemma Seq_F2 st l rs : Forall2 (Rn st) l rs -> Seq st l rs.
Proof. intros HF. induction HF as [|a b l r Hab HF IH]; [constructor|apply Seq_keep; assumption]. Qed.
Lemma Seq_filter st (f : String.string -> bool) i r : Seq st i r -> Seq st i (filter f r).
Proof. intros H. induction H as [|d r i t Hr H IH|d i t H IH]; cbn; [constructor| |apply Seq_drop; exact IH].
  destruct (f r); [apply Seq_keep; assumption|apply Seq_drop; exact IH]. Qed.
Lemma Seq_In st i r : Seq st i r -> forall x, In x r -> exists d, In d i /\ Rn st d x.
Proof. intros H. induction H as [|d r i t Hr H IH|d i t H IH]; intros x Hx; [destruct Hx| |].
  - destruct Hx as [<-|Hx]; [exists d; split; [now left|exact Hr]|]. destruct (IH x Hx) as [d' [Hd Hr']]. exists d'. split; [now right|exact Hr'].
  - destruct (IH x Hx) as [d' [Hd Hr']]. exists d'. split; [now right|exact Hr']. Qed.

(* one definition per inner name + an injective renaming = one definition per non-empty outer name *)
Lemma Seq_NoDup st i r : Seq st i r -> NoDup i ->
  (forall d d' x, In d i -> In d' i -> Rn st d x -> Rn st d' x -> x <> ""%string -> d = d') -> NoDup (nonempty r).
Proof. intros H. induction H as [|d r i t Hr H IH|d i t H IH]; intros Hn Hinj; cbn.
  - constructor.
  - inversion Hn as [|y l Hd Hi]; subst.
    assert (Ht : NoDup (nonempty t)) by (apply IH; [exact Hi|intros a b x Ha Hb; apply Hinj; now right]).
    destruct (String.eqb_spec r "") as [->|Hne]; cbn; [exact Ht|]. constructor; [|exact Ht].
    intros Hc. unfold nonempty in Hc. apply filter_In in Hc. destruct Hc as [Hc _]. destruct (Seq_In _ _ _ H r Hc) as [d' [Hd' Hr']].
    assert (E : d = d') by (apply (Hinj d d' r); [now left|now right|exact Hr|exact Hr'|exact Hne]). subst d'. exact (Hd Hd').
  - inversion Hn as [|y l Hd Hi]; subst. apply IH; [exact Hi|intros a b x Ha Hb; apply Hinj; now right]. Qed.

(* names reserved BEFORE the block (R0) stay reserved, and the rename table never maps to one of them: what the block reserves is fresh *)
Variable R0 : list String.string.
Definition Fresh (st : rstate) : Prop :=
  let '(sc, vt, nt) := st in
  (forall x, In x R0 -> In x (reserved sc)) /\ (forall d r, lookup String.eqb d vt = Some r -> r = ""%string \/ ~ In r R0).
Definition InvV (st : rstate) : Prop := InvVt st /\ Fresh st.

Lemma rename_val_fresh st name r st' : rv st name = inl (r, st') -> Fresh st -> Fresh st'.
Proof. unfold rename_val. destruct st as [[sc vt] nt]. intros H [F1 F2].
  destruct (index_last name in_names 0 None) as [i|].
  - destruct (nth i operands None) as [v|]; [|discriminate]. apply bind_ok in H. destruct H as [x [_ H]]. inversion H; subst. split; assumption.
  - destruct (index_last name out_names 0 None) as [k|].
    + apply bind_ok in H. destruct H as [x [_ H]]. inversion H; subst. split; assumption.
    + destruct (lookup String.eqb name vt) as [r0|] eqn:El; [inversion H; subst; split; assumption|].
      apply bind_ok in H. destruct H as [[r0 sc0] [Hr H]]. inversion H; subst. cbn [fst snd]. unfold reserve_prefixed in Hr.
      destruct (String.eqb name "").
      * inversion Hr; subst. split; [exact F1|]. intros d x Hd. unfold lookup in Hd. cbn in Hd.
        destruct (String.eqb d name); [cbn in Hd; inversion Hd; now left|exact (F2 d x Hd)].
      * destruct (maybe_enum (vcnt sc) (nm ++ "__" ++ name))%string as [c vc]. apply reserve_free_fresh in Hr. cbn in Hr. destruct Hr as (Ev & Er & Hf). split.
        -- intros x Hx. rewrite Er. apply in_or_app. left. exact (F1 x Hx).
        -- intros d x Hd. unfold lookup in Hd. cbn in Hd. destruct (String.eqb d name); [|exact (F2 d x Hd)].
           cbn in Hd. inversion Hd; subst. right. intros Hc. exact (Hf (F1 _ Hc)). Qed.
Lemma rename_node_fresh st name r st' : rename_node nm st name = inl (r, st') -> Fresh st -> Fresh st'.
Proof. unfold rename_node. destruct st as [[sc vt] nt]. intros H [F1 F2]. destruct (String.eqb name ""); [inversion H; subst; split; assumption|].
  destruct (lookup String.eqb name nt); [inversion H; subst; split; assumption|].
  apply bind_ok in H. destruct H as [[r0 sc0] [Hr H]]. inversion H; subst. apply reserve_prefixed_facts in Hr. destruct Hr as (E & I1 & _). cbn [fst snd].
  split; [intros x Hx; exact (I1 x (F1 x Hx))|exact F2]. Qed.

Lemma rename_val_facts st name r st' : rv st name = inl (r, st') -> InvV st -> St_le st st' /\ InvV st' /\ Rn st' name r.
Proof. intros H [Hi Hf]. destruct (InlineDefs.rename_val_facts nm u operands in_names out_names _ _ _ _ H Hi) as (L & I & R).
  split; [exact L|]. split; [split; [exact I|eapply rename_val_fresh; eauto]|exact R]. Qed.
Lemma rename_node_facts st name r st' : rename_node nm st name = inl (r, st') -> InvV st -> St_le st st' /\ InvV st'.
Proof. intros H [Hi Hf]. destruct (InlineDefs.rename_node_facts nm _ _ _ _ H Hi) as (L & I).
  split; [exact L|]. split; [exact I|eapply rename_node_fresh; eauto]. Qed.
Lemma mapS_rv_facts : forall l st rs st', mapS rv st l = inl (rs, st') -> InvV st ->
  St_le st st' /\ InvV st' /\ Forall2 (Rn st') l rs.
Proof. induction l as [|a t IH]; intros st rs st' H Hi; cbn [mapS] in H.
  - inversion H; subst. split; [apply St_le_refl|]. split; [exact Hi|constructor].
  - apply bind_ok in H. destruct H as [[r1 st1] [H1 H]]. apply bind_ok in H. destruct H as [[r2 st2] [H2 H]]. inversion H; subst. cbn [fst snd] in *.
    destruct (rename_val_facts _ _ _ _ H1 Hi) as (L1 & I1 & R1). destruct (IH _ _ _ H2 I1) as (L2 & I2 & F2).
    split; [eapply St_le_trans; eauto|]. split; [exact I2|]. constructor; [eapply Rn_mono; eauto|exact F2]. Qed.

Definition Pg2 (g : ograph) : Prop :=
  forall st r st', rog st g = inl (r, st') -> InvV st -> St_le st st' /\ InvV st' /\ Seq st' (odefs_graph g) (rawg_defs r).
Definition Qn2 (n : onode) : Prop :=
  forall st r st', ron st n = inl (r, st') -> InvV st -> St_le st st' /\ InvV st' /\ Seq st' (odefs_node n) (defs_raw r).

Lemma HG_seq : forall gi gin b go_ vi, Forall Qn2 b -> Pg2 (OGraph gi gin b go_ vi).
Proof. unfold Pg2, Qn2.
  intros gi gin b go_ vi HF st r st' H Hi. cbn [rename_ograph] in H.
    apply bind_ok in H. destruct H as [[r1 s1] [H1 H]]. apply bind_ok in H. destruct H as [[r2 s2] [H2 H]].
    apply bind_ok in H. destruct H as [[r3 s3] [H3 H]]. apply bind_ok in H. destruct H as [[r4 s4] [H4 H]].
    apply bind_ok in H. destruct H as [[r5 s5] [H5 H]]. inversion H; subst. cbn [fst snd] in *.
    destruct (mapS_rv_facts _ _ _ _ H1 Hi) as (L1 & I1 & F1). destruct (mapS_rv_facts _ _ _ _ H2 I1) as (L2 & I2 & F2).
    assert (Hb : St_le s2 s3 /\ InvV s3 /\ Seq s3 (flat_map odefs_node b) (flat_map defs_raw r3)).
    { clear - HF H3 I2. revert s2 r3 s3 H3 I2. induction b as [|n t IH]; intros s2 r3 s3 H3 I2.
      - inversion H3; subst. split; [apply St_le_refl|]. split; [exact I2|apply Seq_nil].
      - inversion HF as [|x l Hn Ht]; subst. apply bind_ok in H3. destruct H3 as [[rn sn] [Hn1 H3]].
        apply bind_ok in H3. destruct H3 as [[rt st2] [Ht1 H3]]. inversion H3; subst. cbn [fst snd flat_map] in *.
        destruct (Hn _ _ _ Hn1 I2) as (La & Ia & Ca). destruct (IH Ht _ _ _ Ht1 Ia) as (Lb & Ib & Cb).
        split; [eapply St_le_trans; eauto|]. split; [exact Ib|]. apply Seq_app; [eapply Seq_mono; eauto|exact Cb]. }
    destruct Hb as (L3 & I3 & C3).
    destruct (mapS_rv_facts _ _ _ _ H4 I3) as (L4 & I4 & _). destruct (mapS_rv_facts _ _ _ _ H5 I4) as (L5 & I5 & _).
    assert (L35 : St_le s3 st') by (eapply St_le_trans; eauto).
    split; [eapply St_le_trans; [exact L1|eapply St_le_trans; [exact L2|eapply St_le_trans; [exact L3|exact L35]]]|]. split; [exact I5|].
    cbn [odefs_graph rawg_defs]. apply Seq_app; [|apply Seq_app].
    + eapply Seq_mono; [|apply Seq_F2; exact F1]. eapply St_le_trans; [exact L2|eapply St_le_trans; [exact L3|exact L35]].
    + eapply Seq_mono; [|apply Seq_F2; exact F2]. eapply St_le_trans; [exact L3|exact L35].
    + eapply Seq_mono; [exact L35|exact C3].
Qed.
Lemma HN_seq : forall nm0 op d i o al,
  Forall (fun ka : String.string * option ograph => match snd ka with Some g => Pg2 g | None => True end) al -> Qn2 (ONode nm0 op d i o al).
Proof. unfold Pg2, Qn2.
  intros nm0 op d i o al HF st r st' H Hi. cbn [rename_onode] in H.
    apply bind_ok in H. destruct H as [[r1 s1] [H1 H]]. apply bind_ok in H. destruct H as [[r2 s2] [H2 H]].
    apply bind_ok in H. destruct H as [[r3 s3] [H3 H]]. apply bind_ok in H. destruct H as [[r4 s4] [H4 H]]. inversion H; subst. cbn [fst snd] in *.
    destruct (rename_node_facts _ _ _ _ H1 Hi) as (L1 & I1). destruct (mapS_rv_facts _ _ _ _ H2 I1) as (L2 & I2 & _).
    destruct (mapS_rv_facts _ _ _ _ H3 I2) as (L3 & I3 & F3).
    assert (Ha : St_le s3 st' /\ InvV st' /\
                 Seq st' (flat_map (fun ks : String.string * option ograph => match snd ks with Some (OGraph gi ginit b _ _) => gi ++ ginit ++ flat_map odefs_node b | None => [] end) al)
                         (flat_map (fun ks : String.string * option mrawgraph => match snd ks with Some (MRawGraph gi ginit b _) => gi ++ ginit ++ flat_map defs_raw b | None => [] end) r4)).
    { clear - HF H4 I3. revert s3 r4 st' H4 I3. induction al as [|[k [g|]] t IH]; intros s3 r4 st' H4 I3.
      - inversion H4; subst. split; [apply St_le_refl|]. split; [exact I3|apply Seq_nil].
      - inversion HF as [|x l Hg Ht]; subst. cbn [snd] in Hg. apply bind_ok in H4. destruct H4 as [[rg sg] [Hg1 H4]].
        apply bind_ok in H4. destruct H4 as [[rt st2] [Ht1 H4]]. inversion H4; subst. cbn [fst snd flat_map] in *.
        destruct (Hg _ _ _ Hg1 I3) as (La & Ia & Ca). destruct (IH Ht _ _ _ Ht1 Ia) as (Lb & Ib & Cb).
        split; [eapply St_le_trans; eauto|]. split; [exact Ib|]. apply Seq_app; [|exact Cb].
        eapply Seq_mono; [exact Lb|]. destruct g as [gi gin b go_ vi]. destruct rg as [a1 a2 a3 a4]. exact Ca.
      - inversion HF as [|x l Hg Ht]; subst. apply bind_ok in H4. destruct H4 as [[rt st2] [Ht1 H4]]. inversion H4; subst. cbn [fst snd flat_map app] in *.
        eapply IH; eauto. }
    destruct Ha as (L4 & I4 & C4).
    split; [eapply St_le_trans; [exact L1|eapply St_le_trans; [exact L2|eapply St_le_trans; [exact L3|exact L4]]]|]. split; [exact I4|].
    cbn [odefs_node defs_raw]. apply Seq_app; [|exact C4].
    unfold nonempty. apply Seq_filter. eapply Seq_mono; [exact L4|apply Seq_F2; exact F3].
Qed.
Lemma rename_graph_seq g : Pg2 g. Proof. exact (CompilePres.ograph_ind' Pg2 Qn2 HG_seq HN_seq g). Qed.
Lemma rename_node_seq n : Qn2 n. Proof. exact (CompilePres.onode_ind' Pg2 Qn2 HG_seq HN_seq n). Qed.

(* the loop over the body of the inlined model, as written in compile *)
Lemma body_loop_seq : forall body st rb st',
  (fix go (st : rstate) (l : list onode) {struct l} : res (list mraw * rstate) :=
     match l with
     | [] => ret ([], st)
     | n :: t => do rn <- ron st n ;; do rt <- go (snd rn) t ;; ret (fst rn :: fst rt, snd rt)
     end) st body = inl (rb, st') -> InvV st ->
  St_le st st' /\ InvV st' /\ Seq st' (flat_map odefs_node body) (flat_map defs_raw rb).
Proof. induction body as [|n t IH]; intros st rb st' H Hi.
  - inversion H; subst. split; [apply St_le_refl|]. split; [exact Hi|apply Seq_nil].
  - apply bind_ok in H. destruct H as [[rn sn] [Hn1 H]]. apply bind_ok in H. destruct H as [[rt st2] [Ht1 H]]. inversion H; subst. cbn [fst snd flat_map] in *.
    destruct (rename_node_seq n _ _ _ Hn1 Hi) as (La & Ia & Ca). destruct (IH _ _ _ Ht1 Ia) as (Lb & Ib & Cb).
    split; [eapply St_le_trans; eauto|]. split; [exact Ib|]. apply Seq_app; [eapply Seq_mono; eauto|exact Cb]. Qed.
End Seq.
