(* InlineFacts.v — binding of arguments at the inline call (C08). *)
From Coq Require Import List String Bool Arith Lia.
From Spox Require Import Base IR Show Build Sem Plan Validate BuildFacts Inline.
Import ListNotations.

Section BindFacts.
Variable A : Type.

Lemma add_positional_ok (pos : list (string * A)) : forall kw kw1, add_positional A kw pos = inl kw1 ->
  kw1 = (kw ++ pos)%list /\ (forall n, In n (map fst pos) -> ~ In n (map fst kw)) /\ NoDup (map fst pos).
Proof.
  induction pos as [|[n a] t IH]; intros kw kw1 H; cbn [add_positional] in H.
  - inversion H; subst. rewrite app_nil_r. repeat split; [intros n []|constructor].
  - destruct (mem String.eqb n (map fst kw)) eqn:Em; [discriminate|].
    apply (mem_nIn String.eqb string_eqb_spec) in Em.
    destruct (IH _ _ H) as (E & Hd & Hnd). subst kw1. rewrite <- app_assoc. simpl. split; [reflexivity|]. split.
    + intros m [<-|Hm]; [assumption|]. intros Hc. apply (Hd m Hm). rewrite map_app. apply in_or_app. now left.
    + simpl. constructor; [|assumption]. intros Hc. apply (Hd n Hc). rewrite map_app. apply in_or_app. right. now left.
Qed.

Lemma add_positional_dup (pos : list (string * A)) : forall kw, (exists n, In n (map fst pos) /\ In n (map fst kw)) ->
  add_positional A kw pos = inr EType.
Proof.
  induction pos as [|[n a] t IH]; intros kw [m [Hm Hk]]; [destruct Hm|]. cbn [add_positional].
  destruct (mem String.eqb n (map fst kw)) eqn:Em; [reflexivity|]. apply IH. simpl in Hm. destruct Hm as [<-|Hm].
  - apply (mem_nIn String.eqb string_eqb_spec) in Em. contradiction.
  - exists m. split; [assumption|]. rewrite map_app. apply in_or_app. now left.
Qed.

(* Success: every input is bound once — positionally in input order, by keyword, or by the default of that name — and
   nothing unknown was supplied.  The i-th positional argument is bound to the i-th input. *)
Theorem bind_ok_spec in_names defaults (args : list A) kw slots :
  bind_args A in_names defaults args kw = inl slots ->
  List.length args <= List.length in_names /\
  List.length slots = List.length in_names /\
  (forall k, In k (map fst kw) -> In k in_names) /\
  (forall i n, nth_error in_names i = Some n ->
     nth_error slots i = Some (match lookup String.eqb n (kw ++ zip_pos A in_names args) with Some a => Given a | None => Default n end) /\
     (lookup String.eqb n (kw ++ zip_pos A in_names args) = None -> In n defaults)).
Proof.
  unfold bind_args. destruct (Nat.ltb_spec (List.length in_names) (List.length args)) as [|Hle]; [discriminate|].
  unfold bind_core. intros H. apply bind_ok in H. destruct H as [kw1 [Hp H]].
  destruct (add_positional_ok _ _ _ Hp) as (E & _ & _). subst kw1.
  destruct (negb (forallb _ (filter _ in_names))) eqn:E1; [discriminate|].
  destruct (negb (forallb _ (map fst _))) eqn:E2; [discriminate|]. inversion H; subst slots. clear H.
  apply negb_false_iff in E1, E2. rewrite forallb_forall in E1, E2.
  split; [lia|]. split; [now rewrite map_length|]. split.
  - intros k Hk. apply (mem_In String.eqb string_eqb_spec). apply E2. rewrite map_app. apply in_or_app. now left.
  - intros i n Hn. split.
    + rewrite nth_error_map, Hn. reflexivity.
    + intros Hl. apply (mem_In String.eqb string_eqb_spec). apply E1. apply filter_In. split; [eapply nth_error_In; eauto|].
      apply negb_true_iff. apply (mem_nIn String.eqb string_eqb_spec). intros Hc.
      apply in_map_iff in Hc. destruct Hc as [[k a] [Hk Hin]]. simpl in Hk. subst k.
      unfold lookup in Hl. destruct (find (fun kv => String.eqb n (fst kv)) (kw ++ zip_pos A in_names args)) eqn:Ef; [discriminate|].
      pose proof (find_none _ _ Ef _ Hin) as Hf. simpl in Hf. now rewrite String.eqb_refl in Hf.
Qed.

(* Failures raise TypeError: a name given both positionally and by keyword; a missing input without default; an unknown keyword;
   more positional arguments than inputs. *)
Theorem bind_duplicate_typeerror in_names defaults (args : list A) kw :
  (exists n, In n (map fst (zip_pos A in_names args)) /\ In n (map fst kw)) -> bind_args A in_names defaults args kw = inr EType.
Proof. intros H. unfold bind_args. destruct (Nat.ltb _ _); [reflexivity|]. unfold bind_core. now rewrite add_positional_dup. Qed.

Theorem bind_surplus_typeerror in_names defaults (args : list A) kw :
  List.length in_names < List.length args -> bind_args A in_names defaults args kw = inr EType.
Proof. intros H. unfold bind_args. apply Nat.ltb_lt in H. now rewrite H. Qed.

Theorem bind_missing_typeerror in_names defaults (args : list A) kw n :
  In n in_names -> ~ In n (map fst kw) -> ~ In n (map fst (zip_pos A in_names args)) -> ~ In n defaults ->
  exists e, bind_args A in_names defaults args kw = inr e /\ e = EType.
Proof.
  intros Hn Hk Hp Hd. unfold bind_args. destruct (Nat.ltb _ _); [exists EType; split; reflexivity|]. unfold bind_core.
  destruct (add_positional A kw (zip_pos A in_names args)) as [kw1|e] eqn:Ep; cbn [Base.bind].
  - destruct (add_positional_ok _ _ _ Ep) as (E & _ & _). subst kw1.
    assert (E1 : forallb (fun n0 => mem String.eqb n0 defaults)
                   (filter (fun n0 => negb (mem String.eqb n0 (map fst (kw ++ zip_pos A in_names args)))) in_names) = false).
    { apply not_true_iff_false. intros Hc. rewrite forallb_forall in Hc. specialize (Hc n).
      assert (In n (filter (fun n0 => negb (mem String.eqb n0 (map fst (kw ++ zip_pos A in_names args)))) in_names)).
      { apply filter_In. split; [assumption|]. apply negb_true_iff. apply (mem_nIn String.eqb string_eqb_spec).
        rewrite map_app. intros Hi. apply in_app_or in Hi. tauto. }
      apply Hc in H. apply (mem_In String.eqb string_eqb_spec) in H. contradiction. }
    rewrite E1. simpl. exists EType; split; reflexivity.
  - assert (e = EType). { clear - Ep. revert kw Ep. induction (zip_pos A in_names args) as [|[m a] t IH]; intros kw Ep; cbn [add_positional] in Ep; [discriminate|].
      destruct (mem String.eqb m (map fst kw)); [inversion Ep; reflexivity|eauto]. }
    subst. exists EType; split; reflexivity.
Qed.

Theorem bind_unknown_typeerror in_names defaults (args : list A) kw k :
  In k (map fst kw) -> ~ In k in_names -> exists e, bind_args A in_names defaults args kw = inr e.
Proof.
  intros Hk Hn. unfold bind_args. destruct (Nat.ltb _ _); [eexists; reflexivity|]. unfold bind_core.
  destruct (add_positional A kw (zip_pos A in_names args)) as [kw1|e] eqn:Ep; cbn [Base.bind]; [|eexists; reflexivity].
  destruct (add_positional_ok _ _ _ Ep) as (E & _ & _). subst kw1.
  destruct (negb (forallb _ (filter _ in_names))); [eexists; reflexivity|].
  assert (E2 : forallb (fun k0 => mem String.eqb k0 in_names) (map fst (kw ++ zip_pos A in_names args)) = false).
  { apply not_true_iff_false. intros Hc. rewrite forallb_forall in Hc. specialize (Hc k).
    assert (In k (map fst (kw ++ zip_pos A in_names args))) by (rewrite map_app; apply in_or_app; now left).
    apply Hc in H. apply (mem_In String.eqb string_eqb_spec) in H. contradiction. }
  rewrite E2. simpl. eexists; reflexivity.
Qed.
End BindFacts.

(* the pinned tree's binding silently drops surplus positional arguments *)
Theorem bind_orig_surplus_refuted : exists in_names (args : list nat) slots,
  List.length in_names < List.length args /\ bind_args_orig nat in_names [] args [] = inl slots.
Proof. exists ["x"%string], [1; 2; 3], [Given 1]. split; [simpl; repeat constructor|reflexivity]. Qed.

Example bind_example :
  bind_args nat ["a"; "b"; "c"]%string ["c"]%string [7] [("b"%string, 8)] = inl [Given 7; Given 8; Default "c"%string].
Proof. reflexivity. Qed.

(* argument whose type cannot match the declared input type: TypeError; untyped arguments are not checked *)
Theorem bad_type_typeerror (ty : Type) (subtype : ty -> ty -> bool) declared given i d t :
  nth_error declared i = Some d -> nth_error given i = Some (Some t) -> subtype t d = false ->
  check_inputs ty subtype declared given = inr EType.
Proof.
  intros Hd Hg Hs. unfold check_inputs.
  assert (E : forallb (fun dg => match snd dg with Some t0 => subtype t0 (fst dg) | None => true end) (combine declared given) = false).
  { apply not_true_iff_false. intros Hc. rewrite forallb_forall in Hc. specialize (Hc (d, Some t)).
    assert (In (d, Some t) (combine declared given)).
    { clear - Hd Hg. revert given i Hd Hg. induction declared as [|x l IH]; intros [|g gs] [|i] Hd Hg; simpl in *; try discriminate.
      - inversion Hd; inversion Hg; subst. now left.
      - right. eapply IH; eauto. }
    apply Hc in H. simpl in H. congruence. }
  now rewrite E.
Qed.
Theorem output_types_declared (ty : Type) (subtype : ty -> ty -> bool) din given dout tys :
  infer_output_types ty subtype din given dout = inl tys -> tys = dout.
Proof. unfold infer_output_types. intros H. apply bind_ok in H. destruct H as [u [_ H]]. now inversion H. Qed.

(* ---------- the emitted block is the foreign graph under a consistent renaming, injective on internal names ---------- *)
Lemma pair_functional_sound ps : pair_functional ps = true ->
  forall a b, In a ps -> In b ps -> fst a = fst b -> snd a = snd b.
Proof. unfold pair_functional. intros H a b Ha Hb E. rewrite forallb_forall in H. specialize (H a Ha).
  rewrite forallb_forall in H. specialize (H b Hb). rewrite E, String.eqb_refl in H. simpl in H. now apply String.eqb_eq. Qed.
Lemma pair_injective_sound ps : pair_injective ps = true ->
  forall a b, In a ps -> In b ps -> snd a = snd b -> snd a <> ""%string -> fst a = fst b.
Proof. unfold pair_injective. intros H a b Ha Hb E Hne. rewrite forallb_forall in H. specialize (H a Ha).
  rewrite forallb_forall in H. specialize (H b Hb). rewrite E, String.eqb_refl in H. simpl in H.
  apply orb_prop in H. destruct H as [H|H]; [now apply String.eqb_eq|]. apply String.eqb_eq in H. congruence. Qed.

Section InlineValid.
Variables (p : prog) (r : request) (m : model) (inputs outputs : list (string * var)).
Hypothesis Hin : all_vars (r_inputs r) = Some inputs.
Hypothesis Hout : all_vars (r_outputs r) = Some outputs.
Hypothesis Hv : validators p r m = true.
Let p' := final_prog p r inputs outputs.

(* every inlined block anywhere in the returned model (main graph, control-flow bodies, function bodies) belongs to an Inline
   node of the program and passes the alpha check against that node's foreign graph *)
Theorem inline_blocks_checked u i o b :
  In (u, i, o, b) (inlines_graph (mmain m) ++ flat_map (fun f => flat_map inlines_node (f_body f)) (mfunctions m))%list ->
  exists n om imps, u = NReal n /\ kind (getn p' n) = KInline om imps /\ alpha_ok om i o b = true.
Proof.
  intros Hb. destruct (validators_split p r m inputs outputs Hin Hout Hv) as (_ & _ & _ & _ & _ & _ & _ & _ & _ & _ & H & _).
  unfold inline_blocks_alpha in H. rewrite forallb_forall in H. specialize (H _ Hb). cbn beta iota in H.
  destruct u as [n|g]; [|discriminate]. fold p' in H. destruct (kind (getn p' n)) as [| | |om imps|] eqn:Ek; try discriminate.
  exists n, om, imps. repeat split; assumption.
Qed.
End InlineValid.
