(* ValuePropSemFacts.v — proof of value_equals_runtime on the abstract DAG of ValuePropSem.v. *)
From Coq Require Import List Arith Lia.
From Spox Require Import ValuePropSem.
Import ListNotations.

Section SemFacts.
  Variables opk content : Type.
  Variable opsem : opk -> list content -> list content.
  Variable backend : opk -> list content -> list (option content).
  Variable dflt : content.
  Notation agree := (agree content).

  (* HYPOTHESIS "backend agrees with opsem on constant inputs": whatever survives of the backend's answer for output k
     is the k-th run-time result of the operator on the same operand values *)
  Hypothesis backend_agrees_with_opsem_on_constant_inputs :
    forall o cs k c, nth k (backend o cs) None = Some c -> nth k (opsem o cs) dflt = c.

  Lemma agree_nth pe e a c : agree pe e -> nth a pe None = Some c -> nth a e dflt = c.
  Proof.
    intros H. revert a. induction H as [|p x pe e Hpx _ IH]; intros [|a] Hn; cbn in *; try discriminate; [apply Hpx; exact Hn|apply IH; exact Hn].
  Qed.

  Lemma all_some_args pe e args cs :
    agree pe e -> all_some content (map (fun a => nth a pe None) args) = Some cs -> map (fun a => nth a e dflt) args = cs.
  Proof.
    intros H. revert cs. induction args as [|a args IH]; intros cs Hs; cbn in *; [inversion Hs; reflexivity|].
    destruct (nth a pe None) as [c|] eqn:Ha; [|discriminate].
    destruct (all_some content (map (fun a0 => nth a0 pe None) args)) as [cs'|]; [|discriminate].
    inversion Hs; subst. rewrite (agree_nth pe e a c H Ha), (IH cs' eq_refl). reflexivity.
  Qed.

  Lemma agree_app pe e pe' e' : agree pe e -> agree pe' e' -> agree (pe ++ pe') (e ++ e').
  Proof. intros H1 H2. induction H1; cbn; [exact H2|constructor; assumption]. Qed.

  Lemma agree_none n (l : list content) : length l = n -> agree (repeat None n) l.
  Proof. revert l. induction n as [|n IH]; intros [|x l] H; cbn in *; try discriminate; constructor; [intros c X; discriminate|apply IH; lia]. Qed.

  (* C07: whenever an entry carries a propagated value, every execution of the model computes exactly that value for it –
     for every program (DAG in construction order) and every input binding. *)
  Theorem value_equals_runtime : forall prog rho penv env,
    agree penv env -> agree (prop_run opk content backend prog penv) (eval opk content opsem dflt prog rho env).
  Proof.
    induction prog as [|st rest IH]; intros rho penv env H; [exact H|].
    destruct st as [|c|o args n|a]; cbn [prop_run eval].
    - destruct rho as [|x rho']; apply IH; apply agree_app; try exact H; constructor; try constructor; intros c X; discriminate.
    - apply IH. apply agree_app; [exact H|]. constructor; [|constructor]. intros c' X. inversion X. reflexivity.
    - apply IH. apply agree_app; [exact H|].
      destruct (all_some content (map (fun a => nth a penv None) args)) as [cs|] eqn:Hs.
      + rewrite (all_some_args penv env args cs H Hs). induction (seq 0 n) as [|k l IHl]; cbn; constructor; [|exact IHl].
        intros c X. apply backend_agrees_with_opsem_on_constant_inputs. exact X.
      + apply agree_none. rewrite map_length, seq_length. reflexivity.
    - apply IH. apply agree_app; [exact H|]. constructor; [|constructor]. intros c X. apply (agree_nth penv env a c H X).
  Qed.

  (* hence a propagated value does not depend on the inputs at all *)
  Corollary value_same_for_all_inputs prog rho rho' j c :
    nth j (prop_run opk content backend prog []) None = Some c ->
    nth j (eval opk content opsem dflt prog rho []) dflt = c /\ nth j (eval opk content opsem dflt prog rho' []) dflt = c.
  Proof.
    intros H. split; eapply agree_nth; try exact H; apply value_equals_runtime; constructor.
  Qed.
End SemFacts.

(* non-vacuity: x (input), 2, 3, Add(2,3) -> 5 (kept), Mul(x, 5): no value; the backend's second (wrong) output is dropped *)
Module ToySem.
  Definition opsem (o : nat) (cs : list nat) : list nat :=
    match o, cs with 0, [a; b] => [a + b; a * b] | _, [a; b] => [a * b] | _, _ => [] end.
  Definition backend (o : nat) (cs : list nat) : list (option nat) :=
    match o, cs with 0, [a; b] => [Some (a + b); None] | _, [a; b] => [Some (a * b)] | _, _ => [] end.
  Lemma A : forall o cs k c, nth k (backend o cs) None = Some c -> nth k (opsem o cs) 0 = c.
  Proof.
    intros o cs k c. destruct o as [|o]; destruct cs as [|a [|b [|x cs]]]; cbn; try (destruct k; discriminate).
    - destruct k as [|[|k]]; cbn; intros H; inversion H; try reflexivity. destruct k; discriminate.
    - destruct k as [|k]; cbn; intros H; inversion H; try reflexivity. destruct k; discriminate.
  Qed.
  Definition prog : list (sstep nat nat) := [SArg nat nat; SSrc nat nat 2; SSrc nat nat 3; SOp nat nat 0 [1; 2] 2; SOp nat nat 1 [0; 3] 1; SCast nat nat 3].
  Example propagated : prop_run nat nat backend prog [] = [None; Some 2; Some 3; Some 5; None; None; Some 5].
  Proof. reflexivity. Qed.
  Example executed : eval nat nat opsem 0 prog [7] [] = [7; 2; 3; 5; 6; 35; 5].
  Proof. reflexivity. Qed.
  Example instance : agree nat (prop_run nat nat backend prog []) (eval nat nat opsem 0 prog [7] []).
  Proof. apply (value_equals_runtime nat nat opsem backend 0 A). constructor. Qed.
End ToySem.
