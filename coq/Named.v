(* Named.v — execution of the emitted model AS EMITTED: nested graphs of nodes that read and write value NAMES
   (the ONNX execution model: a node sees the names defined earlier in its own graph and in the enclosing graphs).
   [names_ok] is the executable check that the names in the emitted model are the image of the program's Vars under ONE table
   that is injective (distinct Vars, distinct non-empty names).  No proofs here (NamedFacts.v). *)
From Coq Require Import List String Arith Bool.
From Spox Require Import Base IR Show Build Sem Plan.
Import ListNotations.
Open Scope string_scope.

Section Named.
Variable p : prog.
Variable main : nat.
Variable val : Type.
Variable dv : val.
Variable opsem : nat -> list (option val) -> list (clos val) -> list val.

Definition nenv := list (string * val).
Fixpoint lookupn (s : string) (e : nenv) : val :=
  match e with [] => dv | (k, v) :: t => if String.eqb s k then v else lookupn s t end.
(* an emitted input list may have lost trailing omitted optionals: absent positions read as omitted *)
Definition pad (n : nat) (l : list string) : list string := (l ++ repeat "" (n - List.length l))%list.
Definition in_vals (e : nenv) (names : list string) : list (option val) :=
  map (fun s => if String.eqb s "" then None else Some (lookupn s e)) names.
Fixpoint bindn_from (k : nat) (names : list string) (vals : list val) : nenv :=
  match names with [] => [] | s :: t => (s, nth k vals dv) :: bindn_from (S k) t vals end.
Definition bindn (names : list string) (vals : list val) : nenv := bindn_from 0 names vals.

Fixpoint nstep (e : nenv) (n : mnode) {struct n} : nenv :=
  match n with
  | MNode _ _ _ u ins outs al =>
      let cls := (fix go (l : list (string * option mgraph)) : list (clos val) :=
                    match l with
                    | [] => []
                    | (_, Some g) :: t => (fun av => run_named g e av) :: go t
                    | (_, None) :: t => go t end) al in
      let vals := opsemP val dv opsem u (in_vals e (pad (List.length (insP p main u)) ins)) cls in
      (bindn outs vals ++ e)%list
  | MInit nm u => (bindn [nm] (opsemP val dv opsem u [] []) ++ e)%list
  | MIntro _ u ins outs => (bindn outs (opsemP val dv opsem u (in_vals e ins) []) ++ e)%list
  | MInline _ u ins outs _ => (bindn outs (opsemP val dv opsem u (in_vals e ins) []) ++ e)%list
  end
with run_named (g : mgraph) (e : nenv) (av : list val) {struct g} : list val :=
  match g with MGraph gi body go_ =>
    let e1 := (fix go (l : list mnode) (e : nenv) {struct l} : nenv :=
                 match l with [] => e | n :: t => go t (nstep e n) end) body (bindn (map fst gi) av ++ e)%list in
    map (fun o => lookupn (fst o) e1) go_
  end.
End Named.

(* ---------- the names of the emitted model as a table Var -> name, and the consistency check ---------- *)
Section Table.
Variable p : prog.
Variable main : nat.

Definition outs_table (u : nref) (outs : list string) : list (var * string) :=
  map (fun io => (V u (fst io), snd io)) (combine (seq 0 (List.length outs)) outs).
Fixpoint table_node (n : mnode) : list (var * string) :=
  match n with
  | MNode _ _ _ u _ outs al =>
      (outs_table u outs ++
       (fix go (l : list (string * option mgraph)) : list (var * string) :=
          match l with
          | [] => []
          | (k, Some g) :: t => (table_graph (sub_id p u k) g ++ go t)%list
          | (_, None) :: t => go t end) al)%list
  | MInit nm u => [(V u 0, nm)]
  | MIntro _ u _ outs => outs_table u outs
  | MInline _ u _ outs _ => outs_table u outs
  end
with table_graph (gid : nat) (g : mgraph) : list (var * string) :=
  match g with MGraph gi b _ =>
    (combine (gargsP p gid) (map fst gi) ++
     (fix go (l : list mnode) : list (var * string) := match l with [] => [] | n :: t => (table_node n ++ go t)%list end) b)%list
  end.

Definition nm_of (tbl : list (var * string)) (x : var) : string :=
  match lookup var_eqb x tbl with Some s => s | None => "" end.
Definition opt_names (tbl : list (var * string)) (l : list (option var)) : list string :=
  map (fun ox => match ox with Some x => nm_of tbl x | None => "" end) l.
Definition nonempties (l : list string) : bool := forallb (fun s => negb (String.eqb s "")) l.

(* every node reads exactly the names of its source node's input Vars (after un-trimming) and writes the names of all of its output
   Vars; graph inputs are named after the graph's arguments, graph outputs after the outputs of the graph's result identity *)
Section Ok.
Variable tbl : list (var * string).
Definition outs_ok (u : nref) (outs : list string) : bool :=
  list_eqb String.eqb outs (map (nm_of tbl) (outvars (noutsP p) u)) && nonempties outs.
Fixpoint node_names_ok (n : mnode) : bool :=
  match n with
  | MNode _ _ _ u ins outs al =>
      list_eqb String.eqb (pad (List.length (insP p main u)) ins) (opt_names tbl (insP p main u)) &&
      outs_ok u outs &&
      (fix go (l : list (string * option mgraph)) : bool :=
         match l with
         | [] => true
         | (k, Some g) :: t => graph_names_ok (sub_id p u k) g && go t
         | (_, None) :: t => go t end) al
  | MInit nm u => outs_ok u [nm] && match insP p main u with [] => true | _ => false end
  | MIntro _ u ins outs => list_eqb String.eqb ins (opt_names tbl (insP p main u)) && outs_ok u outs
  | MInline _ u ins outs _ => list_eqb String.eqb ins (opt_names tbl (insP p main u)) && outs_ok u outs
  end
with graph_names_ok (gid : nat) (g : mgraph) : bool :=
  match g with MGraph gi b go_ =>
    list_eqb String.eqb (map fst gi) (map (nm_of tbl) (gargsP p gid)) && nonempties (map fst gi) &&
    list_eqb String.eqb (map fst go_) (map (nm_of tbl) (gresP p gid)) &&
    (fix go (l : list mnode) : bool := match l with [] => true | n :: t => node_names_ok n && go t end) b
  end.
End Ok.

(* the table is injective: one name per Var, one Var per name *)
Definition table_inj (tbl : list (var * string)) : bool :=
  nodupb var_eqb (map fst tbl) && nodupb String.eqb (map snd tbl).
Definition names_ok (g : mgraph) : bool :=
  let tbl := table_graph main g in table_inj tbl && graph_names_ok tbl main g.
End Table.
