(* NodeProtoKeys.v — keys_ok (pairwise distinct, non-empty flattened keys) follows from a condition on the signature alone. *)
From Coq Require Import List String Ascii Bool Arith NArith Lia DecimalString DecimalNat.
From Spox Require Import NodeProto NodeProtoFacts.
Import ListNotations.
Local Open Scope list_scope.

Lemma nat_str_inj i j : nat_str i = nat_str j -> i = j.
Proof.
  unfold nat_str. intros H.
  assert (H' : Some (Nat.to_uint i) = Some (Nat.to_uint j)) by (rewrite <- !NilEmpty.usu; rewrite H; reflexivity).
  inversion H' as [H'']. rewrite <- (Unsigned.of_to i), <- (Unsigned.of_to j), H''. reflexivity.
Qed.
Lemma sapp_cancel a x y : sapp a x = sapp a y -> x = y.
Proof. unfold sapp. induction a; cbn; intros H; [exact H|inversion H; auto]. Qed.
Lemma prefix_sapp a b : String.prefix a (sapp a b) = true.
Proof. unfold sapp. induction a as [|c a IH]; cbn; [destruct b; reflexivity|]. destruct (ascii_dec c c); [exact IH|contradiction]. Qed.
Lemma sapp_assoc a b c : sapp (sapp a b) c = sapp a (sapp b c).
Proof. unfold sapp. induction a; cbn; [reflexivity|f_equal; assumption]. Qed.
Definition ekey (n : string) (i : nat) : string := sapp n (sapp "_" (nat_str i)).
Lemma ekey_prefix n i : String.prefix (sapp n "_") (ekey n i) = true.
Proof. unfold ekey. change (sapp "_" (nat_str i)) with (sapp "_" (nat_str i)). rewrite <- sapp_assoc. apply prefix_sapp. Qed.
Lemma prefix_cons c a b : String.prefix (String c a) (String c b) = String.prefix a b.
Proof. cbn. destruct (ascii_dec c c); [reflexivity|contradiction]. Qed.
(* two enumerated keys of different fields coincide only if one field name extends the other by "_..." *)
Lemma ekey_clash : forall n f x y, sapp n (sapp "_" x) = sapp f (sapp "_" y) ->
  n = f \/ String.prefix (sapp n "_") f = true \/ String.prefix (sapp f "_") n = true.
Proof.
  unfold sapp. induction n as [|c n IH]; intros f x y H.
  - destruct f as [|d f]; [left; reflexivity|]. cbn in H. inversion H; subst. right. left. cbn. destruct f; reflexivity.
  - destruct f as [|d f].
    + cbn in H. inversion H; subst. right. right. cbn. destruct n; reflexivity.
    + cbn in H. inversion H; subst. destruct (IH f x y H2) as [E|[E|E]].
      * left. f_equal. exact E.
      * right. left. cbn [append]. rewrite prefix_cons. exact E.
      * right. right. cbn [append]. rewrite prefix_cons. exact E.
Qed.

(* keys contributed by one slot *)
Definition slot_keys (n : string) (a : arg nat) : list string := map fst (flatten1 n a).
Lemma enum_keys n : forall (l : list nat) i k, In k (map fst (enum_from n i l)) -> exists j, k = ekey n j.
Proof.
  induction l as [|v l IH]; intros i k H; [destruct H|]. cbn in H. destruct H as [H|H]; [exists i; symmetry; exact H|eauto].
Qed.
Lemma enum_keys_ge n : forall (l : list nat) i k, In k (map fst (enum_from n i l)) -> exists j, i <= j /\ k = ekey n j.
Proof.
  induction l as [|v l IH]; intros i k H; [destruct H|]. cbn in H. destruct H as [H|H]; [exists i; split; [lia|symmetry; exact H]|].
  destruct (IH _ _ H) as [j [Hj Hk]]. exists j. split; [lia|exact Hk].
Qed.
Lemma enum_nodup n : forall (l : list nat) i, NoDup (map fst (enum_from n i l)).
Proof.
  induction l as [|v l IH]; intros i; [constructor|]. cbn. constructor; [|apply IH].
  intros H. destruct (enum_keys_ge _ _ _ _ H) as [j [Hj Hk]]. unfold ekey in Hk.
  apply sapp_cancel in Hk. unfold sapp in Hk. cbn in Hk. inversion Hk as [Hk']. apply nat_str_inj in Hk'. lia.
Qed.
Lemma slot_keys_nodup n a : NoDup (slot_keys n a).
Proof.
  unfold slot_keys. destruct a as [v|o|l]; cbn [flatten1 map fst]; try (constructor; [intros []|constructor]). apply enum_nodup.
Qed.
Lemma slot_keys_root n a k : In k (slot_keys n a) ->
  k = n \/ ((exists l, a = AVariadic l) /\ exists j, k = ekey n j).
Proof.
  unfold slot_keys. destruct a as [v|o|l]; cbn [flatten1 map fst].
  - intros [H|[]]. left. symmetry. exact H.
  - intros [H|[]]. left. symmetry. exact H.
  - intros H. right. split; [eexists; reflexivity|]. eapply enum_keys. exact H.
Qed.
(* every key of a flattened field list is rooted at one of the fields *)
Lemma flatten_root : forall sl (al : list (arg nat)) k, args_ok sl al = true -> In k (map fst (flatten sl al)) ->
  exists s, In s sl /\ (k = fst s \/ (is_variadic s = true /\ exists j, k = ekey (fst s) j)).
Proof.
  induction sl as [|s sl IH]; intros al k Ha Hin; destruct al as [|a al]; try discriminate; [destruct Hin|].
  cbn [args_ok] in Ha. apply andb_prop in Ha. destruct Ha as [Hk Ha]. cbn [flatten] in Hin. rewrite map_app in Hin.
  apply in_app_or in Hin. destruct Hin as [Hin|Hin].
  - exists s. split; [left; reflexivity|]. destruct (slot_keys_root _ _ _ Hin) as [H|[[l Hl] H]]; [left; exact H|right].
    split; [|exact H]. subst a. unfold is_variadic. destruct (snd s); try discriminate. reflexivity.
  - destruct (IH al k Ha Hin) as [s' [H1 H2]]. exists s'. split; [right; exact H1|exact H2].
Qed.

Lemma no_clash_spec sl v f : no_prefix_clash sl = true -> In v sl -> is_variadic v = true -> In f (map fst sl) ->
  String.prefix (sapp (fst v) "_") f = false.
Proof.
  unfold no_prefix_clash. intros H Hv Hvar Hf. rewrite forallb_forall in H.
  assert (Hin : In v (filter is_variadic sl)) by (apply filter_In; split; assumption).
  specialize (H v Hin). rewrite forallb_forall in H. apply negb_true_iff. apply H. exact Hf.
Qed.

Lemma flatten_keys_nodup : forall sl (al : list (arg nat)) (all : list slot),
  args_ok sl al = true -> NoDup (map fst sl) -> (forall s, In s sl -> In s all) -> no_prefix_clash all = true ->
  NoDup (map fst (flatten sl al)).
Proof.
  induction sl as [|s sl IH]; intros al all Ha Hnd Hsub Hc; destruct al as [|a al]; try discriminate; [constructor|].
  pose proof Ha as Ha0. cbn [args_ok] in Ha. apply andb_prop in Ha. destruct Ha as [Hk Ha].
  cbn [flatten]. rewrite map_app. cbn [map fst] in Hnd. inversion Hnd as [|x l Hnotin Hnd']; subst.
  assert (HIH : NoDup (map fst (flatten sl al))) by (apply (IH al all Ha Hnd'); [intros; apply Hsub; right; assumption|exact Hc]).
  assert (Hs_all : In s all) by (apply Hsub; left; reflexivity).
  assert (Hnames : forall s', In s' sl -> In (fst s') (map fst all)) by (intros s' Hs'; apply in_map; apply Hsub; right; exact Hs').
  (* NoDup of an append *)
  assert (Hdisj : forall k, In k (slot_keys (fst s) a) -> ~ In k (map fst (flatten sl al))).
  { intros k H1 H2. destruct (flatten_root sl al k Ha H2) as [s' [Hs' Hr]].
    assert (Hne : fst s <> fst s') by (intros E; apply Hnotin; rewrite E; apply in_map; exact Hs').
    destruct (slot_keys_root _ _ _ H1) as [E1|[[l Hl] [i E1]]]; destruct Hr as [E2|[Hv2 [j E2]]]; rewrite E1 in E2; clear E1.
    - exact (Hne E2).
    - (* fst s = ekey (fst s') j *)
      pose proof (no_clash_spec all s' (fst s) Hc (Hsub s' (or_intror Hs')) Hv2 (in_map fst all s Hs_all)) as Hp.
      rewrite E2 in Hp. rewrite ekey_prefix in Hp. discriminate.
    - assert (Hv1 : is_variadic s = true) by (subst a; unfold is_variadic; destruct (snd s); try discriminate; reflexivity).
      pose proof (no_clash_spec all s (fst s') Hc Hs_all Hv1 (Hnames s' Hs')) as Hp.
      rewrite <- E2 in Hp. rewrite ekey_prefix in Hp. discriminate.
    - assert (Hv1 : is_variadic s = true) by (subst a; unfold is_variadic; destruct (snd s); try discriminate; reflexivity).
      unfold ekey in E2. destruct (ekey_clash _ _ _ _ E2) as [E|[E|E]].
      + exact (Hne E).
      + pose proof (no_clash_spec all s (fst s') Hc Hs_all Hv1 (Hnames s' Hs')) as Hp. congruence.
      + pose proof (no_clash_spec all s' (fst s) Hc (Hsub s' (or_intror Hs')) Hv2 (in_map fst all s Hs_all)) as Hp. congruence. }
  clear - HIH Hdisj. pose proof (slot_keys_nodup (fst s) a) as H1. unfold slot_keys in *.
  induction (map fst (flatten1 (fst s) a)) as [|k ks IHk]; [exact HIH|]. cbn [app]. inversion H1; subst. constructor.
  - intros Hin. apply in_app_or in Hin. destruct Hin as [Hin|Hin]; [contradiction|]. apply (Hdisj k); [left; reflexivity|exact Hin].
  - apply IHk; [|assumption]. intros k' Hk'. apply Hdisj. right. exact Hk'.
Qed.

Lemma flatten_app : forall sl1 (al1 : list (arg nat)) sl2 al2, args_ok sl1 al1 = true ->
  flatten (sl1 ++ sl2) (al1 ++ al2) = flatten sl1 al1 ++ flatten sl2 al2.
Proof.
  induction sl1 as [|s sl1 IH]; intros al1 sl2 al2 Ha; destruct al1 as [|a al1]; try discriminate; [reflexivity|].
  cbn [args_ok] in Ha. apply andb_prop in Ha. destruct Ha as [_ Ha]. cbn [app flatten]. rewrite (IH al1 sl2 al2 Ha). apply app_assoc.
Qed.
Lemma args_ok_app : forall sl1 (al1 : list (arg nat)) sl2 al2, args_ok sl1 al1 = true -> args_ok sl2 al2 = true ->
  args_ok (sl1 ++ sl2) (al1 ++ al2) = true.
Proof.
  induction sl1 as [|s sl1 IH]; intros al1 sl2 al2 H1 H2; destruct al1 as [|a al1]; try discriminate; [exact H2|].
  cbn [args_ok] in H1. apply andb_prop in H1. destruct H1 as [Hk H1]. cbn [app args_ok]. rewrite Hk. cbn. apply IH; assumption.
Qed.
Lemma NoDup_nodupb l : NoDup l -> nodupb l = true.
Proof.
  induction 1 as [|x l Hx Hnd IH]; [reflexivity|]. cbn [nodupb]. rewrite IH, andb_true_r. apply negb_true_iff.
  destruct (existsb (seqb x) l) eqn:E; [|reflexivity]. apply existsb_exists in E. destruct E as [y [Hy E]].
  apply String.eqb_eq in E. subst y. contradiction.
Qed.

Theorem keys_ok_from_signature c : call_ok c = true -> sig_keys_ok (c_sig c) = true -> keys_ok c = true.
Proof.
  unfold call_ok, sig_keys_ok, keys_ok, field_names. intros Hc Hs.
  apply andb_prop in Hc. destruct Hc as [Hci Hco]. apply andb_prop in Hs. destruct Hs as [Hs Hclash].
  apply andb_prop in Hs. destruct Hs as [Hnd Hne]. apply nodupb_NoDup in Hnd.
  assert (Hfl : map fst (in_flat c) ++ map fst (out_flat c) =
                map fst (flatten (s_ins (c_sig c) ++ s_outs (c_sig c)) (c_ins c ++ c_outs c))).
  { unfold in_flat, out_flat. rewrite flatten_app by exact Hci. rewrite map_app. reflexivity. }
  rewrite Hfl. pose proof (args_ok_app _ _ _ _ Hci Hco) as Hall. apply andb_true_intro. split.
  - apply NoDup_nodupb. apply (flatten_keys_nodup _ _ (s_ins (c_sig c) ++ s_outs (c_sig c)) Hall Hnd); [auto|exact Hclash].
  - apply forallb_forall. intros k Hk. destruct (flatten_root _ _ _ Hall Hk) as [s [Hs [E|[_ [j E]]]]]; subst k.
    + rewrite forallb_forall in Hne. apply Hne. apply in_map. exact Hs.
    + apply negb_true_iff. apply is_empty_false. apply enum_key_nonempty.
Qed.

(* a signature with a variadic field on both sides satisfying the condition *)
Example sig_keys_ok_example :
  sig_keys_ok {| s_op := "Loop"; s_domain := ""; s_version := 16%N;
                 s_ins := [("M", KOptional); ("cond", KOptional); ("v_initial", KVariadic)]%string;
                 s_outs := [("v_final_and_scan_outputs", KVariadic)]%string; s_min := Some (2, 1) |} = true /\
  sig_keys_ok {| s_op := "Bad"; s_domain := "d"; s_version := 1%N;
                 s_ins := [("x", KVariadic); ("x_0", KSingle)]%string; s_outs := []; s_min := None |} = false.
Proof. split; reflexivity. Qed.
