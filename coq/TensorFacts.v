(* TensorFacts.v — proofs about Tensor.v (C10). *)
From Coq Require Import NArith ZArith List Bool Lia ZifyBool.
From Spox Require Import Tensor.
Import ListNotations.
Open Scope N_scope.

Ltac Zify.zify_post_hook ::= Z.to_euclidean_division_equations.

(* ------------------------------------------------------------------ small list facts *)
Lemma len_map {A B} (f : A -> B) l : len (map f l) = len l.
Proof. unfold len. now rewrite map_length. Qed.

Lemma map_fix {A} (f : A -> A) l : Forall (fun x => f x = x) l -> map f l = l.
Proof. induction 1; cbn; congruence. Qed.

Lemma forallb_Forall {A} (p : A -> bool) l : forallb p l = true <-> Forall (fun x => p x = true) l.
Proof.
  induction l as [|a l IH]; cbn; [split; auto|].
  rewrite andb_true_iff, IH. split; [intros [? ?]; now constructor|inversion 1; auto].
Qed.

Lemma Forall_map' {A B} (f : A -> B) (P : B -> Prop) l : Forall (fun x => P (f x)) l -> Forall P (map f l).
Proof. induction 1; cbn; constructor; auto. Qed.

(* ------------------------------------------------------------------ element codes *)
Lemma of_code_code e : of_code (code e) = Some e.
Proof. destruct e; reflexivity. Qed.

Lemma code_inj a b : code a = code b -> a = b.
Proof. intros H. pose proof (of_code_code a) as Ha. rewrite H, of_code_code in Ha. congruence. Qed.

(* ------------------------------------------------------------------ two's complement *)
Lemma wrap_of_N k x : x < 2 ^ k -> wrap k (Z.of_N x) = x.
Proof.
  intros H. unfold wrap. rewrite Z.mod_small; [apply N2Z.id|]. split; [apply N2Z.is_nonneg|now apply N2Z.inj_lt].
Qed.

Lemma wrap_sext k x : 0 < k -> x < 2 ^ k -> wrap k (sext k x) = x.
Proof.
  intros Hk H. unfold sext. destruct (x <? 2 ^ (k - 1)) eqn:E; [now apply wrap_of_N|].
  cbv beta iota. unfold wrap.
  assert (Hm : ((Z.of_N x - Z.of_N (2 ^ k)) mod Z.of_N (2 ^ k) = Z.of_N x)%Z).
  { symmetry. apply Z.mod_unique with (q := (-1)%Z); lia. }
  rewrite Hm. apply N2Z.id.
Qed.

(* ------------------------------------------------------------------ pairs (complex) *)
Lemma join_split k ws : join k (flat_map (split k) ws) = Some ws.
Proof.
  induction ws as [|w ws IH]; [reflexivity|].
  cbn [flat_map split app join]. rewrite IH. cbn [ocons]. f_equal. f_equal.
  pose proof (N.pow_nonzero 2 k). rewrite N.add_comm. symmetry. apply N.div_mod. lia.
Qed.

Lemma lo_hi k a b : a < 2 ^ k -> (a + 2 ^ k * b) mod 2 ^ k = a /\ (a + 2 ^ k * b) / 2 ^ k = b.
Proof.
  intros Ha. pose proof (N.pow_nonzero 2 k) as Hk.
  assert (E : a + 2 ^ k * b = a + b * 2 ^ k) by lia. rewrite E.
  rewrite N.mod_add by lia. rewrite N.div_add by lia. rewrite N.mod_small, N.div_small by assumption. auto.
Qed.

Lemma split_join_parts k a b : a < 2 ^ k -> split k (a + 2 ^ k * b) = [a; b].
Proof.
  intros Ha. unfold split. pose proof (N.pow_nonzero 2 k) as Hk.
  assert (E : a + 2 ^ k * b = a + b * 2 ^ k) by lia. rewrite E.
  rewrite N.mod_add by lia. rewrite N.div_add by lia. rewrite N.mod_small, N.div_small by assumption. reflexivity.
Qed.

(* ------------------------------------------------------------------ quieting of binary32 signalling NaNs *)
Lemma quiet32_idem w : quiet32 (quiet32 w) = quiet32 w.
Proof.
  unfold quiet32. destruct (is_snan32 w) eqn:E; [|now rewrite E].
  assert (E2 : is_snan32 (w + 2 ^ 22) = false); [|now rewrite E2].
  unfold is_snan32 in *. change (2 ^ 22) with 4194304 in *. change (2 ^ 23) with 8388608 in *. lia.
Qed.

Lemma quiet32_lt w : w < 2 ^ 32 -> quiet32 w < 2 ^ 32.
Proof.
  unfold quiet32. destruct (is_snan32 w) eqn:E; [|auto].
  unfold is_snan32 in E. change (2 ^ 22) with 4194304 in *. change (2 ^ 23) with 8388608 in *.
  change (2 ^ 32) with 4294967296. lia.
Qed.

Lemma sat_e5m2_lt w : w < 256 -> sat_e5m2 w < 256.
Proof. unfold sat_e5m2. intros. repeat match goal with |- context [if ?c then _ else _] => destruct c eqn:? end; lia. Qed.
Lemma sat_e5m2_idem w : sat_e5m2 (sat_e5m2 w) = sat_e5m2 w.
Proof.
  unfold sat_e5m2.
  repeat match goal with |- context [if ?c then _ else _] => destruct c eqn:? end; try reflexivity; lia.
Qed.

Lemma canon_lt e w : w < 2 ^ width e -> canon e w < 2 ^ width e.
Proof.
  destruct e; unfold canon, width; auto.
  - apply quiet32_lt.
  - intros H. change (2 ^ 64) with (2 ^ 32 * 2 ^ 32) in *.
    assert (w mod 2 ^ 32 < 2 ^ 32) by (apply N.mod_lt; discriminate).
    assert (w / 2 ^ 32 < 2 ^ 32) by (apply N.div_lt_upper_bound; [discriminate|exact H]).
    pose proof (quiet32_lt _ H0). pose proof (quiet32_lt _ H1). nia.
  - change (2 ^ 8) with 256. apply sat_e5m2_lt.
  - change (2 ^ 8) with 256. destruct (w =? 0); lia.
Qed.

Lemma canon_idem e w : w < 2 ^ width e -> canon e (canon e w) = canon e w.
Proof.
  destruct e; unfold canon, width; auto.
  - intros _. apply quiet32_idem.
  - intros H. change (2 ^ 64) with (2 ^ 32 * 2 ^ 32) in *.
    assert (Hl : w mod 2 ^ 32 < 2 ^ 32) by (apply N.mod_lt; discriminate).
    assert (Hh : w / 2 ^ 32 < 2 ^ 32) by (apply N.div_lt_upper_bound; [discriminate|exact H]).
    pose proof (quiet32_lt _ Hl) as Hl'.
    destruct (lo_hi 32 _ (quiet32 (w / 2 ^ 32)) Hl') as [S1 S2].
    rewrite S1, S2, !quiet32_idem. reflexivity.
  - intros _. apply sat_e5m2_idem.
  - intros _. destruct (w =? 0) eqn:E; [reflexivity|now rewrite E].
Qed.

(* ------------------------------------------------------------------ sub-byte packing *)
Section Ind2.
  Variable A : Type.
  Variable P : list A -> Prop.
  Hypothesis H0 : P [].
  Hypothesis H1 : forall a, P [a].
  Hypothesis H2 : forall a b t, P t -> P (a :: b :: t).
  Fixpoint list_ind2 (l : list A) : P l :=
    match l with
    | [] => H0
    | [a] => H1 a
    | a :: b :: t => H2 a b t (list_ind2 t)
    end.
End Ind2.
Section Ind4.
  Variable A : Type.
  Variable P : list A -> Prop.
  Hypothesis H0 : P [].
  Hypothesis H1 : forall a, P [a].
  Hypothesis H2 : forall a b, P [a; b].
  Hypothesis H3 : forall a b c, P [a; b; c].
  Hypothesis H4 : forall a b c d t, P t -> P (a :: b :: c :: d :: t).
  Fixpoint list_ind4 (l : list A) : P l :=
    match l with
    | [] => H0
    | [a] => H1 a
    | [a; b] => H2 a b
    | [a; b; c] => H3 a b c
    | a :: b :: c :: d :: t => H4 a b c d t (list_ind4 t)
    end.
End Ind4.

Lemma pack4_spec ws : Forall (fun w => w < 16) ws ->
  Forall (fun x => x < 256) (pack4 ws) /\ firstn (length ws) (unpack4 (pack4 ws)) = ws /\
  (length ws <= length (unpack4 (pack4 ws)))%nat.
Proof.
  induction ws as [|a|a b t IH] using list_ind2; intros HF.
  - cbn. auto.
  - inversion HF; subst. cbn. repeat split; [constructor; [lia|constructor]| |lia].
    f_equal. apply N.mod_small. assumption.
  - inversion HF as [|? ? Ha HF1]; subst. inversion HF1 as [|? ? Hb HF2]; subst.
    destruct (IH HF2) as (I1 & I2 & I3).
    cbn [pack4 unpack4 flat_map app length firstn]. fold (unpack4 (pack4 t)).
    repeat split.
    + constructor; [lia|exact I1].
    + rewrite I2. f_equal; [|f_equal]; lia.
    + cbn. lia.
Qed.

Lemma pack2_spec ws : Forall (fun w => w < 4) ws ->
  Forall (fun x => x < 256) (pack2 ws) /\ firstn (length ws) (unpack2 (pack2 ws)) = ws /\
  (length ws <= length (unpack2 (pack2 ws)))%nat.
Proof.
  induction ws as [|a|a b|a b c|a b c d t IH] using list_ind4; intros HF.
  - cbn. auto.
  - inversion HF; subst. cbn [pack2 unpack2 flat_map app length firstn]. repeat split; [constructor; [lia|constructor]| |lia]. f_equal. lia.
  - inversion HF as [|? ? Ha HF1]; subst. inversion HF1 as [|? ? Hb HF2]; subst.
    cbn [pack2 unpack2 flat_map app length firstn]. repeat split; [constructor; [lia|constructor]| |lia]. f_equal; [|f_equal]; lia.
  - inversion HF as [|? ? Ha HF1]; subst. inversion HF1 as [|? ? Hb HF2]; subst. inversion HF2 as [|? ? Hc HF3]; subst.
    cbn [pack2 unpack2 flat_map app length firstn]. repeat split; [constructor; [lia|constructor]| |lia]. f_equal; [|f_equal; [|f_equal]]; lia.
  - inversion HF as [|? ? Ha HF1]; subst. inversion HF1 as [|? ? Hb HF2]; subst. inversion HF2 as [|? ? Hc HF3]; subst.
    inversion HF3 as [|? ? Hd HF4]; subst.
    destruct (IH HF4) as (I1 & I2 & I3).
    cbn [pack2 unpack2 flat_map app length firstn]. fold (unpack2 (pack2 t)).
    repeat split.
    + constructor; [lia|exact I1].
    + rewrite I2. f_equal; [|f_equal; [|f_equal; [|f_equal]]]; lia.
    + cbn. lia.
Qed.

Lemma map_wrap_of_N k l : Forall (fun x => x < 2 ^ k) l -> map (wrap k) (map Z.of_N l) = l.
Proof. induction 1; cbn; [reflexivity|]. rewrite wrap_of_N by assumption. congruence. Qed.

Lemma map_wrap_sext k l : 0 < k -> Forall (fun x => x < 2 ^ k) l -> map (wrap k) (map (sext k) l) = l.
Proof. intros Hk. induction 1; cbn; [reflexivity|]. rewrite wrap_sext by assumption. congruence. Qed.

Lemma cut_spec n l ws : n = len ws -> firstn (length ws) l = ws -> (length ws <= length l)%nat -> cut n l = Some ws.
Proof.
  intros -> Hf Hl. unfold cut, len. destruct (N.of_nat (length ws) <=? N.of_nat (length l)) eqn:E; [|lia].
  now rewrite Nat2N.id, Hf.
Qed.

(* ------------------------------------------------------------------ raw bytes *)
Lemma take_to_le k : forall w rest, w < 2 ^ (8 * N.of_nat k) -> take_le k (to_le k w ++ rest) = Some (w, rest).
Proof.
  induction k as [|k IH]; intros w rest H.
  - cbn in *. f_equal. f_equal. lia.
  - cbn [to_le take_le app].
    assert (Hd : w / 256 < 2 ^ (8 * N.of_nat k)).
    { apply N.div_lt_upper_bound; [discriminate|]. change 256 with (2 ^ 8). rewrite <- N.pow_add_r.
      replace (8 + 8 * N.of_nat k) with (8 * N.of_nat (S k)) by lia. exact H. }
    rewrite (IH _ _ Hd). f_equal. f_equal. lia.
Qed.

Lemma read_to_le k ws : Forall (fun w => w < 2 ^ (8 * N.of_nat k)) ws ->
  read_words k (length ws) (flat_map (to_le k) ws) = Some ws.
Proof.
  induction 1 as [|w ws Hw HF IH]; [reflexivity|].
  cbn [length flat_map read_words]. rewrite take_to_le by assumption. now rewrite IH.
Qed.

(* ------------------------------------------------------------------ UTF-8 *)
Lemma utf8_decode_cp c rest : scalar_value c = true ->
  utf8_decode (utf8_cp c ++ rest) = ocons c (utf8_decode rest).
Proof.
  intros Hs. unfold scalar_value in Hs. unfold utf8_cp.
  destruct (c <? 128) eqn:E1.
  { cbn [app utf8_decode]. now rewrite E1. }
  destruct (c <? 2048) eqn:E2.
  { cbn [app utf8_decode].
    assert (H1 : 192 + c / 64 <? 128 = false) by lia. assert (H2 : 192 + c / 64 <? 194 = false) by lia.
    assert (H3 : 192 + c / 64 <? 224 = true) by lia. rewrite H1, H2, H3.
    assert (H4 : cont (128 + c mod 64) = true) by (unfold cont; lia). rewrite H4.
    f_equal. lia. }
  destruct (c <? 65536) eqn:E3.
  { cbn [app utf8_decode].
    assert (H1 : 224 + c / 4096 <? 128 = false) by lia. assert (H2 : 224 + c / 4096 <? 194 = false) by lia.
    assert (H3 : 224 + c / 4096 <? 224 = false) by lia. assert (H3' : 224 + c / 4096 <? 240 = true) by lia.
    rewrite H1, H2, H3, H3'.
    assert (H4 : cont (128 + (c / 64) mod 64) = true) by (unfold cont; lia).
    assert (H5 : cont (128 + c mod 64) = true) by (unfold cont; lia). rewrite H4, H5.
    assert (Hc : (224 + c / 4096 - 224) * 4096 + (128 + (c / 64) mod 64 - 128) * 64 + (128 + c mod 64 - 128) = c) by lia.
    rewrite Hc. assert (H6 : 2048 <=? c = true) by lia. rewrite H6. unfold scalar_value. rewrite Hs. reflexivity. }
  cbn [app utf8_decode].
  assert (Hlt : c < 1114112) by lia.
  assert (H1 : 240 + c / 262144 <? 128 = false) by lia. assert (H2 : 240 + c / 262144 <? 194 = false) by lia.
  assert (H3 : 240 + c / 262144 <? 224 = false) by lia. assert (H3' : 240 + c / 262144 <? 240 = false) by lia.
  assert (H3'' : 240 + c / 262144 <? 245 = true) by lia.
  rewrite H1, H2, H3, H3', H3''.
  assert (H4 : cont (128 + (c / 4096) mod 64) = true) by (unfold cont; lia).
  assert (H5 : cont (128 + (c / 64) mod 64) = true) by (unfold cont; lia).
  assert (H6 : cont (128 + c mod 64) = true) by (unfold cont; lia). rewrite H4, H5, H6.
  assert (Hc : (240 + c / 262144 - 240) * 262144 + (128 + (c / 4096) mod 64 - 128) * 4096 +
               (128 + (c / 64) mod 64 - 128) * 64 + (128 + c mod 64 - 128) = c) by lia.
  rewrite Hc. assert (H7 : 65536 <=? c = true) by lia. assert (H8 : c <? 1114112 = true) by lia.
  rewrite H7, H8. reflexivity.
Qed.

Lemma utf8_roundtrip s : forallb scalar_value s = true -> utf8_decode (utf8 s) = Some s.
Proof.
  induction s as [|c s IH]; [reflexivity|]. cbn [forallb utf8 flat_map]. intros H. apply andb_prop in H. destruct H as [Hc Hs].
  rewrite utf8_decode_cp by assumption. fold (utf8 s). now rewrite (IH Hs).
Qed.

Lemma utf8_all ss : forallb (forallb scalar_value) ss = true -> all_some (map utf8_decode (map utf8 ss)) = Some ss.
Proof.
  induction ss as [|s ss IH]; [reflexivity|]. cbn [forallb map all_some]. intros H. apply andb_prop in H. destruct H as [H1 H2].
  rewrite utf8_roundtrip by assumption. now rewrite (IH H2).
Qed.

(* ------------------------------------------------------------------ the typed path *)
Definition stable (e : elem) (w : N) : Prop := w < 2 ^ width e /\ canon e w = w.

Lemma stable_canon e ws : Forall (fun w => w < 2 ^ width e) ws -> Forall (stable e) (map (canon e) ws).
Proof. intros H. apply Forall_map'. induction H; constructor; auto. split; [now apply canon_lt|now apply canon_idem]. Qed.

Lemma stable_c64_parts w : stable C64 w -> quiet32 (w mod 2 ^ 32) = w mod 2 ^ 32 /\ quiet32 (w / 2 ^ 32) = w / 2 ^ 32.
Proof.
  intros [Hlt Hc]. unfold canon in Hc. unfold width in Hlt.
  assert (Hl : w mod 2 ^ 32 < 2 ^ 32) by (apply N.mod_lt; discriminate).
  pose proof (quiet32_lt _ Hl) as Hl'.
  destruct (lo_hi 32 _ (quiet32 (w / 2 ^ 32)) Hl') as [S1 S2]. rewrite Hc in S1, S2. auto.
Qed.

Lemma typed_roundtrip e ws n : e <> Str -> n = len ws -> Forall (stable e) ws ->
  decode_words e n (pack_typed e ws) = Some ws.
Proof.
  intros Hne Hn HF. unfold decode_words.
  assert (Hlt : Forall (fun w => w < 2 ^ width e) ws) by (eapply Forall_impl; [|exact HF]; intros ? [? ?]; assumption).
  assert (Hst : Forall (fun w => canon e w = w) ws) by (eapply Forall_impl; [|exact HF]; intros ? [? ?]; assumption).
  destruct e; try congruence; unfold pack_typed, decode_typed; cbn [store_of get_float get_double get_int32 get_int64 get_uint64];
  try (f_equal; now apply map_wrap_of_N);
  try (f_equal; apply map_wrap_sext; [reflexivity|assumption]);
  try (f_equal; apply map_fix; eapply Forall_impl; [|exact Hlt]; intros; now apply N.mod_small);
  try apply join_split;
  try reflexivity.
  - (* F32 *) f_equal. apply map_fix. exact Hst.
  - (* C64 *)
    assert (E : map quiet32 (flat_map (split 32) ws) = flat_map (split 32) ws).
    { clear Hlt Hst Hn. induction HF as [|w ws Hw HF IH]; [reflexivity|].
      cbn [flat_map split app map]. destruct (stable_c64_parts _ Hw) as [A B]. rewrite A, B. now rewrite IH. }
    rewrite E. apply join_split.
  - (* U4 *) destruct (pack4_spec ws Hlt) as (P1 & P2 & P3). rewrite (map_wrap_of_N 8) by exact P1. now apply cut_spec.
  - (* I4 *) destruct (pack4_spec ws Hlt) as (P1 & P2 & P3). rewrite (map_wrap_of_N 8) by exact P1. now apply cut_spec.
  - (* F4E2M1 *) destruct (pack4_spec ws Hlt) as (P1 & P2 & P3). rewrite (map_wrap_of_N 8) by exact P1. now apply cut_spec.
  - (* U2 *) destruct (pack2_spec ws Hlt) as (P1 & P2 & P3). rewrite (map_wrap_of_N 8) by exact P1. now apply cut_spec.
  - (* I2 *) destruct (pack2_spec ws Hlt) as (P1 & P2 & P3). rewrite (map_wrap_of_N 8) by exact P1. now apply cut_spec.
Qed.

Lemma decode_num e dims (d : pdata) ws : e <> Str -> len ws = prod dims ->
  decode_words e (prod dims) d = Some ws ->
  decode (mkP (code e) dims d) = Some (mkT e dims (PNum ws)).
Proof.
  intros Hne Hl H. unfold decode. cbn [p_dtype p_dims p_data]. rewrite of_code_code.
  destruct e; try congruence; cbv beta iota zeta; rewrite H, Hl, N.eqb_refl; reflexivity.
Qed.

Lemma wf_num e dims ws : wf (mkT e dims (PNum ws)) = true ->
  e <> Str /\ len ws = prod dims /\ Forall (fun w => w < 2 ^ width e) ws.
Proof.
  unfold wf. cbn [t_elem t_data t_dims]. intros H.
  assert (Hne : e <> Str) by (intros ->; discriminate).
  assert (H' : (len ws =? prod dims) && forallb (fun w => w <? 2 ^ width e) ws = true) by (destruct e; try congruence; exact H).
  apply andb_prop in H'. destruct H' as [H1 H2]. apply N.eqb_eq in H1. apply forallb_Forall in H2.
  repeat split; auto. eapply Forall_impl; [|exact H2]. intros a Ha. now apply N.ltb_lt.
Qed.

Lemma wf_str e dims ss : wf (mkT e dims (PStr ss)) = true ->
  e = Str /\ len ss = prod dims /\ forallb (forallb scalar_value) ss = true.
Proof.
  unfold wf. cbn [t_elem t_data t_dims]. destruct e; try discriminate. intros H. apply andb_prop in H. destruct H as [H1 H2].
  apply N.eqb_eq in H1. auto.
Qed.

Lemma decode_str dims ss : len ss = prod dims -> forallb (forallb scalar_value) ss = true ->
  decode (mkP (code Str) dims (DString (map utf8 ss))) = Some (mkT Str dims (PStr ss)).
Proof.
  intros Hl Hs. unfold decode. cbn [p_dtype p_dims p_data get_string]. rewrite of_code_code. cbv beta iota.
  rewrite utf8_all by assumption. now rewrite Hl, N.eqb_refl.
Qed.

(* the pinned tree: the embedded tensor is the array with every word passed through [canon] *)
Theorem decode_encode_pinned t : wf t = true -> decode (encode_pinned t) = Some (canon_tensor t).
Proof.
  destruct t as [e dims [ws|ss]]; intros H.
  - destruct (wf_num _ _ _ H) as (Hne & Hl & HF). unfold encode_pinned, canon_tensor. cbn [t_elem t_dims t_data].
    apply decode_num; [assumption|now rewrite len_map|].
    apply typed_roundtrip; [assumption|now rewrite len_map|now apply stable_canon].
  - destruct (wf_str _ _ _ H) as (-> & Hl & Hs). unfold encode_pinned, canon_tensor. cbn [t_elem t_dims t_data].
    now apply decode_str.
Qed.

Lemma lossless_all e ws : forallb (lossless e) ws = true -> map (canon e) ws = ws.
Proof.
  intros H. apply map_fix. apply forallb_Forall in H. eapply Forall_impl; [|exact H]. intros a Ha. now apply N.eqb_eq.
Qed.

Definition all_lossless (t : tensor) : bool :=
  match t_data t with PNum ws => forallb (lossless (t_elem t)) ws | PStr _ => true end.

(* ... hence exact whenever no word is one of the lossy patterns *)
Theorem decode_encode_pinned_lossless t : wf t = true -> all_lossless t = true -> decode (encode_pinned t) = Some t.
Proof.
  intros H HL. rewrite decode_encode_pinned by assumption. destruct t as [e dims [ws|ss]]; [|reflexivity].
  unfold canon_tensor, all_lossless in *. cbn [t_elem t_dims t_data] in *. now rewrite lossless_all.
Qed.

(* ------------------------------------------------------------------ the raw path *)
Lemma lossy_elems e ws : forallb (lossless e) ws = false -> e = F32 \/ e = C64 \/ e = F8E5M2 \/ e = F8E8M0.
Proof.
  intros H.
  assert (K : (forall w, lossless e w = true) -> False).
  { intros A. assert (forallb (lossless e) ws = true) by (apply forallb_forall; intros; apply A). congruence. }
  destruct e; auto; exfalso; apply K; intros w; unfold lossless, canon; apply N.eqb_refl.
Qed.

Lemma raw_roundtrip e ws : (e = F32 \/ e = C64 \/ e = F8E5M2 \/ e = F8E8M0) -> Forall (fun w => w < 2 ^ width e) ws ->
  decode_raw e (len ws) (flat_map (to_le (nbytes e)) ws) = Some ws.
Proof.
  intros He HF.
  destruct He as [-> | [-> | [-> | ->]]]; unfold decode_raw, len; cbn [store_of]; rewrite Nat2N.id; apply read_to_le; exact HF.
Qed.

(* the repaired from_array: exact for every well-formed tensor *)
Theorem decode_encode t : wf t = true -> decode (encode t) = Some t.
Proof.
  destruct t as [e dims [ws|ss]]; intros H.
  - destruct (wf_num _ _ _ H) as (Hne & Hl & HF). unfold encode. cbn [t_elem t_dims t_data].
    destruct (forallb (lossless e) ws) eqn:L.
    + pose proof (decode_encode_pinned_lossless _ H) as P. unfold all_lossless in P. cbn [t_elem t_dims t_data] in P. specialize (P L).
      unfold encode_pinned in P. cbn [t_elem t_dims t_data] in P. now rewrite lossless_all in P.
    + apply decode_num; [assumption|assumption|]. rewrite <- Hl. unfold decode_words.
      apply raw_roundtrip; [now apply lossy_elems with ws|assumption].
  - destruct (wf_str _ _ _ H) as (-> & Hl & Hs). unfold encode. cbn [t_elem t_dims t_data]. now apply decode_str.
Qed.

(* the pinned from_array is NOT exact: a binary32 signalling NaN is embedded as a quiet NaN *)
Theorem pinned_refuted : exists t, wf t = true /\ decode (encode_pinned t) <> Some t.
Proof. exists (mkT F32 [1] (PNum [0x7F800001])). split; [reflexivity|]. vm_compute. discriminate. Qed.

(* encode and encode_pinned coincide on lossless tensors (the repair changes nothing else) *)
Theorem encode_conservative t : all_lossless t = true -> encode t = encode_pinned t.
Proof.
  destruct t as [e dims [ws|ss]]; unfold all_lossless; cbn [t_data t_elem]; intros H; [|reflexivity].
  unfold encode, encode_pinned. cbn [t_elem t_dims t_data]. now rewrite H, lossless_all.
Qed.

(* which words are lossy: exactly binary32 signalling NaNs (alone or as a complex64 component), float8e5m2 infinities
   and non-canonical NaNs, float8e8m0 pattern 0 *)
Theorem lossy_characterised e w : w < 2 ^ width e ->
  (lossless e w = false <->
   (e = F32 /\ is_snan32 w = true) \/
   (e = C64 /\ (is_snan32 (w mod 2 ^ 32) = true \/ is_snan32 (w / 2 ^ 32) = true)) \/
   (e = F8E5M2 /\ (w = 0x7C \/ w = 0xFC \/ w = 0x7D \/ w = 0x7F \/ w = 0xFD \/ w = 0xFF)) \/
   (e = F8E8M0 /\ w = 0)).
Proof.
  intros Hw. unfold lossless.
  destruct e; unfold canon;
    try (rewrite N.eqb_refl; split; [discriminate|intros [[? _]|[[? _]|[[? _]|[? _]]]]; discriminate]).
  - (* F32 *) unfold quiet32. destruct (is_snan32 w) eqn:E.
    + split; [intros _; left; auto|intros _; apply N.eqb_neq; change (2 ^ 22) with 4194304; lia].
    + rewrite N.eqb_refl. split; [discriminate|intros [[_ ?]|[[? _]|[[? _]|[? _]]]]; discriminate].
  - (* C64 *)
    unfold width in Hw. change (2 ^ 64) with (2 ^ 32 * 2 ^ 32) in Hw.
    assert (Hl : w mod 2 ^ 32 < 2 ^ 32) by (apply N.mod_lt; discriminate).
    assert (Hd : w = w mod 2 ^ 32 + 2 ^ 32 * (w / 2 ^ 32)).
    { rewrite N.add_comm. apply N.div_mod. discriminate. }
    unfold quiet32. destruct (is_snan32 (w mod 2 ^ 32)) eqn:E1; destruct (is_snan32 (w / 2 ^ 32)) eqn:E2.
    4: { rewrite <- Hd, N.eqb_refl. split; [discriminate|intros [[? _]|[[_ [?|?]]|[[? _]|[? _]]]]; discriminate]. }
    all: split; [intros _; right; left; split; auto|].
    all: intros _; apply N.eqb_neq; change (2 ^ 22) with 4194304 in *; change (2 ^ 32) with 4294967296 in *; lia.
  - (* F8E5M2 *)
    unfold width in Hw. change (2 ^ 8) with 256 in Hw. unfold sat_e5m2.
    repeat match goal with |- context [if ?c then _ else _] => destruct c eqn:? end;
      (split; [intros ?; right; right; left; split; [reflexivity|lia] | intros [[? _]|[[? _]|[[_ ?]|[? _]]]]; try discriminate; lia]).
  - (* F8E8M0 *)
    destruct (w =? 0) eqn:E.
    + split; [intros _; right; right; right; split; [reflexivity|lia]|intros _; lia].
    + rewrite N.eqb_refl. split; [discriminate|intros [[? _]|[[? _]|[[? _]|[_ ?]]]]; try discriminate; lia].
Qed.

(* ------------------------------------------------------------------ type of the Var *)
Theorem proto_type_encode t : proto_type (encode t) = Some (array_type t) /\ proto_type (encode_pinned t) = Some (array_type t).
Proof. unfold proto_type, encode, encode_pinned, array_type. cbn [p_dtype p_dims]. now rewrite of_code_code. Qed.

(* ------------------------------------------------------------------ non-vacuity *)
Example wf_examples :
  let empty := mkT F32 [2; 0; 3] (PNum []) in
  let scalar := mkT F32 [] (PNum [0x7F800001]) in                        (* 0-d, signalling NaN *)
  let u64 := mkT U64 [2] (PNum [18446744073709551615; 0]) in
  let i4 := mkT I4 [3] (PNum [15; 8; 7]) in
  let c64 := mkT C64 [1] (PNum [0x7F800001 + 2 ^ 32 * 0x80000000]) in    (* re = sNaN, im = -0.0 *)
  let s := mkT Str [2] (PStr [[0x1F40D; 0xE9]; []]) in                    (* snake emoji + e-acute; empty string *)
  forallb wf [empty; scalar; u64; i4; c64; s] = true /\
  p_data (encode scalar) = DRaw [1; 0; 128; 127] /\ p_data (encode_pinned scalar) = DFloat [0x7FC00001] /\
  p_data (encode u64) = DUint64 [18446744073709551615; 0] /\
  p_data (encode i4) = DInt32 [143%Z; 7%Z] /\
  p_data (encode s) = DString [[0xF0; 0x9F; 0x90; 0x8D; 0xC3; 0xA9]; []].
Proof. vm_compute. repeat split; reflexivity. Qed.
