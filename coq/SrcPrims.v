(* SrcPrims.v — the primitives the source translator (harness/pysrc.py) renders Python idioms with.  No proofs.
   sdim_eqb            ==  on simple shape elements (int | str | None; bool operands do not occur)
   is_sint / is_sstr   isinstance(x, int) / isinstance(x, str)
   is_unknown / is_constant, is_tensor / is_seq / is_opt      isinstance on Natural / Type objects
   is_none, dims_of    `dims is None`, iteration over dims (guarded by `is None` tests in the source; [] is never iterated)
   shape_rank          Shape.rank (raises when dims is None; only reached behind the `is None` guard)
   ty_elem / ty_shape / ty_inner   Tensor._elem_type / Tensor._shape / Sequence|Optional.elem_type (reached behind isinstance guards)
   issubclass(e, e') on the canonical numpy scalar types of the element-type table is rendered as equality of the ONNX codes:
   no scalar type of the table is a subclass of another (validated per run by C13's spelling table and ==/hash oracle). *)
From Coq Require Import List String ZArith NArith Bool.
From Spox Require Import Shape Types.
Import ListNotations.

Definition sdim_eqb (a b : sdim) : bool :=
  match a, b with SInt x, SInt y => Z.eqb x y | SStr s, SStr t => String.eqb s t | SNone, SNone => true | _, _ => false end.
Definition is_sint (x : sdim) : bool := match x with SInt _ => true | _ => false end.
Definition is_sstr (x : sdim) : bool := match x with SStr _ => true | _ => false end.
Definition is_unknown (d : dim) : bool := match d with DC _ => false | _ => true end.
Definition is_constant (d : dim) : bool := match d with DC _ => true | _ => false end.
Definition is_tensor (t : ty) : bool := match t with TTensor _ _ => true | _ => false end.
Definition is_seq (t : ty) : bool := match t with TSeq _ => true | _ => false end.
Definition is_opt (t : ty) : bool := match t with TOpt _ => true | _ => false end.
Definition is_none {A} (o : option A) : bool := match o with None => true | Some _ => false end.
Definition dims_of (s : shape) : list dim := match s with Some l => l | None => [] end.
Definition shape_rank (s : shape) : nat := List.length (dims_of s).
Definition ty_elem (t : ty) : N := match t with TTensor e _ => e | _ => 0%N end.
Definition ty_shape (t : ty) : shape := match t with TTensor _ s => s | _ => None end.
Definition ty_inner (t : ty) : ty := match t with TSeq x | TOpt x => x | _ => TTop end.
Definition canon_sdim (x : sdim) : bool := match x with SStr s => negb (String.eqb s "") | _ => true end.
