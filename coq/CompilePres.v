(* CompilePres.v — any predicate on scopes that is kept by Scope.update, by counter updates and by reserving a name that is not
   taken, is kept by the whole of compile (every fuel, nesting depth, mix of operators, subgraphs, functions and inlined models).
   Leaf-level corollary: it suffices that ScopeSpace.__setitem__ (set_var / set_node) keep it.  Instantiated in ScopeFacts.v
   (injective tables) and IOFacts.v (bindings are never changed; a named Var is only ever bound to its name). *)
From Coq Require Import List String NArith Arith Bool.
From Spox Require Import Base IR Show Build Sem Plan Named Validate BuildFacts.
Import ListNotations.
Open Scope list_scope.

Lemma foldM_inv {A S} (P : S -> Prop) (f : S -> A -> res S) :
  (forall s a s', f s a = inl s' -> P s -> P s') -> forall l s s', foldM f l s = inl s' -> P s -> P s'.
Proof. intros Hf. induction l as [|a t IH]; intros s s' H Hp; cbn [foldM] in H; [inversion H; subst; assumption|].
  apply bind_ok in H. destruct H as [s1 [H1 H2]]. eapply IH; [exact H2|]. eapply Hf; eauto. Qed.

Section Pres.
Variable Inv : scope -> Prop.
Variables (p : prog) (un : names).
Hypothesis scope_update_inv : forall s u prefix s', scope_update p un s u prefix = inl s' -> Inv s -> Inv s'.
Hypothesis Hvc : forall s c, Inv s -> Inv (with_vcnt s c).
Hypothesis Hres : forall s r, Inv s -> name_taken s r = false -> Inv (with_reserved s (reserved s ++ [r])).

(* ---------- renaming of an inlined graph only reserves fresh names ---------- *)
Lemma reserve_free_inv fuel base : forall r sc r' sc', reserve_free fuel base r sc = inl (r', sc') -> Inv sc -> Inv sc'.
Proof. induction fuel as [|f IH]; intros r sc r' sc' H Hs; cbn [reserve_free] in H.
  - destruct (name_taken sc r) eqn:Ec; [discriminate H|]. inversion H; subst. now apply Hres.
  - destruct (name_taken sc r) eqn:Ec.
    + destruct (enum (vcnt sc) base) as [r2 vc2]. eapply IH; [exact H|]. now apply Hvc.
    + inversion H; subst. now apply Hres. Qed.
Lemma reserve_prefixed_inv nm sc name r sc' : reserve_prefixed nm sc name = inl (r, sc') -> Inv sc -> Inv sc'.
Proof. unfold reserve_prefixed. destruct (String.eqb name ""); [intros H; inversion H; subst; auto|].
  destruct (maybe_enum (vcnt sc) (nm ++ "__" ++ name))%string as [r0 vc]. intros H Hs. eapply reserve_free_inv; [exact H|now apply Hvc]. Qed.

Definition rsame (st st' : rstate) : Prop := Inv (fst (fst st)) -> Inv (fst (fst st')).
Lemma rsame_refl st : rsame st st. Proof. intros H; exact H. Qed.
Lemma rsame_trans a b c : rsame a b -> rsame b c -> rsame a c. Proof. unfold rsame; auto. Qed.

Section Ren.
Variables (nm : String.string) (u : nref) (operands : list (option var)) (in_names out_names : list String.string).

Lemma rename_val_same st name r st' : rename_val nm u operands in_names out_names st name = inl (r, st') -> rsame st st'.
Proof. unfold rename_val. destruct st as [[sc vt] nt].
  destruct (index_last name in_names 0 None) as [i|].
  - destruct (nth i operands None); [|discriminate]. intros H. apply bind_ok in H. destruct H as [x [_ H]]. inversion H; subst. apply rsame_refl.
  - destruct (index_last name out_names 0 None) as [k|].
    + intros H. apply bind_ok in H. destruct H as [x [_ H]]. inversion H; subst. apply rsame_refl.
    + destruct (lookup String.eqb name vt); [intros H; inversion H; subst; apply rsame_refl|].
      intros H. apply bind_ok in H. destruct H as [[r0 sc0] [H1 H2]]. inversion H2; subst. unfold rsame. cbn.
      eapply reserve_prefixed_inv; eauto. Qed.
Lemma rename_node_same st name r st' : rename_node nm st name = inl (r, st') -> rsame st st'.
Proof. unfold rename_node. destruct st as [[sc vt] nt]. destruct (String.eqb name ""); [intros H; inversion H; subst; apply rsame_refl|].
  destruct (lookup String.eqb name nt); [intros H; inversion H; subst; apply rsame_refl|].
  intros H. apply bind_ok in H. destruct H as [[r0 sc0] [H1 H2]]. inversion H2; subst. unfold rsame. cbn.
  eapply reserve_prefixed_inv; eauto. Qed.
Lemma mapS_same {A} (f : rstate -> A -> res (String.string * rstate)) :
  (forall st a r st', f st a = inl (r, st') -> rsame st st') ->
  forall l st r st', mapS f st l = inl (r, st') -> rsame st st'.
Proof. intros Hf. induction l as [|a t IH]; intros st r st' H; cbn [mapS] in H; [inversion H; subst; apply rsame_refl|].
  apply bind_ok in H. destruct H as [[r1 st1] [H1 H]]. apply bind_ok in H. destruct H as [[r2 st2] [H2 H]]. inversion H; subst.
  eapply rsame_trans; [eapply Hf; exact H1|eapply IH; exact H2]. Qed.
End Ren.

(* induction principle for the nested foreign graph *)
Section OInd.
Variables (P : ograph -> Prop) (Q : onode -> Prop).
Hypothesis HG : forall gi gin b go_ vi, Forall Q b -> P (OGraph gi gin b go_ vi).
Hypothesis HN : forall nm op d i o al,
  Forall (fun ka : String.string * option ograph => match snd ka with Some g => P g | None => True end) al -> Q (ONode nm op d i o al).
Fixpoint ograph_ind' (g : ograph) : P g :=
  match g with OGraph gi gin b go_ vi =>
    HG gi gin b go_ vi ((fix go (l : list onode) : Forall Q l :=
                           match l with [] => Forall_nil _ | n :: t => Forall_cons n (onode_ind' n) (go t) end) b) end
with onode_ind' (n : onode) : Q n :=
  match n with ONode nm op d i o al =>
    HN nm op d i o al
      ((fix go (l : list (String.string * option ograph)) :
          Forall (fun ka : String.string * option ograph => match snd ka with Some g => P g | None => True end) l :=
          match l with
          | [] => Forall_nil _
          | (k, Some g) :: t => Forall_cons (k, Some g) (ograph_ind' g) (go t)
          | (k, None) :: t => Forall_cons (k, None) I (go t)
          end) al)
  end.
End OInd.

Section Ren2.
Variables (nm : String.string) (u : nref) (operands : list (option var)) (in_names out_names : list String.string).
Notation rv := (rename_val nm u operands in_names out_names).
Notation ron := (rename_onode nm u operands in_names out_names).
Notation rog := (rename_ograph nm u operands in_names out_names).

Lemma rename_same : (forall g st r st', rog st g = inl (r, st') -> rsame st st').
Proof.
  apply (ograph_ind' (fun g => forall st r st', rog st g = inl (r, st') -> rsame st st')
                     (fun n => forall st r st', ron st n = inl (r, st') -> rsame st st')).
  - intros gi gin b go_ vi HF st r st' H. cbn [rename_ograph] in H.
    apply bind_ok in H. destruct H as [[r1 s1] [H1 H]]. apply bind_ok in H. destruct H as [[r2 s2] [H2 H]].
    apply bind_ok in H. destruct H as [[r3 s3] [H3 H]]. apply bind_ok in H. destruct H as [[r4 s4] [H4 H]].
    apply bind_ok in H. destruct H as [[r5 s5] [H5 H]]. inversion H; subst. cbn [snd] in *.
    eapply rsame_trans; [eapply (mapS_same rv (rename_val_same nm u operands in_names out_names)); exact H1|].
    eapply rsame_trans; [eapply (mapS_same rv (rename_val_same nm u operands in_names out_names)); exact H2|].
    eapply rsame_trans; [|eapply rsame_trans; [eapply (mapS_same rv (rename_val_same nm u operands in_names out_names)); exact H4|
                                              eapply (mapS_same rv (rename_val_same nm u operands in_names out_names)); exact H5]].
    clear - HF H3 scope_update_inv Hvc Hres. revert s2 r3 s3 H3. induction b as [|n t IH]; intros s2 r3 s3 H3.
    + inversion H3; subst. apply rsame_refl.
    + inversion HF as [|x l Hn Ht]; subst. apply bind_ok in H3. destruct H3 as [[rn sn] [Hn1 H3]].
      apply bind_ok in H3. destruct H3 as [[rt st2] [Ht1 H3]]. inversion H3; subst. cbn [snd] in *.
      eapply rsame_trans; [eapply Hn; exact Hn1|eapply IH; eauto].
  - intros nm0 op d i o al HF st r st' H. cbn [rename_onode] in H.
    apply bind_ok in H. destruct H as [[r1 s1] [H1 H]]. apply bind_ok in H. destruct H as [[r2 s2] [H2 H]].
    apply bind_ok in H. destruct H as [[r3 s3] [H3 H]]. apply bind_ok in H. destruct H as [[r4 s4] [H4 H]]. inversion H; subst. cbn [snd] in *.
    eapply rsame_trans; [eapply rename_node_same; exact H1|].
    eapply rsame_trans; [eapply (mapS_same rv (rename_val_same nm u operands in_names out_names)); exact H2|].
    eapply rsame_trans; [eapply (mapS_same rv (rename_val_same nm u operands in_names out_names)); exact H3|].
    clear - HF H4 scope_update_inv Hvc Hres. revert s3 r4 st' H4. induction al as [|[k [g|]] t IH]; intros s3 r4 s4 H4.
    + inversion H4; subst. apply rsame_refl.
    + inversion HF as [|x l Hg Ht]; subst. cbn [snd] in Hg. apply bind_ok in H4. destruct H4 as [[rg sg] [Hg1 H4]].
      apply bind_ok in H4. destruct H4 as [[rt st2] [Ht1 H4]]. inversion H4; subst. cbn [snd] in *.
      eapply rsame_trans; [eapply Hg; exact Hg1|eapply IH; eauto].
    + inversion HF as [|x l Hg Ht]; subst. apply bind_ok in H4. destruct H4 as [[rt st2] [Ht1 H4]]. inversion H4; subst. cbn [snd] in *.
      eapply IH; eauto.
Qed.
Lemma rename_onode_same : forall n st r st', ron st n = inl (r, st') -> rsame st st'.
Proof.
  intros [nm0 op d i o al] st r st' H. cbn [rename_onode] in H.
  apply bind_ok in H. destruct H as [[r1 s1] [H1 H]]. apply bind_ok in H. destruct H as [[r2 s2] [H2 H]].
  apply bind_ok in H. destruct H as [[r3 s3] [H3 H]]. apply bind_ok in H. destruct H as [[r4 s4] [H4 H]]. inversion H; subst. cbn [snd] in *.
  eapply rsame_trans; [eapply rename_node_same; exact H1|].
  eapply rsame_trans; [eapply (mapS_same rv (rename_val_same nm u operands in_names out_names)); exact H2|].
  eapply rsame_trans; [eapply (mapS_same rv (rename_val_same nm u operands in_names out_names)); exact H3|].
  clear - H4 scope_update_inv Hvc Hres. revert s3 r4 st' H4. induction al as [|[k [g|]] t IH]; intros s3 r4 s4 H4.
  - inversion H4; subst. apply rsame_refl.
  - apply bind_ok in H4. destruct H4 as [[rg sg] [Hg1 H4]].
    apply bind_ok in H4. destruct H4 as [[rt st2] [Ht1 H4]]. inversion H4; subst. cbn [snd] in *.
    eapply rsame_trans; [eapply rename_same; exact Hg1|eapply IH; eauto].
  - apply bind_ok in H4. destruct H4 as [[rt st2] [Ht1 H4]]. inversion H4; subst. cbn [snd] in *. eapply IH; eauto.
Qed.
End Ren2.

(* ---------- compile keeps the naming tables injective ---------- *)
Lemma body_loop_same nm u operands gi go_ : forall body st r st',
  (fix go (st : rstate) (l : list onode) {struct l} : res (list mraw * rstate) :=
     match l with
     | [] => ret ([], st)
     | n :: t => do rn <- rename_onode nm u operands gi go_ st n ;; do rt <- go (snd rn) t ;; ret (fst rn :: fst rt, snd rt)
     end) st body = inl (r, st') -> rsame st st'.
Proof. induction body as [|n t IH]; intros st r st' H.
  - inversion H; subst. apply rsame_refl.
  - apply bind_ok in H. destruct H as [[rn sn] [Hn H]]. apply bind_ok in H. destruct H as [[rt st2] [Ht H]]. inversion H; subst. cbn [snd] in *.
    eapply rsame_trans; [eapply rename_onode_same; exact Hn|eapply IH; exact Ht]. Qed.

Section CompileInv.
Variables (args_of : nat -> list var) (own_of : nat -> list nref)
          (fbuild : nat -> nat -> res (list mnode * req * list fdesc)).
Notation compile := (compile p un args_of own_of fbuild).

Definition acc_inv (acc : list mnode * scope * req * list fdesc * list fdesc) : Prop :=
  let '(ms, s, rq, fs, sfs) := acc in Inv s.
Definition sg_inv (acc : list (String.string * option mgraph) * scope * req * list fdesc) : Prop :=
  let '(l, s, rq, fs) := acc in Inv s.

(* one step of the loop over the nodes of a scope keeps the predicate, whatever compiles the subgraphs, as long as that does *)
Lemma compile_step_inv (rec : scope -> nat -> String.string -> option bool -> res (mgraph * scope * req * list fdesc)) prefix :
  (forall s g pre vi mg s' rq fs, rec s g pre vi = inl (mg, s', rq, fs) -> Inv s -> Inv s') ->
  forall acc u acc', compile_step p un fbuild rec prefix acc u = inl acc' -> acc_inv acc -> acc_inv acc'.
Proof.
    intros IH [[[[ms s] rq] fs] sfs] u [[[[ms' s'] rq'] fs'] sfs'] Hu Hs. unfold acc_inv in *. unfold compile_step in Hu.
    destruct (is_arg p u); [inversion Hu; subst; exact Hs|].
    destruct u as [n|g'].
    - apply bind_ok in Hu. destruct Hu as [[rqm fsm] [_ Hu]].
      apply bind_ok in Hu. destruct Hu as [s2 [Hu2 Hu]]. apply scope_update_inv in Hu2; [|exact Hs].
      destruct (kind (getn p n)) as [| | |om imp|body fi fo fa] eqn:Hk.
      + inversion Hu; subst. exact Hs.
      + apply bind_ok in Hu. destruct Hu as [o [_ Hu]]. inversion Hu; subst. exact Hu2.
      + (* KOp *)
        apply bind_ok in Hu. destruct Hu as [nm [_ Hu]]. apply bind_ok in Hu. destruct Hu as [inn [_ Hu]].
        apply bind_ok in Hu. destruct Hu as [outn [_ Hu]]. apply bind_ok in Hu. destruct Hu as [[[[al s3] rq3] sfs3] [Hsg Hu]].
        inversion Hu; subst. change (sg_inv (al, s', rq', sfs')). revert Hsg.
        assert (Hi : sg_inv ([], s2, rqm, sfs)) by exact Hu2. revert Hi.
        generalize ([] : list (String.string * option mgraph), s2, rqm, sfs). intros a0 Hi Hsg. revert Hsg Hi. apply foldM_inv.
        intros [[[l sa] rqa] fsa] ka [[[l' sb] rqb] fsb] Hka Hsa. unfold sg_inv in *.
        destruct (snd ka) as [sub|x]; [|inversion Hka; subst; exact Hsa].
        apply bind_ok in Hka. destruct Hka as [[[[mg0 s0] rq0] fs0] [Hc Hka]]. inversion Hka; subst.
        eapply IH; [exact Hc|exact Hsa].
      + (* KInline *)
        apply bind_ok in Hu. destruct Hu as [nm [_ Hu]]. destruct om as [gi gin body go_ vi].
        apply bind_ok in Hu. destruct Hu as [[ri sri] [Hri Hu]]. apply bind_ok in Hu. destruct Hu as [[rb srb] [Hrb Hu]].
        apply bind_ok in Hu. destruct Hu as [[ro sro] [Hro Hu]]. apply bind_ok in Hu. destruct Hu as [[rvi srvi] [Hrvi Hu]].
        apply bind_ok in Hu. destruct Hu as [ids [_ Hu]]. apply bind_ok in Hu. destruct Hu as [inn [_ Hu]].
        apply bind_ok in Hu. destruct Hu as [outn [_ Hu]]. inversion Hu; subst. cbn [fst snd] in *.
        pose proof (rename_val_same nm (NReal n) (ins (getn p n)) gi go_) as Hrv.
        apply (mapS_same _ Hrv) in Hri. apply body_loop_same in Hrb. apply (mapS_same _ Hrv) in Hro. apply (mapS_same _ Hrv) in Hrvi.
        pose proof (rsame_trans _ _ _ Hri (rsame_trans _ _ _ Hrb (rsame_trans _ _ _ Hro Hrvi))) as Hall.
        unfold rsame in Hall. cbn [fst] in Hall. exact (Hall Hu2).
      + (* KFunc *)
        apply bind_ok in Hu. destruct Hu as [nm [_ Hu]]. apply bind_ok in Hu. destruct Hu as [inn [_ Hu]].
        apply bind_ok in Hu. destruct Hu as [outn [_ Hu]]. apply bind_ok in Hu. destruct Hu as [[[[al s3] rq3] sfs3] [Hsg Hu]].
        inversion Hu; subst. change (sg_inv (al, s', rq', sfs')). revert Hsg.
        assert (Hi : sg_inv ([], s2, rqm, sfs)) by exact Hu2. revert Hi.
        generalize ([] : list (String.string * option mgraph), s2, rqm, sfs). intros a0 Hi Hsg. revert Hsg Hi. apply foldM_inv.
        intros [[[l sa] rqa] fsa] ka [[[l' sb] rqb] fsb] Hka Hsa. unfold sg_inv in *.
        destruct (snd ka) as [sub|x]; [|inversion Hka; subst; exact Hsa].
        apply bind_ok in Hka. destruct Hka as [[[[mg0 s0] rq0] fs0] [Hc Hka]]. inversion Hka; subst.
        eapply IH; [exact Hc|exact Hsa].
    - apply bind_ok in Hu. destruct Hu as [s2 [Hu2 Hu]]. apply scope_update_inv in Hu2; [|exact Hs].
      apply bind_ok in Hu. destruct Hu as [nm [_ Hu]]. apply bind_ok in Hu. destruct Hu as [i [_ Hu]].
      apply bind_ok in Hu. destruct Hu as [o [_ Hu]]. inversion Hu; subst. exact Hu2.
Qed.

Lemma own_fold_inv rec prefix :
  (forall s g pre vi mg s' rq fs, rec s g pre vi = inl (mg, s', rq, fs) -> Inv s -> Inv s') ->
  forall l acc acc', foldM (compile_step p un fbuild rec prefix) l acc = inl acc' -> acc_inv acc -> acc_inv acc'.
Proof. intros IH. apply foldM_inv. apply compile_step_inv. exact IH. Qed.

Theorem compile_inv : forall fuel s g prefix is_main mg s' rq fs,
  compile fuel s g prefix is_main = inl (mg, s', rq, fs) -> Inv s -> Inv s'.
Proof.
  induction fuel as [|f IH]; intros s g prefix is_main mg s' rq fs H Hs; [discriminate H|].
  cbn [Build.compile] in H.
  apply bind_ok in H. destruct H as [s1 [H1 H]].
  assert (Hs1 : Inv s1).
  { revert H1 Hs. apply foldM_inv. intros s0 a s0' Hu. eapply scope_update_inv; exact Hu. }
  apply bind_ok in H. destruct H as [[[[[ms s3] rq3] fs0] sfs] [H2 H]].
  assert (Hs3 : Inv s3).
  { change (acc_inv (ms, s3, rq3, fs0, sfs)). eapply own_fold_inv; [|exact H2|exact Hs1]. intros; eapply IH; eauto. }
  destruct (Nat.eqb (List.length (gres (getg p g))) 0); [discriminate H|].
  apply bind_ok in H. destruct H as [ai [_ H]]. apply bind_ok in H. destruct H as [ro [_ H]]. inversion H; subst. exact Hs3.
Qed.
End CompileInv.
End Pres.

(* ---------- leaf level: ScopeSpace.__setitem__ ---------- *)
Section Leaf.
Variable Inv : scope -> Prop.
Hypothesis Hsv : forall s v n s', set_var s v n = inl s' -> Inv s -> Inv s'.
Hypothesis Hsn : forall s u n s', set_node s u n = inl s' -> Inv s -> Inv s'.
Hypothesis Hvc : forall s c, Inv s -> Inv (with_vcnt s c).
Hypothesis Hnc : forall s c, Inv s -> Inv (with_ncnt s c).
Hypothesis Hres : forall s r, Inv s -> name_taken s r = false -> Inv (with_reserved s (reserved s ++ [r])).

(* Scope.update: the node under a fresh enumerated name, every output Var under its user name or a fresh generated one *)
Lemma scope_update_inv_leaf p un s u prefix s' : scope_update p un s u prefix = inl s' -> Inv s -> Inv s'.
Proof.
  unfold scope_update. destruct (enum (ncnt s) (prefix ++ node_ident p u))%string as [nm nc]. intros H Hs.
  apply bind_ok in H. destruct H as [s1 [H1 H2]].
  apply Hsn in H1; [|apply Hnc; exact Hs].
  revert H2 H1. apply foldM_inv. intros s2 [k fld] s3 Hf Hs2. cbn [fst snd] in Hf.
  destruct (var_name p un (V u k)) as [n|].
  - eapply Hsv; [exact Hf|exact Hs2].
  - destruct (maybe_enum (vcnt s2) (nm ++ "_" ++ fld))%string as [n vc]. eapply Hsv; [exact Hf|apply Hvc; exact Hs2].
Qed.

Theorem compile_inv_leaf p un args_of own_of fbuild : forall fuel s g prefix is_main mg s' rq fs,
  compile p un args_of own_of fbuild fuel s g prefix is_main = inl (mg, s', rq, fs) -> Inv s -> Inv s'.
Proof. apply (compile_inv Inv p un (scope_update_inv_leaf p un) Hvc Hres). Qed.

Lemma own_fold_inv_leaf p un fbuild rec prefix :
  (forall s g pre vi mg s' rq fs, rec s g pre vi = inl (mg, s', rq, fs) -> Inv s -> Inv s') ->
  forall l acc acc', foldM (compile_step p un fbuild rec prefix) l acc = inl acc' -> acc_inv Inv acc -> acc_inv Inv acc'.
Proof. apply (own_fold_inv Inv p un (scope_update_inv_leaf p un) Hvc Hres). Qed.
End Leaf.
