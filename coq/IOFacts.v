(* IOFacts.v — graph inputs carry the names under which their arguments were requested, BY CONSTRUCTION (no validator):
   a binding Var -> name, once in the naming table, is never changed by anything compile does (Ext, instance of CompilePres);
   Scope.update enters every named output of a node under that name; the value infos of the graph read the table.  (C03) *)
From Coq Require Import List String NArith Arith Bool Lia.
From Spox Require Import Base IR Show Build Sem Plan Named Validate BuildFacts CompilePres ScopeFacts.
Import ListNotations.
Open Scope list_scope.

(* ---------- bindings are never changed ---------- *)
Definition Ext (s0 s : scope) : Prop :=
  forall v n, lookup var_eqb v (vname s0) = Some n -> lookup var_eqb v (vname s) = Some n.
Lemma Ext_refl s : Ext s s. Proof. intros v n H; exact H. Qed.
Lemma Ext_trans a b c : Ext a b -> Ext b c -> Ext a c. Proof. unfold Ext; auto. Qed.

Lemma lookup_app_some {A B} (eqb : A -> A -> bool) k (l l' : list (A * B)) x : lookup eqb k l = Some x -> lookup eqb k (l ++ l') = Some x.
Proof. unfold lookup. induction l as [|[a b] t IH]; cbn; [discriminate|]. destruct (eqb k a); [auto|exact IH]. Qed.
Lemma lookup_app_none {A B} (eqb : A -> A -> bool) k (l l' : list (A * B)) : lookup eqb k l = None -> lookup eqb k (l ++ l') = lookup eqb k l'.
Proof. unfold lookup. induction l as [|[a b] t IH]; cbn; [reflexivity|]. destruct (eqb k a); [discriminate|exact IH]. Qed.

Lemma set_var_ext s v n s' : set_var s v n = inl s' -> Ext s s'.
Proof. unfold set_var. destruct (find _ (vname s)) as [[v' n']|].
  - destruct (var_eqb v v'); [|discriminate]. intros H; inversion H; subst. apply Ext_refl.
  - destruct (mem String.eqb n (reserved s)); [discriminate|]. destruct (lookup var_eqb v (vname s)); [discriminate|].
    intros H; inversion H; subst. intros w m Hw. cbn. now apply lookup_app_some. Qed.
Lemma set_node_ext s u n s' : set_node s u n = inl s' -> Ext s s'.
Proof. unfold set_node. destruct (find _ (nname s)) as [[u' n']|].
  - destruct (nref_eqb u u'); [|discriminate]. intros H; inversion H; subst. apply Ext_refl.
  - destruct (lookup nref_eqb u (nname s)); [discriminate|]. intros H; inversion H; subst. intros w m Hw. exact Hw. Qed.

Theorem compile_ext p un args_of own_of fbuild s0 : forall fuel s g prefix vi mg s' rq fs,
  compile p un args_of own_of fbuild fuel s g prefix vi = inl (mg, s', rq, fs) -> Ext s0 s -> Ext s0 s'.
Proof.
  apply (CompilePres.compile_inv_leaf (Ext s0)).
  - intros s v n s' H Hs. eapply Ext_trans; [exact Hs|eapply set_var_ext; exact H].
  - intros s u n s' H Hs. eapply Ext_trans; [exact Hs|eapply set_node_ext; exact H].
  - intros s c H. exact H.
  - intros s c H. exact H.
  - intros s r H _. exact H.
Qed.
Lemma scope_update_ext p un s u prefix s' : scope_update p un s u prefix = inl s' -> Ext s s'.
Proof. intros H. refine (CompilePres.scope_update_inv_leaf (Ext s) _ _ _ _ p un s u prefix s' H (Ext_refl s)).
  - intros s1 v n s2 H1 Hs. eapply Ext_trans; [exact Hs|eapply set_var_ext; exact H1].
  - intros s1 w n s2 H1 Hs. eapply Ext_trans; [exact Hs|eapply set_node_ext; exact H1].
  - intros s1 c H1. exact H1.
  - intros s1 c H1. exact H1. Qed.

(* ---------- Scope.update enters a named output under its name ---------- *)
Lemma NoDup_lookup {A B} (eqb : A -> A -> bool) (Heq : forall a b, reflect (a = b) (eqb a b)) (l : list (A * B)) k x :
  NoDup (map fst l) -> In (k, x) l -> lookup eqb k l = Some x.
Proof. unfold lookup. induction l as [|[a b] t IH]; cbn; intros Hn Hin; [contradiction|]. inversion Hn as [|y m Hy Hm]; subst.
  destruct Hin as [E|Hin].
  - inversion E; subst. destruct (Heq k k); [reflexivity|congruence].
  - destruct (Heq k a) as [->|_]; [|auto]. exfalso. apply Hy. apply in_map_iff. exists (a, x). auto. Qed.

Lemma set_var_binds s v n s' : set_var s v n = inl s' -> ScopeInv s -> lookup var_eqb v (vname s') = Some n.
Proof. unfold set_var. intros H [[Hk _] _]. destruct (find (fun kv => String.eqb n (snd kv)) (vname s)) as [[v' n']|] eqn:Ef.
  - destruct (var_eqb_spec v v') as [->|]; [|discriminate]. inversion H; subst. apply find_some in Ef. destruct Ef as [Hin He]. cbn in He.
    apply String.eqb_eq in He. subst n'. now apply (NoDup_lookup var_eqb var_eqb_spec).
  - destruct (mem String.eqb n (reserved s)); [discriminate|]. destruct (lookup var_eqb v (vname s)) eqn:El; [discriminate|].
    inversion H; subst. cbn. rewrite (lookup_app_none _ _ _ _ El). unfold lookup. cbn. destruct (var_eqb_spec v v); [reflexivity|congruence]. Qed.

Lemma In_combine_seqn {A} (l : list A) : forall k i, k <= i -> i < k + List.length l -> exists x, In (i, x) (combine (seqn k (List.length l)) l).
Proof. induction l as [|a t IH]; cbn; intros k i H1 H2; [lia|]. destruct (Nat.eq_dec i k) as [->|Hne].
  - exists a. now left.
  - destruct (IH (S k) i) as [x Hx]; [lia|lia|]. exists x. now right. Qed.

Lemma scope_update_binds p un s u prefix s' k n :
  scope_update p un s u prefix = inl s' -> ScopeInv s ->
  k < List.length (node_outs p u) -> var_name p un (V u k) = Some n ->
  lookup var_eqb (V u k) (vname s') = Some n.
Proof.
  unfold scope_update. destruct (enum (ncnt s) (prefix ++ node_ident p u))%string as [nm nc]. intros H Hs Hk Hn.
  apply bind_ok in H. destruct H as [s1 [H1 H2]].
  assert (Hs1 : ScopeInv s1) by (exact (proj1 (set_node_inv _ _ _ _ H1 Hs))).
  destruct (In_combine_seqn (node_outs p u) 0 k) as [fld Hin]; [lia|lia|]. clear H1 Hs Hk.
  revert s1 Hs1 H2 Hin. generalize (combine (seqn 0 (List.length (node_outs p u))) (node_outs p u)) as l.
  induction l as [|[j f] t IH]; intros s1 Hs1 H2 Hin; [destruct Hin|]. cbn [foldM] in H2.
  apply bind_ok in H2. destruct H2 as [s2 [Hf H2]]. cbn [fst snd] in Hf.
  assert (Hs2 : ScopeInv s2 /\ Ext s1 s2).
  { destruct (var_name p un (V u j)) as [m|].
    - split; [exact (proj1 (set_var_inv _ _ _ _ Hf Hs1))|eapply set_var_ext; exact Hf].
    - destruct (maybe_enum (vcnt s1) (nm ++ "_" ++ f))%string as [m vc]. split; [exact (proj1 (set_var_inv _ _ _ _ Hf Hs1))|].
      intros w x Hw. exact (set_var_ext _ _ _ _ Hf w x Hw). }
  destruct Hs2 as [Hs2 He]. destruct Hin as [E|Hin].
  - inversion E; subst j f. rewrite Hn in Hf. apply set_var_binds in Hf; [|exact Hs1].
    assert (Hrest : Ext s2 s').
    { clear - H2 Hs2. revert s2 H2 Hs2. induction t as [|[j f] t IHt]; intros s2 H2 Hs2; cbn [foldM] in H2; [inversion H2; subst; apply Ext_refl|].
      apply bind_ok in H2. destruct H2 as [s3 [Hf H2]]. cbn [fst snd] in Hf.
      destruct (var_name p un (V u j)) as [m|].
      - eapply Ext_trans; [eapply set_var_ext; exact Hf|]. apply IHt; [exact H2|exact (proj1 (set_var_inv _ _ _ _ Hf Hs2))].
      - destruct (maybe_enum (vcnt s2) (nm ++ "_" ++ f))%string as [m vc].
        eapply Ext_trans; [intros w x Hw; exact (set_var_ext _ _ _ _ Hf w x Hw)|]. apply IHt; [exact H2|exact (proj1 (set_var_inv _ _ _ _ Hf Hs2))]. }
    now apply Hrest.
  - eapply IH; eauto.
Qed.

(* ---------- compile: the inputs of the GraphProto are named as requested ---------- *)
Lemma mapM_Forall2 {A B} (f : A -> res B) (R : A -> B -> Prop) :
  forall l r, (forall a b, In a l -> f a = inl b -> R a b) -> mapM f l = inl r -> Forall2 R l r.
Proof. induction l as [|a t IH]; intros r Hf H; cbn [mapM] in H; [inversion H; constructor|].
  apply bind_ok in H. destruct H as [b [Hb H]]. apply bind_ok in H. destruct H as [bs [Hbs H]]. inversion H; subst.
  constructor; [apply Hf; [now left|exact Hb]|]. apply IH; [|exact Hbs]. intros a0 b0 Hin. apply Hf. now right. Qed.

Section Inputs.
Variables (p : prog) (un : names) (args_of : nat -> list var) (own_of : nat -> list nref)
          (fbuild : nat -> nat -> res (list mnode * req * list fdesc)).
Notation compile := (compile p un args_of own_of fbuild).

(* after the loop over the arguments of a graph every named argument is bound to its name *)
Lemma args_fold_binds prefix : forall l s s1,
  foldM (fun s a => scope_update p un s (vnode a) prefix) l s = inl s1 -> ScopeInv s ->
  (forall a, In a l -> vidx a < List.length (node_outs p (vnode a))) ->
  ScopeInv s1 /\ Ext s s1 /\ forall a n, In a l -> var_name p un a = Some n -> lookup var_eqb a (vname s1) = Some n.
Proof.
  induction l as [|a t IH]; intros s s1 H Hs Hw; cbn [foldM] in H.
  - inversion H; subst. split; [exact Hs|]. split; [apply Ext_refl|intros a n []].
  - apply bind_ok in H. destruct H as [s2 [Hu H]].
    assert (Hs2 : ScopeInv s2) by (eapply scope_update_scopeinv; eauto).
    destruct (IH s2 s1 H Hs2 (fun b Hb => Hw b (or_intror Hb))) as (Hi & He & Hb).
    split; [exact Hi|]. split; [eapply Ext_trans; [eapply scope_update_ext; exact Hu|exact He]|].
    intros b n [<-|Hin] Hn; [|eauto]. apply He. destruct a as [u k]. cbn [vnode vidx] in *.
    eapply scope_update_binds; eauto. exact (Hw (V u k) (or_introl eq_refl)).
Qed.

Theorem compile_inputs fuel s g prefix vi ai ms ro s' rq fs :
  compile fuel s g prefix vi = inl (MGraph ai ms ro, s', rq, fs) -> ScopeInv s ->
  (forall a, In a (args_of g) -> vidx a < List.length (node_outs p (vnode a))) ->
  Forall2 (fun a x => forall n, var_name p un a = Some n -> fst x = n) (args_of g) ai.
Proof.
  destruct fuel as [|f]; [discriminate|]. intros H Hs Hw. cbn [Build.compile] in H.
  apply bind_ok in H. destruct H as [s1 [H1 H]].
  destruct (args_fold_binds prefix _ _ _ H1 Hs Hw) as (Hs1 & _ & Hb).
  apply bind_ok in H. destruct H as [[[[[ms0 s3] rq3] fs0] sfs] [H2 H]].
  assert (He : Ext s1 s3).
  { change (CompilePres.acc_inv (Ext s1) (ms0, s3, rq3, fs0, sfs)).
    eapply (CompilePres.own_fold_inv_leaf (Ext s1)); [| | | | | |exact H2|apply Ext_refl].
    - intros s0 v n s0' H0 Hs0. eapply Ext_trans; [exact Hs0|eapply set_var_ext; exact H0].
    - intros s0 u n s0' H0 Hs0. eapply Ext_trans; [exact Hs0|eapply set_node_ext; exact H0].
    - intros s0 c H0. exact H0.
    - intros s0 c H0. exact H0.
    - intros s0 r H0 _. exact H0.
    - intros s0 g0 pre vi0 mg0 s0' rq0 fs1 Hc. eapply compile_ext; exact Hc. }
  destruct (Nat.eqb (List.length (gres (getg p g))) 0); [discriminate H|].
  apply bind_ok in H. destruct H as [ai0 [Hai H]]. apply bind_ok in H. destruct H as [ro0 [_ H]]. inversion H; subst.
  eapply mapM_Forall2; [|exact Hai]. intros a x Hin Hx n Hn.
  pose proof (He a n (Hb a n Hin Hn)) as Hl.
  unfold value_info in Hx. apply bind_ok in Hx. destruct Hx as [nm [Hv Hx]]. unfold vlook in Hv. rewrite Hl in Hv. inversion Hv; subst nm.
  destruct vi as [c|]; [|inversion Hx; reflexivity].
  destruct (vty p a) as [t|]; [|discriminate]. destruct (c && negb (tconcrete t))%bool; [discriminate|]. inversion Hx; reflexivity.
Qed.
End Inputs.

(* ---------- Builder.build_main and the public build ---------- *)
Lemma Forall2_weaken {A B} (R R' : A -> B -> Prop) l r : (forall a b, R a b -> R' a b) -> Forall2 R l r -> Forall2 R' l r.
Proof. intros H HF. induction HF; constructor; auto. Qed.
Lemma discover_main_args fuel p main d l :
  discover fuel p dstate0 main = inl d -> gargs (getg p main) = Some l -> getl main (d_args d) = l.
Proof.
  destruct fuel as [|f]; [discriminate|]. cbn [discover]. cbn [mem existsb d_vis dstate0].
  destruct (gres (getg p main)) as [|r0 rs]; [discriminate|]. intros H Hg.
  apply bind_ok in H. destruct H as [[[[st1 all] claimed] used] [_ H]]. rewrite Hg in H.
  destruct (inter var_eqb l claimed); [|discriminate]. destruct (inter var_eqb claimed used); [|discriminate].
  inversion H; subst. unfold getl, lookup. cbn. now rewrite Nat.eqb_refl.
Qed.

Theorem build_main_inputs vi ffuel p un main b l :
  build_main_gen vi ffuel p un main = inl b -> gargs (getg p main) = Some l ->
  (forall a, In a l -> vidx a < List.length (node_outs p (vnode a))) ->
  match b_graph b with MGraph gi _ _ => Forall2 (fun a x => forall n, var_name p un a = Some n -> fst x = n) l gi end.
Proof.
  destruct ffuel as [|ff]; [discriminate|]. cbn [build_main_gen]. intros H Hg Hw.
  apply bind_ok in H. destruct H as [d [Hd H]]. apply bind_ok in H. destruct H as [[[[mg s] rq] fs] [Hc H]].
  inversion H; subst. cbn [b_graph]. destruct mg as [gi ms ro].
  pose proof (discover_main_args _ _ _ _ _ Hd Hg) as Ha.
  pose proof (compile_inputs _ _ _ _ _ _ _ _ _ _ _ _ _ _ _ _ Hc scope0_inv) as Hi. cbn beta in Hi. rewrite Ha in Hi. exact (Hi Hw).
Qed.

Definition user_names (inputs : list (String.string * var)) : names :=
  fold_left (fun acc kv => set_assoc var_eqb (snd kv) (fst kv) acc) inputs [].

(* The graph inputs of a returned model are the requested arguments (all of them in the given order; with drop_unused_inputs a
   sub-sequence of them), each under the name it was listed with (the last one, if a Var is listed under several). *)
Theorem build_public_inputs p r m inputs outputs :
  build_public p r = inl m -> all_vars (r_inputs r) = Some inputs -> all_vars (r_outputs r) = Some outputs ->
  (forall kv, In kv inputs -> vidx (snd kv) < List.length (node_outs p (vnode (snd kv)))) ->
  exists args, (r_drop r = false -> args = map snd inputs) /\ (forall a, In a args -> In a (map snd inputs)) /\
    match mmain m with MGraph gi _ _ =>
      Forall2 (fun a x => forall n, lookup var_eqb a (user_names inputs) = Some n -> fst x = n) args gi end.
Proof.
  unfold build_public. intros H Hi Ho Hw. rewrite Hi, Ho in H.
  destruct (negb _) eqn:Earg; [discriminate|]. destruct outputs as [|o os]; [discriminate|].
  apply negb_false_iff in Earg. rewrite forallb_forall in Earg.
  apply bind_ok in H. destruct H as [args [Ha H]]. apply bind_ok in H. destruct H as [b [Hb H]].
  apply bind_ok in H. destruct H as [m' [Hm H]]. pose proof (to_model_struct _ _ Hm) as (_ & Hmg & _).
  destruct (mmain m') as [gi body go_] eqn:Eg. destruct (forallb _ gi); [|discriminate]. inversion H; subst m'. rewrite Eg.
  exists args.
  assert (Hsub : forall a, In a args -> In a (map snd inputs)).
  { destruct (r_drop r).
    - apply bind_ok in Ha. destruct Ha as [b1 [_ Ha]]. destruct (forallb _ (b_args b1)); [|discriminate]. inversion Ha; subst.
      intros a Hin. apply filter_In in Hin. tauto.
    - inversion Ha; subst. auto. }
  split; [intros Hd; rewrite Hd in Ha; inversion Ha; reflexivity|]. split; [exact Hsub|].
  unfold build_main in Hb.
  pose proof (build_main_inputs _ _ _ _ _ _ args Hb) as Hin. cbn [with_main getg graphs nth gargs] in Hin. specialize (Hin eq_refl).
  rewrite <- Hmg in Hin.
  assert (Hw' : forall a, In a args -> vidx a < List.length (node_outs (with_main p (Some args) (o :: os)) (vnode a))).
  { intros a Hina. apply Hsub in Hina. apply in_map_iff in Hina. destruct Hina as [kv [E Hk]]. subst a. specialize (Hw kv Hk).
    specialize (Earg kv Hk). destruct (vnode (snd kv)) as [n|g]; [exact Hw|]. cbn in Earg. discriminate. }
  specialize (Hin Hw'). eapply Forall2_weaken; [|exact Hin]. intros a x Hx n Hn. apply Hx.
  unfold var_name. fold (user_names inputs). now rewrite (lookup_app_some var_eqb _ _ _ _ Hn).
Qed.

(* the premise as an executable test (evaluated on every request of the C03 check: it holds for every reflected program, an
   argument being output 0 of an Argument node with the single output "arg") *)
Definition inputs_wf_b (p : prog) (r : request) : bool :=
  match all_vars (r_inputs r) with
  | Some inputs => forallb (fun kv : String.string * var => Nat.ltb (vidx (snd kv)) (List.length (node_outs p (vnode (snd kv))))) inputs
  | None => true end.
Lemma inputs_wf_b_sound p r inputs : inputs_wf_b p r = true -> all_vars (r_inputs r) = Some inputs ->
  forall kv, In kv inputs -> vidx (snd kv) < List.length (node_outs p (vnode (snd kv))).
Proof. unfold inputs_wf_b. intros H Hi. rewrite Hi in H. rewrite forallb_forall in H. intros kv Hk. specialize (H kv Hk). now apply Nat.ltb_lt in H. Qed.

(* ---------- a Var that has a name is only ever bound to that name ---------- *)
Section Bound.
Variables (p : prog) (un : names).
Definition BoundRight (s : scope) : Prop :=
  forall v m n, lookup var_eqb v (vname s) = Some m -> var_name p un v = Some n -> m = n.

Lemma lookup_snoc {A B} (eqb : A -> A -> bool) (Heq : forall a b, reflect (a = b) (eqb a b)) (l : list (A * B)) k x k' y :
  lookup eqb k' (l ++ [(k, x)]) = Some y -> lookup eqb k' l = Some y \/ (lookup eqb k' l = None /\ k' = k /\ y = x).
Proof. destruct (lookup eqb k' l) eqn:El.
  - rewrite (lookup_app_some eqb _ _ _ _ El). intros H; inversion H; now left.
  - rewrite (lookup_app_none eqb _ _ _ El). unfold lookup. cbn. destruct (Heq k' k) as [->|]; [|discriminate]. cbn. intros H; inversion H. right; auto. Qed.

Lemma set_var_bound s v n s' : set_var s v n = inl s' -> var_name p un v = Some n \/ var_name p un v = None -> BoundRight s -> BoundRight s'.
Proof. unfold set_var. intros H Hn Hb. destruct (find _ (vname s)) as [[v' n']|].
  - destruct (var_eqb v v'); [|discriminate]. inversion H; subst. exact Hb.
  - destruct (mem String.eqb n (reserved s)); [discriminate|]. destruct (lookup var_eqb v (vname s)); [discriminate|].
    inversion H; subst. intros w m k Hw Hk. cbn in Hw. apply (lookup_snoc var_eqb var_eqb_spec) in Hw. destruct Hw as [Hw|(_ & -> & ->)].
    + eapply Hb; eauto.
    + destruct Hn as [Hn|Hn]; congruence. Qed.

Lemma scope_update_bound s u prefix s' : scope_update p un s u prefix = inl s' -> BoundRight s -> BoundRight s'.
Proof.
  unfold scope_update. destruct (enum (ncnt s) (prefix ++ node_ident p u))%string as [nm nc]. intros H Hs.
  apply bind_ok in H. destruct H as [s1 [H1 H2]].
  assert (Hs1 : BoundRight s1).
  { unfold set_node in H1. destruct (find _ (nname (with_ncnt s nc))) as [[u' n']|].
    - destruct (nref_eqb u u'); [|discriminate]. inversion H1; subst. exact Hs.
    - destruct (lookup nref_eqb u (nname (with_ncnt s nc))); [discriminate|]. inversion H1; subst. exact Hs. }
  revert H2 Hs1. apply foldM_inv. intros s2 [k fld] s3 Hf Hs2. cbn [fst snd] in Hf.
  destruct (var_name p un (V u k)) as [n|] eqn:En.
  - eapply set_var_bound; [exact Hf|left; exact En|exact Hs2].
  - destruct (maybe_enum (vcnt s2) (nm ++ "_" ++ fld))%string as [n vc]. eapply set_var_bound; [exact Hf|right; exact En|exact Hs2].
Qed.

Theorem compile_bound args_of own_of fbuild : forall fuel s g prefix vi mg s' rq fs,
  compile p un args_of own_of fbuild fuel s g prefix vi = inl (mg, s', rq, fs) -> BoundRight s -> BoundRight s'.
Proof. apply (CompilePres.compile_inv BoundRight p un).
  - exact scope_update_bound.
  - intros s c H. exact H.
  - intros s r H _. exact H. Qed.

(* every name in the inputs and outputs of the GraphProto compiled for g is the user name of the Var it stands for, when it has one *)
Theorem compile_io_names args_of own_of fbuild fuel s g prefix vi ai ms ro s' rq fs :
  compile p un args_of own_of fbuild fuel s g prefix vi = inl (MGraph ai ms ro, s', rq, fs) -> BoundRight s ->
  Forall2 (fun a x => forall n, var_name p un a = Some n -> fst x = n) (args_of g) ai /\
  Forall2 (fun k x => forall n, var_name p un (V (NIntro g) k) = Some n -> fst x = n) (seqn 0 (List.length (gres (getg p g)))) ro.
Proof.
  intros H Hs. pose proof (compile_bound _ _ _ _ _ _ _ _ _ _ _ _ H Hs) as Hb.
  destruct fuel as [|f]; [discriminate|]. cbn [Build.compile] in H.
  apply bind_ok in H. destruct H as [s1 [_ H]]. apply bind_ok in H. destruct H as [[[[[ms0 s3] rq3] fs0] sfs] [_ H]].
  destruct (Nat.eqb (List.length (gres (getg p g))) 0); [discriminate H|].
  apply bind_ok in H. destruct H as [ai0 [Hai H]]. apply bind_ok in H. destruct H as [ro0 [Hro H]]. inversion H; subst.
  assert (Hvi : forall v x, value_info p vi s' v = inl x -> forall n, var_name p un v = Some n -> fst x = n).
  { intros v x Hx n Hn. unfold value_info in Hx. apply bind_ok in Hx. destruct Hx as [nm [Hv Hx]]. unfold vlook in Hv.
    destruct (lookup var_eqb v (vname s')) as [m|] eqn:El; [|discriminate]. inversion Hv; subst nm. pose proof (Hb v m n El Hn) as E. subst m.
    destruct vi as [c|]; [|inversion Hx; reflexivity].
    destruct (vty p v) as [t|]; [|discriminate]. destruct (c && negb (tconcrete t))%bool; [discriminate|]. inversion Hx; reflexivity. }
  split.
  - eapply mapM_Forall2; [|exact Hai]. intros a x _ Hx. now apply Hvi.
  - assert (Hro' : mapM (fun k => value_info p vi s' (V (NIntro g) k)) (seqn 0 (List.length (gres (getg p g)))) = inl ro).
    { revert Hro. generalize (seqn 0 (List.length (gres (getg p g)))) as l. clear. intros l. revert ro. induction l as [|k t IH]; intros ro H; cbn in *; [exact H|].
      destruct (value_info p vi s' (V (NIntro g) k)); [|exact H]. cbn in *. destruct (mapM (value_info p vi s') (map (V (NIntro g)) t)) eqn:E.
      - rewrite (IH _ eq_refl). exact H.
      - cbn in H. discriminate. }
    eapply mapM_Forall2; [|exact Hro']. intros k x _ Hx. now apply Hvi.
Qed.
End Bound.

(* ---------- the public build: outputs ---------- *)
Lemma set_assoc_keys {A B} (eqb : A -> A -> bool) (Heq : forall a b, reflect (a = b) (eqb a b)) (k : A) (v : B) l x :
  In x (map fst (set_assoc eqb k v l)) -> x = k \/ In x (map fst l).
Proof. unfold set_assoc. destruct (mem eqb k (map fst l)).
  - rewrite map_map. intros H. apply in_map_iff in H. destruct H as [[a b] [E Hin]]. cbn in E. destruct (eqb k a); cbn in E; subst.
    + now left.
    + right. apply in_map_iff. exists (x, b). auto.
  - rewrite map_app. intros H. apply in_app_or in H. destruct H as [H|[H|[]]]; [now right|left; now symmetry]. Qed.
Lemma user_names_keys inputs x : In x (map fst (user_names inputs)) -> In x (map snd inputs).
Proof. unfold user_names. assert (H : forall acc, In x (map fst (fold_left (fun acc kv => set_assoc var_eqb (snd kv) (fst kv) acc) inputs acc)) ->
                                          In x (map fst acc) \/ In x (map snd inputs)).
  { induction inputs as [|[k v] t IH]; cbn; intros acc Hx; [now left|]. destruct (IH _ Hx) as [H|H]; [|right; now right].
    apply (set_assoc_keys var_eqb var_eqb_spec) in H. destruct H as [->|H]; [right; now left|now left]. }
  intros Hx. destruct (H [] Hx) as [[]|Hr]. exact Hr. Qed.
Lemma lookup_notin_none {A B} (eqb : A -> A -> bool) (Heq : forall a b, reflect (a = b) (eqb a b)) k (l : list (A * B)) :
  ~ In k (map fst l) -> lookup eqb k l = None.
Proof. unfold lookup. induction l as [|[a b] t IH]; cbn; intros H; [reflexivity|]. destruct (Heq k a) as [->|]; [exfalso; apply H; now left|].
  apply IH. intros Hc. apply H. now right. Qed.
Lemma lookup_outmap g (l : list (String.string * var)) : forall j i kv, nth_error l i = Some kv ->
  lookup var_eqb (V (NIntro g) (j + i))
    (map (fun ik : nat * (String.string * var) => (V (NIntro g) (fst ik), fst (snd ik))) (combine (seqn j (List.length l)) l)) = Some (fst kv).
Proof. induction l as [|a t IH]; intros j i kv H; [destruct i; discriminate|]. cbn [List.length seqn combine map]. unfold lookup. cbn [find fst].
  destruct i as [|i].
  - cbn in H. inversion H; subst. rewrite Nat.add_0_r. destruct (var_eqb_spec (V (NIntro g) j) (V (NIntro g) j)); [reflexivity|congruence].
  - cbn in H. destruct (var_eqb_spec (V (NIntro g) (j + S i)) (V (NIntro g) j)) as [E|_]; [inversion E; lia|].
    replace (j + S i) with (S j + i) by lia. exact (IH (S j) i kv H). Qed.

Lemma names_from_seqn {B} (l : list (String.string * var)) : forall (ro : list (String.string * B)) j,
  Forall2 (fun k x => forall i kv, k = j + i -> nth_error l i = Some kv -> fst x = fst kv) (seqn j (List.length l)) ro ->
  map fst ro = map fst l.
Proof. induction l as [|a t IH]; intros ro j H; cbn in *; [inversion H; reflexivity|].
  inversion H as [|k x ks xs Hx Hxs]; subst. cbn. f_equal.
  - apply (Hx 0 a); [lia|reflexivity].
  - apply (IH xs (S j)). eapply Forall2_weaken; [|exact Hxs]. intros k y Hy i kv Hk Hn. apply (Hy (S i) kv); [lia|exact Hn]. Qed.

(* The graph outputs of a returned model carry exactly the requested output names, in the requested order. *)
Theorem build_public_outputs p r m inputs outputs :
  build_public p r = inl m -> all_vars (r_inputs r) = Some inputs -> all_vars (r_outputs r) = Some outputs ->
  match mmain m with MGraph _ _ go_ => map fst go_ = map fst outputs end.
Proof.
  unfold build_public. intros H Hi Ho. rewrite Hi, Ho in H.
  destruct (negb _) eqn:Earg; [discriminate|]. destruct outputs as [|o os]; [discriminate|].
  apply negb_false_iff in Earg. rewrite forallb_forall in Earg.
  apply bind_ok in H. destruct H as [args [_ H]]. apply bind_ok in H. destruct H as [b [Hb H]].
  apply bind_ok in H. destruct H as [m' [Hm H]]. pose proof (to_model_struct _ _ Hm) as (_ & Hmg & _).
  destruct (mmain m') as [gi body go_] eqn:Eg. destruct (forallb _ gi); [|discriminate]. inversion H; subst m'. rewrite Eg.
  unfold build_main in Hb. destruct (S (List.length (graphs p))) as [|ff] eqn:EF; [discriminate|]. cbn [build_main_gen] in Hb.
  apply bind_ok in Hb. destruct Hb as [d [_ Hb]]. apply bind_ok in Hb. destruct Hb as [[[[mg s] rq] fs] [Hc Hb]].
  inversion Hb; subst b. cbn [b_graph] in Hmg. subst mg.
  eapply compile_io_names in Hc; [|intros v x n Hl; discriminate Hl]. destruct Hc as [_ Hro].
  cbn [with_main getg graphs nth gres] in Hro.
  apply (names_from_seqn (o :: os) go_ 0). eapply Forall2_weaken; [|exact Hro]. intros k x Hx i kv -> Hn. cbn [Nat.add] in *.
  apply Hx. unfold var_name. fold (user_names inputs).
  rewrite (lookup_app_none var_eqb).
  - pose proof (lookup_outmap 0 (o :: os) 0 i kv Hn) as Hl. cbn [Nat.add] in Hl. rewrite Hl. reflexivity.
  - apply (lookup_notin_none var_eqb var_eqb_spec). intros Hc. apply user_names_keys in Hc. apply in_map_iff in Hc. destruct Hc as [kv' [E Hk]].
    specialize (Earg kv' Hk). rewrite E in Earg. cbn in Earg. discriminate.
Qed.

(* ---------- names AND types, without any premise ---------- *)
Definition io_entry (p : prog) (un : names) (v : var) (x : String.string * String.string) : Prop :=
  (forall n, var_name p un v = Some n -> fst x = n) /\
  exists t, vty p v = Some t /\ snd x = tshow t /\ tconcrete t = true.

Theorem compile_io_main p un args_of own_of fbuild fuel s g prefix ai ms ro s' rq fs :
  compile p un args_of own_of fbuild fuel s g prefix (Some true) = inl (MGraph ai ms ro, s', rq, fs) -> BoundRight p un s ->
  Forall2 (io_entry p un) (args_of g) ai /\
  Forall2 (io_entry p un) (map (V (NIntro g)) (seqn 0 (List.length (gres (getg p g))))) ro.
Proof.
  intros H Hs. pose proof (compile_bound _ _ _ _ _ _ _ _ _ _ _ _ _ _ H Hs) as Hb.
  destruct fuel as [|f]; [discriminate|]. cbn [Build.compile] in H.
  apply bind_ok in H. destruct H as [s1 [_ H]]. apply bind_ok in H. destruct H as [[[[[ms0 s3] rq3] fs0] sfs] [_ H]].
  destruct (Nat.eqb (List.length (gres (getg p g))) 0); [discriminate H|].
  apply bind_ok in H. destruct H as [ai0 [Hai H]]. apply bind_ok in H. destruct H as [ro0 [Hro H]]. inversion H; subst.
  assert (Hvi : forall v x, value_info p (Some true) s' v = inl x -> io_entry p un v x).
  { intros v x Hx. unfold value_info in Hx. apply bind_ok in Hx. destruct Hx as [nm [Hv Hx]]. unfold vlook in Hv.
    destruct (lookup var_eqb v (vname s')) as [m|] eqn:El; [|discriminate]. inversion Hv; subst nm.
    destruct (vty p v) as [t|] eqn:Ety; [|discriminate]. cbn [andb] in Hx. destruct (tconcrete t) eqn:Et; cbn [negb] in Hx; [|discriminate].
    inversion Hx; subst x. split; [intros n Hn; exact (Hb v m n El Hn)|]. exists t. split; [exact Ety|]. split; [reflexivity|exact Et]. }
  split; (eapply mapM_Forall2; [|eassumption]); intros a x _ Hx; now apply Hvi.
Qed.

Lemma Forall2_weaken_in {A B} (R R' : A -> B -> Prop) l r : (forall a b, In a l -> R a b -> R' a b) -> Forall2 R l r -> Forall2 R' l r.
Proof. intros H HF. induction HF as [|a b l r Hab HF IH]; constructor; [apply H; [now left|exact Hab]|]. apply IH. intros a0 b0 Hin. apply H. now right. Qed.
Lemma Forall2_map_l {A A' B} (f : A -> A') (R : A' -> B -> Prop) l r : Forall2 R (map f l) r -> Forall2 (fun a b => R (f a) b) l r.
Proof. revert r. induction l as [|a t IH]; intros r H; inversion H; subst; constructor; auto. Qed.
Lemma Forall2_seqn_list {X B} (l : list X) (R : nat -> B -> Prop) (R' : X -> B -> Prop) : forall ro j,
  (forall i kv x, nth_error l i = Some kv -> R (j + i) x -> R' kv x) -> Forall2 R (seqn j (List.length l)) ro -> Forall2 R' l ro.
Proof. induction l as [|a t IH]; intros ro j Hr H; cbn in *; [inversion H; constructor|].
  inversion H as [|k x ks xs Hx Hxs]; subst. constructor.
  - apply (Hr 0 a x); [reflexivity|]. now rewrite Nat.add_0_r.
  - apply (IH xs (S j)); [|exact Hxs]. intros i kv y Hn Hy. apply (Hr (S i) kv y); [exact Hn|]. now replace (j + S i) with (S j + i) by lia. Qed.

(* The public build, by construction: the graph inputs are the requested arguments (all, in order; with drop_unused_inputs a
   sub-sequence), the graph outputs are the requested outputs in order; each entry carries the name it was requested under and the
   (concrete) type of its Var. *)
Theorem build_public_io p r m inputs outputs :
  build_public p r = inl m -> all_vars (r_inputs r) = Some inputs -> all_vars (r_outputs r) = Some outputs ->
  exists args, (r_drop r = false -> args = map snd inputs) /\ (forall a, In a args -> In a (map snd inputs)) /\
    match mmain m with MGraph gi _ go_ =>
      Forall2 (fun a x => (forall n, lookup var_eqb a (user_names inputs) = Some n -> fst x = n) /\
                          exists t, vty p a = Some t /\ snd x = tshow t /\ tconcrete t = true) args gi /\
      map fst go_ = map fst outputs /\
      Forall2 (fun kv x => exists t, vty p (snd kv) = Some t /\ snd x = tshow t /\ tconcrete t = true) outputs go_
    end.
Proof.
  intros H Hi Ho. pose proof (build_public_outputs _ _ _ _ _ H Hi Ho) as Hnames. revert H.
  unfold build_public. intros H. rewrite Hi, Ho in H.
  destruct (negb _) eqn:Earg; [discriminate|]. destruct outputs as [|o os]; [discriminate|].
  apply negb_false_iff in Earg. rewrite forallb_forall in Earg.
  apply bind_ok in H. destruct H as [args [Ha H]]. apply bind_ok in H. destruct H as [b [Hb H]].
  apply bind_ok in H. destruct H as [m' [Hm H]]. pose proof (to_model_struct _ _ Hm) as (_ & Hmg & _).
  destruct (mmain m') as [gi body go_] eqn:Eg. destruct (forallb _ gi); [|discriminate]. inversion H; subst m'. rewrite Eg in *.
  exists args.
  assert (Hsub : forall a, In a args -> In a (map snd inputs)).
  { destruct (r_drop r).
    - apply bind_ok in Ha. destruct Ha as [b1 [_ Ha]]. destruct (forallb _ (b_args b1)); [|discriminate]. inversion Ha; subst.
      intros a Hin. apply filter_In in Hin. tauto.
    - inversion Ha; subst. auto. }
  split; [intros Hd; rewrite Hd in Ha; inversion Ha; reflexivity|]. split; [exact Hsub|].
  unfold build_main in Hb. destruct (S (List.length (graphs p))) as [|ff] eqn:EF; [discriminate|]. cbn [build_main_gen] in Hb.
  apply bind_ok in Hb. destruct Hb as [d [Hd Hb]]. apply bind_ok in Hb. destruct Hb as [[[[mg s] rq] fs] [Hc Hb]].
  inversion Hb; subst b. cbn [b_graph] in Hmg. subst mg.
  pose proof (discover_main_args _ _ _ _ args Hd eq_refl) as Hargs.
  eapply compile_io_main in Hc; [|intros v x n Hl; discriminate Hl]. destruct Hc as [Hin Hout]. cbn beta in Hin. rewrite Hargs in Hin.
  cbn [with_main getg graphs nth gres] in Hout.
  split; [|split; [exact Hnames|]].
  - eapply Forall2_weaken_in; [|exact Hin]. intros a x Hina [Hn (t & Ht & Hs & Hcn)]. split.
    + intros n Hl. apply Hn. unfold var_name. fold (user_names inputs). now rewrite (lookup_app_some var_eqb _ _ _ _ Hl).
    + exists t. split; [|auto]. apply Hsub in Hina. apply in_map_iff in Hina. destruct Hina as [kv [E Hk]]. specialize (Earg kv Hk). rewrite E in Earg.
      destruct a as [[k|g0] j]; [exact Ht|cbn in Earg; discriminate].
  - apply Forall2_map_l in Hout. eapply (Forall2_seqn_list (o :: os) _ _ go_ 0); [|exact Hout].
    intros i kv x Hn [_ (t & Ht & Hs & Hcn)]. exists t. split; [|auto]. cbn [Nat.add] in Ht.
    unfold vty in Ht. cbn [with_main getg graphs nth gres] in Ht. rewrite Hn in Ht. destruct kv as [k [[n|g0] j]]; [exact Ht|discriminate].
Qed.
