(* Tensor.v — model of how spox embeds numpy arrays in ONNX models (C10).

   Anchors: src/spox/_utils.py (dtype_to_tensor_type, from_array), onnx 1.22 helper.make_tensor (raw=False packing),
   onnx 1.22 numpy_helper.to_array.

   A tensor is (element type, dims, payload).  Payload words are BIT PATTERNS (N, of the element's width); floating
   point numbers are never compared as numbers.  A complex element is one word: real part in the low half, imaginary
   part in the high half (its little-endian memory image).  A string element is its list of Unicode scalar values;
   the model contains the UTF-8 codec.  The payload lists the elements in C (row-major) order of the logical array —
   the reflector of the harness reads the logical array by explicit index iteration, so memory layout (Fortran order,
   strides, byte order, read-only flag) is an input of the reflector, not of the model.

   [encode_pinned] is the faithful model of the pinned tree: from_array = make_tensor(raw=False) with the typed data
   fields; the conversions that make_tensor / protobuf perform on the way are the per-element function [canon]
   (binary32 signalling NaNs are quieted when protobuf converts numpy.float32 -> C double -> C float; float8e5m2 is
   "saturate-cast": infinities become the largest finite value and NaN payloads are canonicalised; float8e8m0 pattern 0
   becomes 1).  [encode] is the model of the repaired from_array (fixes/F14.diff): typed fields whenever they hold the
   bits exactly, raw_data otherwise.  No proofs in this file. *)
From Coq Require Import NArith ZArith List Bool.
Import ListNotations.
Open Scope N_scope.

(* ------------------------------------------------------------------ element types = onnx.TensorProto.DataType 1..26 *)
Inductive elem :=
| F32 | U8 | I8 | U16 | I16 | I32 | I64 | Str | Bool | F16 | F64 | U32 | U64 | C64 | C128 | BF16
| F8E4M3FN | F8E4M3FNUZ | F8E5M2 | F8E5M2FNUZ | U4 | I4 | F4E2M1 | F8E8M0 | U2 | I2.

Definition all_elems : list elem :=
  [F32; U8; I8; U16; I16; I32; I64; Str; Bool; F16; F64; U32; U64; C64; C128; BF16;
   F8E4M3FN; F8E4M3FNUZ; F8E5M2; F8E5M2FNUZ; U4; I4; F4E2M1; F8E8M0; U2; I2].

(* dtype_to_tensor_type after alias / byte-order normalisation (np.dtype(np.dtype(x).type)) *)
Definition code (e : elem) : N :=
  match e with
  | F32 => 1 | U8 => 2 | I8 => 3 | U16 => 4 | I16 => 5 | I32 => 6 | I64 => 7 | Str => 8 | Bool => 9 | F16 => 10
  | F64 => 11 | U32 => 12 | U64 => 13 | C64 => 14 | C128 => 15 | BF16 => 16 | F8E4M3FN => 17 | F8E4M3FNUZ => 18
  | F8E5M2 => 19 | F8E5M2FNUZ => 20 | U4 => 21 | I4 => 22 | F4E2M1 => 23 | F8E8M0 => 24 | U2 => 25 | I2 => 26
  end.
(* tensor_type_to_dtype *)
Definition of_code (n : N) : option elem := find (fun e => code e =? n) all_elems.

Definition elem_eqb (a b : elem) : bool := code a =? code b.

(* bits per element (0 for strings) *)
Definition width (e : elem) : N :=
  match e with
  | F32 | I32 | U32 => 32
  | U8 | I8 | F8E4M3FN | F8E4M3FNUZ | F8E5M2 | F8E5M2FNUZ | F8E8M0 => 8
  | U16 | I16 | F16 | BF16 => 16
  | I64 | U64 | F64 | C64 => 64
  | C128 => 128
  | Bool => 1
  | U4 | I4 | F4E2M1 => 4
  | U2 | I2 => 2
  | Str => 0
  end.

(* the packing table: which TensorProto field make_tensor(raw=False) fills, and how (onnx._mapping.TENSOR_TYPE_MAP
   storage_dtype + the view/astype steps at the end of make_tensor).  Validated against onnx on every run. *)
Inductive store :=
| SFloat | SFloatPair          (* float_data: one word / (re, im) interleaved *)
| SDouble | SDoublePair        (* double_data *)
| SInt32U                      (* int32_data, bit pattern zero-extended (uint8/16, bool, f16, bf16, f8) *)
| SInt32S                      (* int32_data, two's complement sign-extended (int8/16/32) *)
| SInt64                       (* int64_data, sign-extended *)
| SUint64                      (* uint64_data (uint32, uint64) *)
| SPack4 | SPack2              (* int32_data, two 4-bit / four 2-bit elements per entry, low bits first *)
| SString.                     (* string_data, UTF-8 *)

Definition store_of (e : elem) : store :=
  match e with
  | F32 => SFloat | C64 => SFloatPair | F64 => SDouble | C128 => SDoublePair
  | U8 | U16 | Bool | F16 | BF16 | F8E4M3FN | F8E4M3FNUZ | F8E5M2 | F8E5M2FNUZ | F8E8M0 => SInt32U
  | I8 | I16 | I32 => SInt32S
  | I64 => SInt64
  | U32 | U64 => SUint64
  | U4 | I4 | F4E2M1 => SPack4
  | U2 | I2 => SPack2
  | Str => SString
  end.

(* ------------------------------------------------------------------ tensors *)
Inductive payload :=
| PNum (ws : list N)              (* bit patterns *)
| PStr (ss : list (list N)).      (* per element: Unicode scalar values *)

Record tensor := mkT { t_elem : elem; t_dims : list N; t_data : payload }.

Definition prod (dims : list N) : N := fold_right N.mul 1 dims.
Definition len {A} (l : list A) : N := N.of_nat (List.length l).

Definition scalar_value (c : N) : bool := (c <? 0xD800) || ((0xE000 <=? c) && (c <? 0x110000)).

(* well-formed: as many elements as the shape says, every word fits the element width, every string is Unicode text *)
Definition wf (t : tensor) : bool :=
  match t_elem t, t_data t with
  | Str, PStr ss => (len ss =? prod (t_dims t)) && forallb (forallb scalar_value) ss
  | Str, PNum _ => false
  | _, PStr _ => false
  | e, PNum ws => (len ws =? prod (t_dims t)) && forallb (fun w => w <? 2 ^ width e) ws
  end.

(* ------------------------------------------------------------------ UTF-8 *)
Definition utf8_cp (c : N) : list N :=
  if c <? 0x80 then [c]
  else if c <? 0x800 then [0xC0 + c / 64; 0x80 + c mod 64]
  else if c <? 0x10000 then [0xE0 + c / 4096; 0x80 + (c / 64) mod 64; 0x80 + c mod 64]
  else [0xF0 + c / 262144; 0x80 + (c / 4096) mod 64; 0x80 + (c / 64) mod 64; 0x80 + c mod 64].
Definition utf8 (s : list N) : list N := flat_map utf8_cp s.

Definition cont (b : N) : bool := (0x80 <=? b) && (b <? 0xC0).
Definition ocons {A} (a : A) (o : option (list A)) : option (list A) :=
  match o with Some l => Some (a :: l) | None => None end.

(* strict decoder (Python's bytes.decode("utf-8")): no overlong forms, no surrogates, nothing above U+10FFFF *)
Fixpoint utf8_decode (l : list N) : option (list N) :=
  match l with
  | [] => Some []
  | b0 :: r0 =>
    if b0 <? 0x80 then ocons b0 (utf8_decode r0)
    else if b0 <? 0xC2 then None
    else if b0 <? 0xE0 then
      match r0 with
      | b1 :: r1 => if cont b1 then ocons ((b0 - 0xC0) * 64 + (b1 - 0x80)) (utf8_decode r1) else None
      | _ => None
      end
    else if b0 <? 0xF0 then
      match r0 with
      | b1 :: b2 :: r2 =>
        let c := (b0 - 0xE0) * 4096 + (b1 - 0x80) * 64 + (b2 - 0x80) in
        if cont b1 && cont b2 && (0x800 <=? c) && scalar_value c then ocons c (utf8_decode r2) else None
      | _ => None
      end
    else if b0 <? 0xF5 then
      match r0 with
      | b1 :: b2 :: b3 :: r3 =>
        let c := (b0 - 0xF0) * 262144 + (b1 - 0x80) * 4096 + (b2 - 0x80) * 64 + (b3 - 0x80) in
        if cont b1 && cont b2 && cont b3 && (0x10000 <=? c) && (c <? 0x110000) then ocons c (utf8_decode r3) else None
      | _ => None
      end
    else None
  end.

Fixpoint all_some {A} (l : list (option A)) : option (list A) :=
  match l with
  | [] => Some []
  | Some a :: t => ocons a (all_some t)
  | None :: _ => None
  end.

(* ------------------------------------------------------------------ TensorProto *)
Inductive pdata :=
| DFloat (bits : list N)          (* float_data, binary32 bit patterns *)
| DInt32 (vs : list Z)            (* int32_data, signed values as protobuf presents them *)
| DInt64 (vs : list Z)
| DString (bs : list (list N))    (* string_data, bytes *)
| DDouble (bits : list N)         (* double_data, binary64 bit patterns *)
| DUint64 (vs : list N)
| DRaw (bytes : list N).          (* raw_data, little-endian *)

Record proto := mkP { p_dtype : N; p_dims : list N; p_data : pdata }.

(* ------------------------------------------------------------------ what the typed path does to a word *)
Definition is_snan32 (w : N) : bool :=
  ((w / 2 ^ 23) mod 256 =? 255) && negb (w mod 2 ^ 23 =? 0) && ((w / 2 ^ 22) mod 2 =? 0).
(* C float -> C double -> C float (protobuf's Python layer; also numpy.asarray(list of Python floats, float32)) *)
Definition quiet32 (w : N) : N := if is_snan32 w then w + 2 ^ 22 else w.

(* numpy_helper.saturate_cast on float8e5m2: ±inf -> ±max finite, every NaN -> the canonical NaN of its sign *)
Definition sat_e5m2 (w : N) : N :=
  if w =? 0x7C then 0x7B else if w =? 0xFC then 0xFB
  else if (0x7D <=? w) && (w <=? 0x7F) then 0x7E
  else if (0xFD <=? w) && (w <=? 0xFF) then 0xFE
  else w.

Definition canon (e : elem) (w : N) : N :=
  match e with
  | F32 => quiet32 w
  | C64 => quiet32 (w mod 2 ^ 32) + 2 ^ 32 * quiet32 (w / 2 ^ 32)
  | F8E5M2 => sat_e5m2 w
  | F8E8M0 => if w =? 0 then 1 else w
  | _ => w
  end.
Definition lossless (e : elem) (w : N) : bool := canon e w =? w.

(* ------------------------------------------------------------------ make_tensor(raw=False): typed packing *)
Definition sext (k : N) (x : N) : Z := if x <? 2 ^ (k - 1) then Z.of_N x else (Z.of_N x - Z.of_N (2 ^ k))%Z.
Definition wrap (k : N) (z : Z) : N := Z.to_N (z mod Z.of_N (2 ^ k)).

Definition split (k : N) (w : N) : list N := [w mod 2 ^ k; w / 2 ^ k].
Fixpoint join (k : N) (l : list N) : option (list N) :=
  match l with
  | [] => Some []
  | a :: b :: t => ocons (a + 2 ^ k * b) (join k t)
  | _ => None
  end.

(* numpy_helper._pack_4bitx2 / _pack_2bitx4: low bits first, zero padding *)
Fixpoint pack4 (l : list N) : list N :=
  match l with
  | [] => []
  | [a] => [a]
  | a :: b :: t => (a + 16 * b) :: pack4 t
  end.
Definition unpack4 (l : list N) : list N := flat_map (fun x => [x mod 16; x / 16]) l.
Fixpoint pack2 (l : list N) : list N :=
  match l with
  | [] => []
  | [a] => [a]
  | [a; b] => [a + 4 * b]
  | [a; b; c] => [a + 4 * b + 16 * c]
  | a :: b :: c :: d :: t => (a + 4 * b + 16 * c + 64 * d) :: pack2 t
  end.
Definition unpack2 (l : list N) : list N := flat_map (fun x => [x mod 4; (x / 4) mod 4; (x / 16) mod 4; x / 64]) l.

Definition pack_typed (e : elem) (ws : list N) : pdata :=
  match store_of e with
  | SFloat => DFloat ws
  | SFloatPair => DFloat (flat_map (split 32) ws)
  | SDouble => DDouble ws
  | SDoublePair => DDouble (flat_map (split 64) ws)
  | SInt32U => DInt32 (map Z.of_N ws)
  | SInt32S => DInt32 (map (sext (width e)) ws)
  | SInt64 => DInt64 (map (sext 64) ws)
  | SUint64 => DUint64 ws
  | SPack4 => DInt32 (map Z.of_N (pack4 ws))
  | SPack2 => DInt32 (map Z.of_N (pack2 ws))
  | SString => DString []
  end.

(* raw_data: every element as width/8 little-endian bytes (used by the repaired from_array for lossy cases only) *)
Fixpoint to_le (k : nat) (w : N) : list N :=
  match k with O => [] | S k' => (w mod 256) :: to_le k' (w / 256) end.
Fixpoint take_le (k : nat) (l : list N) : option (N * list N) :=
  match k with
  | O => Some (0, l)
  | S k' => match l with
            | [] => None
            | b :: t => match take_le k' t with Some (v, r) => Some (b + 256 * v, r) | None => None end
            end
  end.
(* numpy.frombuffer(bytes, dtype).reshape(dims): exactly n elements of k bytes *)
Fixpoint read_words (k : nat) (n : nat) (l : list N) : option (list N) :=
  match n with
  | O => match l with [] => Some [] | _ => None end
  | S n' => match take_le k l with Some (w, r) => ocons w (read_words k n' r) | None => None end
  end.
Definition nbytes (e : elem) : nat := N.to_nat (width e / 8).

(* ------------------------------------------------------------------ from_array *)
(* the pinned tree: always the typed fields *)
Definition encode_pinned (t : tensor) : proto :=
  mkP (code (t_elem t)) (t_dims t)
    match t_data t with
    | PStr ss => DString (map utf8 ss)
    | PNum ws => pack_typed (t_elem t) (map (canon (t_elem t)) ws)
    end.

(* the repaired from_array: typed fields when they hold the bits, raw_data otherwise *)
Definition encode (t : tensor) : proto :=
  mkP (code (t_elem t)) (t_dims t)
    match t_data t with
    | PStr ss => DString (map utf8 ss)
    | PNum ws => if forallb (lossless (t_elem t)) ws then pack_typed (t_elem t) ws
                 else DRaw (flat_map (to_le (nbytes (t_elem t))) ws)
    end.

(* ------------------------------------------------------------------ numpy_helper.to_array *)
Definition get_float d := match d with DFloat v => v | _ => [] end.
Definition get_int32 d := match d with DInt32 v => v | _ => [] end.
Definition get_int64 d := match d with DInt64 v => v | _ => [] end.
Definition get_string d := match d with DString v => v | _ => [] end.
Definition get_double d := match d with DDouble v => v | _ => [] end.
Definition get_uint64 d := match d with DUint64 v => v | _ => [] end.

(* unpacked sub-byte data: at least n elements needed; one padding element dropped, the rest cut by resize *)
Definition cut (n : N) (l : list N) : option (list N) :=
  if n <=? len l then Some (firstn (N.to_nat n) l) else None.

Definition decode_typed (e : elem) (n : N) (d : pdata) : option (list N) :=
  match store_of e with
  | SFloat => Some (map quiet32 (get_float d))
  | SFloatPair => join 32 (map quiet32 (get_float d))
  | SDouble => Some (get_double d)
  | SDoublePair => join 64 (get_double d)
  | SInt32U | SInt32S => Some (map (wrap (width e)) (get_int32 d))
  | SInt64 => Some (map (wrap 64) (get_int64 d))
  | SUint64 => Some (map (fun v => v mod 2 ^ width e) (get_uint64 d))
  | SPack4 => cut n (unpack4 (map (wrap 8) (get_int32 d)))
  | SPack2 => cut n (unpack2 (map (wrap 8) (get_int32 d)))
  | SString => None
  end.

Definition decode_raw (e : elem) (n : N) (bytes : list N) : option (list N) :=
  match store_of e with
  | SPack4 => cut n (unpack4 bytes)
  | SPack2 => cut n (unpack2 bytes)
  | SString => None
  | _ => match e with
         | Bool => read_words 1 (N.to_nat n) bytes
         | _ => read_words (nbytes e) (N.to_nat n) bytes
         end
  end.

Definition decode_words (e : elem) (n : N) (d : pdata) : option (list N) :=
  match d with DRaw b => decode_raw e n b | _ => decode_typed e n d end.   (* HasField("raw_data") wins *)

Definition decode (p : proto) : option tensor :=
  match of_code (p_dtype p) with
  | None => None
  | Some Str =>
      match all_some (map utf8_decode (get_string (p_data p))) with
      | Some ss => if len ss =? prod (p_dims p) then Some (mkT Str (p_dims p) (PStr ss)) else None
      | None => None
      end
  | Some e =>
      let n := prod (p_dims p) in
      match decode_words e n (p_data p) with
      | Some ws => if len ws =? n then Some (mkT e (p_dims p) (PNum ws)) else None
      | None => None
      end
  end.

(* what the pinned tree delivers: the tensor with every word passed through [canon] *)
Definition canon_tensor (t : tensor) : tensor :=
  mkT (t_elem t) (t_dims t) match t_data t with PNum ws => PNum (map (canon (t_elem t)) ws) | d => d end.

(* ------------------------------------------------------------------ the type of the Var *)
(* Constant: ONNX type inference reads data_type and dims of the attribute; Initializer: Tensor(arr.dtype, arr.shape) *)
Definition proto_type (p : proto) : option (elem * list N) :=
  match of_code (p_dtype p) with Some e => Some (e, p_dims p) | None => None end.
Definition array_type (t : tensor) : elem * list N := (t_elem t, t_dims t).

(* ------------------------------------------------------------------ equality tests used by the correspondence run *)
Fixpoint list_eqb {A} (eqb : A -> A -> bool) (a b : list A) : bool :=
  match a, b with
  | [], [] => true
  | x :: a', y :: b' => eqb x y && list_eqb eqb a' b'
  | _, _ => false
  end.
Definition pdata_eqb (a b : pdata) : bool :=
  match a, b with
  | DFloat x, DFloat y | DDouble x, DDouble y | DUint64 x, DUint64 y | DRaw x, DRaw y => list_eqb N.eqb x y
  | DInt32 x, DInt32 y | DInt64 x, DInt64 y => list_eqb Z.eqb x y
  | DString x, DString y => list_eqb (list_eqb N.eqb) x y
  | _, _ => false
  end.
Definition proto_eqb (a b : proto) : bool :=
  (p_dtype a =? p_dtype b) && list_eqb N.eqb (p_dims a) (p_dims b) && pdata_eqb (p_data a) (p_data b).
Definition payload_eqb (a b : payload) : bool :=
  match a, b with
  | PNum x, PNum y => list_eqb N.eqb x y
  | PStr x, PStr y => list_eqb (list_eqb N.eqb) x y
  | _, _ => false
  end.
Definition tensor_eqb (a b : tensor) : bool :=
  elem_eqb (t_elem a) (t_elem b) && list_eqb N.eqb (t_dims a) (t_dims b) && payload_eqb (t_data a) (t_data b).
Definition otensor_eqb (a : option tensor) (b : tensor) : bool :=
  match a with Some x => tensor_eqb x b | None => false end.
