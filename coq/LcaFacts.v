(* LcaFacts.v — ScopeTree.lca, the alternating-ancestor walk (src/spox/_build.py), is CORRECT on any parent function, for any two
   start nodes whose ancestor chains meet within the fuel: the node it returns is a common ancestor of both, and every common
   ancestor of both is an ancestor-or-self of it (it is the LOWEST common ancestor).  No assumption that the parent function is a
   tree - only that the chains meet (in the scope tree they meet at the main graph at the latest).  Proof: the walk stops at the FIRST
   time one side's current node lies in the part the other side has already left behind; an index argument shows that whichever
   common ancestor exists, it is reached from the stopping node by going up. *)
From Coq Require Import List Arith Bool Lia.
From Spox Require Import Base IR Build BuildFacts.
Import ListNotations.

Section Lca.
Variable par : nat -> nat.

Fixpoint up (k : nat) (x : nat) : nat := match k with O => x | S k' => up k' (par x) end.
Lemma up_out k : forall x, up (S k) x = par (up k x).
Proof. induction k as [|k IH]; intros x; [reflexivity|]. cbn [up] in *. now rewrite IH. Qed.
Lemma up_add m : forall k x, up (m + k) x = up m (up k x).
Proof. intros k. induction k as [|k IH]; intros x; [now rewrite Nat.add_0_r|]. rewrite Nat.add_succ_r. cbn [up]. apply IH. Qed.
Lemma up_ge i k x : k <= i -> up i x = up (i - k) (up k x).
Proof. intros H. replace i with ((i - k) + k) at 1 by lia. apply up_add. Qed.

Fixpoint glca (fuel : nat) (a b : nat) (va vb : list nat) : nat :=
  match fuel with O => a | S f => if Base.mem Nat.eqb a vb then a else glca f b (par a) vb (a :: va) end.

Variables x0 y0 : nat.
Notation A k := (up k x0).
Notation B k := (up k y0).

Definition checkE (k : nat) : Prop := exists j, j < Nat.max k 1 /\ A k = B j.     (* time 2k:   A k among B 0 .. *)
Definition checkO (k : nat) : Prop := exists i, i < k + 1 /\ B k = A i.           (* time 2k+1: B k among A 0 .. A k *)
Definition quiet (k : nat) : Prop := forall k', k' < k -> ~ checkE k' /\ ~ checkO k'.
Definition Concl (r : nat) : Prop :=
  (exists i j, r = A i /\ r = B j) /\ (forall i j, A i = B j -> exists m, A i = up m r).

Lemma lowE k : quiet k -> checkE k -> Concl (A k).
Proof.
  intros Hq [j0 [Hj0 E0]]. split; [exists k, j0; auto|]. intros i j E.
  destruct (le_lt_dec k i) as [Hki|Hik]; [exists (i - k); now apply up_ge|].
  destruct (Hq i Hik) as [HnE _].
  assert (Hj : Nat.max i 1 <= j). { destruct (le_lt_dec (Nat.max i 1) j); [assumption|]. exfalso. apply HnE. exists j. auto. }
  assert (Hjk : k <= j). { destruct (le_lt_dec k j); [assumption|]. exfalso. destruct (Hq j ltac:(lia)) as [_ HnO]. apply HnO. exists i. split; [lia|auto]. }
  exists (j - j0). rewrite E, E0. apply up_ge. lia.
Qed.
Lemma lowO k : quiet k -> ~ checkE k -> checkO k -> Concl (B k).
Proof.
  intros Hq HnEk [i0 [Hi0 E0]]. split; [exists i0, k; auto|]. intros i j E.
  destruct (le_lt_dec k j) as [Hkj|Hjk]; [exists (j - k); rewrite E; now apply up_ge|].
  destruct (Hq j Hjk) as [_ HnO].
  assert (Hi : j + 1 <= i). { destruct (le_lt_dec (j + 1) i); [assumption|]. exfalso. apply HnO. exists i. auto. }
  assert (HE : checkE i). { exists j. split; [lia|exact E]. }
  assert (Hik : k < i).
  { destruct (lt_eq_lt_dec i k) as [[H|H]|H]; [|subst; contradiction|assumption]. exfalso. destruct (Hq i H) as [HnE _]. contradiction. }
  exists (i - i0). rewrite E0. apply up_ge. lia.
Qed.

(* a common ancestor A i = B j makes a check succeed at time 2i or 2j+1 *)
Lemma meet_checks i j : A i = B j -> (j < Nat.max i 1 /\ checkE i) \/ (i <= j /\ checkO j).
Proof. intros E. destruct (le_lt_dec (Nat.max i 1) j) as [H|H]; [right; split; [lia|exists i; split; [lia|auto]]|left; split; [exact H|exists j; auto]]. Qed.

Definition SA (n : nat) (l : list nat) : Prop := forall v, In v l <-> exists i, i < n /\ v = A i.
Definition SB (n : nat) (l : list nat) : Prop := forall v, In v l <-> exists j, j < n /\ v = B j.

Lemma SA_cons n l k : SA n l -> n <= k + 1 -> (k < n \/ n = k) -> SA (k + 1) (A k :: l).
Proof. intros H Hn Hk v. cbn [In]. split.
  - intros [<-|Hv]; [exists k; split; [lia|reflexivity]|]. apply H in Hv. destruct Hv as [i [Hi ->]]. exists i; split; [lia|reflexivity].
  - intros [i [Hi ->]]. destruct (Nat.eq_dec i k) as [->|]; [now left|right]. apply H. exists i. split; [lia|reflexivity]. Qed.
Lemma SB_cons n l k : SB n l -> n <= k + 1 -> (k < n \/ n = k) -> SB (k + 1) (B k :: l).
Proof. intros H Hn Hk v. cbn [In]. split.
  - intros [<-|Hv]; [exists k; split; [lia|reflexivity]|]. apply H in Hv. destruct Hv as [i [Hi ->]]. exists i; split; [lia|reflexivity].
  - intros [i [Hi ->]]. destruct (Nat.eq_dec i k) as [->|]; [now left|right]. apply H. exists i. split; [lia|reflexivity]. Qed.

Lemma glca_spec : forall fuel,
  (forall k va vb, SA (Nat.max k 1) va -> SB (Nat.max k 1) vb -> quiet k ->
     (exists i j, A i = B j /\ 2 * Nat.max i j + 1 < 2 * k + fuel) -> Concl (glca fuel (A k) (B k) va vb)) /\
  (forall k va vb, SB (Nat.max k 1) va -> SA (k + 1) vb -> quiet k -> ~ checkE k ->
     (exists i j, A i = B j /\ 2 * Nat.max i j + 1 < 2 * k + 1 + fuel) -> Concl (glca fuel (B k) (A (k + 1)) va vb)).
Proof.
  induction fuel as [|f [IHe IHo]].
  - split.
    + intros k va vb _ _ Hq [i [j [E Hb]]]. exfalso. destruct (meet_checks i j E) as [[_ Hc]|[_ Hc]].
      * destruct (Hq i ltac:(lia)) as [H _]. contradiction.
      * destruct (Hq j ltac:(lia)) as [_ H]. contradiction.
    + intros k va vb _ _ Hq HnE [i [j [E Hb]]]. exfalso. destruct (meet_checks i j E) as [[_ Hc]|[_ Hc]].
      * destruct (Nat.eq_dec i k) as [->|]; [contradiction|]. destruct (Hq i ltac:(lia)) as [H _]. contradiction.
      * destruct (Hq j ltac:(lia)) as [_ H]. contradiction.
  - split.
    + intros k va vb Hva Hvb Hq Hex. cbn [glca]. destruct (Base.mem Nat.eqb (A k) vb) eqn:Hm.
      * apply (BuildFacts.mem_In Nat.eqb Nat.eqb_spec) in Hm. apply Hvb in Hm. apply lowE; [exact Hq|]. destruct Hm as [j [Hj E]]. exists j. auto.
      * assert (HnE : ~ checkE k).
        { intros [j [Hj E]]. assert (In (A k) vb) as Hin by (apply Hvb; exists j; auto).
          apply (BuildFacts.mem_In Nat.eqb Nat.eqb_spec) in Hin. congruence. }
        rewrite <- up_out. replace (S k) with (k + 1) by lia. apply IHo; [exact Hvb| |exact Hq|exact HnE|].
        -- apply (SA_cons (Nat.max k 1)); [exact Hva|lia|lia].
        -- destruct Hex as [i [j [E Hb]]]. exists i, j. split; [exact E|lia].
    + intros k va vb Hva Hvb Hq HnE Hex. cbn [glca]. destruct (Base.mem Nat.eqb (B k) vb) eqn:Hm.
      * apply (BuildFacts.mem_In Nat.eqb Nat.eqb_spec) in Hm. apply Hvb in Hm. apply lowO; [exact Hq|exact HnE|]. destruct Hm as [i [Hi E]]. exists i. auto.
      * assert (HnO : ~ checkO k).
        { intros [i [Hi E]]. assert (In (B k) vb) as Hin by (apply Hvb; exists i; auto).
          apply (BuildFacts.mem_In Nat.eqb Nat.eqb_spec) in Hin. congruence. }
        rewrite <- up_out. replace (S k) with (k + 1) by lia. apply IHe.
        -- replace (Nat.max (k + 1) 1) with (k + 1) by lia. exact Hvb.
        -- replace (Nat.max (k + 1) 1) with (k + 1) by lia. apply (SB_cons (Nat.max k 1)); [exact Hva|lia|lia].
        -- intros k' Hk'. destruct (Nat.eq_dec k' k) as [->|]; [split; assumption|apply Hq; lia].
        -- destruct Hex as [i [j [E Hb]]]. exists i, j. split; [exact E|lia].
Qed.

Theorem glca_correct fuel i j : A i = B j -> 2 * Nat.max i j + 1 < fuel ->
  let r := glca fuel x0 y0 [x0] [y0] in
  (exists i' j', r = A i' /\ r = B j') /\ (forall i' j', A i' = B j' -> exists m, A i' = up m r).
Proof.
  intros E Hf. apply (proj1 (glca_spec fuel) 0 [x0] [y0]).
  - intros v. cbn. split; [intros [<-|[]]; exists 0; split; [lia|reflexivity]|intros [k [Hk ->]]; left; destruct k; [reflexivity|lia]].
  - intros v. cbn. split; [intros [<-|[]]; exists 0; split; [lia|reflexivity]|intros [k [Hk ->]]; left; destruct k; [reflexivity|lia]].
  - intros k' Hk'. lia.
  - exists i, j. split; [exact E|lia].
Qed.
End Lca.

(* the model's lca IS this walk, with the scope tree's parent function *)
Lemma lca_is_glca own sc : forall fuel a b va vb, lca fuel own sc a b va vb = glca (parent own sc) fuel a b va vb.
Proof. induction fuel as [|f IH]; intros a b va vb; cbn [lca glca]; [reflexivity|]. destruct (Base.mem Nat.eqb a vb); [reflexivity|apply IH]. Qed.

Theorem lca_correct own sc a b fuel i j : let par := parent own sc in
  up par i a = up par j b -> 2 * Nat.max i j + 1 < fuel ->
  let r := lca fuel own sc a b [a] [b] in
  (exists i' j', r = up par i' a /\ r = up par j' b) /\ (forall i' j', up par i' a = up par j' b -> exists m, up par i' a = up par m r).
Proof. intros par E Hf. cbv zeta. rewrite lca_is_glca. exact (glca_correct par a b fuel i j E Hf). Qed.
