(* SigFacts.v — proofs about Sig.v (C11): generic, data-independent theorems.  The per-run generated SigsGen_<module>.v
   files only supply data and one [vm_compute]. *)
From Coq Require Import List String Ascii ZArith Bool Arith Lia.
From Spox Require Import Sig.
Import ListNotations.
Open Scope string_scope.

(* ------------------------------------------------------------------------------------------------ decidable equalities *)

Lemma kind_eqb_eq a b : kind_eqb a b = true -> a = b.
Proof. destruct a, b; simpl; congruence. Qed.

Lemma field_eqb_eq a b : field_eqb a b = true -> a = b.
Proof.
  destruct a as [n k], b as [n' k']. unfold field_eqb. cbn [f_name f_kind]. intros H.
  apply andb_prop in H. destruct H as [H1 H2]. apply String.eqb_eq in H1. apply kind_eqb_eq in H2. subst. reflexivity.
Qed.

Lemma list_eqb_eq {A} (eqb : A -> A -> bool) :
  (forall a b, eqb a b = true -> a = b) -> forall l m, list_eqb eqb l m = true -> l = m.
Proof.
  intros He. induction l as [|x l IH]; destruct m as [|y m]; cbn [list_eqb]; intros H; try discriminate; [reflexivity|].
  apply andb_prop in H. destruct H as [H1 H2]. rewrite (He _ _ H1), (IH _ H2). reflexivity.
Qed.

Lemma string_eqb_eq' a b : String.eqb a b = true -> a = b.
Proof. apply String.eqb_eq. Qed.
Lemma Z_eqb_eq' a b : Z.eqb a b = true -> a = b.
Proof. apply Z.eqb_eq. Qed.
Lemma bool_eqb_eq' a b : Bool.eqb a b = true -> a = b.
Proof. apply Bool.eqb_prop. Qed.

Lemma aval_eqb_eq a b : aval_eqb a b = true -> a = b.
Proof.
  destruct a, b; cbn [aval_eqb]; intros H; try discriminate;
    repeat match goal with
           | H : _ && _ = true |- _ => apply andb_prop in H; destruct H
           end;
    repeat match goal with
           | H : String.eqb _ _ = true |- _ => apply String.eqb_eq in H
           | H : Z.eqb _ _ = true |- _ => apply Z.eqb_eq in H
           | H : list_eqb String.eqb _ _ = true |- _ => apply (list_eqb_eq _ string_eqb_eq') in H
           | H : list_eqb Z.eqb _ _ = true |- _ => apply (list_eqb_eq _ Z_eqb_eq') in H
           end; subst; reflexivity.
Qed.

Lemma pair_eqb_eq a b : pair_eqb a b = true -> a = b.
Proof.
  destruct a as [n v], b as [n' v']. unfold pair_eqb. cbn [fst snd]. intros H. apply andb_prop in H. destruct H as [H1 H2].
  apply String.eqb_eq in H1. apply aval_eqb_eq in H2. subst. reflexivity.
Qed.

Lemma mem_In k l : mem k l = true -> In k l.
Proof.
  unfold mem. intros H. apply existsb_exists in H. destruct H as [y [Hy He]]. apply String.eqb_eq in He. subst. exact Hy.
Qed.

Lemma nodupb_NoDup (l : list string) : nodupb String.eqb l = true -> NoDup l.
Proof.
  induction l as [|x t IH]; cbn [nodupb]; intros H; [constructor|].
  apply andb_prop in H. destruct H as [H1 H2]. constructor; [|exact (IH H2)].
  intros Hin. apply negb_true_iff in H1.
  assert (existsb (String.eqb x) t = true) as E by (apply existsb_exists; exists x; split; [exact Hin|apply String.eqb_refl]).
  congruence.
Qed.

Lemma is_nil_eq {A} (l : list A) : is_nil l = true -> l = [].
Proof. destruct l; simpl; congruence. Qed.

(* ------------------------------------------------------------------------------------------------ slots_roundtrip *)

Lemma trim_nonempty : forall l m, forallb nonempty l = true -> trim m l = l.
Proof.
  induction l as [|x t IH]; intros m H; [reflexivity|].
  cbn [forallb] in H. apply andb_prop in H. destruct H as [Hx Ht]. cbn [trim].
  destruct m as [|m]; [|rewrite (IH m Ht); reflexivity].
  rewrite (IH 0%nat Ht). unfold nonempty in Hx. apply negb_true_iff in Hx. rewrite Hx. destruct t; reflexivity.
Qed.

(* trimming a list whose head is non-empty keeps the head *)
Lemma trim_cons_nonempty x t m : nonempty x = true ->
  trim m (x :: t) = x :: trim (Nat.pred m) t.
Proof.
  intros Hx. cbn [trim]. destruct m as [|m]; [|reflexivity]. cbn [Nat.pred].
  unfold nonempty in Hx. apply negb_true_iff in Hx. rewrite Hx. destruct (trim 0 t); reflexivity.
Qed.

(* ONNX's positional binding inverts the emission, for EVERY signature whose variadic slot (if any) is last, every
   argument pattern that fits it and every lower bound [m] on the number of emitted names. *)
Theorem slots_roundtrip : forall sig args m, fitsb sig args = true -> bind_slots sig (emit m args) = Some args.
Proof.
  unfold emit. induction sig as [|k sig IH]; intros args m Hf.
  - destruct args; [reflexivity|discriminate].
  - destruct k; destruct args as [|a args]; try discriminate; destruct a as [n|o|l]; try discriminate; cbn [fitsb] in Hf.
    + (* Single *)
      apply andb_prop in Hf. destruct Hf as [Hn Hf]. unfold flat. cbn [flat_map arg_names app].
      fold (flat args). rewrite (trim_cons_nonempty _ _ _ Hn). cbn [bind_slots]. rewrite Hn.
      rewrite (IH args _ Hf). reflexivity.
    + (* Optional *)
      apply andb_prop in Hf. destruct Hf as [Hn Hf]. unfold flat. destruct o as [n|]; cbn [flat_map arg_names app]; fold (flat args).
      * rewrite (trim_cons_nonempty _ _ _ Hn). cbn [bind_slots]. rewrite Hn. rewrite (IH args _ Hf). reflexivity.
      * cbn [trim]. destruct m as [|m].
        -- pose proof (IH args 0%nat Hf) as H0. destruct (trim 0 (flat args)) as [|y t'] eqn:Et.
           ++ cbn [String.eqb bind_slots]. rewrite H0. reflexivity.
           ++ cbn [bind_slots]. rewrite H0. reflexivity.
        -- cbn [bind_slots]. rewrite (IH args m Hf). reflexivity.
    + (* Variadic, necessarily last *)
      apply andb_prop in Hf. destruct Hf as [Hf Hr]. apply andb_prop in Hf. destruct Hf as [Hl Hnil].
      apply is_nil_eq in Hnil. subst sig. destruct args; [|discriminate].
      unfold flat. cbn [flat_map arg_names]. rewrite app_nil_r. rewrite (trim_nonempty _ _ Hl).
      cbn [bind_slots]. rewrite Hl. reflexivity.
Qed.

(* DESIGN's hypothesis (optionals form a suffix of the non-variadic slots, one variadic at most, last) is a special
   case: such signatures only have fitting patterns whose variadic is last, which is all [fitsb] asks. *)
Corollary slots_roundtrip_wellshaped : forall sig args m,
  wellshaped sig = true -> fitsb sig args = true -> bind_slots sig (emit m args) = Some args.
Proof. intros sig args m _. apply slots_roundtrip. Qed.

(* what the binding excludes: a pattern that fits is the ONLY pattern its emission binds to *)
Corollary slots_injective : forall sig a1 a2 m1 m2,
  fitsb sig a1 = true -> fitsb sig a2 = true -> emit m1 a1 = emit m2 a2 -> a1 = a2.
Proof.
  intros sig a1 a2 m1 m2 H1 H2 E. pose proof (slots_roundtrip sig a1 m1 H1) as R1. pose proof (slots_roundtrip sig a2 m2 H2) as R2.
  rewrite E in R1. congruence.
Qed.

Example roundtrip_example :
  let sig := [Single; Optional; Optional; Variadic] in
  let args := [ArgS "x"; ArgO None; ArgO (Some "z"); ArgV ["v0"; "v1"]] in
  fitsb sig args = true /\ emit 1 args = ["x"; ""; "z"; "v0"; "v1"]
  /\ emit 1 [ArgS "x"; ArgO None; ArgO None; ArgV []] = ["x"]
  /\ emit 2 [ArgO None; ArgO None; ArgV []] = [""; ""]
  /\ bind_slots sig ["x"] = Some [ArgS "x"; ArgO None; ArgO None; ArgV []]
  /\ bind_slots [Single; Optional] [""; "y"] = None.
Proof. repeat split. Qed.

(* ------------------------------------------------------------------------------------------------ attrs_forwarded *)

(* the emitted attribute list is exactly the set ones, under their field names *)
Theorem attrs_forwarded : forall names f n v,
  In (n, v) (emit_attrs names f) <-> In n names /\ f n = Some v.
Proof.
  intros names f n v. unfold emit_attrs. rewrite in_flat_map. split.
  - intros [k [Hk Hin]]. destruct (f k) as [w|] eqn:E; [|contradiction]. destruct Hin as [Heq|[]].
    inversion Heq; subst. split; [exact Hk|exact E].
  - intros [Hn Hf]. exists n. split; [exact Hn|]. rewrite Hf. left. reflexivity.
Qed.

Lemma emit_attrs_app l1 l2 f : emit_attrs (l1 ++ l2) f = (emit_attrs l1 f ++ emit_attrs l2 f)%list.
Proof. unfold emit_attrs. apply flat_map_app. Qed.

(* each attribute is handled on its own: the emission is the concatenation of the one-field emissions *)
Theorem attrs_fieldwise : forall names f, emit_attrs names f = flat_map (fun n => emit_attrs [n] f) names.
Proof.
  intros names f. unfold emit_attrs. apply flat_map_ext. intros n. cbn [flat_map]. rewrite app_nil_r. reflexivity.
Qed.

Theorem attrs_ext : forall names f g, (forall n, In n names -> f n = g n) -> emit_attrs names f = emit_attrs names g.
Proof.
  induction names as [|n t IH]; intros f g H; [reflexivity|].
  unfold emit_attrs in *. cbn [flat_map]. rewrite (H n (or_introl eq_refl)). f_equal. apply IH. intros k Hk. apply H. right. exact Hk.
Qed.

Lemma assoc_restrict n g : assoc n (restrict n g) = assoc n g.
Proof.
  induction g as [|[k v] t IH]; [reflexivity|]. cbn [restrict filter fst assoc].
  destruct (String.eqb k n) eqn:E; cbn [assoc]; [rewrite E; reflexivity|exact IH].
Qed.

(* the emission for ANY set of given attributes is determined by the emissions of the singletons: what field [n]
   contributes depends only on whether [n] itself was given (and on its default), never on the other attributes.
   This is why observing each attribute absent / alone / all together decides every subset - provided the
   implementation is such a field-wise map, which the observations (and random subsets in the thorough tier) validate. *)
Theorem attrs_subsets_from_singletons : forall names d g,
  emit_attrs names (eff_of d g) = flat_map (fun n => emit_attrs [n] (eff_of d (restrict n g))) names.
Proof.
  intros names d g. rewrite attrs_fieldwise. apply flat_map_ext. intros n. apply attrs_ext.
  intros k [Hk|[]]. subst k. unfold eff_of. rewrite assoc_restrict. reflexivity.
Qed.

Example attrs_example :
  let d := fun n => if String.eqb n "axis" then Some (VInt 0) else None in
  emit_attrs ["axis"; "keepdims"; "mode"] (eff_of d [("mode", VStr "m")]) = [("axis", VInt 0); ("mode", VStr "m")]
  /\ emit_attrs ["axis"; "keepdims"; "mode"] (eff_of d [("axis", VInt 2); ("keepdims", VInt 1)])
     = [("axis", VInt 2); ("keepdims", VInt 1)].
Proof. split; reflexivity. Qed.

(* ------------------------------------------------------------------------------------------------ soundness of the checker *)

Lemma guard_exc (b : bool) (k : string) (x : list string) (f : string -> string) (P : Prop) :
  (b = true -> P) -> (forall k', In k' (guard b k) -> In (f k') x) -> Exc x (f k) P.
Proof.
  intros HP Hg. destruct b; [right; apply HP; reflexivity|left; apply Hg; left; reflexivity].
Qed.

Lemma sub_app {A} (l1 l2 : list A) (Q : A -> Prop) :
  (forall k, In k (l1 ++ l2)%list -> Q k) -> (forall k, In k l1 -> Q k) /\ (forall k, In k l2 -> Q k).
Proof. intros H. split; intros k Hk; apply H; apply in_or_app; [left|right]; exact Hk. Qed.

Lemma sub_flat_map {A B} (f : A -> list B) (l : list A) (Q : B -> Prop) :
  (forall k, In k (flat_map f l) -> Q k) -> forall a, In a l -> forall k, In k (f a) -> Q k.
Proof. intros H a Ha k Hk. apply H. apply in_flat_map. exists a. split; assumption. Qed.

Lemma attr_ok_sound e s a : attr_ok e s a = true -> AttrConforms e s a.
Proof.
  unfold attr_ok, AttrConforms. destruct (find_sattr (a_name a) (s_attrs s)) as [b|]; [|discriminate].
  intros H. apply andb_prop in H. destruct H as [H H4]. apply andb_prop in H. destruct H as [H H3].
  apply andb_prop in H. destruct H as [H1 H2].
  exists b. split; [reflexivity|]. split; [apply Z.eqb_eq; exact H1|]. split; [apply Z.eqb_eq; exact H2|].
  split; [apply Bool.eqb_prop; exact H3|].
  destruct (find_param (a_name a) (e_params e)) as [p|]; [|discriminate].
  apply andb_prop in H4. destruct H4 as [H5 H6]. exists p. split; [reflexivity|]. split; [exact H5|apply Bool.eqb_prop; exact H6].
Qed.

Lemma sattr_ok_sound e b : sattr_ok e b = true -> exists a, In a (e_attrs e) /\ a_name a = sa_name b.
Proof.
  unfold sattr_ok. intros H. apply existsb_exists in H. destruct H as [a [Ha He]]. exists a. split; [exact Ha|apply String.eqb_eq; exact He].
Qed.

Lemma default_ok_sound e b : default_ok e b = true -> DefaultConforms e b.
Proof.
  unfold default_ok, DefaultConforms. intros H p Hp. rewrite Hp in H.
  destruct (sa_default b) as [v|]; destruct (p_default p); try discriminate; try (left; reflexivity); try (right; reflexivity).
  apply aval_eqb_eq in H. subst. reflexivity.
Qed.

Lemma pos_params_ok_sound : forall ps fs, pos_params_ok ps fs = true -> Forall2 PosParamConforms ps fs.
Proof.
  induction ps as [|p ps IH]; destruct fs as [|f fs]; cbn [pos_params_ok]; intros H; try discriminate; constructor.
  - apply andb_prop in H. destruct H as [H _]. unfold pos_param_ok in H. apply andb_prop in H. destruct H as [H H3].
    apply andb_prop in H. destruct H as [H1 H2]. unfold PosParamConforms. split; [apply String.eqb_eq; exact H1|].
    split.
    + destruct (p_kind p) as [k|]; [|discriminate]. apply kind_eqb_eq in H2. subst. reflexivity.
    + destruct (f_kind f); destruct (p_default p); try discriminate; auto.
  - apply IH. apply andb_prop in H. destruct H as [_ H]. exact H.
Qed.

Lemma signature_ok_sound e s : signature_ok e s = true -> SignatureConforms e s.
Proof.
  unfold signature_ok, SignatureConforms. intros H. apply andb_prop in H. destruct H as [H H4]. apply andb_prop in H.
  destruct H as [H H3]. apply andb_prop in H. destruct H as [H1 H2].
  split; [apply pos_params_ok_sound; exact H1|]. split; [apply nodupb_NoDup; exact H2|]. split; [|exact H4].
  unfold extra_kw_ok in H3. destruct (extra_kw e) as [|p [|p' t]]; [left; reflexivity| |discriminate].
  right. exists p. split; [reflexivity|]. apply andb_prop in H3. destruct H3 as [H3 H7]. apply andb_prop in H3. destruct H3 as [H5 H6].
  split; [exact H5|]. split; [apply String.eqb_eq; exact H6|]. destruct (p_default p); try discriminate. reflexivity.
Qed.

Lemma obs_slots_sound sig m args names :
  fitsb sig args && nodupb String.eqb (filter nonempty (flat args)) && list_eqb String.eqb names (emit m args) = true ->
  ObsSlots sig m args names.
Proof.
  intros H. apply andb_prop in H. destruct H as [H H3]. apply andb_prop in H. destruct H as [H1 H2].
  apply (list_eqb_eq _ string_eqb_eq') in H3. unfold ObsSlots. split; [exact H1|]. split; [apply nodupb_NoDup; exact H2|].
  split; [exact H3|]. rewrite H3. apply slots_roundtrip. exact H1.
Qed.

Lemma obs_attr_ok_sound e s o : obs_attr_ok e s o = true -> ObsAttr e s o.
Proof.
  unfold obs_attr_ok, ObsAttr. intros H. apply andb_prop in H. destruct H as [H H4]. apply andb_prop in H. destruct H as [H H3].
  apply andb_prop in H. destruct H as [H1 H2].
  split; [apply (list_eqb_eq _ pair_eqb_eq); exact H1|]. split.
  - intros n v Hin. rewrite forallb_forall in H2. specialize (H2 _ Hin). unfold emitted_typed in H2. cbn [fst snd] in H2.
    destruct (find_sattr n (s_attrs s)) as [b|]; [|discriminate]. exists b. split; [reflexivity|apply Z.eqb_eq; exact H2].
  - split; [apply nodupb_NoDup; exact H3|].
    intros n v Hin. rewrite forallb_forall in H4. specialize (H4 _ Hin). cbn [fst] in H4. apply existsb_exists in H4.
    destruct H4 as [p [Hp Hq]]. apply andb_prop in Hq. destruct Hq as [Hk Hn]. exists p. split; [exact Hp|]. split; [exact Hk|apply String.eqb_eq; exact Hn].
Qed.

Lemma obs_fail_sound x e s o :
  (forall k, In k (obs_fail e s o) -> In (key e k) x) -> ObsConforms x e s o.
Proof.
  unfold obs_fail, ObsConforms. intros H. destruct (nonempty (o_raised o)) eqn:En.
  - left. split.
    + intros E. rewrite E in En. discriminate.
    + apply H. left. reflexivity.
  - right. unfold nonempty in En. apply negb_false_iff in En. apply String.eqb_eq in En. split; [exact En|].
    apply sub_app in H. destruct H as [H1 H]. apply sub_app in H. destruct H as [H2 H]. apply sub_app in H. destruct H as [H3 H4].
    split; [|split; [|split]].
    + apply (guard_exc (obs_ident_ok s o) _ x (key e)); [intros Hb|exact H1]. unfold obs_ident_ok in Hb. apply andb_prop in Hb. destruct Hb as [Hb Hc]. apply andb_prop in Hb. destruct Hb as [Ha Hb].
      unfold ObsIdent. split; [apply String.eqb_eq; exact Ha|]. split; [apply String.eqb_eq; exact Hb|exact Hc].
    + apply (guard_exc _ _ _ (key e) _ (obs_slots_sound _ _ _ _) H2).
    + apply (guard_exc _ _ _ (key e) _ (obs_slots_sound _ _ _ _) H3).
    + apply (guard_exc _ _ _ (key e) _ (obs_attr_ok_sound e s o) H4).
Qed.

Lemma opt_nat_eqb_eq a b : opt_nat_eqb a b = true -> a = b.
Proof. destruct a, b; simpl; intros H; try discriminate; [apply Nat.eqb_eq in H; subst|]; reflexivity. Qed.

Lemma coverage_ok_sound e s : coverage_ok e s = true -> Coverage e s.
Proof.
  unfold coverage_ok, Coverage. intros H. apply andb_prop in H. destruct H as [H H5]. apply andb_prop in H. destruct H as [H H4].
  apply andb_prop in H. destruct H as [H H3]. apply andb_prop in H. destruct H as [H1 H2].
  split; [|split; [|split; [|split]]].
  - intros m Hm. rewrite forallb_forall in H1. specialize (H1 _ Hm). apply existsb_exists in H1. destruct H1 as [o [Ho He]].
    exists o. split; [exact Ho|apply (list_eqb_eq _ bool_eqb_eq'); exact He].
  - intros Hv n Hn. rewrite Hv in H2. cbn [negb orb] in H2. rewrite forallb_forall in H2.
    assert (In n [0; 1; 2; 3]%nat) as Hin by (cbn [In]; lia).
    specialize (H2 _ Hin). apply existsb_exists in H2. destruct H2 as [o [Ho He]]. exists o. split; [exact Ho|apply opt_nat_eqb_eq; exact He].
  - intros a Ha. rewrite forallb_forall in H3. specialize (H3 _ Ha). apply existsb_exists in H3. destruct H3 as [o [Ho He]].
    exists o. split; [exact Ho|apply (list_eqb_eq _ string_eqb_eq'); exact He].
  - apply existsb_exists in H4. destruct H4 as [o [Ho He]]. exists o. split; [exact Ho|apply is_nil_eq; exact He].
  - apply existsb_exists in H5. destruct H5 as [o [Ho He]]. exists o. split; [exact Ho|apply (list_eqb_eq _ string_eqb_eq'); exact He].
Qed.

Lemma all_failures_sound x e s :
  (forall k, In k (all_failures e s) -> In (key e k) x) -> ConformsS x e s.
Proof.
  unfold all_failures, ConformsS. intros H.
  apply sub_app in H. destruct H as [G1 H]. apply sub_app in H. destruct H as [G2 H]. apply sub_app in H. destruct H as [G3 H].
  apply sub_app in H. destruct H as [G4 H]. apply sub_app in H. destruct H as [G4' H]. apply sub_app in H. destruct H as [G5 H]. apply sub_app in H. destruct H as [G6 H].
  apply sub_app in H. destruct H as [G7 H]. apply sub_app in H. destruct H as [G8 H]. apply sub_app in H. destruct H as [G9 H].
  apply sub_app in H. destruct H as [G10 H]. apply sub_app in H. destruct H as [G11 G12].
  repeat match goal with |- _ /\ _ => split end.
  - apply (guard_exc (name_ok e s) _ x (key e)); [intros Hb|exact G1]. unfold name_ok in Hb. apply andb_prop in Hb. destruct Hb as [Ha Hb]. split; apply String.eqb_eq; assumption.
  - apply (guard_exc (domain_ok e s) _ x (key e)); [intros Hb|exact G2]. apply String.eqb_eq. exact Hb.
  - apply (guard_exc (since_ok e s) _ x (key e)); [intros Hb|exact G3]. apply Z.eqb_eq. exact Hb.
  - apply (guard_exc (classified_ok e s) _ x (key e)); [intros Hb|exact G4]. unfold classified_ok in Hb. apply andb_prop in Hb. destruct Hb as [Ha Hb]. split; apply is_nil_eq; assumption.
  - apply (guard_exc (live_ok e s) _ x (key e)); [intros Hb|exact G4']. unfold live_ok in Hb. apply negb_true_iff in Hb. exact Hb.
  - apply (guard_exc (inputs_ok e s) _ x (key e)); [intros Hb|exact G5]. apply (list_eqb_eq _ field_eqb_eq). exact Hb.
  - apply (guard_exc (outputs_ok e s) _ x (key e)); [intros Hb|exact G6]. apply (list_eqb_eq _ field_eqb_eq). exact Hb.
  - intros a Ha. apply (guard_exc _ _ _ (key e) _ (attr_ok_sound e s a)). apply (sub_flat_map _ _ _ G7 a Ha).
  - intros b Hb. apply (guard_exc _ _ _ (key e) _ (sattr_ok_sound e b)). apply (sub_flat_map _ _ _ G8 b Hb).
  - intros b Hb. apply (guard_exc _ _ _ (key e) _ (default_ok_sound e b)). apply (sub_flat_map _ _ _ G9 b Hb).
  - apply (guard_exc _ _ _ (key e) _ (signature_ok_sound e s) G10).
  - intros o Ho. apply obs_fail_sound. apply (sub_flat_map _ _ _ G11 o Ho).
  - apply (guard_exc _ _ _ (key e) _ (coverage_ok_sound e s) G12).
Qed.

Lemma find_schema_sound n l s : find_schema n l = Some s -> s_name s = n /\ In s l.
Proof.
  unfold find_schema. intros H. pose proof (find_some _ _ H) as [Hin He]. apply String.eqb_eq in He. split; assumption.
Qed.

Theorem conforms_in_sound x schemas e : conforms_in x schemas e = true -> Conforms x schemas e.
Proof.
  unfold conforms_in, Conforms, entry_failures. intros H. rewrite forallb_forall in H.
  destruct (find_schema (e_key e) schemas) as [s|] eqn:Ef.
  - destruct (find_schema_sound _ _ _ Ef) as [Hn Hin]. split; [exact Hn|]. split; [exact Hin|].
    apply all_failures_sound. intros k Hk. apply mem_In. apply H. apply in_map. exact Hk.
  - apply mem_In. apply H. left. reflexivity.
Qed.

(* THE lifted statement: whatever the tables are, if the boolean check computes to true then every shipped entry
   satisfies the declarative property (with exactly the listed exceptions). *)
Theorem check_all_sound : forall excused table schemas,
  check_all excused table schemas = true -> forall e, In e table -> Conforms excused schemas e.
Proof.
  intros x table schemas H e He. unfold check_all in H. apply andb_prop in H. destruct H as [H _].
  rewrite forallb_forall in H. apply conforms_in_sound. apply H. exact He.
Qed.

(* completeness: every non-deprecated schema in force at the module's version has a shipped entry *)
Theorem check_all_complete : forall excused table schemas,
  check_all excused table schemas = true ->
  forall s, In s schemas -> s_deprecated s = false ->
  In (s_name s ++ "/completeness") excused \/ exists e, In e table /\ e_key e = s_name s.
Proof.
  intros x table schemas H s Hs Hd. unfold check_all in H. apply andb_prop in H. destruct H as [_ H].
  rewrite forallb_forall in H. unfold complete_failures in H.
  destruct (existsb (fun e => String.eqb (e_key e) (s_name s)) table) eqn:E.
  - right. apply existsb_exists in E. destruct E as [e [He Hk]]. exists e. split; [exact He|apply String.eqb_eq; exact Hk].
  - left. apply mem_In. apply H. apply in_or_app. left. apply in_flat_map. exists s. split; [exact Hs|].
    rewrite Hd, E. left. reflexivity.
Qed.

Theorem check_all_nodup : forall table schemas,
  check_all [] table schemas = true -> NoDup (map e_key table) /\ NoDup (map s_name schemas).
Proof.
  intros table schemas H. unfold check_all in H. apply andb_prop in H. destruct H as [_ H]. rewrite forallb_forall in H.
  unfold complete_failures in H. split; apply nodupb_NoDup.
  - destruct (nodupb String.eqb (map e_key table)) eqn:E; [reflexivity|]. exfalso.
    assert (mem "module/duplicate-entries" [] = true) as M by (apply H; apply in_or_app; right; apply in_or_app; left; left; reflexivity).
    discriminate.
  - destruct (nodupb String.eqb (map s_name schemas)) eqn:E; [reflexivity|]. exfalso.
    assert (mem "module/duplicate-schemas" [] = true) as M by (apply H; apply in_or_app; right; apply in_or_app; right; left; reflexivity).
    discriminate.
Qed.

(* the checker is not vacuous: it accepts a small conforming entry, and rejects it as soon as one fact is altered *)
Definition ex_schema : schema :=
  mksc "Op" "" 13%Z false [mkf "X" Single; mkf "B" Optional] [mkf "Y" Single] 1 1
       [mks "alpha" 1%Z false (Some (VFloat "3f800000")); mks "axes" 7%Z false None] [].
Definition ex_obs (lbl : string) (b : option string) (given : list (string * aval)) (ins : list string)
                  (attrs : list (string * aval)) : obs :=
  mko lbl "" true [ArgS "i0"; ArgO b] given [ArgS "o0"] "Op" "" ins ["o0"] attrs.
Definition ex_entry : shipped :=
  mke "Op" "Op" "" 13%Z [mkf "X" Single; mkf "B" Optional] [mkf "Y" Single]
      [mka "alpha" "AttrFloat32" 1%Z false; mka "axes" "AttrInt64s" 7%Z true]
      [mkp "X" false (Some Single) "Var" NoDefault; mkp "B" false (Some Optional) "opt OptVar" DefNone;
       mkp "alpha" true None "float" (DefVal (VFloat "3f800000")); mkp "axes" true None "opt ints" DefNone] RetVar
      [ex_obs "defaults" None [] ["i0"] [("alpha", VFloat "3f800000")];
       ex_obs "inputs{B}" (Some "i1") [] ["i0"; "i1"] [("alpha", VFloat "3f800000")];
       ex_obs "attr:alpha" None [("alpha", VFloat "40000000")] ["i0"] [("alpha", VFloat "40000000")];
       ex_obs "attr:axes" None [("axes", VInts [1%Z])] ["i0"] [("alpha", VFloat "3f800000"); ("axes", VInts [1%Z])];
       ex_obs "all" (Some "i1") [("alpha", VFloat "40000000"); ("axes", VInts [1%Z])] ["i0"; "i1"]
              [("alpha", VFloat "40000000"); ("axes", VInts [1%Z])]] [].
Example checker_accepts : check_all [] [ex_entry] [ex_schema] = true.
Proof. vm_compute. reflexivity. Qed.
Example checker_rejects_swapped_inputs :
  failing_keys [mke "Op" "Op" "" 13%Z [mkf "X" Single; mkf "B" Optional] [mkf "Y" Single] [] [] RetVar
                    [mko "swapped" "" true [ArgS "i0"; ArgO (Some "i1")] [] [ArgS "o0"] "Op" "" ["i1"; "i0"] ["o0"] []] []]
               [ex_schema]
  = ["Op/attributes/alpha"; "Op/attributes/axes"; "Op/signature"; "Op/emission/inputs"; "Op/coverage"].
Proof. vm_compute. reflexivity. Qed.
