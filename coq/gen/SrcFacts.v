(* SrcFacts.v — the functions GENERATED from spox's source text (SrcGen.v, regenerated from $VERIF_REPO on every run of C13) are the
   hand-written model's, for ALL arguments.  Compiled on every run after SrcGen.v: a change of the source text of _broadcast_elem,
   Natural.__le__, Shape.__le__ or _subtype changes SrcGen.v, and these theorems are re-checked against it. *)
From Coq Require Import List String ZArith NArith Bool.
From Spox Require Import Shape Types SrcPrims.
From Gen Require Import SrcGen.
Import ListNotations.

Lemma sdim_eqb_refl x : sdim_eqb x x = true.
Proof. destruct x; cbn; [apply Z.eqb_refl|apply String.eqb_refl|reflexivity]. Qed.

(* _broadcast_elem on canonical simple elements (what Shape.to_simple produces: a label is never the empty string) *)
Theorem src_broadcast_elem_is_bce : forall x y, canon_sdim x = true -> canon_sdim y = true ->
  src_broadcast_elem x y = option_map simple_of_dim (bce (dim_of_simple x) (dim_of_simple y)).
Proof.
  intros x y Hx Hy. unfold src_broadcast_elem, bce.
  destruct x as [a|s|], y as [b|t|]; cbn in *;
    repeat match goal with
           | |- context [Z.eqb ?u ?v] => destruct (Z.eqb_spec u v); subst; cbn
           | |- context [String.eqb ?u ?v] => destruct (String.eqb_spec u v); subst; cbn
           | H : negb true = true |- _ => discriminate H
           | H : ?a <> ?a |- _ => contradiction
           end; try reflexivity; try congruence.
Qed.

Theorem src_natural_le_is_dim_le : forall x y, src_natural_le x y = dim_le x y.
Proof. intros [a|s|] [b|t|]; reflexivity. Qed.

Lemma all2_ext {A B} (f g : A -> B -> bool) : (forall a b, f a b = g a b) -> forall l l', all2 f l l' = all2 g l l'.
Proof. intros H. induction l as [|a l IH]; intros [|b l']; cbn; try reflexivity. now rewrite H, IH. Qed.

Theorem src_shape_le_is_shape_le : forall a b, src_shape_le a b = shape_le a b.
Proof.
  intros [x|] [y|]; cbn; try reflexivity. unfold shape_rank. cbn.
  destruct (Nat.eqb (List.length x) (List.length y)); cbn; [|reflexivity]. apply all2_ext. apply src_natural_le_is_dim_le.
Qed.

Theorem src_subtype_is_subtype : forall a b, src_subtype a b = subtype a b.
Proof.
  induction a as [|e s|x IH|x IH]; intros b.
  - destruct b; reflexivity.
  - destruct b as [|e' s'|y|y]; cbn; try reflexivity.
    + rewrite src_shape_le_is_shape_le. destruct (N.eqb e e' && shape_eqb s s'); reflexivity.
  - destruct b as [|e' s'|y|y]; cbn; try reflexivity. rewrite IH. destruct (ty_eqb x y); reflexivity.
  - destruct b as [|e' s'|y|y]; cbn; try reflexivity. rewrite IH. destruct (ty_eqb x y); reflexivity.
Qed.

Print Assumptions src_broadcast_elem_is_bce.
Print Assumptions src_natural_le_is_dim_le.
Print Assumptions src_shape_le_is_shape_le.
Print Assumptions src_subtype_is_subtype.
