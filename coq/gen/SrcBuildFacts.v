(* SrcBuildFacts.v — the functions GENERATED from the source text of Builder.ScopeTree (SrcBuildGen.v, regenerated from $VERIF_REPO on
   every run of C04) are the model's [parent] and [lca]; hence LcaFacts' correctness theorem speaks about the walk AS WRITTEN in
   src/spox/_build.py: the node it returns is the lowest common ancestor. *)
From Coq Require Import List Arith Bool Lia.
From Spox Require Import Base IR Build LcaFacts.
From Gen Require Import SrcBuildGen.
Import ListNotations.

Theorem src_parent_is_parent : forall own sc g, src_parent own sc g = parent own sc g.
Proof. intros own sc g. unfold src_parent, parent. destruct (lookup Nat.eqb g own) as [o|]; [|reflexivity]. destruct (lookup nref_eqb o sc); reflexivity. Qed.

Theorem src_lca_loop_is_lca : forall fuel own sc a b va vb, src_lca_loop fuel own sc a b va vb = lca fuel own sc a b va vb.
Proof.
  induction fuel as [|f IH]; intros own sc a b va vb; cbn [src_lca_loop lca]; [reflexivity|].
  destruct (Base.mem Nat.eqb a vb); cbn [negb]; [reflexivity|]. rewrite src_parent_is_parent. apply IH.
Qed.

Theorem src_lca_is_lca : forall fuel own sc a b, src_lca fuel own sc a b = lca fuel own sc a b [a] [b].
Proof. intros. unfold src_lca. apply src_lca_loop_is_lca. Qed.

(* the walk as written in the source returns the lowest common ancestor *)
Theorem src_lca_correct : forall own sc a b fuel i j, let par := src_parent own sc in
  up par i a = up par j b -> 2 * Nat.max i j + 1 < fuel ->
  let r := src_lca fuel own sc a b in
  (exists i' j', r = up par i' a /\ r = up par j' b) /\ (forall i' j', up par i' a = up par j' b -> exists m, up par i' a = up par m r).
Proof.
  intros own sc a b fuel i j par E Hf. cbv zeta. rewrite src_lca_is_lca.
  assert (Hp : forall k x, up par k x = up (parent own sc) k x).
  { induction k as [|k IHk]; intros x; [reflexivity|]. cbn [up]. unfold par at 2. rewrite src_parent_is_parent. apply IHk. }
  rewrite !Hp in E. destruct (lca_correct own sc a b fuel i j E Hf) as [[i' [j' [H1 H2]]] H3].
  split; [exists i', j'; rewrite !Hp; auto|]. intros i2 j2 E2. rewrite !Hp in E2. destruct (H3 i2 j2 E2) as [m Hm]. exists m. rewrite !Hp. exact Hm.
Qed.

Print Assumptions src_parent_is_parent.
Print Assumptions src_lca_loop_is_lca.
Print Assumptions src_lca_is_lca.
Print Assumptions src_lca_correct.
