(* Settings.v — model of spox's three scoped settings (src/spox/_future.py):
     k = 0 : Var._operator_dispatcher          (operator_overloading)
     k = 1 : _value_prop._VALUE_PROP_BACKEND   (value_prop_backend / set_value_prop_backend)
     k = 2 : _node._TYPE_WARNING_LEVEL         (type_warning_level / set_type_warning_level)
   Values are abstract naturals (the harness maps dispatcher configurations / enum members to numbers).
   A program is a tree of with-blocks (a decorated call is the same block around the call), raising statements,
   try/except handlers, the two non-scoped setters and observation points.  [exec] is the model of the code WITH
   try/finally in the three context managers; [exec_nofinally] is the model of generator-based managers that do not
   protect the restore (the pinned tree before the fix: commit, see known_findings.json). No proofs in this file. *)
From Coq Require Import List Arith Bool.
Import ListNotations.

Definition settings := (nat * nat * nat)%type.
Definition get (s : settings) (k : nat) : nat :=
  let '(a, b, c) := s in match k with 0 => a | 1 => b | _ => c end.
Definition set (s : settings) (k v : nat) : settings :=
  let '(a, b, c) := s in match k with 0 => (v, b, c) | 1 => (a, v, c) | _ => (a, b, v) end.

Record st := mkst { cur : settings; log : list settings }.     (* log: newest first *)
Definition upd (s : st) (k v : nat) : st := mkst (set (cur s) k v) (log s).

Inductive prog :=
| Block (k v : nat) (body : list prog)     (* with <setting k>(v): body   — or a call of a function decorated with it *)
| Raise (e : nat)                          (* any exception (class number e), incl. spox's own eager type errors   *)
| Try (body : list prog)                   (* try: body  except Exception: pass                                   *)
| SetG (k v : nat)                         (* the non-scoped setters set_value_prop_backend / set_type_warning_level *)
| Obs                                      (* observation point: record the three settings                          *)
| Nop.
Inductive outcome := Normal | Raised (e : nat).

Section Seq.
  Variable exec : st -> prog -> st * outcome.
  Fixpoint run_seq (s : st) (l : list prog) : st * outcome :=
    match l with
    | [] => (s, Normal)
    | q :: t => match exec s q with (s', Normal) => run_seq s' t | r => r end
    end.
End Seq.

(* the managers with try/finally *)
Fixpoint exec (s : st) (p : prog) : st * outcome :=
  match p with
  | Nop => (s, Normal)
  | Obs => (mkst (cur s) (cur s :: log s), Normal)
  | Raise e => (s, Raised e)
  | SetG k v => (upd s k v, Normal)
  | Try body => let '(s', _) := run_seq exec s body in (s', Normal)
  | Block k v body =>
      let prev := get (cur s) k in
      let '(s', o) := run_seq exec (upd s k v) body in
      (upd s' k prev, o)                         (* finally: restore *)
  end.

(* the managers as plain generators: the code after [yield] is skipped when the body raises *)
Fixpoint exec_nofinally (s : st) (p : prog) : st * outcome :=
  match p with
  | Nop => (s, Normal)
  | Obs => (mkst (cur s) (cur s :: log s), Normal)
  | Raise e => (s, Raised e)
  | SetG k v => (upd s k v, Normal)
  | Try body => let '(s', _) := run_seq exec_nofinally s body in (s', Normal)
  | Block k v body =>
      let prev := get (cur s) k in
      match run_seq exec_nofinally (upd s k v) body with
      | (s', Normal) => (upd s' k prev, Normal)
      | r => r
      end
  end.

Definition run_prog (s0 : settings) (l : list prog) : settings * outcome * list settings :=
  let '(s, o) := run_seq exec (mkst s0 []) l in (cur s, o, rev (log s)).
Definition run_prog_nofinally (s0 : settings) (l : list prog) : settings * outcome * list settings :=
  let '(s, o) := run_seq exec_nofinally (mkst s0 []) l in (cur s, o, rev (log s)).

(* programs that use only the scoped forms (no global setter) *)
Fixpoint scoped (p : prog) : bool :=
  match p with
  | Block _ _ body => forallb scoped body
  | Try body => forallb scoped body
  | SetG _ _ => false
  | _ => true
  end.
