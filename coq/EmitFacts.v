(* EmitFacts.v — what compile emits into a graph, BY CONSTRUCTION (no validator involved):
   the nodes of the GraphProto of scope g are exactly the non-argument nodes that the scope resolution assigned to g
   (own_of g), each once, in the builder's topological order.  Together with DfsFacts.postorder_spec (the topological list has
   no duplicates and lists dependencies first) this is "emitted exactly once, in the scope it was assigned to". (C04) *)
From Coq Require Import List String NArith Arith Bool.
From Spox Require Import Base IR Show Build Sem Plan Named Validate BuildFacts DfsFacts ScopeFacts.
Import ListNotations.
Open Scope list_scope.

Definition src_of (n : mnode) : nref :=
  match n with MNode _ _ _ u _ _ _ => u | MInit _ u => u | MIntro _ u _ _ => u | MInline _ u _ _ _ => u end.

Section Emit.
Variables (p : prog) (un : names) (args_of : nat -> list var) (own_of : nat -> list nref)
          (fbuild : nat -> nat -> res (list mnode * req * list fdesc)).
Notation compile := (compile p un args_of own_of fbuild).

Definition emitted (u : nref) : list nref := if is_arg p u then [] else [u].

Lemma foldM_rel {A S} (f : S -> A -> res S) (m : S -> list nref) (e : A -> list nref) :
  (forall s a s', f s a = inl s' -> m s' = m s ++ e a) ->
  forall l s s', foldM f l s = inl s' -> m s' = m s ++ flat_map e l.
Proof. intros Hf. induction l as [|a t IH]; intros s s' H; cbn [foldM] in H.
  - inversion H; subst. cbn. now rewrite app_nil_r.
  - apply bind_ok in H. destruct H as [s1 [H1 H2]]. apply IH in H2. apply Hf in H1. rewrite H2, H1. cbn. now rewrite app_assoc. Qed.

Lemma flat_map_emitted l : flat_map emitted l = filter (fun u => negb (is_arg p u)) l.
Proof. induction l as [|u t IH]; cbn; [reflexivity|]. unfold emitted at 1. destruct (is_arg p u); cbn; now rewrite IH. Qed.

Theorem compile_top_srcs : forall fuel s g prefix is_main ai ms ro s' rq fs,
  compile fuel s g prefix is_main = inl (MGraph ai ms ro, s', rq, fs) ->
  map src_of ms = filter (fun u => negb (is_arg p u)) (own_of g).
Proof.
  intros [|f] s g prefix is_main ai ms ro s' rq fs H; [discriminate H|].
  cbn [Build.compile] in H.
  apply bind_ok in H. destruct H as [s1 [_ H]].
  apply bind_ok in H. destruct H as [[[[[ms0 s3] rq3] fs0] sfs] [H2 H]].
  destruct (Nat.eqb (List.length (gres (getg p g))) 0); [discriminate H|].
  apply bind_ok in H. destruct H as [ai0 [_ H]]. apply bind_ok in H. destruct H as [ro0 [_ H]]. inversion H; subst.
  rewrite <- flat_map_emitted.
  apply (foldM_rel _ (fun acc : list mnode * scope * req * list fdesc * list fdesc => map src_of (fst (fst (fst (fst acc))))) emitted) in H2;
    [exact H2|].
  clear. intros [[[[ms s] rq] fs] sfs] u [[[[ms' s'] rq'] fs'] sfs'] Hu. cbn [fst]. unfold emitted. unfold compile_step in Hu.
  destruct (is_arg p u) eqn:Ea; [inversion Hu; subst; now rewrite app_nil_r|].
  destruct u as [n|g'].
  - apply bind_ok in Hu. destruct Hu as [[rqm fsm] [_ Hu]].
    apply bind_ok in Hu. destruct Hu as [s2 [_ Hu]].
    destruct (kind (getn p n)) as [| | |om imp|body fi fo fa] eqn:Hk.
    + cbn in Ea. rewrite Hk in Ea. discriminate.
    + apply bind_ok in Hu. destruct Hu as [o [_ Hu]]. inversion Hu; subst. now rewrite map_app.
    + apply bind_ok in Hu. destruct Hu as [nm [_ Hu]]. apply bind_ok in Hu. destruct Hu as [inn [_ Hu]].
      apply bind_ok in Hu. destruct Hu as [outn [_ Hu]]. apply bind_ok in Hu. destruct Hu as [[[[al s3] rq3] sfs3] [_ Hu]].
      inversion Hu; subst. now rewrite map_app.
    + apply bind_ok in Hu. destruct Hu as [nm [_ Hu]]. destruct om as [gi gin body go_ vi].
      apply bind_ok in Hu. destruct Hu as [[ri sri] [_ Hu]]. apply bind_ok in Hu. destruct Hu as [[rb srb] [_ Hu]].
      apply bind_ok in Hu. destruct Hu as [[ro sro] [_ Hu]]. apply bind_ok in Hu. destruct Hu as [[rvi srvi] [_ Hu]].
      apply bind_ok in Hu. destruct Hu as [ids [_ Hu]]. apply bind_ok in Hu. destruct Hu as [inn [_ Hu]].
      apply bind_ok in Hu. destruct Hu as [outn [_ Hu]]. inversion Hu; subst. now rewrite map_app.
    + apply bind_ok in Hu. destruct Hu as [nm [_ Hu]]. apply bind_ok in Hu. destruct Hu as [inn [_ Hu]].
      apply bind_ok in Hu. destruct Hu as [outn [_ Hu]]. apply bind_ok in Hu. destruct Hu as [[[[al s3] rq3] sfs3] [_ Hu]].
      inversion Hu; subst. now rewrite map_app.
  - apply bind_ok in Hu. destruct Hu as [s2 [_ Hu]].
    apply bind_ok in Hu. destruct Hu as [nm [_ Hu]]. apply bind_ok in Hu. destruct Hu as [i [_ Hu]].
    apply bind_ok in Hu. destruct Hu as [o [_ Hu]]. inversion Hu; subst. now rewrite map_app.
Qed.

(* ---- the whole tree: which source nodes end up where, as a function of the ownership map and the subgraph attributes only ---- *)
Definition attr_spec {T} (rec : nat -> list T) (ka : String.string * attrv) : list T :=
  match snd ka with AGraph sub => rec sub | AVal _ => [] end.
Definition node_subs {T} (rec : nat -> list T) (u : nref) : list T :=
  match u with
  | NReal n => match kind (getn p n) with
               | KOp | KFunc _ _ _ _ => flat_map (attr_spec rec) (attrs (getn p n))
               | _ => [] end
  | NIntro _ => [] end.
Definition node_spec (rec : nat -> list nref) (u : nref) : list nref :=
  if is_arg p u then [] else u :: node_subs rec u.
Fixpoint spec_srcs (fuel : nat) (g : nat) : list nref :=
  match fuel with O => [] | S f => flat_map (node_spec (spec_srcs f)) (own_of g) end.
(* the graphs compiled on the way (the tree of GraphProtos), same recursion *)
Fixpoint spec_graphs (fuel : nat) (g : nat) : list nat :=
  match fuel with O => [] | S f =>
    g :: flat_map (fun u => if is_arg p u then [] else node_subs (spec_graphs f) u) (own_of g) end.

Definition al_srcs (al : list (String.string * option mgraph)) : list nref :=
  flat_map (fun ka => match snd ka with Some g => srcs_graph g | None => [] end) al.

Lemma al_srcs_app a b : al_srcs (a ++ b) = al_srcs a ++ al_srcs b.
Proof. unfold al_srcs. apply flat_map_app. Qed.

Lemma srcs_body_app a b : flat_map srcs_node (a ++ b) = flat_map srcs_node a ++ flat_map srcs_node b.
Proof. apply flat_map_app. Qed.

Theorem compile_srcs : forall fuel s g prefix is_main mg s' rq fs,
  compile fuel s g prefix is_main = inl (mg, s', rq, fs) -> srcs_graph mg = spec_srcs fuel g.
Proof.
  induction fuel as [|f IH]; intros s g prefix is_main mg s' rq fs H; [discriminate H|].
  cbn [Build.compile] in H.
  apply bind_ok in H. destruct H as [s1 [_ H]].
  apply bind_ok in H. destruct H as [[[[[ms0 s3] rq3] fs0] sfs] [H2 H]].
  destruct (Nat.eqb (List.length (gres (getg p g))) 0); [discriminate H|].
  apply bind_ok in H. destruct H as [ai0 [_ H]]. apply bind_ok in H. destruct H as [ro0 [_ H]]. inversion H; subst.
  cbn [srcs_graph spec_srcs].
  apply (foldM_rel _ (fun acc : list mnode * scope * req * list fdesc * list fdesc => flat_map srcs_node (fst (fst (fst (fst acc)))))
                   (node_spec (spec_srcs f))) in H2; [exact H2|].
  clear - IH. intros [[[[ms s] rq] fs] sfs] u [[[[ms' s'] rq'] fs'] sfs'] Hu. cbn [fst]. unfold node_spec, node_subs. unfold compile_step in Hu.
  destruct (is_arg p u) eqn:Ea; [inversion Hu; subst; now rewrite app_nil_r|].
  assert (Hsg : forall (l : list (String.string * attrv)) a0 al sz rqz fz prefix0,
            foldM (fun (acc : list (String.string * option mgraph) * scope * req * list fdesc) (ka : String.string * attrv) =>
                     let '(l, s, rq, fs) := acc in
                     match snd ka with
                     | AVal _ => ret ((l ++ [(fst ka, None)])%list, s, rq, fs)
                     | AGraph sub =>
                       do r <- compile f s sub (prefix0 ++ "_" ++ fst ka ++ "__")%string (Some false) ;;
                       let '(mg, s', rq', fs') := r in
                       ret ((l ++ [(fst ka, Some mg)])%list, s', union req_eqb rq rq', (fs ++ fs')%list)
                     end) l a0 = inl (al, sz, rqz, fz) ->
            al_srcs al = al_srcs (fst (fst (fst a0))) ++
                         flat_map (attr_spec (spec_srcs f)) l).
  { intros l a0 al sz rqz fz prefix0 Hf.
    apply (foldM_rel _ (fun acc : list (String.string * option mgraph) * scope * req * list fdesc => al_srcs (fst (fst (fst acc))))
                     (attr_spec (spec_srcs f))) in Hf; [exact Hf|].
    intros [[[l0 sa] rqa] fsa] ka [[[l' sb] rqb] fsb] Hka. cbn [fst]. unfold attr_spec.
    destruct (snd ka) as [sub|x].
    - apply bind_ok in Hka. destruct Hka as [[[[mg0 s0] rq0] fs0] [Hc Hka]]. inversion Hka; subst.
      rewrite al_srcs_app. unfold al_srcs at 2. cbn. rewrite app_nil_r. f_equal. eapply IH; exact Hc.
    - inversion Hka; subst. rewrite al_srcs_app. unfold al_srcs at 2. cbn. reflexivity. }
  destruct u as [n|g'].
  - apply bind_ok in Hu. destruct Hu as [[rqm fsm] [_ Hu]].
    apply bind_ok in Hu. destruct Hu as [s2 [_ Hu]].
    destruct (kind (getn p n)) as [| | |om imp|body fi fo fa] eqn:Hk.
    + cbn in Ea. rewrite Hk in Ea. discriminate.
    + apply bind_ok in Hu. destruct Hu as [o [_ Hu]]. inversion Hu; subst. now rewrite srcs_body_app.
    + apply bind_ok in Hu. destruct Hu as [nm [_ Hu]]. apply bind_ok in Hu. destruct Hu as [inn [_ Hu]].
      apply bind_ok in Hu. destruct Hu as [outn [_ Hu]]. apply bind_ok in Hu. destruct Hu as [[[[al s3] rq3] sfs3] [Hal Hu]].
      inversion Hu; subst. rewrite srcs_body_app. cbn [flat_map srcs_node]. rewrite app_nil_r. apply Hsg in Hal. cbn [fst] in Hal.
      fold (al_srcs al). rewrite Hal. reflexivity.
    + apply bind_ok in Hu. destruct Hu as [nm [_ Hu]]. destruct om as [gi gin body go_ vi].
      apply bind_ok in Hu. destruct Hu as [[ri sri] [_ Hu]]. apply bind_ok in Hu. destruct Hu as [[rb srb] [_ Hu]].
      apply bind_ok in Hu. destruct Hu as [[ro sro] [_ Hu]]. apply bind_ok in Hu. destruct Hu as [[rvi srvi] [_ Hu]].
      apply bind_ok in Hu. destruct Hu as [ids [_ Hu]]. apply bind_ok in Hu. destruct Hu as [inn [_ Hu]].
      apply bind_ok in Hu. destruct Hu as [outn [_ Hu]]. inversion Hu; subst. now rewrite srcs_body_app.
    + apply bind_ok in Hu. destruct Hu as [nm [_ Hu]]. apply bind_ok in Hu. destruct Hu as [inn [_ Hu]].
      apply bind_ok in Hu. destruct Hu as [outn [_ Hu]]. apply bind_ok in Hu. destruct Hu as [[[[al s3] rq3] sfs3] [Hal Hu]].
      inversion Hu; subst. rewrite srcs_body_app. cbn [flat_map srcs_node]. rewrite app_nil_r. apply Hsg in Hal. cbn [fst] in Hal.
      fold (al_srcs al). rewrite Hal. reflexivity.
  - apply bind_ok in Hu. destruct Hu as [s2 [_ Hu]].
    apply bind_ok in Hu. destruct Hu as [nm [_ Hu]]. apply bind_ok in Hu. destruct Hu as [i [_ Hu]].
    apply bind_ok in Hu. destruct Hu as [o [_ Hu]]. inversion Hu; subst. now rewrite srcs_body_app.
Qed.

(* ---- emitted at most once, from the structure of the ownership map alone ---- *)
Lemma NoDup_app_intro {A} (a b : list A) : NoDup a -> NoDup b -> (forall x, In x a -> ~ In x b) -> NoDup (a ++ b).
Proof. induction a as [|x a IH]; cbn; intros Ha Hb Hd; [exact Hb|]. inversion Ha as [|y l Hx Hl]; subst. constructor.
  - intros Hc. apply in_app_or in Hc. destruct Hc as [Hc|Hc]; [contradiction|]. exact (Hd x (or_introl eq_refl) Hc).
  - apply IH; auto. Qed.
Lemma NoDup_app_disj {A} (a b : list A) : NoDup (a ++ b) -> forall x, In x a -> ~ In x b.
Proof. induction a as [|y a IH]; cbn; intros H x Hx; [contradiction|]. inversion H as [|z l Hy Hl]; subst. destruct Hx as [Hx|Hx].
  - subst. intros Hc. apply Hy. apply in_or_app. now right.
  - now apply IH. Qed.
Lemma NoDup_app_left {A} (a b : list A) : NoDup (a ++ b) -> NoDup a.
Proof. induction a as [|y a IH]; cbn; intros H; [constructor|]. inversion H as [|z l Hy Hl]; subst. constructor; [|auto].
  intros Hc. apply Hy. apply in_or_app. now left. Qed.
Lemma NoDup_app_right {A} (a b : list A) : NoDup (a ++ b) -> NoDup b.
Proof. induction a as [|y a IH]; cbn; intros H; [exact H|]. inversion H; subst. auto. Qed.

Lemma NoDup_flat_map_tag {A B T} (tag : B -> T) (F : A -> list B) (G : A -> list T) l :
  NoDup (flat_map G l) ->
  (forall a, In a l -> NoDup (G a) -> NoDup (F a) /\ forall b, In b (F a) -> In (tag b) (G a)) ->
  NoDup (flat_map F l) /\ forall b, In b (flat_map F l) -> In (tag b) (flat_map G l).
Proof. induction l as [|a t IH]; cbn; intros Hn Hf; [split; [constructor|intros b []]|].
  pose proof (NoDup_app_left _ _ Hn) as Hga. pose proof (NoDup_app_right _ _ Hn) as Hgt.
  destruct (Hf a (or_introl eq_refl) Hga) as [Hfa Hta].
  destruct (IH Hgt (fun a0 H0 => Hf a0 (or_intror H0))) as [Hft Htt]. split.
  - apply NoDup_app_intro; [assumption|assumption|]. intros b Hb Hc. exact (NoDup_app_disj _ _ Hn _ (Hta b Hb) (Htt b Hc)).
  - intros b Hb. apply in_app_or in Hb. apply in_or_app. destruct Hb as [Hb|Hb]; [left; auto|right; auto]. Qed.

Section Once.
Variable sc : nref -> nat.
Hypothesis Hown : forall g u, In u (own_of g) -> sc u = g.
Hypothesis Hnd : forall g, NoDup (own_of g).

Lemma spec_once : forall fuel g, NoDup (spec_graphs fuel g) ->
  NoDup (spec_srcs fuel g) /\ forall x, In x (spec_srcs fuel g) -> In (sc x) (spec_graphs fuel g).
Proof.
  induction fuel as [|f IH]; intros g Hg; cbn [spec_srcs spec_graphs] in *; [split; [constructor|intros x []]|].
  (* per node: the subgraphs *)
  assert (Hsub : forall u, NoDup (node_subs (spec_graphs f) u) ->
            NoDup (node_subs (spec_srcs f) u) /\ forall x, In x (node_subs (spec_srcs f) u) -> In (sc x) (node_subs (spec_graphs f) u)).
  { intros u. unfold node_subs. destruct u as [n|g']; [|intros _; split; [constructor|intros x []]].
    destruct (kind (getn p n)); try (intros _; split; [constructor|intros x []]).
    - intros Hn. apply (NoDup_flat_map_tag sc); [exact Hn|]. intros ka _ Hk. unfold attr_spec in *. destruct (snd ka); [apply IH; exact Hk|split; [constructor|intros b []]].
    - intros Hn. apply (NoDup_flat_map_tag sc); [exact Hn|]. intros ka _ Hk. unfold attr_spec in *. destruct (snd ka); [apply IH; exact Hk|split; [constructor|intros b []]]. }
  inversion Hg as [|g0 l0 Hgn Hgl]; subst.
  pose proof (Hnd g) as Hl. pose proof (Hown g) as Ho. revert Hgn Hgl Hl Ho. generalize (own_of g) as l.
  induction l as [|u t IHt]; cbn [flat_map]; intros Hgn Hgl Hl Ho; [split; [constructor|intros x []]|].
  inversion Hl as [|u0 t0 Hut Ht]; subst.
  assert (Hgn' : ~ In g (flat_map (fun u0 => if is_arg p u0 then [] else node_subs (spec_graphs f) u0) t)).
  { intros Hc. apply Hgn. apply in_or_app. now right. }
  destruct (IHt Hgn' (NoDup_app_right _ _ Hgl) Ht (fun u0 H0 => Ho u0 (or_intror H0))) as [Hrt Htt].
  unfold node_spec at 1. unfold node_spec at 2. destruct (is_arg p u) eqn:Ea; cbn [app].
  - split; [exact Hrt|]. intros x Hx. destruct (Htt x Hx) as [E|Hin]; [left; exact E|right; exact Hin].
  - destruct (Hsub u (NoDup_app_left _ _ Hgl)) as [Hru Htu].
    assert (Hrest : forall x, In x (flat_map (node_spec (spec_srcs f)) t) ->
              (In x t \/ In (sc x) (flat_map (fun u0 => if is_arg p u0 then [] else node_subs (spec_graphs f) u0) t))).
    { intros x Hx. apply in_flat_map in Hx. destruct Hx as [v [Hv Hx]]. unfold node_spec in Hx. destruct (is_arg p v) eqn:Ev; [destruct Hx|].
      destruct Hx as [Hx|Hx]; [subst; now left|]. right. apply in_flat_map. exists v. split; [exact Hv|]. rewrite Ev.
      destruct (Hsub v) as [_ Hq]; [|now apply Hq].
      assert (Hnv : NoDup (flat_map (fun u0 => if is_arg p u0 then [] else node_subs (spec_graphs f) u0) t)) by exact (NoDup_app_right _ _ Hgl).
      clear - Hnv Hv Ev. induction t as [|w t IHw]; [destruct Hv|]. cbn in Hnv. destruct Hv as [Hv|Hv].
      - subst. rewrite Ev in Hnv. exact (NoDup_app_left _ _ Hnv).
      - apply IHw; [exact Hv|exact (NoDup_app_right _ _ Hnv)]. }
    split.
    + constructor.
      * intros Hc. apply in_app_or in Hc. destruct Hc as [Hc|Hc].
        -- apply Htu in Hc. rewrite (Ho u (or_introl eq_refl)) in Hc. apply Hgn. apply in_or_app. now left.
        -- destruct (Hrest u Hc) as [Hc'|Hc']; [contradiction|]. rewrite (Ho u (or_introl eq_refl)) in Hc'. exact (Hgn' Hc').
      * apply NoDup_app_intro; [exact Hru|exact Hrt|]. intros x Hx Hc. apply Htu in Hx. destruct (Hrest x Hc) as [Hc'|Hc'].
        -- rewrite (Ho x (or_intror Hc')) in Hx. apply Hgn. apply in_or_app. now left.
        -- exact (NoDup_app_disj _ _ Hgl _ Hx Hc').
    + intros x [Hx|Hx]; [subst; left; symmetry; apply Ho; now left|]. apply in_app_or in Hx. destruct Hx as [Hx|Hx].
      * right. apply in_or_app. left. now apply Htu.
      * destruct (Htt x Hx) as [E|Hin]; [left; exact E|right; apply in_or_app; now right].
Qed.

(* every node is emitted at most once in the whole tree of GraphProtos *)
Theorem emitted_at_most_once fuel s g prefix is_main mg s' rq fs :
  compile fuel s g prefix is_main = inl (mg, s', rq, fs) -> NoDup (spec_graphs fuel g) -> NoDup (srcs_graph mg).
Proof. intros H Hg. rewrite (compile_srcs _ _ _ _ _ _ _ _ _ H). now apply spec_once. Qed.
(* ... and in the graph of the scope it was assigned to: the GraphProto compiled for g holds, at top level, exactly own_of g *)
End Once.
End Emit.

(* ---------- instantiated at Builder.build_main ---------- *)
Definition scopes_of (p : prog) (d : dstate) : list (nref * nat) :=
  fold_left (update_scope_tree p (d_own d)) (rev (d_post d)) [].
Definition topo_of (p : prog) (main : nat) : list nref := postorder (2 * fuel_of p) (full_adj p) (NIntro main).
Definition scope_of_node (p : prog) (d : dstate) (u : nref) : nat :=
  match lookup nref_eqb u (scopes_of p d) with Some s => s | None => 0 end.
Definition own_of_def (p : prog) (d : dstate) (main : nat) (g : nat) : list nref :=
  filter (fun u => match lookup nref_eqb u (scopes_of p d) with Some s => Nat.eqb s g | None => false end) (topo_of p main).

Lemma own_of_def_scope p d main g u : In u (own_of_def p d main g) -> scope_of_node p d u = g.
Proof. unfold own_of_def, scope_of_node. intros H. apply filter_In in H. destruct H as [_ H].
  destruct (lookup nref_eqb u (scopes_of p d)); [|discriminate]. now apply Nat.eqb_eq in H. Qed.
Lemma own_of_def_NoDup p d main g : NoDup (topo_of p main) -> NoDup (own_of_def p d main g).
Proof. intros H. unfold own_of_def. now apply NoDup_filter. Qed.

(* The GraphProto tree that build_main returns: at top level of the graph compiled for scope g exactly the non-argument nodes
   assigned to g, in topological order; in the whole tree every node at most once, provided the tree of graphs itself has no
   repeated graph (a decidable condition on the program and the scope resolution, not on the output). *)
Theorem build_main_emission ffuel p un main b :
  build_main ffuel p un main = inl b ->
  exists d, discover (fuel_of p) p dstate0 main = inl d /\
    srcs_graph (b_graph b) = spec_srcs p (own_of_def p d main) (fuel_of p) main /\
    (NoDup (topo_of p main) -> NoDup (spec_graphs p (own_of_def p d main) (fuel_of p) main) -> NoDup (srcs_graph (b_graph b))).
Proof. destruct ffuel as [|ff]; [discriminate|]. unfold build_main. cbn [build_main_gen]. intros H.
  apply bind_ok in H. destruct H as [d [Hd H]]. apply bind_ok in H. destruct H as [[[[mg s] rq] fs] [Hc H]].
  inversion H; subst. cbn [b_graph]. exists d. split; [exact Hd|]. split.
  - exact (compile_srcs _ _ _ _ _ _ _ _ _ _ _ _ _ _ Hc).
  - intros Ht Hg. eapply (emitted_at_most_once p un _ (own_of_def p d main) _ (scope_of_node p d)); [| |exact Hc|exact Hg].
    + intros g u. apply own_of_def_scope.
    + intros g. now apply own_of_def_NoDup.
Qed.

(* on an acyclic program the topological list has no duplicates (DfsFacts.postorder_spec) *)
Corollary topo_NoDup p main (rank : nref -> nat) :
  (forall u v, In v (full_adj p u) -> rank v < rank u) -> rank (NIntro main) < 2 * fuel_of p -> NoDup (topo_of p main).
Proof. intros Ha Hf. exact (proj1 (postorder_spec (full_adj p) rank Ha (2 * fuel_of p) (NIntro main) Hf)). Qed.

(* the two premises as an executable test on the program (evaluated on every generated program by the C04 check: non-vacuity) *)
Definition emission_premises_b (p : prog) (main : nat) : bool :=
  match discover (fuel_of p) p dstate0 main with
  | inl d => nodupb nref_eqb (topo_of p main) && nodupb Nat.eqb (spec_graphs p (own_of_def p d main) (fuel_of p) main)
  | inr _ => false end.
Definition emission_premises_req (p : prog) (r : request) : bool :=
  match all_vars (r_inputs r), all_vars (r_outputs r) with
  | Some i, Some o => emission_premises_b (final_prog p r i o) 0
  | _, _ => false end.

Theorem build_main_emitted_at_most_once ffuel p un main b :
  build_main ffuel p un main = inl b -> emission_premises_b p main = true -> NoDup (srcs_graph (b_graph b)).
Proof. intros Hb Hp. destruct (build_main_emission _ _ _ _ _ Hb) as [d [Hd [_ H]]]. unfold emission_premises_b in Hp. rewrite Hd in Hp.
  apply andb_prop in Hp. destruct Hp as [H1 H2]. apply H.
  - exact (nodupb_NoDup nref_eqb nref_eqb_spec _ H1).
  - refine (nodupb_NoDup Nat.eqb _ _ H2). intros a b0. apply Nat.eqb_spec. Qed.

(* ---------- definition before use inside one graph ---------- *)
Lemma filter_split {A} (P : A -> bool) : forall l L1 u L2, filter P l = L1 ++ u :: L2 ->
  exists t1 t2, l = t1 ++ u :: t2 /\ filter P t1 = L1 /\ P u = true.
Proof. induction l as [|x t IH]; intros L1 u L2 H; cbn in H; [destruct L1; discriminate|].
  destruct (P x) eqn:Ex.
  - destruct L1 as [|y L1]; cbn in H.
    + inversion H; subst. exists [], t. cbn. auto.
    + inversion H; subst. destruct (IH _ _ _ H2) as (t1 & t2 & E & F & Pu). exists (y :: t1), t2. cbn. rewrite Ex, F, E. auto.
  - destruct (IH _ _ _ H) as (t1 & t2 & E & F & Pu). exists (x :: t1), t2. cbn. rewrite Ex, F, E. auto. Qed.

(* In the GraphProto compiled for scope g, when own_of g is the sub-sequence of a dependency-closed order [topo] selected by the
   ownership test [sel]: every dependency of an emitted node that belongs to the same scope (and is not an argument) is emitted
   EARLIER in that graph. *)
Theorem same_graph_dependencies_first p un args_of own_of fbuild fuel s g prefix vi ai ms ro s' rq fs topo sel :
  compile p un args_of own_of fbuild fuel s g prefix vi = inl (MGraph ai ms ro, s', rq, fs) ->
  closed nref (full_adj p) topo -> own_of g = filter sel topo ->
  forall l1 n l2, ms = l1 ++ n :: l2 -> forall w, In w (deps p (src_of n)) -> sel w = true -> is_arg p w = false ->
  In w (map src_of l1).
Proof.
  intros H Hcl Hown l1 n l2 Hms w Hw Hsel Harg.
  pose proof (compile_top_srcs _ _ _ _ _ _ _ _ _ _ _ _ _ _ _ _ H) as Hsrc. rewrite Hown, Hms, map_app in Hsrc. cbn [map] in Hsrc.
  assert (E : filter (fun u => negb (is_arg p u)) (filter sel topo) = filter (fun u => sel u && negb (is_arg p u)) topo).
  { clear. induction topo as [|x t IH]; cbn; [reflexivity|]. destruct (sel x); cbn; [destruct (negb (is_arg p x)); cbn; now rewrite IH|exact IH]. }
  rewrite E in Hsrc. symmetry in Hsrc. destruct (filter_split _ _ _ _ _ Hsrc) as (t1 & t2 & Et & Ef & _).
  rewrite <- Ef. apply filter_In. split.
  - apply (Hcl t1 (src_of n) t2 Et). unfold full_adj. apply in_or_app. now left.
  - now rewrite Hsel, Harg.
Qed.

(* ---------- nothing but reachable applications is ever emitted ---------- *)
(* every source node of the emitted tree is a non-argument node that some scope owns ... *)
Lemma spec_srcs_owned p (own_of : nat -> list nref) : forall fuel g u, In u (spec_srcs p own_of fuel g) ->
  is_arg p u = false /\ exists g', In u (own_of g').
Proof. induction fuel as [|f IH]; intros g u H; [destruct H|]. cbn [spec_srcs] in H. apply in_flat_map in H. destruct H as [w [Hw H]].
  unfold node_spec in H. destruct (is_arg p w) eqn:Ea; [destruct H|]. destruct H as [<-|H]; [split; [exact Ea|exists g; exact Hw]|].
  unfold node_subs in H. destruct w as [n|g0]; [|destruct H].
  destruct (kind (getn p n)); try (destruct H; fail);
    (apply in_flat_map in H; destruct H as [ka [_ H]]; unfold attr_spec in H; destruct (snd ka) as [sub|x]; [exact (IH sub u H)|destruct H]). Qed.

(* ... and the owned nodes are taken from the one global traversal from the requested outputs: an application on which no requested
   output depends is not emitted anywhere - not in the main graph, not in a body, whatever was constructed before (no validator) *)
Theorem build_main_emits_only_reachable ffuel p un main b u :
  build_main ffuel p un main = inl b -> In u (srcs_graph (b_graph b)) -> In u (topo_of p main) /\ is_arg p u = false.
Proof. intros H Hu. destruct (build_main_emission _ _ _ _ _ H) as (d & _ & E & _). rewrite E in Hu.
  destruct (spec_srcs_owned p _ _ _ _ Hu) as [Ha [g' Hg]]. split; [|exact Ha]. unfold own_of_def in Hg. apply filter_In in Hg. tauto. Qed.

Theorem build_public_emits_only_reachable p r m inputs outputs :
  build_public p r = inl m -> all_vars (r_inputs r) = Some inputs -> all_vars (r_outputs r) = Some outputs ->
  exists args, (r_drop r = false -> args = map snd inputs) /\ (forall a, In a args -> In a (map snd inputs)) /\
    forall u, In u (srcs_graph (mmain m)) ->
      In u (topo_of (with_main p (Some args) outputs) 0) /\ is_arg (with_main p (Some args) outputs) u = false.
Proof.
  unfold build_public. intros H Hi Ho. rewrite Hi, Ho in H.
  destruct (negb _); [discriminate|]. destruct outputs as [|o os]; [discriminate|].
  apply bind_ok in H. destruct H as [args [Ha H]]. apply bind_ok in H. destruct H as [b [Hb H]].
  apply bind_ok in H. destruct H as [m' [Hm H]]. pose proof (to_model_struct _ _ Hm) as (_ & Hmg & _).
  destruct (mmain m') as [gi body go_] eqn:Eg. destruct (forallb _ gi); [|discriminate]. inversion H; subst m'. rewrite Eg.
  exists args. split; [intros Hd; rewrite Hd in Ha; inversion Ha; reflexivity|]. split.
  - destruct (r_drop r).
    + apply bind_ok in Ha. destruct Ha as [b1 [_ Ha]]. destruct (forallb _ (b_args b1)); [|discriminate]. inversion Ha; subst.
      intros a Hin. apply filter_In in Hin. tauto.
    + inversion Ha; subst. auto.
  - intros u Hu. rewrite Hmg in Hu. eapply build_main_emits_only_reachable; eauto.
Qed.
