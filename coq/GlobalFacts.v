(* GlobalFacts.v — every value name is defined ONCE IN THE WHOLE MODEL, all nested graphs included, BY CONSTRUCTION (no validator),
   for programs without inlined models: graph inputs and node outputs are the table entries of pairwise distinct Vars (distinct
   because no source node is processed twice: premise NoDup (spec_all …), the unfolding of the ownership map with the argument
   nodes added — decidable, evaluated on every program), the table is injective (ScopeFacts) and entries never change (IOFacts.Ext).
   Inlined blocks (whose internal names are reserved names) are covered by the validator global_unique only.  (C02) *)
From Coq Require Import List String NArith Arith Bool Lia.
From Spox Require Import Base IR Show Build Sem Plan Named Validate BuildFacts CompilePres ScopeFacts EmitFacts IOFacts SsaFacts.
Import ListNotations.
Open Scope list_scope.

(* names [names] are entries of table s for Vars whose nodes are in [nodes] *)
Definition W (s : scope) (nodes : list nref) (names : list String.string) : Prop :=
  forall nm, In nm names -> exists v, lookup var_eqb v (vname s) = Some nm /\ In (vnode v) nodes.

Lemma W_ext s s' nodes names : Ext s s' -> W s nodes names -> W s' nodes names.
Proof. intros He Hw nm Hin. destruct (Hw nm Hin) as [v [Hl Hn]]. exists v. split; [now apply He|exact Hn]. Qed.
Lemma W_incl s nodes nodes' names : (forall x, In x nodes -> In x nodes') -> W s nodes names -> W s nodes' names.
Proof. intros Hi Hw nm Hin. destruct (Hw nm Hin) as [v [Hl Hn]]. exists v. split; [exact Hl|auto]. Qed.
Lemma W_sub s nodes names names' : (forall x, In x names' -> In x names) -> W s nodes names -> W s nodes names'.
Proof. intros Hi Hw nm Hin. apply Hw. auto. Qed.
Lemma W_nil s nodes : W s nodes []. Proof. intros nm []. Qed.

Lemma names_extend s s' done newd L N :
  ScopeInv s' -> Ext s s' -> NoDup L -> W s done L -> NoDup N -> W s' newd N -> (forall x, In x done -> ~ In x newd) ->
  NoDup (L ++ N) /\ W s' (done ++ newd) (L ++ N).
Proof. intros Hs He HL HwL HN HwN Hd. split.
  - apply NoDup_app_intro; [exact HL|exact HN|]. intros nm H1 H2. destruct (HwL nm H1) as [v [Hv Hnv]]. destruct (HwN nm H2) as [w [Hw Hnw]].
    pose proof (table_inj s' _ _ _ Hs (He _ _ Hv) Hw) as E. subst w. exact (Hd _ Hnv Hnw).
  - intros nm Hin. apply in_app_or in Hin. destruct Hin as [Hin|Hin].
    + destruct (HwL nm Hin) as [v [Hv Hnv]]. exists v. split; [now apply He|apply in_or_app; now left].
    + destruct (HwN nm Hin) as [v [Hv Hnv]]. exists v. split; [exact Hv|apply in_or_app; now right]. Qed.

Lemma sublist_prefix_NoDup {A} (l a r : list A) : l = a ++ r -> NoDup l -> NoDup a.
Proof. intros -> H. exact (NoDup_app_left _ _ H). Qed.

(* the outputs of ONE node read from the table: distinct names, all entries of Vars of that node *)
Lemma node_outs_good s u l names : ScopeInv s -> NoDup l -> mapM (fun i => vlook s (V u i)) l = inl names ->
  NoDup names /\ W s [u] names.
Proof. intros Hs Hl Hm. apply outs_lookup in Hm. split; [eapply outs_NoDup; eauto|].
  clear Hl. induction Hm as [|i nm l names Hi HF IH]; intros x Hx; [destruct Hx|]. destruct Hx as [->|Hx]; [|auto].
  exists (V u i). split; [exact Hi|now left]. Qed.

Section Global.
Variables (p : prog) (un : names) (args_of : nat -> list var) (own_of : nat -> list nref)
          (fbuild : nat -> nat -> res (list mnode * req * list fdesc)).
Hypothesis Hnoinline : forall n om imp, kind (getn p n) <> KInline om imp.

(* all source nodes a compile of scope g touches: the nodes of its arguments, its own nodes, and recursively those of the subgraphs *)
Fixpoint spec_all (fuel : nat) (g : nat) : list nref :=
  match fuel with O => [] | S f => map vnode (args_of g) ++ flat_map (node_spec p (spec_all f)) (own_of g) end.

Definition GoodG (s s' : scope) (mg : mgraph) (nodes : list nref) : Prop :=
  ScopeInv s' /\ Ext s s' /\ NoDup (defs_graph mg) /\ W s' nodes (defs_graph mg).

Definition J (done : list nref) (acc : list mnode * scope * req * list fdesc * list fdesc) : Prop :=
  let '(ms, s, rq, fs, sfs) := acc in ScopeInv s /\ NoDup (flat_map defs_node ms) /\ W s done (flat_map defs_node ms).

Definition al_defs (al : list (String.string * option mgraph)) : list String.string :=
  flat_map (fun ka => match snd ka with Some g => defs_graph g | None => [] end) al.

Section Step.
Variable f : nat.
Variable rec : scope -> nat -> String.string -> option bool -> res (mgraph * scope * req * list fdesc).
Hypothesis Hrec : forall s g pre vi mg s' rq fs, rec s g pre vi = inl (mg, s', rq, fs) -> ScopeInv s -> NoDup (spec_all f g) ->
  GoodG s s' mg (spec_all f g).

(* the subgraph attributes of one node, compiled one after the other *)
Lemma attr_fold_good nm : forall l l0 sa rqa fsa al sz rqz fz donea,
  foldM (fun (acc : list (String.string * option mgraph) * scope * req * list fdesc) (ka : String.string * attrv) =>
           let '(l, s, rq, fs) := acc in
           match snd ka with
           | AVal _ => ret ((l ++ [(fst ka, None)])%list, s, rq, fs)
           | AGraph sub =>
             do r <- rec s sub (nm ++ "_" ++ fst ka ++ "__")%string (Some false) ;;
             let '(mg, s', rq', fs') := r in
             ret ((l ++ [(fst ka, Some mg)])%list, s', union req_eqb rq rq', (fs ++ fs')%list)
           end) l (l0, sa, rqa, fsa) = inl (al, sz, rqz, fz) ->
  ScopeInv sa -> NoDup (al_defs l0) -> W sa donea (al_defs l0) ->
  NoDup (donea ++ flat_map (attr_spec (spec_all f)) l) ->
  ScopeInv sz /\ Ext sa sz /\ NoDup (al_defs al) /\ W sz (donea ++ flat_map (attr_spec (spec_all f)) l) (al_defs al).
Proof.
  induction l as [|ka t IH]; intros l0 sa rqa fsa al sz rqz fz donea H Hs Hn Hw Hnd; cbn [foldM] in H.
  - inversion H; subst. cbn. rewrite app_nil_r. split; [exact Hs|]. split; [apply Ext_refl|]. split; assumption.
  - apply bind_ok in H. destruct H as [[[[l1 s1] rq1] fs1] [Hk H]]. cbn [flat_map] in Hnd |- *. unfold attr_spec at 1 in Hnd. unfold attr_spec at 1.
    destruct (snd ka) as [sub|x] eqn:Eka.
    + apply bind_ok in Hk. destruct Hk as [[[[mg0 sb] rqb] fsb] [Hc Hk]]. inversion Hk; subst.
      assert (Hsub : NoDup (spec_all f sub)).
      { apply NoDup_app_right in Hnd. exact (NoDup_app_left _ _ Hnd). }
      destruct (Hrec _ _ _ _ _ _ _ _ Hc Hs Hsub) as (Hsb & Heb & Hnb & Hwb).
      destruct (names_extend sa s1 donea (spec_all f sub) (al_defs l0) (defs_graph mg0) Hsb Heb Hn Hw Hnb Hwb) as [Hn1 Hw1].
      { intros x Hx Hc'. rewrite app_assoc in Hnd. apply NoDup_app_left in Hnd. exact (NoDup_app_disj _ _ Hnd x Hx Hc'). }
      assert (E : al_defs (l0 ++ [(fst ka, Some mg0)]) = al_defs l0 ++ defs_graph mg0).
      { unfold al_defs. rewrite flat_map_app. cbn. now rewrite app_nil_r. }
      rewrite app_assoc in Hnd. rewrite app_assoc.
      destruct (IH _ _ _ _ _ _ _ _ (donea ++ spec_all f sub) H Hsb) as (Hz & Hez & Hnz & Hwz); [rewrite E; exact Hn1|rewrite E; exact Hw1|exact Hnd|].
      split; [exact Hz|]. split; [eapply Ext_trans; eauto|]. split; assumption.
    + inversion Hk; subst. cbn [app] in *.
      assert (E : al_defs (l0 ++ [(fst ka, None)]) = al_defs l0) by (unfold al_defs; rewrite flat_map_app; cbn; now rewrite app_nil_r).
      eapply IH; [exact H|exact Hs|rewrite E; exact Hn|rewrite E; exact Hw|exact Hnd].
Qed.

Lemma defs_snoc ms n : flat_map defs_node (ms ++ [n]) = flat_map defs_node ms ++ defs_node n.
Proof. rewrite flat_map_app. cbn. now rewrite app_nil_r. Qed.

Lemma step_J prefix done acc u acc' :
  compile_step p un fbuild rec prefix acc u = inl acc' -> NoDup (done ++ node_spec p (spec_all f) u) -> J done acc ->
  J (done ++ node_spec p (spec_all f) u) acc'.
Proof.
  destruct acc as [[[[ms s] rq] fs] sfs]. destruct acc' as [[[[ms' s'] rq'] fs'] sfs']. intros Hu Hnd HJ. unfold compile_step in Hu. unfold node_spec in *.
  destruct (is_arg p u) eqn:Ea; [inversion Hu; subst; rewrite app_nil_r; exact HJ|].
  destruct HJ as (Hs & HnL & HwL).
  assert (Hdisj1 : forall x, In x done -> ~ In x [u]).
  { intros x Hx [E|[]]. subst x. apply NoDup_remove_2 in Hnd. apply Hnd. apply in_or_app. now left. }
  destruct u as [n|g'].
  - apply bind_ok in Hu. destruct Hu as [[rqm fsm] [_ Hu]].
    apply bind_ok in Hu. destruct Hu as [s2 [Hu2 Hu]]. pose proof (P0_su p un s s _ _ _ Hu2 (P0_refl s Hs)) as [Hs2 He2].
    cbn [node_subs] in *.
    destruct (kind (getn p n)) as [| | |om imp|body fi fo fa] eqn:Hk.
    + cbn in Ea. rewrite Hk in Ea. discriminate.
    + apply bind_ok in Hu. destruct Hu as [o [Ho Hu]]. inversion Hu; subst. unfold J. rewrite defs_snoc. cbn [defs_node].
      assert (Hm : mapM (fun i => vlook s' (V (NReal n) i)) [0] = inl [o]) by (cbn; rewrite Ho; reflexivity).
      destruct (node_outs_good s' (NReal n) [0] [o] Hs2 (seqn_NoDup 1 0) Hm) as [Hn1 Hw1].
      destruct (names_extend s s' done [NReal n] _ [o] Hs2 He2 HnL HwL Hn1 Hw1 Hdisj1) as [Hn2 Hw2]. split; [exact Hs2|split; assumption].
    + apply bind_ok in Hu. destruct Hu as [nm [_ Hu]]. apply bind_ok in Hu. destruct Hu as [inn [_ Hu]].
      apply bind_ok in Hu. destruct Hu as [outn [Hout Hu]]. apply bind_ok in Hu. destruct Hu as [[[[al s3] rq3] sfs3] [Hsg Hu]].
      inversion Hu; subst. unfold J. rewrite defs_snoc. cbn [defs_node].
      destruct (node_outs_good s2 (NReal n) _ outn Hs2 (seqn_NoDup _ 0) Hout) as [Hn1 Hw1].
      destruct (trim_prefix outn (min_out (getn p n))) as [r Hr].
      assert (Hn1' : NoDup (nonempty (trim (min_out (getn p n)) outn))) by (apply NoDup_filter; eapply sublist_prefix_NoDup; eauto).
      assert (Hw1' : W s2 [NReal n] (nonempty (trim (min_out (getn p n)) outn))).
      { eapply W_sub; [|exact Hw1]. intros x Hx. apply filter_In in Hx. rewrite Hr. apply in_or_app. left. tauto. }
      destruct (names_extend s s2 done [NReal n] _ _ Hs2 He2 HnL HwL Hn1' Hw1' Hdisj1) as [Hn2 Hw2].
      assert (Hsubs : NoDup ([] ++ flat_map (attr_spec (spec_all f)) (attrs (getn p n)))).
      { cbn. apply NoDup_app_right in Hnd. inversion Hnd; assumption. }
      destruct (attr_fold_good nm _ _ _ _ _ _ _ _ _ [] Hsg Hs2 (NoDup_nil _) (W_nil _ _) Hsubs) as (Hs3 & He3 & Hn3 & Hw3). cbn [app] in Hw3.
      destruct (names_extend s2 s' (done ++ [NReal n]) (flat_map (attr_spec (spec_all f)) (attrs (getn p n))) _ (al_defs al) Hs3 He3 Hn2 Hw2 Hn3 Hw3) as [Hn4 Hw4].
      { intros x Hx Hc. replace (done ++ NReal n :: flat_map (attr_spec (spec_all f)) (attrs (getn p n)))
          with ((done ++ [NReal n]) ++ flat_map (attr_spec (spec_all f)) (attrs (getn p n))) in Hnd by (rewrite <- app_assoc; reflexivity).
        exact (NoDup_app_disj _ _ Hnd x Hx Hc). }
      split; [exact Hs3|]. rewrite <- app_assoc in Hn4, Hw4. fold (al_defs al). rewrite <- app_assoc in Hw4. cbn [app] in Hw4. split; assumption.
    + exfalso. eapply Hnoinline; eauto.
    + apply bind_ok in Hu. destruct Hu as [nm [_ Hu]]. apply bind_ok in Hu. destruct Hu as [inn [_ Hu]].
      apply bind_ok in Hu. destruct Hu as [outn [Hout Hu]]. apply bind_ok in Hu. destruct Hu as [[[[al s3] rq3] sfs3] [Hsg Hu]].
      inversion Hu; subst. unfold J. rewrite defs_snoc. cbn [defs_node].
      destruct (node_outs_good s2 (NReal n) _ outn Hs2 (seqn_NoDup _ 0) Hout) as [Hn1 Hw1].
      destruct (trim_prefix outn (min_out (getn p n))) as [r Hr].
      assert (Hn1' : NoDup (nonempty (trim (min_out (getn p n)) outn))) by (apply NoDup_filter; eapply sublist_prefix_NoDup; eauto).
      assert (Hw1' : W s2 [NReal n] (nonempty (trim (min_out (getn p n)) outn))).
      { eapply W_sub; [|exact Hw1]. intros x Hx. apply filter_In in Hx. rewrite Hr. apply in_or_app. left. tauto. }
      destruct (names_extend s s2 done [NReal n] _ _ Hs2 He2 HnL HwL Hn1' Hw1' Hdisj1) as [Hn2 Hw2].
      assert (Hsubs : NoDup ([] ++ flat_map (attr_spec (spec_all f)) (attrs (getn p n)))).
      { cbn. apply NoDup_app_right in Hnd. inversion Hnd; assumption. }
      destruct (attr_fold_good nm _ _ _ _ _ _ _ _ _ [] Hsg Hs2 (NoDup_nil _) (W_nil _ _) Hsubs) as (Hs3 & He3 & Hn3 & Hw3). cbn [app] in Hw3.
      destruct (names_extend s2 s' (done ++ [NReal n]) (flat_map (attr_spec (spec_all f)) (attrs (getn p n))) _ (al_defs al) Hs3 He3 Hn2 Hw2 Hn3 Hw3) as [Hn4 Hw4].
      { intros x Hx Hc. replace (done ++ NReal n :: flat_map (attr_spec (spec_all f)) (attrs (getn p n)))
          with ((done ++ [NReal n]) ++ flat_map (attr_spec (spec_all f)) (attrs (getn p n))) in Hnd by (rewrite <- app_assoc; reflexivity).
        exact (NoDup_app_disj _ _ Hnd x Hx Hc). }
      split; [exact Hs3|]. rewrite <- app_assoc in Hn4, Hw4. fold (al_defs al). rewrite <- app_assoc in Hw4. cbn [app] in Hw4. split; assumption.
  - apply bind_ok in Hu. destruct Hu as [s2 [Hu2 Hu]]. pose proof (P0_su p un s s _ _ _ Hu2 (P0_refl s Hs)) as [Hs2 He2].
    apply bind_ok in Hu. destruct Hu as [nm [_ Hu]]. apply bind_ok in Hu. destruct Hu as [i [_ Hu]].
    apply bind_ok in Hu. destruct Hu as [o [Ho Hu]]. inversion Hu; subst. unfold J. rewrite defs_snoc. cbn [defs_node node_subs].
    destruct (node_outs_good s' (NIntro g') _ o Hs2 (seqn_NoDup _ 0) Ho) as [Hn1 Hw1].
    destruct (names_extend s s' done [NIntro g'] _ o Hs2 He2 HnL HwL Hn1 Hw1 Hdisj1) as [Hn2 Hw2]. split; [exact Hs2|split; assumption].
Qed.

Lemma fold_J prefix : forall l done acc acc',
  foldM (compile_step p un fbuild rec prefix) l acc = inl acc' -> NoDup (done ++ flat_map (node_spec p (spec_all f)) l) -> J done acc ->
  J (done ++ flat_map (node_spec p (spec_all f)) l) acc'.
Proof. induction l as [|u t IH]; intros done acc acc' H Hn HJ; cbn [foldM flat_map] in *.
  - inversion H; subst. now rewrite app_nil_r.
  - apply bind_ok in H. destruct H as [acc1 [H1 H2]]. rewrite app_assoc in *.
    eapply IH; [exact H2|exact Hn|]. eapply step_J; [exact H1| |exact HJ]. exact (NoDup_app_left _ _ Hn). Qed.
End Step.

(* the names of the graph inputs: entries of the (pairwise distinct) argument Vars *)
Lemma args_good vi s : forall l ai, ScopeInv s -> NoDup (map vnode l) -> mapM (value_info p vi s) l = inl ai ->
  NoDup (map fst ai) /\ W s (map vnode l) (map fst ai).
Proof.
  intros l ai Hs Hn Hm.
  assert (HF : Forall2 (fun a x => lookup var_eqb a (vname s) = Some (fst x)) l ai).
  { eapply mapM_Forall2; [|exact Hm]. intros a x _ Hx. unfold value_info in Hx. apply bind_ok in Hx. destruct Hx as [nm [Hv Hx]].
    unfold vlook in Hv. destruct (lookup var_eqb a (vname s)) as [m|]; [|discriminate]. inversion Hv; subst.
    destruct vi as [c|]; [|inversion Hx; reflexivity]. destruct (vty p a); [|discriminate]. destruct (c && negb (tconcrete t))%bool; [discriminate|]. inversion Hx; reflexivity. }
  clear Hm. induction HF as [|a x l ai Ha HF IH]; cbn; [split; [constructor|apply W_nil]|].
  inversion Hn as [|y m Hy Hm]; subst. destruct (IH Hm) as [Hn1 Hw1]. split.
  - constructor; [|exact Hn1]. intros Hc. destruct (Hw1 _ Hc) as [v [Hv Hnv]]. pose proof (table_inj s _ _ _ Hs Hv Ha) as E. subst v. contradiction.
  - intros nm [<-|Hin]; [exists a; split; [exact Ha|now left]|]. destruct (Hw1 nm Hin) as [v [Hv Hnv]]. exists v. split; [exact Hv|now right]. Qed.

Theorem compile_global : forall fuel s g prefix vi mg s' rq fs,
  compile p un args_of own_of fbuild fuel s g prefix vi = inl (mg, s', rq, fs) -> ScopeInv s -> NoDup (spec_all fuel g) ->
  GoodG s s' mg (spec_all fuel g).
Proof.
  induction fuel as [|f IH]; intros s g prefix vi mg s' rq fs H Hs Hnd; [discriminate H|].
  pose proof (compile_ext p un args_of own_of fbuild s _ _ _ _ _ _ _ _ _ H (Ext_refl s)) as Hext.
  cbn [Build.compile] in H. cbn [spec_all] in Hnd |- *.
  apply bind_ok in H. destruct H as [s1 [H1 H]].
  assert (Hs1 : ScopeInv s1).
  { revert H1 Hs. apply foldM_inv. intros s0 a s0' Hu. eapply scope_update_scopeinv; exact Hu. }
  apply bind_ok in H. destruct H as [[[[[ms s3] rq3] fs0] sfs] [H2 H]].
  assert (HJ' : ScopeInv s3 /\ NoDup (flat_map defs_node ms) /\ W s3 (flat_map (node_spec p (spec_all f)) (own_of g)) (flat_map defs_node ms)).
  { pose proof (fold_J f (compile p un args_of own_of fbuild f) IH prefix (own_of g) [] _ _ H2 (NoDup_app_right _ _ Hnd)) as HJ2. cbn [app] in HJ2.
    apply HJ2. split; [exact Hs1|]. split; [constructor|apply W_nil]. }
  destruct HJ' as (Hs3 & Hnm & Hwm).
  destruct (Nat.eqb (List.length (gres (getg p g))) 0); [discriminate H|].
  apply bind_ok in H. destruct H as [ai [Hai H]]. apply bind_ok in H. destruct H as [ro [_ H]]. inversion H; subst.
  destruct (args_good vi s' (args_of g) ai Hs3 (NoDup_app_left _ _ Hnd) Hai) as [Hna Hwa].
  destruct (names_extend s' s' (map vnode (args_of g)) (flat_map (node_spec p (spec_all f)) (own_of g)) (map fst ai) (flat_map defs_node ms)
              Hs3 (Ext_refl s') Hna Hwa Hnm Hwm (NoDup_app_disj _ _ Hnd)) as [Hn Hw].
  split; [exact Hs3|]. split; [exact Hext|]. cbn [defs_graph]. split; assumption.
Qed.
End Global.

(* ---------- instantiated at Builder.build_main / the public build ---------- *)
Definition no_inline_b (p : prog) : bool :=
  forallb (fun nd => match kind nd with KInline _ _ => false | _ => true end) (nodes p).
Lemma no_inline_b_sound p : no_inline_b p = true -> forall n om imp, kind (getn p n) <> KInline om imp.
Proof. unfold no_inline_b. intros H n om imp Hk. rewrite forallb_forall in H.
  destruct (Nat.lt_ge_cases n (List.length (nodes p))) as [Hlt|Hge].
  - assert (Hin : In (getn p n) (nodes p)) by (unfold getn; apply nth_In; exact Hlt). specialize (H _ Hin). rewrite Hk in H. discriminate.
  - unfold getn in Hk. rewrite nth_overflow in Hk by exact Hge. cbn in Hk. discriminate. Qed.

Definition global_premises_b (p : prog) (main : nat) : bool :=
  match discover (fuel_of p) p dstate0 main with
  | inl d => no_inline_b p &&
             nodupb nref_eqb (spec_all p (fun g => getl g (d_args d)) (own_of_def p d main) (fuel_of p) main)
  | inr _ => false end.

Theorem build_main_global vi ffuel p un main b :
  build_main_gen vi ffuel p un main = inl b -> global_premises_b p main = true -> NoDup (defs_graph (b_graph b)).
Proof. destruct ffuel as [|ff]; [discriminate|]. cbn [build_main_gen]. intros H Hp.
  apply bind_ok in H. destruct H as [d [Hd H]]. apply bind_ok in H. destruct H as [[[[mg s] rq] fs] [Hc H]].
  inversion H; subst. cbn [b_graph]. unfold global_premises_b in Hp. rewrite Hd in Hp. apply andb_prop in Hp. destruct Hp as [Hi Hn].
  apply (nodupb_NoDup nref_eqb nref_eqb_spec) in Hn.
  destruct (compile_global p un _ _ _ (no_inline_b_sound p Hi) _ _ _ _ _ _ _ _ _ Hc scope0_inv Hn) as (_ & _ & Hnd & _). exact Hnd. Qed.

Theorem build_public_global p r m inputs outputs :
  build_public p r = inl m -> all_vars (r_inputs r) = Some inputs -> all_vars (r_outputs r) = Some outputs ->
  exists args, (r_drop r = false -> args = map snd inputs) /\ (forall a, In a args -> In a (map snd inputs)) /\
    (global_premises_b (with_main p (Some args) outputs) 0 = true -> NoDup (defs_graph (mmain m))).
Proof.
  unfold build_public. intros H Hi Ho. rewrite Hi, Ho in H.
  destruct (negb _); [discriminate|]. destruct outputs as [|o os]; [discriminate|].
  apply bind_ok in H. destruct H as [args [Ha H]]. apply bind_ok in H. destruct H as [b [Hb H]].
  apply bind_ok in H. destruct H as [m' [Hm H]]. pose proof (to_model_struct _ _ Hm) as (_ & Hmg & _).
  destruct (mmain m') as [gi body go_] eqn:Eg. destruct (forallb _ gi); [|discriminate]. inversion H; subst m'. rewrite Eg.
  exists args. split; [intros Hd; rewrite Hd in Ha; inversion Ha; reflexivity|]. split.
  - destruct (r_drop r).
    + apply bind_ok in Ha. destruct Ha as [b1 [_ Ha]]. destruct (forallb _ (b_args b1)); [|discriminate]. inversion Ha; subst.
      intros a Hin. apply filter_In in Hin. tauto.
    + inversion Ha; subst. auto.
  - intros Hp. rewrite Hmg. unfold build_main in Hb. eapply build_main_global; eauto.
Qed.

(* the premise for a request (the model's own choice of arguments): evaluated by the C02 check on every program it builds *)
Definition global_premises_req (p : prog) (r : request) : bool :=
  match all_vars (r_inputs r), all_vars (r_outputs r) with
  | Some i, Some o => global_premises_b (final_prog p r i o) 0
  | _, _ => false end.
Definition has_inline_b (p : prog) : bool := negb (no_inline_b p).
