(* ValuePropC07Facts.v — proofs for C07 about ValueProp.v / ValuePropProg.v: results are mapped to the output that
   carries their name; a Var with a value has no argument in its dependency cone; values conform to reported types. *)
From Coq Require Import List Bool String Arith Lia.
From Spox Require Import ValueProp ValuePropFacts ValuePropProg ValuePropProgFacts.
Import ListNotations.
Open Scope string_scope.
Open Scope list_scope.

(* ------------------------------------------------------------------------------------------------ dictionaries *)
Lemma dict_get_In {A} (d : list (string * A)) k v : dict_get d k = Some v -> In (k, v) d.
Proof.
  unfold dict_get. destruct (find _ (rev d)) as [p|] eqn:E; [|discriminate]. intros H. inversion H; subst.
  apply find_some in E. destruct E as [Hin Heq]. apply in_rev in Hin. apply String.eqb_eq in Heq.
  destruct p as [k' v']. cbn in *. subst. exact Hin.
Qed.

Lemma mk_value c t v p : mk c t v = Ok p -> p = (t, normalise v).
Proof. unfold mk. destruct (c_strict c && negb (check (c_deep c) t (normalise v))); [discriminate|]. intros H; inversion H; reflexivity. Qed.

Lemma lookup_name_out n name which ot :
  lookup_name n name = Some (true, which, ot) ->
  exists o, In o (n_out n) /\ o_field o = name /\ which = Some name /\ ot = out_type o.
Proof.
  unfold lookup_name. destruct (find _ (n_in n)) as [i|]; [discriminate|].
  destruct (find _ (n_out n)) as [o|] eqn:E; [|discriminate]. intros H. inversion H; subst.
  apply find_some in E. destruct E as [Hin Heq]. apply String.eqb_eq in Heq. exists o. rewrite Heq. repeat split; assumption.
Qed.

(* ------------------------------------------------------------------------------------------------ right output *)
Lemma std_entry_sound c bk n name py k v :
  c_guard c = true -> std_entry c bk n name py = Ok (Some (k, v)) ->
  k = name /\ exists o t p, In o (n_out n) /\ o_field o = name /\ out_type o = Some t /\ unwrap_feed c bk t py = Ok p /\ v = snd p.
Proof.
  intros Hg. unfold std_entry. destruct (lookup_name n name) as [[[is_out which] ot]|] eqn:L; [|discriminate].
  rewrite Hg. destruct is_out; cbn [andb negb]; [|discriminate].
  destruct (lookup_name_out _ _ _ _ L) as [o [Ho [Hf [Hw Ht]]]]. subst which ot.
  destruct (out_type o) as [t|] eqn:T; [|discriminate]. destruct (unwrap_feed c bk t py) as [p|e] eqn:U; [|discriminate].
  intros H. inversion H; subst. split; [reflexivity|]. exists o, t, p. repeat split; assumption.
Qed.

Lemma std_entries_sound c bk n : c_guard c = true -> forall d l, std_entries c bk n d = Ok l ->
  forall k v, In (k, v) l ->
  exists py o t p, In (k, py) d /\ In o (n_out n) /\ o_field o = k /\ out_type o = Some t /\ unwrap_feed c bk t py = Ok p /\ v = snd p.
Proof.
  intros Hg. induction d as [|[name py] rest IH]; intros l H k v Hin; cbn [std_entries] in H.
  - inversion H; subst. destruct Hin.
  - destruct (std_entry c bk n name py) as [[[k0 v0]|]|e] eqn:E.
    + destruct (std_entries c bk n rest) as [l'|e'] eqn:R; [|discriminate]. inversion H; subst.
      destruct Hin as [Heq|Hin].
      * inversion Heq; subst. destruct (std_entry_sound _ _ _ _ _ _ _ Hg E) as [-> [o [t [p G]]]].
        exists py, o, t, p. split; [left; reflexivity|exact G].
      * destruct (IH l' eq_refl k v Hin) as [py' [o [t [p [Hd G]]]]]. exists py', o, t, p. split; [right; exact Hd|exact G].
    + destruct (IH l H k v Hin) as [py' [o [t [p [Hd G]]]]]. exists py', o, t, p. split; [right; exact Hd|exact G].
    + destruct (c_guard c && negb (c_strict c)); [|discriminate].
      destruct (IH l H k v Hin) as [py' [o [t [p [Hd G]]]]]. exists py', o, t, p. split; [right; exact Hd|exact G].
Qed.

Lemma inline_entries_sound c bk d : forall outs l, inline_entries c bk outs d = Ok l ->
  forall k v, In (k, v) l ->
  exists o py t p, In o outs /\ o_field o = k /\ dict_get d (o_bname o) = Some py /\ out_type o = Some t /\
                   unwrap_feed c bk t py = Ok p /\ v = snd p.
Proof.
  induction outs as [|o rest IH]; intros l H k v Hin; cbn [inline_entries] in H.
  - inversion H; subst. destruct Hin.
  - destruct (dict_get d (o_bname o)) as [py|] eqn:G.
    + destruct (inline_entry c bk o py) as [p|e] eqn:E.
      * destruct (inline_entries c bk rest d) as [l'|e'] eqn:R; [|discriminate]. inversion H; subst.
        destruct Hin as [Heq|Hin].
        -- inversion Heq; subst. unfold inline_entry in E. destruct (out_type o) as [t|] eqn:T; [|discriminate].
           exists o, py, t, p. repeat split; try assumption. left; reflexivity.
        -- destruct (IH l' eq_refl k v Hin) as [o' [py' [t [p' [Ho K]]]]]. exists o', py', t, p'. split; [right; exact Ho|exact K].
      * destruct (c_guard c && negb (c_strict c)); [|discriminate].
        destruct (IH l H k v Hin) as [o' [py' [t [p' [Ho K]]]]]. exists o', py', t, p'. split; [right; exact Ho|exact K].
    + destruct (IH l H k v Hin) as [o' [py' [t [p' [Ho K]]]]]. exists o', py', t, p'. split; [right; exact Ho|exact K].
Qed.

Lemma attach_inv c vals o f ot v w :
  attach c vals o = Ok (f, ot, Some v, w) -> o_val0 o = None ->
  f = o_field o /\ exists t v1, ot = Some t /\ out_type o = Some t /\ dict_get vals f = Some v1 /\ v = normalise v1.
Proof.
  unfold attach. intros H Hv. rewrite Hv in H. destruct (out_type o) as [t|] eqn:T; [|inversion H].
  destruct (dict_get vals (o_field o)) as [v1|] eqn:G; [|inversion H].
  destruct (mk c t v1) as [p|e] eqn:M; [|discriminate]. apply mk_value in M. subst p. cbn [snd] in H.
  destruct (check (c_deep c) t (normalise v1)); inversion H; subst. split; [reflexivity|].
  exists t, v1. repeat split; assumption.
Qed.

Lemma construct_attached c bk n r outs f ot v w :
  construct c bk n r = Ok outs -> (forall o, In o (n_out n) -> o_val0 o = None) -> In (f, ot, Some v, w) outs ->
  exists vals v1, propagate c bk n r = Ok vals /\ In (f, v1) vals /\ v = normalise v1.
Proof.
  unfold construct. destruct (propagate c bk n r) as [vals|e]; cbn [bind]; [|discriminate].
  intros H Hfresh Hin. apply mapM_spec in H. exists vals.
  induction H as [|o x os xs Hox _ IH]; [destruct Hin|].
  destruct Hin as [->|Hin].
  - destruct (attach_inv _ _ _ _ _ _ _ Hox (Hfresh o (or_introl eq_refl))) as [_ [t [v1 [_ [_ [G ->]]]]]].
    exists v1. split; [reflexivity|]. split; [apply dict_get_In; exact G|reflexivity].
  - apply IH; [intros o' Ho'; apply Hfresh; right; exact Ho'|exact Hin].
Qed.

(* C07: for EVERY backend result dictionary, the value attached to the output field f of a standard node is the
   (converted, normalised) entry stored under f – the name of that very output – in the dictionary. *)
Theorem value_right_output c bk n d outs f ot v w :
  c_guard c = true -> n_kind n = KStandard -> (forall o, In o (n_out n) -> o_val0 o = None) ->
  construct c bk n (BDict d) = Ok outs -> In (f, ot, Some v, w) outs ->
  exists py o t p, In (f, py) d /\ In o (n_out n) /\ o_field o = f /\ out_type o = Some t /\
                   unwrap_feed c bk t py = Ok p /\ v = normalise (snd p).
Proof.
  intros Hg Hk Hfresh H Hin.
  destruct (construct_attached _ _ _ _ _ _ _ _ _ H Hfresh Hin) as [vals [v1 [Hp [Hv ->]]]].
  unfold propagate in Hp. rewrite Hk in Hp.
  assert (std_entries c bk n d = Ok vals \/ vals = []) as [Hs| ->].
  { destruct bk; [right; inversion Hp; reflexivity| |];
      (destruct (negb (gate_open n)); [right; inversion Hp; reflexivity|]);
      (destruct (n_subgraph n); [right; inversion Hp; reflexivity|]); left; exact Hp. }
  - destruct (std_entries_sound c bk n Hg d vals Hs f v1 Hv) as [py [o [t [p [Hd [Ho [Hf [Ht [Hu ->]]]]]]]]].
    exists py, o, t, p. repeat split; assumption.
  - destruct Hv.
Qed.

(* the same for an inlined model: output k (field outputs_k) receives the entry stored under the k-th DECLARED output name *)
Theorem value_right_output_inline c bk n d outs f ot v w :
  n_kind n = KInline -> (forall o, In o (n_out n) -> o_val0 o = None) ->
  construct c bk n (BDict d) = Ok outs -> In (f, ot, Some v, w) outs ->
  exists o py t p, In o (n_out n) /\ o_field o = f /\ dict_get d (o_bname o) = Some py /\ out_type o = Some t /\
                   unwrap_feed c bk t py = Ok p /\ v = normalise (snd p).
Proof.
  intros Hk Hfresh H Hin.
  destruct (construct_attached _ _ _ _ _ _ _ _ _ H Hfresh Hin) as [vals [v1 [Hp [Hv ->]]]].
  unfold propagate in Hp. rewrite Hk in Hp.
  assert (inline_entries c bk (n_out n) d = Ok vals \/ vals = []) as [Hs| ->].
  { destruct (negb (gate_open n)); [right; inversion Hp; reflexivity|].
    destruct bk; [destruct (c_nonefix c); [right; inversion Hp; reflexivity|discriminate]| |]; left; exact Hp. }
  - destruct (inline_entries_sound c bk d _ _ Hs f v1 Hv) as [o [py [t [p [Ho [Hf [Hd [Ht [Hu ->]]]]]]]]].
    exists o, py, t, p. repeat split; assumption.
  - destruct Hv.
Qed.

(* the pinned code cross-maps: an entry stored under the name of an INPUT whose producer calls it "output" is attached
   to this node's output "output", although the dictionary has no entry for "output" at all *)
Definition w_ident : node := mkNode KStandard [mkIn "input" (Some w_t2) true (Some "output")] false
                                    [mkOut "output" "output" (Some w_t2) None None].
Theorem value_right_output_orig_refuted :
  construct cfg_orig BRef w_ident (BDict [("input", PArr EI64 [2])]) = Ok [("output", Some w_t2, Some (VArr EI64 [2]), false)] /\
  construct cfg_fixed BRef w_ident (BDict [("input", PArr EI64 [2])]) = Ok [("output", Some w_t2, None, false)].
Proof. split; vm_compute; reflexivity. Qed.

(* a two-output node with both entries present, in either dictionary order: each output gets its own entry *)
Definition w_topk : node :=
  mkNode KStandard [mkIn "X" (Some (Tensor EF32 (Some [DConst 3]))) true (Some "output"); mkIn "K" (Some (Tensor EI64 (Some [DConst 1]))) true (Some "output")]
         false [mkOut "Values" "Values" (Some (Tensor EF32 (Some [DConst 2]))) None None;
                mkOut "Indices" "Indices" (Some (Tensor EI64 (Some [DConst 2]))) None None].
Example topk_by_name :
  construct cfg_fixed BOrt w_topk (BDict [("Indices", PArr EI64 [2]); ("Values", PArr EF32 [2])]) =
  Ok [("Values", Some (Tensor EF32 (Some [DConst 2])), Some (VArr EF32 [2]), false);
      ("Indices", Some (Tensor EI64 (Some [DConst 2])), Some (VArr EI64 [2]), false)].
Proof. vm_compute; reflexivity. Qed.

(* ------------------------------------------------------------------------------------------------ programs *)
Section ProgC07.
  Variable opk : Type.
  Variable infer : opk -> list vstate -> list (option ty).
  Variable bk : nat -> list vstate -> backend_result.
  Notation step := (step opk).

  Lemma mk_outs_length tys k outs : List.length (mk_outs tys k outs) = List.length outs.
  Proof. revert k. induction outs as [|[f b] r IH]; intros k; cbn; [reflexivity|rewrite IH; reflexivity]. Qed.

  Lemma step_outs_length c b (st : step) env r :
    List.length (step_outs opk infer c b st env r) = match s_cast opk st with Some _ => 1 | None => List.length (s_outs opk st) end.
  Proof.
    destruct (s_cast opk st) as [t|] eqn:Hc; [unfold step_outs; rewrite Hc; reflexivity|].
    transitivity (List.length (map fst (step_outs opk infer c b st env r))); [symmetry; apply map_length|].
    rewrite (step_types opk infer c b st env r Hc), map_length. unfold mk_node. cbn [n_out]. apply mk_outs_length.
  Qed.

  (* a step none of whose operands... : a plain node attaches nothing *)
  Lemma plain_no_values c b (st : step) env r s :
    s_cast opk st = None -> s_kind opk st = KPlain -> In s (step_outs opk infer c b st env r) -> snd s = None.
  Proof.
    intros Hc Hk. unfold step_outs. rewrite Hc.
    assert (propagate c b (mk_node opk infer st env) r = Ok []) as Hp by (unfold propagate; cbn [n_kind mk_node]; rewrite Hk; reflexivity).
    rewrite (construct_no_vals _ _ _ _ Hp), map_map. intros H. apply in_map_iff in H. destruct H as [o [<- Ho]]. cbn [snd].
    apply (mk_outs_fresh _ _ _ _ Ho).
  Qed.

  Definition indep (s : vstate) (d : bool) : Prop := snd s <> None -> d = false.

  Lemma Forall2_repeat_r {A B} (R : A -> B -> Prop) l d : (forall a, In a l -> R a d) -> Forall2 R l (repeat d (List.length l)).
  Proof. induction l as [|a l IH]; intros H; cbn; constructor; [apply H; left; reflexivity|apply IH; intros x Hx; apply H; right; exact Hx]. Qed.

  Lemma step_indep c b (st : step) env dep r :
    wf_step opk st -> Forall2 indep env dep ->
    let d := s_is_arg opk st || existsb (fun a => nth (snd a) dep false) (s_args opk st) in
    forall s, In s (step_outs opk infer c b st env r) -> indep s d.
  Proof.
    intros Hwf0 Hinv d s Hs Hv. pose proof Hwf0 as [Hsrc [Harg Hcast]].
    assert (forall a, In a (s_args opk st) -> snd (get env (snd a)) <> None -> nth (snd a) dep false = false) as Hget.
    { intros a _ Hne. unfold get in Hne.
      apply (Forall2_nth_default indep env dep (None, None) false (snd a)); [intros X; exfalso; apply X; reflexivity|exact Hinv|exact Hne]. }
    destruct (s_cast opk st) as [t|] eqn:Hc.
    - (* unsafe_cast: exactly one operand, whose value is copied *)
      assert (List.length (s_args opk st) = 1) as Hl by (apply Hcast; discriminate).
      assert (s_is_arg opk st = false) as Hna.
      { destruct (s_is_arg opk st) eqn:E; [|reflexivity]. destruct (Harg eq_refl) as [_ [_ X]]. discriminate. }
      unfold step_outs in Hs. rewrite Hc in Hs. unfold ins_of in Hs.
      destruct (s_args opk st) as [|a [|a2 l]] eqn:Ea; try discriminate. cbn in Hs. destruct Hs as [<-|[]]. cbn [snd] in Hv.
      unfold d. rewrite Hna; try rewrite Ea. cbn. rewrite orb_false_r. apply Hget; [try rewrite Ea; left; reflexivity|exact Hv].
    - destruct (existsb (fun a => negb (is_some (snd (get env (snd a))))) (s_args opk st)) eqn:Ex.
      + (* an operand without value: nothing is attached *)
        apply existsb_exists in Ex. destruct Ex as [a [Ha Hn]].
        assert (snd (get env (snd a)) = None) as Hn' by (destruct (snd (get env (snd a))); [discriminate|reflexivity]).
        rewrite (step_no_values opk infer c b st env r Hwf0 Hc (ex_intro _ a (conj Ha Hn'))) in Hs.
        exfalso. apply Hv. apply (typed_only_no_values opk infer st env s Hs).
      + (* all operands carry values: none of them depends on an argument; the node itself is no argument *)
        assert (s_is_arg opk st = false) as Hna.
        { destruct (s_is_arg opk st) eqn:E; [|reflexivity]. destruct (Harg eq_refl) as [Hk _].
          exfalso. apply Hv. apply (plain_no_values c b st env r s Hc Hk Hs). }
        unfold d. rewrite Hna. cbn [orb]. destruct (existsb _ (s_args opk st)) eqn:Ed; [|reflexivity].
        apply existsb_exists in Ed. destruct Ed as [a [Ha Hd]].
        assert (snd (get env (snd a)) <> None) as Hne.
        { intros X. assert (existsb (fun a => negb (is_some (snd (get env (snd a))))) (s_args opk st) = true) as Y.
          { apply existsb_exists. exists a. split; [exact Ha|rewrite X; reflexivity]. }
          rewrite Ex in Y. discriminate. }
        rewrite (Hget a Ha Hne) in Hd. discriminate.
  Qed.

  (* C07: a Var that carries a value has no Argument in its dependency cone – for every program, backend, evaluator,
     fault plan and configuration *)
  Theorem value_input_independent c b fault : forall prog i env dep,
    Forall (wf_step opk) prog -> Forall2 indep env dep ->
    Forall2 indep (fst (run opk infer bk c b fault i prog env)) (deps opk prog dep).
  Proof.
    induction prog as [|st rest IH]; intros i env dep Hwf Hinv; cbn [run deps]; [exact Hinv|].
    inversion Hwf as [|? ? Hst Hrest]; subst.
    set (r := match fault i with Some r0 => r0 | None => bk i (ins_of opk st env) end).
    set (outs := step_outs opk infer c b st env r).
    destruct (run opk infer bk c b fault (S i) rest (env ++ outs)) as [e ok] eqn:E. cbn [fst].
    specialize (IH (S i) (env ++ outs)
                   (dep ++ repeat (s_is_arg opk st || existsb (fun a => nth (snd a) dep false) (s_args opk st))
                                  (match s_cast opk st with Some _ => 1 | None => List.length (s_outs opk st) end)) Hrest).
    rewrite E in IH. apply IH. apply Forall2_app'; [exact Hinv|].
    rewrite <- (step_outs_length c b st env r). apply Forall2_repeat_r. intros s Hs.
    apply (step_indep c b st env dep r Hst Hinv s Hs).
  Qed.

  (* C07: every value of a cast-free program conforms (deep check configuration) to the type reported for its Var *)
  Definition typed_value (s : vstate) : Prop :=
    match s with (Some t, Some v) => conforms t v = true | (None, Some _) => False | _ => True end.

  Lemma step_typed c b (st : step) env r :
    c_deep c = true -> s_cast opk st = None -> forall s, In s (step_outs opk infer c b st env r) -> typed_value s.
  Proof.
    intros Hd Hc s Hs. unfold step_outs in Hs. rewrite Hc in Hs.
    destruct (construct c b (mk_node opk infer st env) r) as [outs|e] eqn:H.
    - apply in_map_iff in Hs. destruct Hs as [[[[f t] v] w] [<- Hin]]. destruct v as [v|]; [|destruct t; exact I].
      assert (forall o, In o (n_out (mk_node opk infer st env)) -> o_val0 o = None) as Hfresh.
      { intros o Ho. apply (mk_outs_fresh _ _ _ _ Ho). }
      destruct (attached_values_conform c b _ r outs Hd Hfresh H f t v w Hin) as [t' [-> Hc']]. exact Hc'.
    - unfold typed_only in Hs. apply in_map_iff in Hs. destruct Hs as [o [<- Ho]].
      rewrite (proj2 (mk_outs_fresh _ _ _ _ Ho)). destruct (out_type o); exact I.
  Qed.

  Theorem value_has_var_type c b fault : forall prog i env,
    c_deep c = true -> Forall (fun st => s_cast opk st = None) prog -> Forall typed_value env ->
    Forall typed_value (fst (run opk infer bk c b fault i prog env)).
  Proof.
    intros prog i env Hd. revert i env. induction prog as [|st rest IH]; intros i env Hnc Hinv; cbn [run]; [exact Hinv|].
    inversion Hnc as [|? ? Hst Hrest]; subst.
    set (r := match fault i with Some r0 => r0 | None => bk i (ins_of opk st env) end).
    destruct (run opk infer bk c b fault (S i) rest (env ++ step_outs opk infer c b st env r)) as [e ok] eqn:E. cbn [fst].
    specialize (IH (S i) (env ++ step_outs opk infer c b st env r) Hrest). rewrite E in IH. apply IH.
    apply Forall_app. split; [exact Hinv|]. apply Forall_forall. apply (step_typed c b st env r Hd Hst).
  Qed.

  (* unsafe_cast copies the operand's value unchanged and reports the given type: the result is well-typed exactly when
     the caller honours the contract ("the real type is compatible with the given one") *)
  Theorem unsafe_cast_copies c b (st : step) env r t :
    s_cast opk st = Some t ->
    step_outs opk infer c b st env r = [(Some t, match ins_of opk st env with s :: _ => snd s | [] => None end)].
  Proof. intros Hc. unfold step_outs. rewrite Hc. reflexivity. Qed.
End ProgC07.

(* ------------------------------------------------------------------------------------------------ Constant *)
Lemma shape_le_self s : shape_le s (Some (map DConst s)) = true.
Proof. unfold shape_le, shape_sub. induction s as [|a s IH]; cbn; [reflexivity|]. rewrite Nat.eqb_refl, IH. reflexivity. Qed.
Lemma dtype_ok_self d e : dtype_ok d e e = true.
Proof. destruct e; reflexivity. Qed.
Lemma dtype_conf_self e : dtype_conf e e = true.
Proof. destruct e; reflexivity. Qed.
Lemma norm_elem_idem e : norm_elem (norm_elem e) = norm_elem e.
Proof. destruct e; reflexivity. Qed.

(* C07: a Constant of any attribute kind (value, value_float(s), value_int(s), value_string(s)) gets exactly the value built
   from its attribute – float32 / int64 / str of the attribute's length, the tensor's own dtype (normalised) and shape –,
   that value conforms to the inferred type, and no backend is consulted *)
Theorem constant_value_typed a c bk r :
  c_strict c = false -> a <> ASparse ->
  exists t v0, constant_type a = Some t /\ constant_value a = Some v0 /\
    construct c bk (constant_node a) r = Ok [("output", Some t, Some (normalise v0), false)] /\ conforms t (normalise v0) = true.
Proof.
  intros Hs Ha. destruct c as [g nf d st]. cbn in Hs. subst st.
  destruct a as [e s| | | |n|n|n|]; try (exfalso; apply Ha; reflexivity); cbn [constant_value constant_type];
    eexists; eexists; (split; [reflexivity|]); (split; [reflexivity|]).
  - unfold construct, propagate, constant_node, attach, mk. cbn.
    change (forallb2 dim_sub (map DConst s) (map DConst s)) with (shape_le s (Some (map DConst s))).
    rewrite shape_le_self, dtype_ok_self, dtype_conf_self. split; reflexivity.
  - split; vm_compute; reflexivity.
  - split; vm_compute; reflexivity.
  - split; vm_compute; reflexivity.
  - unfold construct, propagate, constant_node, attach, mk. cbn. rewrite Nat.eqb_refl. split; reflexivity.
  - unfold construct, propagate, constant_node, attach, mk. cbn. rewrite Nat.eqb_refl. split; reflexivity.
  - unfold construct, propagate, constant_node, attach, mk. cbn. rewrite Nat.eqb_refl. split; reflexivity.
Qed.

(* C07: an initializer carries exactly its array (dtype normalised), typed by the array's own dtype and shape *)
Theorem initializer_value_typed e s c bk r :
  c_strict c = false ->
  construct c bk (initializer_node e s) r
    = Ok [("arg", Some (Tensor (norm_elem e) (Some (map DConst s))), Some (VArr (norm_elem e) s), false)] /\
  conforms (Tensor (norm_elem e) (Some (map DConst s))) (VArr (norm_elem e) s) = true.
Proof.
  intros Hs. destruct c as [g nf d st]. cbn in Hs. subst st.
  unfold construct, propagate, initializer_node, attach, mk. cbn.
  change (forallb2 dim_sub (map DConst s) (map DConst s)) with (shape_le s (Some (map DConst s))).
  rewrite shape_le_self, dtype_ok_self, dtype_conf_self. split; reflexivity.
Qed.
