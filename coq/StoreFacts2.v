(* StoreFacts2.v — more about the Var store around build (C12): what the builder sees DURING a build (each listed Var carries
   the last name requested for it, every other Var its own), that this view and the store afterwards do not depend on how many
   builds — successful or failed — ran before, for any history. *)
From Coq Require Import List String Bool.
From Spox Require Import Base IR Show Build Sem Plan Validate BuildFacts Store StoreFacts.
Import ListNotations.

(* the name the request lists LAST for x, if it lists x at all *)
Fixpoint last_name (inputs : list (string * var)) (x : var) : option string :=
  match inputs with
  | [] => None
  | (name, v) :: t => match last_name t x with Some n => Some n | None => if var_eqb x v then Some name else None end
  end.

Definition during (s : store) (inputs : list (string * var)) : store := snd (save_set [] s inputs).

Lemma save_set_view : forall inputs pre s x,
  snd (save_set pre s inputs) x = match last_name inputs x with Some n => Some n | None => s x end.
Proof.
  induction inputs as [|[name v] t IH]; intros pre s x; cbn [save_set last_name snd]; [reflexivity|].
  rewrite IH. destruct (last_name t x) as [n|]; [reflexivity|].
  unfold upd. destruct (var_eqb x v); reflexivity.
Qed.

(* --- 1. during the build: listed Vars carry the requested name, all others are untouched -------------------- *)
Theorem during_build_names s inputs x :
  during s inputs x = match last_name inputs x with Some n => Some n | None => s x end.
Proof. apply save_set_view. Qed.

Lemma last_name_in : forall inputs x n, last_name inputs x = Some n -> In (n, x) inputs.
Proof.
  induction inputs as [|[name v] t IH]; intros x n H; cbn [last_name] in H; [discriminate|].
  destruct (last_name t x) as [k|] eqn:El.
  - inversion H; subst. right. apply IH. exact El.
  - destruct (var_eqb_spec x v) as [->|]; [|discriminate]. inversion H; subst. now left.
Qed.
Lemma last_name_listed : forall inputs x, In x (map snd inputs) -> exists n, last_name inputs x = Some n /\ In (n, x) inputs.
Proof.
  intros inputs x Hin. assert (H : exists n, last_name inputs x = Some n).
  { induction inputs as [|[name v] t IH]; [destruct Hin|]. cbn [map snd In] in Hin. cbn [last_name].
    destruct (last_name t x) as [k|] eqn:El; [eauto|]. destruct Hin as [->|Hin].
    - rewrite var_eqb_refl. eauto.
    - destruct (IH Hin) as (m & Hm). discriminate. }
  destruct H as (n & Hn). exists n. split; [exact Hn|]. apply last_name_in. exact Hn.
Qed.

Lemma last_name_unlisted : forall inputs x, ~ In x (map snd inputs) -> last_name inputs x = None.
Proof.
  induction inputs as [|[name v] t IH]; intros x Hn; cbn [last_name]; [reflexivity|]. cbn [map snd In] in Hn.
  rewrite IH by (intros Hc; apply Hn; now right).
  destruct (var_eqb_spec x v) as [->|]; [exfalso; apply Hn; now left|reflexivity].
Qed.

Theorem during_build_listed s inputs x : In x (map snd inputs) -> exists n, during s inputs x = Some n /\ In (n, x) inputs.
Proof. intros H. rewrite during_build_names. destruct (last_name_listed inputs x H) as (n & -> & Hi). eauto. Qed.
Theorem during_build_unlisted s inputs x : ~ In x (map snd inputs) -> during s inputs x = s x.
Proof. intros H. rewrite during_build_names, last_name_unlisted by assumption. reflexivity. Qed.

(* --- 2. any history of builds (each may succeed or fail; bodies rename only their own fresh Vars) restores all names ------- *)
Definition build_step (s : store) (r : (store -> store) * list (string * var)) : store := with_renames (fst r) s (snd r).

Theorem history_restores_names (reqs : list ((store -> store) * list (string * var))) :
  Forall (fun r => forall s1 x, fst r s1 x = s1 x) reqs ->
  forall s x, fold_left build_step reqs s x = s x.
Proof.
  induction reqs as [|r t IH]; intros HF s x; cbn [fold_left]; [reflexivity|].
  inversion HF as [|r' t' Hr Ht]; subst. rewrite (IH Ht). unfold build_step. apply build_restores_names. exact Hr.
Qed.

(* --- 3. hence what a build's builder sees is the same after any history as on the untouched store ------------ *)
Theorem view_independent_of_history (reqs : list ((store -> store) * list (string * var))) s inputs :
  Forall (fun r => forall s1 x, fst r s1 x = s1 x) reqs ->
  forall x, during (fold_left build_step reqs s) inputs x = during s inputs x.
Proof.
  intros HF x. rewrite !during_build_names. destruct (last_name inputs x); [reflexivity|]. apply history_restores_names. exact HF.
Qed.

(* non-vacuity *)
Example during_example :
  let x := V (NReal 0) 0 in let y := V (NReal 1) 0 in let z := V (NReal 2) 0 in
  let s := fun v => if var_eqb v z then Some "keep"%string else None in
  let inp := [("a"%string, x); ("b"%string, x); ("c"%string, y)] in
  during s inp x = Some "b"%string /\ during s inp y = Some "c"%string /\ during s inp z = Some "keep"%string /\
  fold_left build_step [((fun s => s), inp); ((fun s => s), [("q"%string, z)])] s z = Some "keep"%string.
Proof. repeat split. Qed.
