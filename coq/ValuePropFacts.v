(* ValuePropFacts.v — proofs about ValueProp.v (node level; C15 and the node-level part of C07). *)
From Coq Require Import List Bool String Arith Lia.
From Spox Require Import ValueProp.
Import ListNotations.
Open Scope string_scope.

(* ------------------------------------------------------------------------------------------------ small facts *)
Lemma elem_beq_refl e : elem_beq e e = true.
Proof. destruct e; reflexivity. Qed.
Lemma elem_beq_eq a b : elem_beq a b = true -> a = b.
Proof. apply internal_elem_dec_bl. Qed.

Lemma mk_nostrict c t v : c_strict c = false -> mk c t v = Ok (t, normalise v).
Proof. intros H. unfold mk. rewrite H. reflexivity. Qed.

Lemma mapM_ok {A B} (f : A -> res B) l : (forall a, In a l -> exists b, f a = Ok b) -> exists bs, mapM f l = Ok bs.
Proof.
  induction l as [|a t IH]; intros H; cbn [mapM]; [eexists; reflexivity|].
  destruct (H a (or_introl eq_refl)) as [b Hb]. rewrite Hb.
  destruct IH as [bs Hbs]; [intros x Hx; apply H; right; exact Hx|]. rewrite Hbs. eexists; reflexivity.
Qed.

Lemma mapM_spec {A B} (f : A -> res B) l bs : mapM f l = Ok bs -> Forall2 (fun a b => f a = Ok b) l bs.
Proof.
  revert bs. induction l as [|a t IH]; intros bs H; cbn [mapM] in H.
  - inversion H. constructor.
  - destruct (f a) as [b|e] eqn:Ha; [|discriminate]. destruct (mapM f t) as [bs'|e] eqn:Ht; [|discriminate].
    inversion H; subst. constructor; [exact Ha|apply IH; reflexivity].
Qed.

(* ------------------------------------------------------------------------------------------------ 1. never fails *)
Lemma std_entries_ok c bk n d : c_guard c = true -> c_strict c = false -> exists l, std_entries c bk n d = Ok l.
Proof.
  intros Hg Hs. induction d as [|[name v] rest [l IH]]; cbn [std_entries]; [eexists; reflexivity|].
  rewrite Hg, Hs. cbn [andb negb]. destruct (std_entry c bk n name v) as [[kv|]|e].
  - rewrite IH. eexists; reflexivity.
  - eexists; exact IH.
  - eexists; exact IH.
Qed.

Lemma inline_entries_ok c bk d outs : c_guard c = true -> c_strict c = false -> exists l, inline_entries c bk outs d = Ok l.
Proof.
  intros Hg Hs. induction outs as [|o rest [l IH]]; cbn [inline_entries]; [eexists; reflexivity|].
  rewrite Hg, Hs. cbn [andb negb]. destruct (dict_get d (o_bname o)) as [v|]; [|eexists; exact IH].
  destruct (inline_entry c bk o v) as [p|e].
  - rewrite IH. eexists; reflexivity.
  - eexists; exact IH.
Qed.

Lemma propagate_ok c bk n r :
  c_guard c = true -> c_nonefix c = true -> c_strict c = false -> exists l, propagate c bk n r = Ok l.
Proof.
  intros Hg Hn Hs. unfold propagate. destruct (n_kind n) as [| |[v|]|]; try (eexists; reflexivity).
  - destruct bk; try (eexists; reflexivity); destruct (negb (gate_open n)); try (eexists; reflexivity);
      destruct (n_subgraph n); try (eexists; reflexivity); apply std_entries_ok; assumption.
  - destruct (negb (gate_open n)); [eexists; reflexivity|].
    destruct bk; [rewrite Hn; eexists; reflexivity| |]; apply inline_entries_ok; assumption.
Qed.

Lemma attach_ok c vals o : c_strict c = false -> exists x, attach c vals o = Ok x.
Proof.
  intros Hs. unfold attach. destruct (out_type o) as [t|]; [|eexists; reflexivity].
  destruct (o_val0 o); [eexists; reflexivity|]. destruct (dict_get vals (o_field o)) as [v|]; [|eexists; reflexivity].
  rewrite (mk_nostrict _ _ _ Hs). cbn [snd]. destruct (check (c_deep c) t (normalise v)); eexists; reflexivity.
Qed.

Theorem construct_never_fails c bk n r :
  c_guard c = true -> c_nonefix c = true -> c_strict c = false -> exists outs, construct c bk n r = Ok outs.
Proof.
  intros Hg Hn Hs. unfold construct. destruct (propagate_ok c bk n r Hg Hn Hs) as [l Hl]. rewrite Hl. cbn [bind].
  apply mapM_ok. intros o _. apply attach_ok. exact Hs.
Qed.

(* the pinned code does fail: one witness per mechanism *)
Definition w_in (t : ty) := mkIn "A" (Some t) true (Some "output").
Definition w_t2 := Tensor EI64 (Some [DConst 2]).
Definition w_add : node := mkNode KStandard [w_in w_t2; mkIn "B" (Some w_t2) true (Some "output")] false
                                  [mkOut "C" "C" (Some w_t2) None None].
Definition w_inline : node := mkNode KInline [mkIn "inputs_0" (Some w_t2) true (Some "output")] false
                                     [mkOut "outputs_0" "y" (Some w_t2) None None].

Theorem construct_fails_orig_list_for_tensor :
  construct cfg_orig BRef w_add (BDict [("C", PList [PArr EI64 [2]; PArr EI64 [2]])]) = Err TypeError_unwrap_sequence
  /\ construct cfg_orig BOrt w_add (BDict [("C", PList [PArr EI64 [2]])]) = Err TypeError_unwrap_sequence.
Proof. split; vm_compute; reflexivity. Qed.
Theorem construct_fails_orig_scalar_ort :
  construct cfg_orig BOrt w_add (BDict [("C", PScalar EF64)]) = Err TypeError_no_handler.
Proof. vm_compute; reflexivity. Qed.
Theorem construct_fails_orig_numpy :
  construct cfg_orig BRef w_add (BDict [("C", POther None)]) = Err NumpyError.
Proof. vm_compute; reflexivity. Qed.
Theorem construct_fails_orig_unknown_name :
  construct cfg_orig BRef w_add (BDict [("D", PArr EI64 [2])]) = Err KeyError_name.
Proof. vm_compute; reflexivity. Qed.
Theorem construct_fails_orig_inline_none :
  construct cfg_orig BNone w_inline (BDict []) = Err RuntimeError_backend.
Proof. vm_compute; reflexivity. Qed.

(* ------------------------------------------------------------------------------------------------ 2. keep rule *)
(* every value attached by this construction passed check against the Var's type; anything else was there before *)
Lemma attach_checked c vals o f ot v w :
  attach c vals o = Ok (f, ot, Some v, w) ->
  (o_val0 o = Some v) \/ (exists t, ot = Some t /\ check (c_deep c) t v = true).
Proof.
  unfold attach. destruct (out_type o) as [t|] eqn:Ht.
  - destruct (o_val0 o) as [v0|] eqn:Hv0.
    + intros H. inversion H; subst. left. reflexivity.
    + destruct (dict_get vals (o_field o)) as [v1|].
      * destruct (mk c t v1) as [p|e]; [|discriminate].
        destruct (check (c_deep c) t (snd p)) eqn:Hc; intros H; inversion H; subst.
        right. exists t. split; [reflexivity|exact Hc].
      * intros H; inversion H.
  - intros H. inversion H; subst. left. reflexivity.
Qed.

Theorem no_nonconforming_value c bk n r outs :
  construct c bk n r = Ok outs ->
  forall f ot v w, In (f, ot, Some v, w) outs ->
    (exists o, In o (n_out n) /\ o_field o = f /\ o_val0 o = Some v) \/ (exists t, ot = Some t /\ check (c_deep c) t v = true).
Proof.
  unfold construct. destruct (propagate c bk n r) as [vals|e]; cbn [bind]; [|discriminate].
  intros H. apply mapM_spec in H. intros f ot v w Hin.
  induction H as [|o x os xs Hox _ IH]; [destruct Hin|].
  destruct Hin as [Hx|Hin].
  - subst x. pose proof Hox as Hox'. apply attach_checked in Hox. destruct Hox as [Hpre|Hc]; [|right; exact Hc].
    left. exists o. split; [left; reflexivity|]. split; [|exact Hpre].
    unfold attach in Hox'. destruct (out_type o); destruct (o_val0 o); try destruct (dict_get vals (o_field o));
      try (inversion Hox'; reflexivity).
    destruct (mk c t p) as [q|e]; [|discriminate]. destruct (check (c_deep c) t (snd q)); inversion Hox'; reflexivity.
  - destruct (IH Hin) as [[o' [Ho' R]]|R]; [left; exists o'; split; [right; exact Ho'|exact R]|right; exact R].
Qed.

(* deep check implies the independent conformance predicate *)
Lemma dtype_ok_conf ev et : dtype_ok true ev et = true -> dtype_conf ev et = true.
Proof. destruct ev, et; cbn; intros H; try reflexivity; try discriminate. Qed.

(* induction principle for the nested value type *)
Section PvalInd.
  Variable P : pval -> Prop.
  Hypothesis Harr : forall e s, P (VArr e s).
  Hypothesis Hlist : forall l, Forall (fun p => P (snd p)) l -> P (VList l).
  Hypothesis Hsome : forall t v, P v -> P (VSome t v).
  Hypothesis Hnothing : P VNothing.
  Fixpoint pval_ind' (v : pval) : P v :=
    match v with
    | VArr e s => Harr e s
    | VList l => Hlist l ((fix go (l : list (ty * pval)) : Forall (fun p => P (snd p)) l :=
                             match l with [] => Forall_nil _ | (t, x) :: r => @Forall_cons _ (fun p => P (snd p)) (t, x) r (pval_ind' x) (go r) end) l)
    | VSome t x => Hsome t x (pval_ind' x)
    | VNothing => Hnothing
    end.
End PvalInd.

Lemma check_deep_conforms : forall v t, check true t v = true -> conforms t v = true.
Proof.
  induction v as [e s|l IH|t' v IH|] using pval_ind'; intros t Hc.
  - destruct t as [e0 sh|x|x]; cbn in *; try discriminate.
    apply andb_prop in Hc. destruct Hc as [A B]. rewrite A, (dtype_ok_conf _ _ B). reflexivity.
  - destruct t as [e0 sh|x|x]; cbn in *; try discriminate.
    rewrite forallb_forall in *. intros [te ve] Hp. specialize (Hc _ Hp). cbn in Hc.
    apply andb_prop in Hc. destruct Hc as [A B]. rewrite Forall_forall in IH. specialize (IH _ Hp). cbn [snd] in *.
    apply IH. exact B.
  - destruct t as [e0 sh|x|x]; cbn in *; try discriminate. apply IH. exact Hc.
  - destruct t as [e0 sh|x|x]; cbn in *; try discriminate. reflexivity.
Qed.

Theorem attached_values_conform c bk n r outs :
  c_deep c = true -> (forall o, In o (n_out n) -> o_val0 o = None) ->
  construct c bk n r = Ok outs ->
  forall f ot v w, In (f, ot, Some v, w) outs -> exists t, ot = Some t /\ conforms t v = true.
Proof.
  intros Hd Hfresh H f ot v w Hin.
  destruct (no_nonconforming_value c bk n r outs H f ot v w Hin) as [[o [Ho [_ Hv]]]|[t [Ht Hc]]].
  - rewrite (Hfresh o Ho) in Hv. discriminate.
  - exists t. split; [exact Ht|]. rewrite Hd in Hc. apply check_deep_conforms. exact Hc.
Qed.

(* the pinned (shallow) check lets non-conforming payloads through: witnesses *)
Definition w_seq_t := Sequence w_t2.
Definition w_seq : node := mkNode KStandard [w_in w_t2] false [mkOut "output_sequence" "output_sequence" (Some w_seq_t) None None].
Definition w_opt : node := mkNode KStandard [w_in w_t2] false [mkOut "output" "output" (Some (Optional w_t2)) None None].
Definition w_str_t := Tensor EStr (Some [DConst 2]).
Definition w_ident_str : node := mkNode KStandard [mkIn "input" (Some w_str_t) true (Some "xx")] false
                                         [mkOut "output" "output" (Some w_str_t) None None].
Theorem shallow_check_attaches_nonconforming :
  (exists v, construct cfg_f5 BRef w_seq (BDict [("output_sequence", PList [PArr EF32 [2]; PArr EF32 [2]])])
             = Ok [("output_sequence", Some w_seq_t, Some v, false)] /\ conforms w_seq_t v = false) /\
  (exists v, construct cfg_f5 BOrt w_opt (BDict [("output", PArr EF32 [3])])
             = Ok [("output", Some (Optional w_t2), Some v, false)] /\ conforms (Optional w_t2) v = false) /\
  (exists v, construct cfg_f5 BRef w_ident_str (BDict [("output", PArr EObjOther [2])])
             = Ok [("output", Some w_str_t, Some v, false)] /\ conforms w_str_t v = false).
Proof. repeat split; eexists; split; vm_compute; reflexivity. Qed.

(* ------------------------------------------------------------------------------------------------ 3. types *)
Lemma attach_type c vals o x : attach c vals o = Ok x -> (fst (fst (fst x)), snd (fst (fst x))) = (o_field o, out_type o).
Proof.
  unfold attach. destruct (out_type o) as [t|]; [|intros H; inversion H; reflexivity].
  destruct (o_val0 o); [intros H; inversion H; reflexivity|].
  destruct (dict_get vals (o_field o)) as [v|]; [|intros H; inversion H; reflexivity].
  destruct (mk c t v) as [p|e]; [|discriminate]. destruct (check (c_deep c) t (snd p)); intros H; inversion H; reflexivity.
Qed.

Lemma construct_types c bk n r outs : construct c bk n r = Ok outs -> out_types outs = typing n.
Proof.
  unfold construct. destruct (propagate c bk n r) as [vals|e]; cbn [bind]; [|discriminate].
  intros H. apply mapM_spec in H. unfold out_types, typing.
  induction H as [|o x os xs Hox _ IH]; [reflexivity|]. cbn [map]. rewrite IH. f_equal.
  apply attach_type in Hox. destruct x as [[[f t] v] w]. exact Hox.
Qed.

Theorem types_unaffected_at_node c1 c2 bk1 bk2 n r1 r2 o1 o2 :
  construct c1 bk1 n r1 = Ok o1 -> construct c2 bk2 n r2 = Ok o2 -> out_types o1 = out_types o2.
Proof. intros H1 H2. rewrite (construct_types _ _ _ _ _ H1), (construct_types _ _ _ _ _ H2). reflexivity. Qed.

(* ------------------------------------------------------------------------------------------------ 4. NONE *)
Lemma attach_no_vals c o : c_strict c = false \/ True -> attach c [] o = Ok (o_field o, out_type o, o_val0 o, false).
Proof.
  intros _. unfold attach. cbn [dict_get rev find]. destruct (out_type o); destruct (o_val0 o); reflexivity.
Qed.

Theorem none_backend_no_values c n r :
  (n_kind n = KStandard \/ (n_kind n = KInline /\ c_nonefix c = true)) ->
  construct c BNone n r = Ok (map (fun o => (o_field o, out_type o, o_val0 o, false)) (n_out n)).
Proof.
  intros Hk. unfold construct.
  assert (propagate c BNone n r = Ok []) as Hp.
  { unfold propagate. destruct Hk as [Hk|[Hk Hn]]; rewrite Hk; [reflexivity|].
    destruct (negb (gate_open n)); [reflexivity|]. rewrite Hn. reflexivity. }
  rewrite Hp. cbn [bind]. induction (n_out n) as [|o os IH]; [reflexivity|].
  cbn [mapM map]. rewrite attach_no_vals by (right; exact I). rewrite IH. reflexivity.
Qed.

(* examples: the fault-free run attaches, the faulty ones drop *)
Example add_ok :
  construct cfg_fixed BRef w_add (BDict [("C", PArr ELongLong [2])]) = Ok [("C", Some w_t2, Some (VArr EI64 [2]), false)].
Proof. vm_compute; reflexivity. Qed.
Example add_faults_dropped :
  map (fun v => construct cfg_fixed BOrt w_add (BDict [("C", v)]))
      [PList [PArr EI64 [2]; PArr EI64 [2]]; PScalar EF64; PNone; PArr EF32 [2]; PArr EI64 [3]; POther None]
  = [Ok [("C", Some w_t2, None, false)]; Ok [("C", Some w_t2, None, false)]; Ok [("C", Some w_t2, None, true)];
     Ok [("C", Some w_t2, None, true)]; Ok [("C", Some w_t2, None, true)]; Ok [("C", Some w_t2, None, false)]].
Proof. vm_compute; reflexivity. Qed.
Example seq_deep_dropped :
  construct cfg_fixed BRef w_seq (BDict [("output_sequence", PList [PArr EF32 [2]; PArr EF32 [2]])])
  = Ok [("output_sequence", Some w_seq_t, None, true)].
Proof. vm_compute; reflexivity. Qed.
