(* Validate.v — executable validators that the model applies to its own output (ghost checks: the real code has no
   counterpart; when one fails the model answers EInternal, which can never match the implementation's outcome, so a
   disagreement is reported).  Their soundness w.r.t. declarative statements is proved in BuildFacts.v.  No proofs here. *)
From Coq Require Import List String NArith Arith Bool.
From Spox Require Import Base IR Show Build Sem Plan Named.
Import ListNotations.
Open Scope string_scope.

(* ---------- names defined anywhere in the model ---------- *)
Fixpoint defs_raw (n : mraw) : list string :=
  match n with MRaw _ _ _ _ o sl =>
    (nonempty o ++ flat_map (fun ks => match snd ks with
                                       | Some (MRawGraph gi ginit b _) => gi ++ ginit ++ flat_map defs_raw b
                                       | None => [] end) sl)%list end.
Fixpoint defs_node (n : mnode) : list string :=
  match n with
  | MNode _ _ _ _ _ o al =>
      (nonempty o ++ flat_map (fun ka => match snd ka with Some g => defs_graph g | None => [] end) al)%list
  | MInit nm _ => [nm]
  | MIntro _ _ _ o => o
  | MInline _ _ _ _ b => flat_map defs_raw b
  end
with defs_graph (g : mgraph) : list string :=
  match g with MGraph gi b _ => (map fst gi ++ flat_map defs_node b)%list end.

Fixpoint names_raw (n : mraw) : list string :=
  match n with MRaw nm _ _ _ _ sl =>
    (nm :: flat_map (fun ks => match snd ks with Some (MRawGraph _ _ b _) => flat_map names_raw b | None => [] end) sl)%list end.
Fixpoint names_node (n : mnode) : list string :=
  match n with
  | MNode nm _ _ _ _ _ al => (nm :: flat_map (fun ka => match snd ka with Some g => names_graph g | None => [] end) al)%list
  | MInit _ _ => []
  | MIntro nm _ i _ => map (fun k => nm ++ "_id" ++ decn k) (seqn 0 (List.length i))
  | MInline _ _ _ _ b => flat_map names_raw b
  end
with names_graph (g : mgraph) : list string :=
  match g with MGraph _ b _ => flat_map names_node b end.

Definition global_unique (g : mgraph) : bool := nodupb String.eqb (defs_graph g).
Definition node_names_unique (g : mgraph) : bool := nodupb String.eqb (nonempty (names_graph g)).
Definition imports_unique (m : model) : bool := nodupb String.eqb (map fst (mimports m)).
Definition floor_ok (m : model) : bool :=
  match lookup String.eqb "" (mimports m) with Some v => Nat.leb 14 v | None => false end.

(* ---------- emitted-once: source nodes of everything emitted ---------- *)
Fixpoint srcs_node (n : mnode) : list nref :=
  match n with
  | MNode _ _ _ u _ _ al => (u :: flat_map (fun ka => match snd ka with Some g => srcs_graph g | None => [] end) al)%list
  | MInit _ u => [u]
  | MIntro _ u _ _ => [u]
  | MInline _ u _ _ _ => [u]
  end
with srcs_graph (g : mgraph) : list nref :=
  match g with MGraph _ b _ => flat_map srcs_node b end.

Definition reachable (p : prog) (main : nat) : list nref :=
  filter (fun u => negb (is_arg p u)) (postorder (2 * fuel_of p) (full_adj p) (NIntro main)).
Definition emitted_once (p : prog) (g : mgraph) : bool :=
  let s := srcs_graph g in
  nodupb nref_eqb s && forallb (fun u => mem nref_eqb u (reachable p 0)) s && forallb (fun u => mem nref_eqb u s) (reachable p 0).

(* ---------- placement: every value sits in the innermost graph enclosing all of its uses ---------- *)
(* path (root first) of the graph in which each source node was emitted; graphs are identified by the NIntro that closes them *)
Definition graph_id (g : mgraph) : option nat :=
  match g with MGraph _ b _ => match last (map Some b) None with Some (MIntro _ (NIntro k) _ _) => Some k | _ => None end end.
Fixpoint paths_node (pre : list nat) (n : mnode) : list (nref * list nat) :=
  match n with
  | MNode _ _ _ u _ _ al =>
      ((u, pre) :: flat_map (fun ka => match snd ka with Some g => paths_graph pre g | None => [] end) al)%list
  | MInit _ u => [(u, pre)]
  | MIntro _ u _ _ => [(u, pre)]
  | MInline _ u _ _ _ => [(u, pre)]
  end
with paths_graph (pre : list nat) (g : mgraph) : list (nref * list nat) :=
  match g with MGraph _ b _ =>
    let me := (pre ++ [match graph_id g with Some k => k | None => 0 end])%list in
    flat_map (paths_node me) b end.

Fixpoint lcp (a b : list nat) : list nat :=
  match a, b with x :: a', y :: b' => if Nat.eqb x y then x :: lcp a' b' else [] | _, _ => [] end.
Definition lcp_all (ps : list (list nat)) : option (list nat) :=
  match ps with [] => None | q :: t => Some (fold_left lcp t q) end.
Fixpoint is_prefix (a b : list nat) : bool :=
  match a, b with [] , _ => true | x :: a', y :: b' => Nat.eqb x y && is_prefix a' b' | _, _ => false end.

(* consumers of u among the emitted nodes: nodes having u among their inputs; a graph's result identity consumes its results *)
Definition consumers (p : prog) (emitted : list nref) (u : nref) : list nref :=
  filter (fun w => mem nref_eqb u (deps p w)) emitted.
Definition placed (p : prog) (g : mgraph) : bool :=
  let paths := paths_graph [] g in
  let emitted := map fst paths in
  forallb (fun up : nref * list nat =>
    let '(u, pu) := up in
    match u with
    | NIntro _ => true            (* result identities sit in their own graph by construction of paths *)
    | NReal _ =>
      let cps := flat_map (fun w => match lookup nref_eqb w paths with Some q => [q] | None => [] end) (consumers p emitted u) in
      match lcp_all cps with
      | None => false             (* emitted but never used *)
      | Some l => list_eqb Nat.eqb l pu
      end
    end) paths.

(* ---------- requested inputs / outputs ---------- *)
Definition io_exact (p : prog) (inputs outputs : list (string * var)) (drop : bool) (used : list var) (g : mgraph) : bool :=
  match g with MGraph gi _ go_ =>
    let want_in := if drop then filter (fun kv => mem var_eqb (snd kv) used) inputs else inputs in
    list_eqb String.eqb (map fst gi) (map fst want_in) &&
    list_eqb String.eqb (map snd gi) (map (fun kv => match vty p (snd kv) with Some t => tshow t | None => "?" end) want_in) &&
    list_eqb String.eqb (map fst go_) (map fst outputs) &&
    list_eqb String.eqb (map snd go_) (map (fun kv => match vty p (snd kv) with Some t => tshow t | None => "?" end) outputs)
  end.

(* arguments on which some requested output depends, through inputs and through subgraph results at any depth *)
Definition depends_on (p : prog) (main : nat) : list var :=
  map argvar (filter (is_arg p) (postorder (2 * fuel_of p) (full_adj p) (NIntro main))).

(* ---------- inlined blocks: the emitted nodes are the foreign graph under a consistent, injective renaming ---------- *)
Fixpoint zipo {A B} (a : list A) (b : list B) : option (list (A * B)) :=
  match a, b with
  | [], [] => Some []
  | x :: a', y :: b' => option_map (cons (x, y)) (zipo a' b')
  | _, _ => None end.
Definition oapp {A} (a b : option (list A)) : option (list A) :=
  match a, b with Some x, Some y => Some (x ++ y)%list | _, _ => None end.
(* pairs (original value name, emitted value name) in traversal order; None when the structures differ *)
Fixpoint alpha_node (n : onode) (r : mraw) {struct n} : option (list (string * string)) :=
  match n, r with ONode _ op dom i o al, MRaw _ op' dom' i' o' al' =>
    if negb (String.eqb op op' && String.eqb dom dom') then None else
    oapp (oapp (zipo i i') (zipo o o'))
         ((fix go (l : list (string * option ograph)) (l' : list (string * option mrawgraph)) {struct l} : option (list (string * string)) :=
             match l, l' with
             | [], [] => Some []
             | (k, None) :: t, (k', None) :: t' => if String.eqb k k' then go t t' else None
             | (k, Some g) :: t, (k', Some g') :: t' => if String.eqb k k' then oapp (alpha_graph g g') (go t t') else None
             | _, _ => None end) al al')
  end
with alpha_graph (g : ograph) (r : mrawgraph) {struct g} : option (list (string * string)) :=
  match g, r with OGraph gi gin b go_ _, MRawGraph gi' gin' b' go' =>
    oapp (oapp (oapp (zipo gi gi') (zipo gin gin'))
               ((fix go (l : list onode) (l' : list mraw) {struct l} : option (list (string * string)) :=
                   match l, l' with
                   | [], [] => Some []
                   | n :: t, n' :: t' => oapp (alpha_node n n') (go t t')
                   | _, _ => None end) b b'))
         (zipo go_ go')
  end.
Definition pair_functional (ps : list (string * string)) : bool :=
  forallb (fun a => forallb (fun b => implb (String.eqb (fst a) (fst b)) (String.eqb (snd a) (snd b))) ps) ps.
Definition pair_injective (ps : list (string * string)) : bool :=
  forallb (fun a => forallb (fun b => implb (String.eqb (snd a) (snd b)) (String.eqb (fst a) (fst b)) || String.eqb (snd a) "") ps) ps.
(* inputs of the foreign graph are renamed to the operand names, outputs to the result names, "" stays "" *)
Definition alpha_ok (om : ograph) (ins_names outs_names : list string) (body : list mraw) : bool :=
  match om with OGraph gi _ b go_ _ =>
    match (fix go (l : list onode) (l' : list mraw) {struct l} : option (list (string * string)) :=
             match l, l' with
             | [], _ => Some []                           (* trailing Identity nodes for pass-through outputs *)
             | n :: t, n' :: t' => oapp (alpha_node n n') (go t t')
             | _, _ => None end) b body with
    | None => false
    | Some ps =>
      let ps_in := combine gi ins_names in
      (* an output that is also an input is named after the operand *)
      let ps_out := filter (fun kv => negb (mem String.eqb (fst kv) gi)) (combine go_ outs_names) in
      let all := (ps_in ++ ps_out ++ ps)%list in
      (* injectivity is required of the names that are internal to the block (two inputs may be bound to one operand) *)
      pair_functional all && pair_injective (filter (fun kv => negb (mem String.eqb (fst kv) gi)) ps) &&
      forallb (fun kv => String.eqb (fst kv) "" && String.eqb (snd kv) "" || negb (String.eqb (fst kv) "") && negb (String.eqb (snd kv) "")) ps
    end
  end.
Fixpoint inlines_node (n : mnode) : list (nref * list string * list string * list mraw) :=
  match n with
  | MInline _ u i o b => [(u, i, o, b)]
  | MNode _ _ _ _ _ _ al => flat_map (fun ka => match snd ka with Some g => inlines_graph g | None => [] end) al
  | _ => [] end
with inlines_graph (g : mgraph) : list (nref * list string * list string * list mraw) :=
  match g with MGraph _ b _ => flat_map inlines_node b end.
Definition inline_blocks_alpha (p : prog) (m : model) : bool :=
  forallb (fun x => match x with (u, i, o, b) =>
     match u with
     | NReal n => match kind (getn p n) with KInline om _ => alpha_ok om i o b | _ => false end
     | NIntro _ => false end end)
   (inlines_graph (mmain m) ++ flat_map (fun f => flat_map inlines_node (f_body f)) (mfunctions m))%list.

(* ---------- functions ---------- *)
Definition key_eqb (a b : string * string) := String.eqb (fst a) (fst b) && String.eqb (snd a) (snd b).
Definition func_key_of (p : prog) (u : nref) : option (string * string) :=
  match u with
  | NReal n => match kind (getn p n) with KFunc _ _ _ _ => Some (domain (getn p n), ident (getn p n)) | _ => None end
  | NIntro _ => None end.
Definition fkeys (m : model) : list (string * string) := map (fun f => (f_domain f, f_name f)) (mfunctions m).
Definition all_srcs (m : model) : list nref :=
  (srcs_graph (mmain m) ++ flat_map (fun f => flat_map srcs_node (f_body f)) (mfunctions m))%list.
Definition used_fkeys (p : prog) (m : model) : list (string * string) :=
  flat_map (fun u => match func_key_of p u with Some k => [k] | None => [] end) (all_srcs m).
(* exactly one definition per used (domain, name): call sites in the main graph, in control-flow bodies and in other functions *)
Definition functions_exact (p : prog) (m : model) : bool :=
  nodupb key_eqb (fkeys m) && forallb (fun k => mem key_eqb k (fkeys m)) (used_fkeys p m) &&
  forallb (fun k => mem key_eqb k (used_fkeys p m)) (fkeys m).
(* a function's opset imports cover the requirements of every node of its body *)
Definition covered (imports : list (string * nat)) (dv : string * nat) : bool :=
  existsb (fun iv => String.eqb (fst iv) (fold_domain (fst dv)) && Nat.leb (snd dv) (snd iv)) imports.
Definition function_imports_cover (p : prog) (m : model) : bool :=
  forallb (fun f => forallb (fun u => forallb (covered (f_imports f)) (node_req p u)) (flat_map srcs_node (f_body f))) (mfunctions m).
(* each function body is a well-formed linearisation of its body graph *)
Definition function_plans (p : prog) (m : model) : bool :=
  forallb (fun f => check_plan p (f_bodyid f) (MGraph [] (f_body f) [])) (mfunctions m).

(* ---------- the checked public build ---------- *)
(* the distinct input Vars, in their order of first occurrence (one Var may be listed under two names: such a request can
   only succeed when that Var is dropped as unused) *)
Definition main_args (inputs : list (string * var)) : list var :=
  fold_left (fun acc kv => add_set var_eqb (snd kv) acc) inputs [].
(* the arguments of the emitted main graph: all distinct inputs, or with drop_unused_inputs those some output depends on *)
Definition request_args (p : prog) (r : request) (inputs outputs : list (string * var)) : list var :=
  let pre := with_main p (Some (main_args inputs)) outputs in
  if r_drop r then filter (fun v => mem var_eqb v (depends_on pre 0)) (main_args inputs) else main_args inputs.
Definition final_prog (p : prog) (r : request) (inputs outputs : list (string * var)) : prog :=
  with_main p (Some (request_args p r inputs outputs)) outputs.

Definition validators (p : prog) (r : request) (m : model) : bool :=
  match all_vars (r_inputs r), all_vars (r_outputs r) with
  | Some inputs, Some outputs =>
    let p' := final_prog p r inputs outputs in
    global_unique (mmain m) && node_names_unique (mmain m) && imports_unique m && floor_ok m &&
    emitted_once p' (mmain m) && placed p' (mmain m) && check_plan p' 0 (mmain m) &&
    functions_exact p' m && function_imports_cover p' m && function_plans p' m && inline_blocks_alpha p' m &&
    names_ok p' 0 (mmain m) &&
    io_exact p' inputs outputs (r_drop r) (depends_on p' 0) (mmain m)
  | _, _ => false end.

Definition build_checked (p : prog) (r : request) : res model :=
  do m <- build_public p r ;;
  if validators p r m then ret m else raise EInternal.
