(* SettingsFacts.v — proofs about Settings.v (C16). *)
From Coq Require Import List Arith Bool.
From Spox Require Import Settings.
Import ListNotations.

Lemma set_get s k : set s k (get s k) = s.
Proof. destruct s as [[a b] c]. destruct k as [|[|k]]; reflexivity. Qed.
Lemma set_set s k v w : set (set s k v) k w = set s k w.
Proof. destruct s as [[a b] c]. destruct k as [|[|k]]; reflexivity. Qed.
Lemma get_set_same s k v : get (set s k v) k = v.
Proof. destruct s as [[a b] c]. destruct k as [|[|k]]; reflexivity. Qed.
Lemma get_set_other s k j v : (match k, j with 0, 0 => False | 1, 1 => False | S (S _), S (S _) => False | _, _ => True end) ->
  get (set s k v) j = get s j.
Proof. destruct s as [[a b] c]. destruct k as [|[|k]], j as [|[|j]]; simpl; tauto. Qed.

(* induction principle for the nested type *)
Section Ind.
  Variable P : prog -> Prop.
  Hypothesis Hblock : forall k v body, Forall P body -> P (Block k v body).
  Hypothesis Hraise : forall e, P (Raise e).
  Hypothesis Htry : forall body, Forall P body -> P (Try body).
  Hypothesis Hset : forall k v, P (SetG k v).
  Hypothesis Hobs : P Obs.
  Hypothesis Hnop : P Nop.
  Fixpoint prog_ind' (p : prog) : P p :=
    let go := fix go (l : list prog) : Forall P l :=
      match l with [] => Forall_nil _ | q :: t => Forall_cons _ (prog_ind' q) (go t) end in
    match p with
    | Block k v body => Hblock k v body (go body)
    | Raise e => Hraise e
    | Try body => Htry body (go body)
    | SetG k v => Hset k v
    | Obs => Hobs
    | Nop => Hnop
    end.
End Ind.

(* --- 1. scoped programs restore ALL settings, on every outcome -------------------------------------------- *)
Lemma run_seq_cur (l : list prog) :
  Forall (fun p => scoped p = true -> forall s, cur (fst (exec s p)) = cur s) l ->
  forallb scoped l = true -> forall s, cur (fst (run_seq exec s l)) = cur s.
Proof.
  induction l as [|q t IH]; intros HF Hs s; cbn [run_seq]; [reflexivity|].
  inversion HF as [|q' t' Hq Ht]; subst. cbn [forallb] in Hs. apply andb_prop in Hs. destruct Hs as [Hsq Hst].
  specialize (Hq Hsq s). destruct (exec s q) as [s' o]. cbn [fst] in Hq.
  destruct o; [|exact Hq]. rewrite (IH Ht Hst s'). exact Hq.
Qed.

Lemma exec_scoped_restores : forall p, scoped p = true -> forall s, cur (fst (exec s p)) = cur s.
Proof.
  induction p as [k v body IH|e|body IH|k v| |] using prog_ind'; intros Hsc s; cbn [exec]; try reflexivity.
  - cbn [scoped] in Hsc. pose proof (run_seq_cur body IH Hsc (upd s k v)) as H.
    destruct (run_seq exec (upd s k v) body) as [s' o]. cbn [fst] in *.
    unfold upd in *. cbn [cur] in *. rewrite H, set_set. apply set_get.
  - cbn [scoped] in Hsc. pose proof (run_seq_cur body IH Hsc s) as H.
    destruct (run_seq exec s body) as [s' o]. exact H.
  - discriminate.
Qed.

Theorem prog_scoped_restores l : forallb scoped l = true -> forall s, cur (fst (run_seq exec s l)) = cur s.
Proof.
  intros H. apply run_seq_cur; [|exact H]. apply Forall_forall. intros p _. apply exec_scoped_restores.
Qed.

(* --- 2. a block restores ITS setting whatever the body does (global setters included) ------------------- *)
Theorem block_restores_own_setting k v body s : get (cur (fst (exec s (Block k v body)))) k = get (cur s) k.
Proof.
  cbn [exec]. destruct (run_seq exec (upd s k v) body) as [s' o]. cbn [fst]. unfold upd. cbn [cur]. apply get_set_same.
Qed.

(* --- 3. inside the block the setting is the requested one ---------------------------------------------- *)
Theorem inside_sees_setting k v rest s :
  exists s1, exec (upd s k v) Obs = (s1, Normal) /\ hd (0,0,0) (log s1) = set (cur s) k v /\
  fst (exec s (Block k v (Obs :: rest))) = upd (fst (run_seq exec s1 rest)) k (get (cur s) k).
Proof.
  eexists. split; [reflexivity|]. split; [reflexivity|].
  cbn [exec run_seq]. destruct (run_seq exec _ rest) as [s' o]. reflexivity.
Qed.

(* --- 4. the outcome of a block is the outcome of its body: exceptions propagate unchanged --------------- *)
Theorem block_outcome k v body s : snd (exec s (Block k v body)) = snd (run_seq exec (upd s k v) body).
Proof. cbn [exec]. destruct (run_seq exec (upd s k v) body) as [s' o]. reflexivity. Qed.

(* --- 5. observations are only appended --------------------------------------------------------------- *)
Lemma run_seq_log (l : list prog) :
  Forall (fun p => forall s, exists n, log (fst (exec s p)) = n ++ log s) l ->
  forall s, exists n, log (fst (run_seq exec s l)) = n ++ log s.
Proof.
  induction l as [|q t IH]; intros HF s; cbn [run_seq]; [exists []; reflexivity|].
  inversion HF as [|q' t' Hq Ht]; subst. destruct (Hq s) as [n1 H1]. destruct (exec s q) as [s' o]. cbn [fst] in H1.
  destruct o; [|exists n1; exact H1]. destruct (IH Ht s') as [n2 H2]. exists (n2 ++ n1). rewrite H2, H1. apply app_assoc.
Qed.
Lemma exec_log : forall p s, exists n, log (fst (exec s p)) = n ++ log s.
Proof.
  induction p as [k v body IH|e|body IH|k v| |] using prog_ind'; intros s; cbn [exec].
  - destruct (run_seq_log body IH (upd s k v)) as [n H]. destruct (run_seq exec (upd s k v) body) as [s' o]. exists n. exact H.
  - exists []. reflexivity.
  - destruct (run_seq_log body IH s) as [n H]. destruct (run_seq exec s body) as [s' o]. exists n. exact H.
  - exists []. reflexivity.
  - exists [cur s]. reflexivity.
  - exists []. reflexivity.
Qed.

(* --- 6. the unprotected managers do NOT have the property: refutation with a witness --------------------- *)
Theorem nofinally_refuted : exists p s, scoped p = true /\ cur (fst (exec_nofinally s (Try [p]))) <> cur s.
Proof. exists (Block 0 7 [Raise 0]), (mkst (0,0,0) []). split; [reflexivity|]. vm_compute. discriminate. Qed.

(* non-vacuity: a non-trivial scoped program, raising inside two nested blocks of different settings *)
Example scoped_example :
  let p := [Block 0 3 [Obs; Try [Block 1 2 [Obs; Block 2 1 [Raise 4]; Obs]]; Obs]; Obs] in
  forallb scoped p = true /\ run_prog (0,1,2) p = ((0,1,2), Normal, [(3,1,2); (3,2,2); (3,1,2); (0,1,2)]).
Proof. split; reflexivity. Qed.
