(* StoreFacts.v — build leaves every Var's name as it found it (C12). *)
From Coq Require Import List String Bool.
From Spox Require Import Base IR Show Build Sem Plan Validate BuildFacts Store.
Import ListNotations.

Lemma var_eqb_refl v : var_eqb v v = true.
Proof. destruct (var_eqb_spec v v); congruence. Qed.
Lemma upd_same s v n : upd s v n v = n.
Proof. unfold upd. now rewrite var_eqb_refl. Qed.
Lemma upd_other s v n x : x <> v -> upd s v n x = s x.
Proof. unfold upd. intros H. destruct (var_eqb_spec x v); congruence. Qed.

(* invariant of the save loop: the saved table holds the ORIGINAL name of each saved Var, once; unsaved Vars are untouched *)
Definition SaveInv (s0 : store) (pre : list (var * option string)) (s : store) : Prop :=
  NoDup (map fst pre) /\ (forall v n, In (v, n) pre -> n = s0 v) /\ (forall x, ~ In x (map fst pre) -> s x = s0 x).

Lemma save_set_inv s0 : forall inputs pre s, SaveInv s0 pre s ->
  let '(pre', s') := save_set pre s inputs in SaveInv s0 pre' s'.
Proof.
  induction inputs as [|[name v] t IH]; intros pre s (Hnd & Hval & Hout); cbn [save_set]; [repeat split; assumption|].
  apply IH. destruct (mem var_eqb v (map fst pre)) eqn:Em.
  - apply (mem_In var_eqb var_eqb_spec) in Em. repeat split; try assumption.
    intros x Hx. rewrite upd_other; [auto|]. intros ->. contradiction.
  - apply (mem_nIn var_eqb var_eqb_spec) in Em. repeat split.
    + rewrite map_app. simpl. apply NoDup_app_snoc; assumption.
    + intros w n Hin. apply in_app_or in Hin. destruct Hin as [Hin|[Hin|[]]]; [eauto|]. inversion Hin; subst. now apply Hout.
    + intros x Hx. rewrite map_app in Hx. simpl in Hx. rewrite upd_other; [apply Hout|].
      * intros Hc. apply Hx. apply in_or_app. now left.
      * intros ->. apply Hx. apply in_or_app. right. now left.
Qed.

Lemma restore_spec : forall pre s, NoDup (map fst pre) ->
  forall x, restore pre s x = match lookup var_eqb x pre with Some n => n | None => s x end.
Proof.
  unfold restore. induction pre as [|[v n] t IH]; intros s Hnd x; simpl; [reflexivity|].
  inversion Hnd as [|a l Hnin Hnd']; subst. rewrite IH by assumption. unfold lookup. simpl.
  destruct (var_eqb_spec x v) as [->|Hne].
  - simpl. assert (Hl : find (fun kv => var_eqb v (fst kv)) t = None).
    { apply find_none_intro. intros [w m] Hw. simpl. destruct (var_eqb_spec v w); [subst; exfalso; apply Hnin; apply in_map_iff; exists (w, m); auto|reflexivity]. }
    unfold lookup in *. rewrite Hl. simpl. apply upd_same.
  - destruct (find (fun kv => var_eqb x (fst kv)) t); simpl; [reflexivity|]. now apply upd_other.
Qed.

(* Whatever the builder does to Vars the caller does not hold (body), and whatever the outcome, every Var of the caller's store
   has its original name afterwards — also when one Var is listed under several input names. *)
Theorem build_restores_names (body : store -> store) s inputs :
  (forall s1 x, body s1 x = s1 x) ->
  forall x, with_renames body s inputs x = s x.
Proof.
  intros Hbody x. unfold with_renames.
  pose proof (save_set_inv s inputs [] s) as H. destruct (save_set [] s inputs) as [pre s1].
  assert (H0 : SaveInv s [] s) by (split; [simpl; apply NoDup_nil|split; [intros v n []|reflexivity]]).
  specialize (H H0). destruct H as (Hnd & Hval & Hout).
  rewrite restore_spec by assumption. unfold lookup. destruct (find (fun kv => var_eqb x (fst kv)) pre) as [[w n]|] eqn:Ef; simpl.
  - apply find_some in Ef. destruct Ef as [Hin He]. simpl in He. destruct (var_eqb_spec x w); [subst|discriminate]. now apply Hval.
  - rewrite Hbody. apply Hout. intros Hc. apply in_map_iff in Hc. destruct Hc as ([w n] & Hw & Hin). simpl in Hw. subst.
    pose proof (find_none _ _ Ef _ Hin) as Ef'. simpl in Ef'. now rewrite var_eqb_refl in Ef'.
Qed.

(* the pinned tree's save (overwrite) does NOT restore when a Var is listed twice: witness build({'a': x, 'b': x}) *)
Theorem overwrite_save_refuted : exists s inputs x, with_renames_overwrite (fun s => s) s inputs x <> s x.
Proof.
  exists (fun _ => None), [("a"%string, V (NReal 0) 0); ("b"%string, V (NReal 0) 0)], (V (NReal 0) 0).
  vm_compute. discriminate.
Qed.

Example restore_example :
  let x := V (NReal 0) 0 in let y := V (NReal 1) 0 in
  let s := fun v => if var_eqb v y then Some "keep"%string else None in
  with_renames (fun s => s) s [("a"%string, x); ("b"%string, x); ("c"%string, y)] x = None /\
  with_renames (fun s => s) s [("a"%string, x); ("b"%string, x); ("c"%string, y)] y = Some "keep"%string.
Proof. split; reflexivity. Qed.
