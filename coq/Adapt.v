(* Adapt.v — opset requirements and the best-effort adaptation decision (src/spox/_adapt.py adapt_best_effort,
   src/spox/_graph.py get_adapted_nodes / get_opsets, src/spox/_schemas.py max_opset_policy).
   The version converter itself is an oracle; what is modelled is WHICH nodes are handed to it, from which version to which.
   [schema_differs] comes from a table regenerated from spox._schemas.SCHEMAS on every run (per node: the target versions at which
   the operator's schema differs from the one it was written for).  No proofs here. *)
From Coq Require Import List String NArith Arith Bool.
From Spox Require Import Base IR Show Build Validate.
Import ListNotations.
Open Scope string_scope.

(* requirements of a node; a function node also requires what its body requires (Function.opset_req) *)
Fixpoint node_req_full (fuel : nat) (p : prog) (funs : list mfunction) (u : nref) : req :=
  match fuel with O => node_req p u | S f =>
    match func_key_of p u with
    | Some k =>
        match find (fun fn => key_eqb (f_domain fn, f_name fn) k) funs with
        | Some fn => (node_req p u ++ flat_map (node_req_full f p funs) (flat_map srcs_node (f_body fn)))%list
        | None => node_req p u end
    | None => node_req p u end
  end.
(* requirements of everything emitted in a graph, nested graphs included (= BuildResult.opset_req of that graph) *)
Definition graph_req_f (p : prog) (funs : list mfunction) (g : mgraph) : req :=
  fold_left (fun acc u => union req_eqb acc (node_req_full (S (List.length funs)) p funs u)) (srcs_graph g) [].
Definition graph_req (p : prog) (g : mgraph) : req := graph_req_f p [] g.

Definition version_of (imports : list (string * nat)) (d : string) : option nat := lookup String.eqb (fold_domain d) imports.

Inductive decision := Keep | Convert (src tgt : nat) | WarnForeign (src tgt : nat).

(* adapt_best_effort for an ordinary node (not Inline): [differs t] = the schema at version t differs from the node's own *)
Definition adapt_decision (p : prog) (imports : list (string * nat)) (differs : nat -> bool) (n : mnode) : decision :=
  match n with
  | MNode _ _ dom (NReal k) _ _ al =>
      match kind (getn p k) with
      | KOp =>
        if existsb (fun ka => match snd ka with Some _ => true | None => false end) al then Keep      (* nodes with subgraphs *)
        else match version_of imports dom with
             | None => Keep
             | Some tgt =>
                 let src := version (getn p k) in
                 if Nat.eqb src tgt then Keep
                 else if negb (differs tgt) then Keep                                               (* same schema object *)
                 else if String.eqb (fold_domain dom) "" then Convert src tgt else WarnForeign src tgt
             end
      | _ => Keep          (* internal nodes: arguments, initializers, functions *)
      end
  | _ => Keep
  end.

(* adapt_inline: the block is converted iff the inlined model's own default-domain import differs from the target *)
Definition inline_decision (imports model_imports : list (string * nat)) (has_default_nodes : bool) : decision :=
  match version_of imports "", lookup String.eqb "" (max_opset_policy model_imports) with
  | Some tgt, Some src => if negb has_default_nodes then Keep else if Nat.eqb src tgt then Keep else Convert src tgt
  | _, _ => Keep
  end.

(* the decisions of one graph level (its own nodes) and, recursively, of its nested graphs, each against ITS OWN requirements *)
Section Decide.
Variable p : prog.
Variable differs : nat -> nat -> bool.          (* node index, target version *)
Variable funs : list mfunction.
Fixpoint decisions_graph (fuel : nat) (extra : req) (g : mgraph) : list (nref * decision) :=
  match fuel with O => [] | S f =>
  match g with MGraph _ b _ =>
    let imports := max_opset_policy (graph_req_f p funs g ++ extra)%list in
    flat_map (fun n =>
      match n with
      | MNode _ _ _ u _ _ al =>
          ((u, adapt_decision p imports (match u with NReal k => differs k | _ => fun _ => false end) n) ::
           flat_map (fun ka => match snd ka with Some sg => decisions_graph f [] sg | None => [] end) al)%list
      | MInline _ (NReal k) _ _ body =>
          match kind (getn p k) with
          | KInline _ mi =>
              [(NReal k, inline_decision imports mi
                           (existsb (fun r => match r with MRaw _ _ d _ _ _ => String.eqb (fold_domain d) "" end) body))]
          | _ => [] end
      | _ => [] end) b
  end end.
End Decide.

Definition decisions (p : prog) (differs : nat -> nat -> bool) (m : model) : list (nref * decision) :=
  filter (fun ud => match snd ud with Keep => false | _ => true end)
         (decisions_graph p differs (mfunctions m) (S (size_graph (mmain m))) [] (mmain m) ++
          flat_map (fun f => decisions_graph p differs (mfunctions m) (S (size_graph (MGraph [] (f_body f) []))) (mimports m) (MGraph [] (f_body f) []))
                   (mfunctions m))%list.
