(* AdaptFacts.v — one opset import per domain, the maximum requested, never below the floor (C09). Algorithmic proofs about
   max_opset_policy itself (no validator involved). *)
From Coq Require Import List String NArith Arith Bool Lia OrderedTypeEx.
From Spox Require Import Base IR Show Build Sem Plan Validate BuildFacts Adapt.
Import ListNotations.

(* insert_sorted keeps the domains strictly increasing, hence duplicate-free *)
Definition lt_all (d : string) (l : list (string * nat)) := forall x, In x l -> String.ltb d (fst x) = true.
Inductive sorted : list (string * nat) -> Prop :=
| sorted_nil : sorted []
| sorted_cons d v l : lt_all d l -> sorted l -> sorted ((d, v) :: l).

Lemma ltb_lt a b : String.ltb a b = true <-> String_as_OT.lt a b.
Proof. unfold String.ltb. rewrite <- String_as_OT.cmp_lt. unfold String_as_OT.cmp. destruct (String.compare a b); split; congruence. Qed.
Lemma ltb_irrefl s : String.ltb s s = false.
Proof. destruct (String.ltb s s) eqn:E; [|reflexivity]. apply ltb_lt in E. exfalso. exact (String_as_OT.lt_not_eq _ _ E eq_refl). Qed.
Lemma ltb_trans a b c : String.ltb a b = true -> String.ltb b c = true -> String.ltb a c = true.
Proof. rewrite !ltb_lt. apply String_as_OT.lt_trans. Qed.
Lemma ltb_total a b : a <> b -> String.ltb a b = false -> String.ltb b a = true.
Proof. unfold String.ltb. intros Hne. destruct (String.compare a b) eqn:E; try discriminate.
  - apply String.compare_eq_iff in E. contradiction.
  - intros _. rewrite String.compare_antisym, E. reflexivity. Qed.

Lemma insert_sorted_in d v l x : In x (insert_sorted d v l) -> fst x = d \/ In (fst x) (map fst l).
Proof. induction l as [|[d' v'] t IH]; simpl.
  - intros [<-|[]]. now left.
  - destruct (String.eqb_spec d d') as [->|Hne].
    + intros [<-|H]; [now left|right; right; now apply in_map].
    + destruct (String.ltb d d').
      * intros [<-|[<-|H]]; [now left|right; now left|right; right; now apply in_map].
      * intros [<-|H]; [right; now left|]. destruct (IH H) as [E|E]; [now left|right; now right]. Qed.

Lemma insert_sorted_sorted d v l : sorted l -> sorted (insert_sorted d v l).
Proof. induction 1 as [|d' v' t Hlt Hs IH]; simpl; [repeat constructor; intros x []|].
  destruct (String.eqb_spec d d') as [->|Hne]; [constructor; assumption|].
  destruct (String.ltb d d') eqn:El.
  - constructor; [|constructor; assumption]. intros x [<-|Hx]; [exact El|]. eapply ltb_trans; [exact El|now apply Hlt].
  - constructor; [|exact IH]. intros x Hx. destruct (insert_sorted_in _ _ _ _ Hx) as [E|E].
    + rewrite E. now apply ltb_total.
    + apply in_map_iff in E. destruct E as [y [Ey Hy]]. rewrite <- Ey. now apply Hlt. Qed.

Lemma sorted_NoDup l : sorted l -> NoDup (map fst l).
Proof. induction 1 as [|d v t Hlt Hs IH]; simpl; constructor; [|assumption].
  intros Hc. apply in_map_iff in Hc. destruct Hc as [x [Ex Hx]]. specialize (Hlt x Hx). rewrite Ex, ltb_irrefl in Hlt. discriminate. Qed.

Lemma policy_sorted r : forall acc, sorted acc -> sorted (fold_left (fun acc dv => insert_sorted (fold_domain (fst dv)) (snd dv) acc) r acc).
Proof. induction r as [|[d v] t IH]; simpl; intros acc H; [assumption|]. apply IH. now apply insert_sorted_sorted. Qed.

(* exactly one import per domain *)
Theorem policy_one_per_domain r : NoDup (map fst (max_opset_policy r)).
Proof. apply sorted_NoDup. apply policy_sorted. constructor. Qed.

(* lookup after one insertion *)
Lemma lookup_cons {B} d0 d (v : B) l : lookup String.eqb d0 ((d, v) :: l) = if String.eqb d0 d then Some v else lookup String.eqb d0 l.
Proof. unfold lookup. simpl. destruct (String.eqb d0 d); reflexivity. Qed.
Lemma lookup_absent d l : lt_all d l -> lookup String.eqb d l = (None : option nat).
Proof. intros H. unfold lookup. rewrite find_none_intro; [reflexivity|]. intros x Hx. apply String.eqb_neq. intros E.
  specialize (H x Hx). rewrite <- E, ltb_irrefl in H. discriminate. Qed.

Lemma lookup_insert d v l d0 : sorted l ->
  lookup String.eqb d0 (insert_sorted d v l) =
  if String.eqb d0 d then Some (match lookup String.eqb d l with Some v' => Nat.max v v' | None => v end) else lookup String.eqb d0 l.
Proof.
  induction 1 as [|d' v' t Hlt Hs IH]; cbn [insert_sorted].
  - rewrite lookup_cons. reflexivity.
  - destruct (String.eqb_spec d d') as [->|Hne].
    + rewrite !lookup_cons, String.eqb_refl. destruct (String.eqb d0 d'); reflexivity.
    + destruct (String.ltb d d') eqn:El.
      * rewrite !lookup_cons. destruct (String.eqb_spec d0 d) as [->|Hn0]; [|reflexivity].
        assert (Hd : String.eqb d d' = false) by (now apply String.eqb_neq). rewrite Hd.
        rewrite lookup_absent; [reflexivity|]. intros x Hx. eapply ltb_trans; [exact El|now apply Hlt].
      * rewrite !lookup_cons, IH. destruct (String.eqb_spec d0 d') as [->|Hn0].
        -- assert (Hd : String.eqb d' d = false) by (apply String.eqb_neq; congruence). now rewrite Hd.
        -- destruct (String.eqb d0 d); [|reflexivity].
           assert (Hd : String.eqb d d' = false) by (now apply String.eqb_neq). now rewrite Hd.
Qed.

(* the imported version of a domain is the maximum over all requirements of that domain (ai.onnx folded into "") *)
Lemma policy_lookup r : forall acc d0, sorted acc ->
  lookup String.eqb d0 (fold_left (fun acc dv => insert_sorted (fold_domain (fst dv)) (snd dv) acc) r acc) =
  fold_left (fun o dv => if String.eqb d0 (fold_domain (fst dv)) then Some (match o with Some v' => Nat.max (snd dv) v' | None => snd dv end) else o)
            r (lookup String.eqb d0 acc).
Proof.
  induction r as [|[d v] t IH]; simpl; intros acc d0 Hs; [reflexivity|].
  rewrite IH by (now apply insert_sorted_sorted). f_equal. rewrite lookup_insert by assumption.
  destruct (String.eqb_spec d0 (fold_domain d)) as [->|Hne]; reflexivity.
Qed.

Lemma fold_max_spec d0 r : forall o,
  let res := fold_left (fun o dv => if String.eqb d0 (fold_domain (fst dv)) then Some (match o with Some v' => Nat.max (snd dv) v' | None => snd dv end) else o) r o in
  (forall v0, o = Some v0 -> exists v, res = Some v /\ v0 <= v) /\
  (forall dv, In dv r -> fold_domain (fst dv) = d0 -> exists v, res = Some v /\ snd dv <= v) /\
  (forall v, res = Some v -> o = Some v \/ exists dv, In dv r /\ fold_domain (fst dv) = d0 /\ snd dv = v).
Proof.
  induction r as [|[d v] t IH]; simpl; intros o.
  - repeat split; [intros v0 ->; eauto|intros dv []|intros v ->; now left].
  - destruct (String.eqb_spec d0 (fold_domain d)) as [E|Hne].
    + destruct (IH (Some (match o with Some v' => Nat.max v v' | None => v end))) as (H1 & H2 & H3). repeat split.
      * intros v0 ->. destruct (H1 _ eq_refl) as [w [Hw Hle]]. exists w. split; [assumption|lia].
      * intros dv [<-|Hin] Ed; [|eauto]. simpl. destruct (H1 _ eq_refl) as [w [Hw Hle]]. exists w. split; [assumption|destruct o; lia].
      * intros w Hw. destruct (H3 w Hw) as [Ho|[dv [Hin [Ed Ev]]]].
        -- inversion Ho as [Hm]. destruct o as [v'|].
           ++ destruct (Nat.max_spec v v') as [[_ Em]|[_ Em]]; rewrite Em in *.
              ** now left.
              ** right. exists (d, v). repeat split; auto.
           ++ right. exists (d, v). repeat split; auto.
        -- right. exists dv. repeat split; auto.
    + destruct (IH o) as (H1 & H2 & H3). repeat split; auto.
      * intros dv [<-|Hin] Ed; [simpl in Ed; congruence|eauto].
      * intros w Hw. destruct (H3 w Hw) as [Ho|[dv [Hin [Ed Ev]]]]; [now left|right; exists dv; auto].
Qed.

(* the import of a domain is at least every requirement of that domain and is attained by one of them *)
Theorem policy_is_max r d0 v : lookup String.eqb d0 (max_opset_policy r) = Some v ->
  (forall dv, In dv r -> fold_domain (fst dv) = d0 -> snd dv <= v) /\ (exists dv, In dv r /\ fold_domain (fst dv) = d0 /\ snd dv = v).
Proof.
  unfold max_opset_policy. rewrite policy_lookup by constructor. change (lookup String.eqb d0 []) with (@None nat). intros H.
  destruct (fold_max_spec d0 r None) as (_ & H2 & H3). cbn zeta in H2, H3. split.
  - intros dv Hin Ed. destruct (H2 dv Hin Ed) as [w [Hw Hle]]. rewrite H in Hw. inversion Hw; subst. exact Hle.
  - destruct (H3 v H) as [Hc|Hex]; [discriminate|exact Hex].
Qed.
(* every required domain is imported *)
Theorem policy_covers r dv : In dv r -> exists v, lookup String.eqb (fold_domain (fst dv)) (max_opset_policy r) = Some v /\ snd dv <= v.
Proof.
  intros Hin. unfold max_opset_policy. rewrite policy_lookup by constructor. change (lookup String.eqb (fold_domain (fst dv)) []) with (@None nat).
  destruct (fold_max_spec (fold_domain (fst dv)) r None) as (_ & H2 & _). cbn zeta in H2. exact (H2 dv Hin eq_refl).
Qed.

(* nodes that are never converted *)
Theorem custom_domain_never_converted p imports differs n : 
  match n with MNode _ _ dom _ _ _ _ => fold_domain dom <> ""%string | _ => True end ->
  forall s t, adapt_decision p imports differs n <> Convert s t.
Proof.
  destruct n as [nm op dom u i o al| | |]; simpl; try discriminate. intros Hd s t.
  destruct u as [k|g]; [|discriminate]. destruct (kind (getn p k)); try discriminate.
  destruct (existsb _ al); [discriminate|]. destruct (version_of imports dom); [|discriminate].
  destruct (Nat.eqb _ _); [discriminate|]. destruct (negb _); [discriminate|].
  destruct (String.eqb_spec (fold_domain dom) ""); [contradiction|discriminate].
Qed.
Theorem same_version_never_converted p imports differs nm op dom k i o al :
  version_of imports dom = Some (version (getn p k)) -> adapt_decision p imports differs (MNode nm op dom (NReal k) i o al) = Keep.
Proof. simpl. intros H. destruct (kind (getn p k)); try reflexivity. destruct (existsb _ al); [reflexivity|]. rewrite H, Nat.eqb_refl. reflexivity. Qed.
