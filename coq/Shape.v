(* Shape.v — model of src/spox/_shape.py (C13).  No proofs in this file.

   Natural       : Constant(n) | Unknown(label) ; Unknown('') == Unknown()           -> [dim]  (DC n | DN s (s <> "") | DA)
   simple form   : int | str | None                                                   -> [sdim]
   Natural.from_simple / to_simple                                                    -> [dim_of_simple] / [simple_of_dim]
   Natural.__le__ (Unknown.__le__ = True ; Constant.__le__ = other is Unknown or ==)  -> [dim_le]
   Shape         : dims = None (rank unknown) | tuple of Natural                      -> [shape] = option (list dim)
   Shape.__le__                                                                       -> [shape_le]
   _broadcast_elem                                                                    -> [bce]
   Shape.broadcast (swap so that rank a <= rank b, prepend (1,)*k, zip, ShapeError)   -> [broadcast]
   Runtime side (the specification the static judgements are measured against):
   concrete shapes are lists of naturals, [conf]/[conf_shape] say when a concrete shape conforms to a static one,
   [np_broadcast] is numpy's broadcasting rule, written independently of [broadcast] (right-aligned by reversal,
   no padding). *)
From Coq Require Import List String ZArith NArith Bool.
Import ListNotations.
Open Scope Z_scope.

(* ---------------------------------------------------------------- dimensions *)
Inductive dim := DC (n : Z) | DN (s : string) | DA.
Inductive sdim := SInt (n : Z) | SStr (s : string) | SNone.

(* Natural.from_simple: int -> Constant, str -> Unknown(label), None -> Unknown(); Unknown('') IS Unknown() *)
Definition dim_of_simple (v : sdim) : dim :=
  match v with SInt n => DC n | SStr s => if String.eqb s "" then DA else DN s | SNone => DA end.
(* Natural.to_simple: Unknown -> None if not label else label *)
Definition simple_of_dim (d : dim) : sdim :=
  match d with DC n => SInt n | DN s => if String.eqb s "" then SNone else SStr s | DA => SNone end.

(* canonical representation: a label is never the empty string *)
Definition canon_dim (d : dim) : bool := match d with DN s => negb (String.eqb s "") | _ => true end.

(* dataclass equality of Natural *)
Definition dim_eqb (a b : dim) : bool :=
  match a, b with DC x, DC y => Z.eqb x y | DN s, DN t => String.eqb s t | DA, DA => true | _, _ => false end.

(* x <= y :  Unknown.__le__ -> True ; Constant.__le__ -> isinstance(other, Unknown) or self == other *)
Definition dim_le (x y : dim) : bool :=
  match x with
  | DC a => match y with DC b => Z.eqb a b | _ => true end
  | _ => true
  end.

(* ---------------------------------------------------------------- shapes *)
Definition shape := option (list dim).

Fixpoint all2 {A B} (f : A -> B -> bool) (a : list A) (b : list B) : bool :=
  match a, b with x :: a', y :: b' => f x y && all2 f a' b' | _, _ => true end.   (* all(f(x,y) for x,y in zip(a,b)) *)

Fixpoint list_eqb {A} (f : A -> A -> bool) (a b : list A) : bool :=
  match a, b with [] , [] => true | x :: a', y :: b' => f x y && list_eqb f a' b' | _, _ => false end.

Definition shape_eqb (a b : shape) : bool :=
  match a, b with None, None => true | Some x, Some y => list_eqb dim_eqb x y | _, _ => false end.

Definition shape_le (a b : shape) : bool :=
  match a, b with
  | Some x, Some y => Nat.eqb (List.length x) (List.length y) && all2 dim_le x y
  | _, _ => true
  end.

Definition canon_shape (s : shape) : bool := match s with None => true | Some l => forallb canon_dim l end.
Definition shape_of_simple (s : option (list sdim)) : shape := option_map (map dim_of_simple) s.
Definition simple_of_shape (s : shape) : option (list sdim) := option_map (map simple_of_dim) s.

(* ---------------------------------------------------------------- broadcasting (static) *)
(* _broadcast_elem(x, y) on simple elements; raising ShapeError = None *)
Definition bce (x y : dim) : option dim :=
  if dim_eqb x y then Some x else
  if dim_eqb x (DC 1) then Some y else
  if dim_eqb y (DC 1) then Some x else
  match x, y with
  | DC a, DC b => None
  | DC a, _ => Some x
  | _, DC b => Some y
  | _, _ => Some DA
  end.

(* tuple(f(x, y) for x, y in zip(a, b)) where f may raise *)
Fixpoint map2o {A B C} (f : A -> B -> option C) (a : list A) (b : list B) : option (list C) :=
  match a, b with
  | x :: a', y :: b' =>
      match f x y with
      | Some z => match map2o f a' b' with Some r => Some (z :: r) | None => None end
      | None => None
      end
  | _, _ => Some []
  end.

Fixpoint mapo {A B} (f : A -> option B) (a : list A) : option (list B) :=
  match a with
  | [] => Some []
  | x :: a' => match f x with Some z => match mapo f a' with Some r => Some (z :: r) | None => None end | None => None end
  end.

Inductive bres := BShape (s : shape) | BRaise.

Definition align (x y : list dim) : list dim * list dim :=
  let '(x', y') := if Nat.ltb (List.length y) (List.length x) then (y, x) else (x, y) in
  ((repeat (DC 1) (List.length y' - List.length x') ++ x')%list, y').

Definition broadcast (a b : shape) : bres :=
  match a, b with
  | Some x, Some y =>
      let '(x', y') := align x y in
      match map2o bce x' y' with Some r => BShape (Some r) | None => BRaise end
  | _, _ => BShape None
  end.

(* ---------------------------------------------------------------- runtime side *)
Definition conf (n : N) (d : dim) : Prop := match d with DC k => Z.of_N n = k | _ => True end.
Definition conf_shape (sh : list N) (s : shape) : Prop :=
  match s with None => True | Some l => Forall2 conf sh l end.

(* boolean versions (used by the correspondence harness and for Examples) *)
Definition confb (n : N) (d : dim) : bool := match d with DC k => Z.eqb (Z.of_N n) k | _ => true end.
Definition conf_shapeb (sh : list N) (s : shape) : bool :=
  match s with None => true | Some l => Nat.eqb (List.length sh) (List.length l) && all2 confb sh l end.

(* numpy on one axis *)
Definition npb (a b : N) : option N :=
  if N.eqb a b then Some a else if N.eqb a 1 then Some b else if N.eqb b 1 then Some a else None.

(* numpy.broadcast_shapes on two shapes: align at the trailing axis; a missing axis takes the other operand's size *)
Fixpoint npb_rev (a b : list N) : option (list N) :=
  match a, b with
  | [], _ => Some b
  | _, [] => Some a
  | x :: a', y :: b' =>
      match npb x y, npb_rev a' b' with Some z, Some r => Some (z :: r) | _, _ => None end
  end.
Definition np_broadcast (a b : list N) : option (list N) := option_map (@rev N) (npb_rev (rev a) (rev b)).

(* the all-constant static shape of a concrete shape *)
Definition cshape (sh : list N) : list dim := map (fun n => DC (Z.of_N n)) sh.
Definition all_const (l : list dim) : bool := forallb (fun d => match d with DC n => Z.leb 0 n | _ => false end) l.

(* well-formed: constant dimensions are naturals (the class is called Natural; the constructor does not check) *)
Definition wf_dim (d : dim) : bool := match d with DC n => Z.leb 0 n | _ => true end.
Definition wf_shape (s : shape) : bool := match s with None => true | Some l => forallb wf_dim l end.
