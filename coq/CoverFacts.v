(* CoverFacts.v — the opset imports of a built model COVER every node it contains, BY CONSTRUCTION (no validator): the loop step that
   emits a node also records the node's requirement (domain, version); requirements of subgraphs are merged into the enclosing graph's;
   the model imports the maximum per domain (AdaptFacts.policy_covers).  Holds for every emitted source node of the main graph and of
   every nested body at any depth: operators, function calls (domain and version of the call), inlined models (all of the inlined
   model's imports) and result identities.  (C09 / C02) *)
From Coq Require Import List String NArith Arith Bool Lia.
From Spox Require Import Base IR Show Build Sem Plan Named Validate BuildFacts CompilePres ScopeFacts AdaptFacts ReqFacts.
Import ListNotations.
Open Scope list_scope.

Section Cover.
Variables (p : prog) (un : names) (args_of : nat -> list var) (own_of : nat -> list nref)
          (fbuild : nat -> nat -> res (list mnode * req * list fdesc)).

(* every requirement of every source node in [srcs] is recorded in rq *)
Definition Cv (srcs : list nref) (rq : req) : Prop := forall u, In u srcs -> forall dv, In dv (node_req p u) -> has rq dv.
Lemma Cv_mono srcs rq rq' : (forall dv, has rq dv -> has rq' dv) -> Cv srcs rq -> Cv srcs rq'.
Proof. intros Hm Hc u Hu dv Hd. apply Hm. exact (Hc u Hu dv Hd). Qed.
Lemma Cv_app a b rq : Cv a rq -> Cv b rq -> Cv (a ++ b) rq.
Proof. intros Ha Hb u Hu. apply in_app_or in Hu. destruct Hu as [Hu|Hu]; [exact (Ha u Hu)|exact (Hb u Hu)]. Qed.
Lemma Cv_nil rq : Cv [] rq. Proof. intros u []. Qed.
Lemma Cv_one u rq : (forall dv, In dv (node_req p u) -> has rq dv) -> Cv [u] rq.
Proof. intros H w [<-|[]]. exact H. Qed.

Definition al_srcs (al : list (String.string * option mgraph)) : list nref :=
  flat_map (fun ka => match snd ka with Some g => srcs_graph g | None => [] end) al.
Definition accC (acc : list mnode * scope * req * list fdesc * list fdesc) : Prop :=
  let '(ms, s, rq, fs, sfs) := acc in Cv (flat_map srcs_node ms) rq.

Lemma has_union_mono a b : forall dv, has a dv -> has (union req_eqb a b) dv.
Proof. intros dv H. now apply has_union_l. Qed.

Section Step.
Variable rec : scope -> nat -> String.string -> option bool -> res (mgraph * scope * req * list fdesc).
Hypothesis Hrec : forall s g pre vi mg s' rq fs, rec s g pre vi = inl (mg, s', rq, fs) -> Cv (srcs_graph mg) rq.

Lemma attr_fold_C nm : forall l a0 al sz rqz fz,
  foldM (fun (acc : list (String.string * option mgraph) * scope * req * list fdesc) (ka : String.string * attrv) =>
           let '(l, s, rq, fs) := acc in
           match snd ka with
           | AVal _ => ret ((l ++ [(fst ka, None)])%list, s, rq, fs)
           | AGraph sub =>
             do r <- rec s sub (nm ++ "_" ++ fst ka ++ "__")%string (Some false) ;;
             let '(mg, s', rq', fs') := r in
             ret ((l ++ [(fst ka, Some mg)])%list, s', union req_eqb rq rq', (fs ++ fs')%list)
           end) l a0 = inl (al, sz, rqz, fz) ->
  Cv (al_srcs (fst (fst (fst a0)))) (snd (fst a0)) -> (forall dv, has (snd (fst a0)) dv -> has rqz dv) /\ Cv (al_srcs al) rqz.
Proof. induction l as [|ka t IH]; intros [[[l0 sa] rqa] fsa] al sz rqz fz H Hc; cbn [foldM] in H; cbn [fst snd] in Hc |- *.
  - inversion H; subst. split; [auto|exact Hc].
  - apply bind_ok in H. destruct H as [[[[l1 s1] rq1] fs1] [Hk H]].
    assert (Hstep : (forall dv, has rqa dv -> has rq1 dv) /\ Cv (al_srcs l1) rq1).
    { destruct (snd ka) as [sub|x].
      - apply bind_ok in Hk. destruct Hk as [[[[mg0 sb] rqb] fsb] [Hcm Hk]]. inversion Hk; subst. split; [apply has_union_mono|].
        unfold al_srcs. rewrite flat_map_app. cbn. rewrite app_nil_r. apply Cv_app.
        + eapply Cv_mono; [apply has_union_mono|exact Hc].
        + intros u Hu dv Hd. apply has_union_r. apply has_In. exact (Hrec _ _ _ _ _ _ _ _ Hcm u Hu dv Hd).
      - inversion Hk; subst. split; [auto|]. unfold al_srcs. rewrite flat_map_app. cbn. rewrite app_nil_r. exact Hc. }
    destruct Hstep as [Hm1 Hc1]. destruct (IH (l1, s1, rq1, fs1) al sz rqz fz H Hc1) as [Hm2 Hc2]. cbn [fst snd] in Hm2.
    split; [intros dv Hd; apply Hm2; apply Hm1; exact Hd|exact Hc2].
Qed.

Lemma srcs_snoc ms n : flat_map srcs_node (ms ++ [n]) = flat_map srcs_node ms ++ srcs_node n.
Proof. rewrite flat_map_app. cbn. now rewrite app_nil_r. Qed.

Lemma step_C prefix acc u acc' : compile_step p un fbuild rec prefix acc u = inl acc' -> accC acc -> accC acc'.
Proof.
  destruct acc as [[[[ms s] rq] fs] sfs]. destruct acc' as [[[[ms' s'] rq'] fs'] sfs']. intros Hu Hc. unfold accC in *. unfold compile_step in Hu.
  destruct (is_arg p u) eqn:Ea; [inversion Hu; subst; exact Hc|].
  destruct u as [n|g'].
  - apply bind_ok in Hu. destruct Hu as [[rqm fsm] [Hmeta Hu]].
    assert (Hm : (forall dv, has rq dv -> has rqm dv) /\ (forall dv, In dv (node_req p (NReal n)) -> has rqm dv)).
    { cbn [node_req]. destruct (kind (getn p n)) eqn:Hk.
      - inversion Hmeta; subst. split; [apply has_union_mono|intros dv []].
      - inversion Hmeta; subst. split; [apply has_union_mono|intros dv []].
      - inversion Hmeta; subst. split; [apply has_union_mono|]. intros dv Hd. apply has_union_r. cbn [node_req]. rewrite Hk. exact Hd.
      - inversion Hmeta; subst. split; [apply has_union_mono|]. intros dv Hd. apply has_union_r. cbn [node_req]. rewrite Hk. exact Hd.
      - apply bind_ok in Hmeta. destruct Hmeta as [[[bn brq] bfs] [_ Hmeta]]. inversion Hmeta; subst. split.
        + intros dv Hd. apply has_union_l. first [apply has_union_l; exact Hd | apply has_add_set; exact Hd].
        + intros dv Hd. apply has_union_l. destruct Hd as [<-|[]].
          first [apply has_add_set_new | apply has_union_r; now left]. }
    destruct Hm as [Hm Hnew].
    apply bind_ok in Hu. destruct Hu as [s2 [_ Hu]].
    destruct (kind (getn p n)) as [| | |om imp|body fi fo fa] eqn:Hk.
    + inversion Hu; subst. exact Hc.
    + apply bind_ok in Hu. destruct Hu as [o [_ Hu]]. inversion Hu; subst. rewrite srcs_snoc. cbn [srcs_node].
      apply Cv_app; [eapply Cv_mono; eauto|apply Cv_one; exact Hnew].
    + apply bind_ok in Hu. destruct Hu as [nm [_ Hu]]. apply bind_ok in Hu. destruct Hu as [inn [_ Hu]].
      apply bind_ok in Hu. destruct Hu as [outn [_ Hu]]. apply bind_ok in Hu. destruct Hu as [[[[al s3] rq3] sfs3] [Hsg Hu]].
      inversion Hu; subst. destruct (attr_fold_C nm _ ([], s2, rqm, sfs) _ _ _ _ Hsg (Cv_nil _)) as [Hm3 Hc3]. cbn [fst snd] in Hm3.
      rewrite srcs_snoc. cbn [srcs_node]. apply Cv_app; [eapply Cv_mono; [|exact Hc]; intros dv Hd; apply Hm3; apply Hm; exact Hd|].
      change (Cv ([NReal n] ++ al_srcs al) rq'). apply Cv_app; [apply Cv_one; intros dv Hd; apply Hm3; apply Hnew; exact Hd|exact Hc3].
    + apply bind_ok in Hu. destruct Hu as [nm [_ Hu]]. destruct om as [gi gin body go_ vi].
      apply bind_ok in Hu. destruct Hu as [[ri sri] [_ Hu]]. apply bind_ok in Hu. destruct Hu as [[rb srb] [_ Hu]].
      apply bind_ok in Hu. destruct Hu as [[ro sro] [_ Hu]]. apply bind_ok in Hu. destruct Hu as [[rvi srvi] [_ Hu]].
      apply bind_ok in Hu. destruct Hu as [ids [_ Hu]]. apply bind_ok in Hu. destruct Hu as [inn [_ Hu]].
      apply bind_ok in Hu. destruct Hu as [outn [_ Hu]]. inversion Hu; subst. rewrite srcs_snoc. cbn [srcs_node].
      apply Cv_app; [eapply Cv_mono; eauto|apply Cv_one; exact Hnew].
    + apply bind_ok in Hu. destruct Hu as [nm [_ Hu]]. apply bind_ok in Hu. destruct Hu as [inn [_ Hu]].
      apply bind_ok in Hu. destruct Hu as [outn [_ Hu]]. apply bind_ok in Hu. destruct Hu as [[[[al s3] rq3] sfs3] [Hsg Hu]].
      inversion Hu; subst. destruct (attr_fold_C nm _ ([], s2, rqm, sfs) _ _ _ _ Hsg (Cv_nil _)) as [Hm3 Hc3]. cbn [fst snd] in Hm3.
      rewrite srcs_snoc. cbn [srcs_node]. apply Cv_app; [eapply Cv_mono; [|exact Hc]; intros dv Hd; apply Hm3; apply Hm; exact Hd|].
      change (Cv ([NReal n] ++ al_srcs al) rq'). apply Cv_app; [apply Cv_one; intros dv Hd; apply Hm3; apply Hnew; exact Hd|exact Hc3].
  - apply bind_ok in Hu. destruct Hu as [s2 [_ Hu]].
    apply bind_ok in Hu. destruct Hu as [nm [_ Hu]]. apply bind_ok in Hu. destruct Hu as [i [_ Hu]].
    apply bind_ok in Hu. destruct Hu as [o [_ Hu]]. inversion Hu; subst. rewrite srcs_snoc. cbn [srcs_node].
    apply Cv_app; [eapply Cv_mono; [|exact Hc]; intros dv Hd; first [apply has_add_set; exact Hd | apply has_union_l; exact Hd]|].
    apply Cv_one. intros dv Hd. cbn [node_req] in Hd. destruct Hd as [<-|[]]. first [apply has_add_set_new | apply has_union_r; now left].
Qed.
End Step.

Theorem compile_C : forall fuel s g prefix vi mg s' rq fs,
  compile p un args_of own_of fbuild fuel s g prefix vi = inl (mg, s', rq, fs) -> Cv (srcs_graph mg) rq.
Proof.
  induction fuel as [|f IH]; intros s g prefix vi mg s' rq fs H; [discriminate H|]. cbn [Build.compile] in H.
  apply bind_ok in H. destruct H as [s1 [_ H]].
  apply bind_ok in H. destruct H as [[[[[ms s3] rq3] fs0] sfs] [H2 H]].
  assert (Hc3 : accC (ms, s3, rq3, fs0, sfs)).
  { assert (Hi : accC ([], s1, [], [], [])) by (cbn; apply Cv_nil). revert H2 Hi. apply (CompilePres.foldM_inv accC). intros acc u acc' Hs. eapply step_C; [|exact Hs]. exact IH. }
  destruct (Nat.eqb (List.length (gres (getg p g))) 0); [discriminate H|].
  apply bind_ok in H. destruct H as [ai [_ H]]. apply bind_ok in H. destruct H as [ro [_ H]]. inversion H; subst. exact Hc3.
Qed.
End Cover.

(* ---------- the public build ---------- *)
Theorem build_main_covers vi ffuel p un main b :
  build_main_gen vi ffuel p un main = inl b -> Cv p (srcs_graph (b_graph b)) (b_req b).
Proof. destruct ffuel as [|ff]; [discriminate|]. cbn [build_main_gen]. intros H.
  apply bind_ok in H. destruct H as [d [Hd H]]. apply bind_ok in H. destruct H as [[[[mg s] rq] fs] [Hc H]].
  inversion H; subst. cbn [b_req b_graph]. eapply compile_C; exact Hc. Qed.

Theorem build_public_imports_cover p r m inputs outputs :
  build_public p r = inl m -> all_vars (r_inputs r) = Some inputs -> all_vars (r_outputs r) = Some outputs ->
  exists args, (r_drop r = false -> args = map snd inputs) /\ (forall a, In a args -> In a (map snd inputs)) /\
    forall u, In u (srcs_graph (mmain m)) -> forall dv, In dv (node_req (with_main p (Some args) outputs) u) ->
      exists v, lookup String.eqb (fold_domain (fst dv)) (mimports m) = Some v /\ snd dv <= v.
Proof.
  unfold build_public. intros H Hi Ho. rewrite Hi, Ho in H.
  destruct (negb _); [discriminate|]. destruct outputs as [|o os]; [discriminate|].
  apply bind_ok in H. destruct H as [args [Ha H]]. apply bind_ok in H. destruct H as [b [Hb H]].
  apply bind_ok in H. destruct H as [m' [Hm H]]. pose proof (to_model_struct _ _ Hm) as (_ & Hmg & Himp).
  destruct (mmain m') as [gi body go_] eqn:Eg. destruct (forallb _ gi); [|discriminate]. inversion H; subst m'. rewrite Eg, Himp.
  exists args. split; [intros Hd; rewrite Hd in Ha; inversion Ha; reflexivity|]. split.
  - destruct (r_drop r).
    + apply bind_ok in Ha. destruct Ha as [b1 [_ Ha]]. destruct (forallb _ (b_args b1)); [|discriminate]. inversion Ha; subst.
      intros a Hin. apply filter_In in Hin. tauto.
    + inversion Ha; subst. auto.
  - intros u Hu dv Hd. rewrite Hmg in Hu. unfold build_main in Hb. pose proof (build_main_covers _ _ _ _ _ _ Hb u Hu dv Hd) as Hh.
    apply has_In in Hh. exact (policy_covers _ _ Hh).
Qed.
