(* ShapeFacts.v — proofs about Shape.v (C13): equality, the dimension/shape compatibility judgement is exact,
   static broadcasting is numpy's on constants, sound on symbolic dimensions and raises only when impossible. *)
From Coq Require Import List String ZArith NArith Bool Lia Arith.
From Spox Require Import Shape.
Import ListNotations.
Open Scope Z_scope.

(* ---------------------------------------------------------------- equality *)
Lemma dim_eqb_eq a b : dim_eqb a b = true <-> a = b.
Proof.
  destruct a, b; simpl; split; intros H; try discriminate; try reflexivity.
  - apply Z.eqb_eq in H; congruence.
  - inversion H; apply Z.eqb_refl.
  - apply String.eqb_eq in H; congruence.
  - inversion H; apply String.eqb_refl.
Qed.
Lemma dim_eqb_refl a : dim_eqb a a = true.
Proof. apply dim_eqb_eq; reflexivity. Qed.

Lemma list_eqb_eq {A} (f : A -> A -> bool) :
  (forall x y, f x y = true <-> x = y) -> forall a b, list_eqb f a b = true <-> a = b.
Proof.
  intros Hf. induction a as [|x a IH]; destruct b as [|y b]; simpl; split; intros H; try discriminate; try reflexivity.
  - apply andb_prop in H. destruct H as [H1 H2]. apply Hf in H1. apply IH in H2. congruence.
  - inversion H; subst. apply andb_true_intro. split; [apply Hf; reflexivity|apply IH; reflexivity].
Qed.

Lemma shape_eqb_eq a b : shape_eqb a b = true <-> a = b.
Proof.
  destruct a as [x|], b as [y|]; simpl; split; intros H; try discriminate; try reflexivity.
  - apply (list_eqb_eq dim_eqb dim_eqb_eq) in H. congruence.
  - inversion H; subst. apply (list_eqb_eq dim_eqb dim_eqb_eq). reflexivity.
Qed.

(* ---------------------------------------------------------------- simple <-> Natural *)
Lemma dim_of_simple_canon v : canon_dim (dim_of_simple v) = true.
Proof. destruct v as [n|s|]; simpl; try reflexivity. destruct (String.eqb s "") eqn:E; simpl; [reflexivity|now rewrite E]. Qed.

Lemma dim_simple_roundtrip d : canon_dim d = true -> dim_of_simple (simple_of_dim d) = d.
Proof.
  destruct d as [n|s|]; simpl; intros H; try reflexivity.
  destruct (String.eqb s "") eqn:E; [discriminate|]. simpl. now rewrite E.
Qed.

Lemma simple_dim_roundtrip v : simple_of_dim (dim_of_simple v) = match v with SStr "" => SNone | _ => v end.
Proof.
  destruct v as [n|s|]; simpl; try reflexivity.
  destruct (String.eqb s "") eqn:E.
  - apply String.eqb_eq in E. subst. reflexivity.
  - simpl. rewrite E. destruct s; [discriminate|reflexivity].
Qed.

Lemma shape_of_simple_canon s : canon_shape (shape_of_simple s) = true.
Proof.
  destruct s as [l|]; simpl; [|reflexivity]. induction l as [|v l IH]; simpl; [reflexivity|].
  rewrite dim_of_simple_canon. exact IH.
Qed.

Lemma shape_simple_roundtrip s : canon_shape s = true -> shape_of_simple (simple_of_shape s) = s.
Proof.
  destruct s as [l|]; simpl; [|reflexivity]. intros H. f_equal.
  induction l as [|d l IH]; simpl in *; [reflexivity|]. apply andb_prop in H. destruct H as [H1 H2].
  rewrite (dim_simple_roundtrip d H1), (IH H2). reflexivity.
Qed.

(* ---------------------------------------------------------------- dimension compatibility *)
Lemma dim_le_refl x : dim_le x x = true.
Proof. destruct x; simpl; try reflexivity. apply Z.eqb_refl. Qed.
Lemma dim_le_sym x y : dim_le x y = dim_le y x.
Proof. destruct x, y; simpl; try reflexivity. apply Z.eqb_sym. Qed.

(* the structural reading: equal, or one of them unknown (named or anonymous) *)
Definition is_const (d : dim) : bool := match d with DC _ => true | _ => false end.
Lemma dim_le_char x y : dim_le x y = true <-> (x = y \/ is_const x = false \/ is_const y = false).
Proof.
  destruct x as [a|s|], y as [b|t|]; simpl; split; intros H; auto.
  - apply Z.eqb_eq in H. left; congruence.
  - destruct H as [H|[H|H]]; try discriminate. inversion H. apply Z.eqb_refl.
Qed.

Definition inh_dim (d : dim) : N := match d with DC a => Z.to_N a | _ => 1%N end.
Definition meet_dim (x y : dim) : N := match x with DC a => Z.to_N a | _ => inh_dim y end.

Lemma inh_dim_conf d : wf_dim d = true -> conf (inh_dim d) d.
Proof. destruct d; simpl; intros H; auto. apply Z.leb_le in H. lia. Qed.

Lemma meet_dim_conf x y : wf_dim x = true -> wf_dim y = true -> dim_le x y = true ->
  conf (meet_dim x y) x /\ conf (meet_dim x y) y.
Proof.
  destruct x as [a|s|], y as [b|t|]; simpl; intros Hx Hy H; try apply Z.leb_le in Hx; try apply Z.leb_le in Hy;
    try apply Z.eqb_eq in H; split; auto; lia.
Qed.

Lemma conf_common_le n x y : conf n x -> conf n y -> dim_le x y = true.
Proof. destruct x, y; simpl; intros; try reflexivity. apply Z.eqb_eq. congruence. Qed.

Theorem dim_le_exact x y : wf_dim x = true -> wf_dim y = true ->
  (dim_le x y = true <-> exists n, conf n x /\ conf n y).
Proof.
  intros Hx Hy. split.
  - intros H. exists (meet_dim x y). apply meet_dim_conf; assumption.
  - intros [n [H1 H2]]. eapply conf_common_le; eassumption.
Qed.

(* ---------------------------------------------------------------- shape compatibility *)
Lemma all2_refl {A} (f : A -> A -> bool) : (forall x, f x x = true) -> forall l, all2 f l l = true.
Proof. intros Hf. induction l; simpl; [reflexivity|]. now rewrite Hf, IHl. Qed.
Lemma all2_sym {A} (f : A -> A -> bool) : (forall x y, f x y = f y x) -> forall a b, all2 f a b = all2 f b a.
Proof. intros Hf. induction a as [|x a IH]; destruct b as [|y b]; simpl; try reflexivity. now rewrite Hf, IH. Qed.

Lemma shape_le_refl a : shape_le a a = true.
Proof. destruct a as [x|]; simpl; [|reflexivity]. rewrite Nat.eqb_refl. simpl. apply all2_refl. apply dim_le_refl. Qed.
Lemma shape_le_sym a b : shape_le a b = shape_le b a.
Proof.
  destruct a as [x|], b as [y|]; simpl; try reflexivity.
  rewrite (all2_sym dim_le dim_le_sym x y). f_equal. apply Nat.eqb_sym.
Qed.

Fixpoint meet_dims (x y : list dim) : list N :=
  match x, y with a :: x', b :: y' => meet_dim a b :: meet_dims x' y' | _, _ => [] end.
Definition inh_dims (x : list dim) : list N := map inh_dim x.
Definition meet_shape (a b : shape) : list N :=
  match a, b with
  | Some x, Some y => meet_dims x y
  | Some x, None => inh_dims x
  | None, Some y => inh_dims y
  | None, None => []
  end.
Definition inh_shape (a : shape) : list N := meet_shape a None.

Lemma inh_dims_conf x : forallb wf_dim x = true -> Forall2 conf (inh_dims x) x.
Proof.
  induction x as [|d x IH]; simpl; intros H; [constructor|].
  apply andb_prop in H. destruct H as [H1 H2]. constructor; [apply inh_dim_conf; exact H1|apply IH; exact H2].
Qed.

Lemma meet_dims_conf : forall x y, forallb wf_dim x = true -> forallb wf_dim y = true ->
  List.length x = List.length y -> all2 dim_le x y = true ->
  Forall2 conf (meet_dims x y) x /\ Forall2 conf (meet_dims x y) y.
Proof.
  induction x as [|a x IH]; destruct y as [|b y]; simpl; intros Hx Hy Hl H; try discriminate.
  - split; constructor.
  - apply andb_prop in Hx. apply andb_prop in Hy. apply andb_prop in H.
    destruct Hx as [Ha Hx], Hy as [Hb Hy], H as [Hab H]. injection Hl as Hl.
    destruct (IH y Hx Hy Hl H) as [I1 I2]. destruct (meet_dim_conf a b Ha Hb Hab) as [M1 M2].
    split; constructor; assumption.
Qed.

Lemma meet_shape_conf a b : wf_shape a = true -> wf_shape b = true -> shape_le a b = true ->
  conf_shape (meet_shape a b) a /\ conf_shape (meet_shape a b) b.
Proof.
  destruct a as [x|], b as [y|]; simpl; intros Ha Hb H.
  - apply andb_prop in H. destruct H as [Hl H]. apply Nat.eqb_eq in Hl. apply meet_dims_conf; assumption.
  - split; [apply inh_dims_conf; exact Ha|exact I].
  - split; [exact I|apply inh_dims_conf; exact Hb].
  - split; exact I.
Qed.

Lemma conf_common_all2 : forall sh x y, Forall2 conf sh x -> Forall2 conf sh y ->
  List.length x = List.length y /\ all2 dim_le x y = true.
Proof.
  induction sh as [|n sh IH]; intros x y Hx Hy; inversion Hx; inversion Hy; subst; simpl.
  - split; reflexivity.
  - match goal with H1 : Forall2 conf sh ?l1, H2 : Forall2 conf sh ?l2 |- _ => destruct (IH l1 l2 H1 H2) as [Il Ia] end.
    split; [now f_equal|]. rewrite Ia. rewrite (conf_common_le n); [reflexivity|assumption|assumption].
Qed.

Lemma conf_common_shape_le sh a b : conf_shape sh a -> conf_shape sh b -> shape_le a b = true.
Proof.
  destruct a as [x|], b as [y|]; simpl; intros Ha Hb; try reflexivity.
  destruct (conf_common_all2 sh x y Ha Hb) as [Hl H]. rewrite Hl, Nat.eqb_refl, H. reflexivity.
Qed.

Theorem shape_le_exact a b : wf_shape a = true -> wf_shape b = true ->
  (shape_le a b = true <-> exists sh, conf_shape sh a /\ conf_shape sh b).
Proof.
  intros Ha Hb. split.
  - intros H. exists (meet_shape a b). apply meet_shape_conf; assumption.
  - intros [sh [H1 H2]]. eapply conf_common_shape_le; eassumption.
Qed.

(* structural reading of shape compatibility: a rank unknown, or equal ranks and every axis equal-or-unknown *)
Theorem shape_le_char a b :
  shape_le a b = true <->
  (a = None \/ b = None \/
   exists x y, a = Some x /\ b = Some y /\ Forall2 (fun p q => p = q \/ is_const p = false \/ is_const q = false) x y).
Proof.
  destruct a as [x|], b as [y|]; simpl; split; intros H; auto.
  - right; right. exists x, y. split; [reflexivity|]. split; [reflexivity|].
    apply andb_prop in H. destruct H as [Hl H]. apply Nat.eqb_eq in Hl.
    revert y Hl H. induction x as [|p x IH]; destruct y as [|q y]; simpl; intros Hl H; try discriminate; constructor.
    + apply andb_prop in H. apply dim_le_char. tauto.
    + apply andb_prop in H. apply IH; [now injection Hl|tauto].
  - destruct H as [H|[H|[x' [y' [E1 [E2 H]]]]]]; try discriminate. inversion E1; inversion E2; subst. clear E1 E2.
    induction H as [|p q x y Hpq H IH]; simpl; [reflexivity|].
    apply andb_prop in IH. destruct IH as [Il Ia]. apply Nat.eqb_eq in Il.
    rewrite Il, Nat.eqb_refl. simpl. rewrite Ia, andb_true_r. apply dim_le_char. exact Hpq.
Qed.

(* compatibility is not transitive: (2,) ~ (?,) ~ (3,) *)
Lemma shape_le_not_transitive :
  exists a b c, shape_le a b = true /\ shape_le b c = true /\ shape_le a c = false.
Proof. exists (Some [DC 2]), (Some [DA]), (Some [DC 3]). repeat split. Qed.

(* ---------------------------------------------------------------- one-axis broadcasting *)
Ltac zb := repeat match goal with
  | H : context[Z.eqb ?a ?b] |- _ => destruct (Z.eqb_spec a b)
  | |- context[Z.eqb ?a ?b] => destruct (Z.eqb_spec a b)
  | H : context[N.eqb ?a ?b] |- _ => destruct (N.eqb_spec a b)
  | |- context[N.eqb ?a ?b] => destruct (N.eqb_spec a b) end.

Lemma bce_sound x y d a b c : bce x y = Some d -> conf a x -> conf b y -> npb a b = Some c -> conf c d.
Proof.
  unfold bce, npb. intros H Ha Hb Hc.
  destruct x as [n|s|], y as [m|t|]; simpl in *; subst;
  repeat match type of H with context[if ?c then _ else _] => destruct c eqn:? end;
  inversion H; subst; simpl; auto; zb; try congruence; try (inversion Hc; subst; lia); try lia.
Qed.

Lemma bce_complete x y a b : bce x y = None -> conf a x -> conf b y -> npb a b = None.
Proof.
  unfold bce, npb. intros H Ha Hb.
  destruct (dim_eqb x y) eqn:E1; [discriminate|].
  destruct (dim_eqb x (DC 1)) eqn:E2; [discriminate|].
  destruct (dim_eqb y (DC 1)) eqn:E3; [discriminate|].
  destruct x, y; try discriminate. simpl in *. subst.
  zb; try reflexivity; try lia.
Qed.

Lemma bce_comm x y : bce x y = bce y x.
Proof.
  unfold bce. destruct x as [a|s|], y as [b|t|]; simpl; zb; subst; try reflexivity; try lia;
  try (rewrite String.eqb_sym; destruct (String.eqb t s) eqn:E; [apply String.eqb_eq in E; subst|]; reflexivity).
Qed.

Lemma bce_const x y : bce (DC (Z.of_N x)) (DC (Z.of_N y)) = option_map (fun n => DC (Z.of_N n)) (npb x y).
Proof. unfold bce, npb. simpl. zb; simpl; try reflexivity; try lia. Qed.

Lemma npb_comm a b : npb a b = npb b a.
Proof. unfold npb. zb; subst; try reflexivity; try lia. Qed.
Lemma npb_1_l y : npb 1%N y = Some y.
Proof. unfold npb. zb; subst; try reflexivity; congruence. Qed.

(* ---------------------------------------------------------------- list plumbing *)
Lemma map2o_app {A B C} (f : A -> B -> option C) : forall a1 b1 a2 b2, List.length a1 = List.length b1 ->
  map2o f (a1 ++ a2) (b1 ++ b2) =
  match map2o f a1 b1, map2o f a2 b2 with Some r1, Some r2 => Some (r1 ++ r2)%list | _, _ => None end.
Proof.
  induction a1 as [|x a1 IH]; destruct b1 as [|y b1]; simpl; intros a2 b2 Hl; try discriminate.
  - destruct (map2o f a2 b2); reflexivity.
  - injection Hl as Hl. rewrite (IH b1 a2 b2 Hl). destruct (f x y); [|reflexivity].
    destruct (map2o f a1 b1); [|reflexivity]. destruct (map2o f a2 b2); reflexivity.
Qed.

Lemma map2o_rev {A B C} (f : A -> B -> option C) : forall a b, List.length a = List.length b ->
  map2o f (rev a) (rev b) = option_map (@rev C) (map2o f a b).
Proof.
  induction a as [|x a IH]; destruct b as [|y b]; simpl; intros Hl; try discriminate; [reflexivity|].
  injection Hl as Hl. rewrite map2o_app by (rewrite !rev_length; exact Hl). rewrite (IH b Hl). simpl.
  destruct (f x y); destruct (map2o f a b); reflexivity.
Qed.

Lemma npb_rev_comm : forall a b, npb_rev a b = npb_rev b a.
Proof.
  induction a as [|x a IH]; destruct b as [|y b]; simpl; try reflexivity.
  rewrite (npb_comm x y), (IH b). reflexivity.
Qed.

Lemma np_broadcast_comm a b : np_broadcast a b = np_broadcast b a.
Proof. unfold np_broadcast. now rewrite npb_rev_comm. Qed.

Lemma npb_rev_app : forall x y z, List.length x = List.length y ->
  npb_rev x (y ++ z) = option_map (fun r => (r ++ z)%list) (map2o npb x y).
Proof.
  induction x as [|a x IH]; destruct y as [|b y]; simpl; intros z Hl; try discriminate; [reflexivity|].
  injection Hl as Hl. rewrite (IH y z Hl). destruct (npb a b); [|reflexivity]. destruct (map2o npb x y); reflexivity.
Qed.

Lemma map2o_ones : forall b, map2o npb (repeat 1%N (List.length b)) b = Some b.
Proof. induction b as [|y b IH]; simpl; [reflexivity|]. rewrite npb_1_l, IH. reflexivity. Qed.

(* numpy's right-aligned rule = prepend ones to the shorter shape and combine axis by axis *)
Lemma np_broadcast_pad' a b1 b2 : List.length b2 = List.length a ->
  np_broadcast a (b1 ++ b2) = map2o npb (repeat 1%N (List.length b1) ++ a) (b1 ++ b2).
Proof.
  intros L2. unfold np_broadcast. rewrite rev_app_distr.
  rewrite npb_rev_app by (rewrite !rev_length; lia).
  rewrite map2o_rev by lia.
  rewrite map2o_app by (rewrite repeat_length; lia).
  rewrite map2o_ones.
  destruct (map2o npb a b2) as [r|]; simpl; [|reflexivity].
  rewrite rev_app_distr, !rev_involutive. reflexivity.
Qed.

Lemma np_broadcast_pad a b : (List.length a <= List.length b)%nat ->
  np_broadcast a b = map2o npb (repeat 1%N (List.length b - List.length a) ++ a) b.
Proof.
  intros Hl. set (k := (List.length b - List.length a)%nat).
  assert (L1 : List.length (firstn k b) = k) by (rewrite firstn_length; lia).
  assert (L2 : List.length (skipn k b) = List.length a) by (rewrite skipn_length; lia).
  pose proof (np_broadcast_pad' a (firstn k b) (skipn k b) L2) as H.
  rewrite firstn_skipn, L1 in H. exact H.
Qed.

(* ---------------------------------------------------------------- lifting over ranks *)
Lemma bce_list_sound : forall xs ds, Forall2 conf xs ds -> forall ys es, Forall2 conf ys es ->
  forall r zs, map2o bce ds es = Some r -> map2o npb xs ys = Some zs -> Forall2 conf zs r.
Proof.
  induction 1 as [|x d xs ds Hxd Hx IH]; intros ys es Hy r zs Hr Hz.
  - simpl in *. inversion Hr; inversion Hz; constructor.
  - inversion Hy as [|y e ys' es' Hye Hy']; subst; simpl in *.
    + inversion Hr; inversion Hz; constructor.
    + destruct (bce d e) as [d'|] eqn:Eb; [|discriminate].
      destruct (map2o bce ds es') as [r'|] eqn:Er; [|discriminate].
      destruct (npb x y) as [z|] eqn:En; [|discriminate].
      destruct (map2o npb xs ys') as [zs'|] eqn:Ez; [|discriminate].
      inversion Hr; inversion Hz; subst. constructor.
      * eapply bce_sound; eassumption.
      * eapply IH; try eassumption; reflexivity.
Qed.

Lemma bce_list_complete : forall xs ds, Forall2 conf xs ds -> forall ys es, Forall2 conf ys es ->
  map2o bce ds es = None -> map2o npb xs ys = None.
Proof.
  induction 1 as [|x d xs ds Hxd Hx IH]; intros ys es Hy Hr.
  - simpl in Hr. discriminate.
  - inversion Hy as [|y e ys' es' Hye Hy']; subst; simpl in *; [discriminate|].
    destruct (bce d e) as [d'|] eqn:Eb.
    + destruct (map2o bce ds es') as [r'|] eqn:Er; [discriminate|].
      rewrite (IH ys' es' Hy' Er). destruct (npb x y); reflexivity.
    + rewrite (bce_complete d e x y Eb Hxd Hye). reflexivity.
Qed.

Lemma Forall2_pad k xs ds : Forall2 conf xs ds -> Forall2 conf (repeat 1%N k ++ xs) (repeat (DC 1) k ++ ds).
Proof. intros H. induction k; simpl; [exact H|]. constructor; [reflexivity|exact IHk]. Qed.

Lemma Forall2_length' {A B} (R : A -> B -> Prop) l1 l2 : Forall2 R l1 l2 -> List.length l1 = List.length l2.
Proof. induction 1; simpl; congruence. Qed.

(* both sides aligned the same way *)
Lemma aligned sa sb x y : Forall2 conf sa x -> Forall2 conf sb y ->
  exists xs ys, Forall2 conf xs (fst (align x y)) /\ Forall2 conf ys (snd (align x y)) /\
                np_broadcast sa sb = map2o npb xs ys.
Proof.
  intros Ha Hb. pose proof (Forall2_length' _ _ _ Ha) as La. pose proof (Forall2_length' _ _ _ Hb) as Lb.
  unfold align. destruct (Nat.ltb (List.length y) (List.length x)) eqn:E; cbn [fst snd].
  - apply Nat.ltb_lt in E.
    exists (repeat 1%N (List.length x - List.length y) ++ sb)%list, sa. split; [apply Forall2_pad; exact Hb|].
    split; [exact Ha|]. rewrite np_broadcast_comm, np_broadcast_pad by lia. now rewrite La, Lb.
  - apply Nat.ltb_ge in E.
    exists (repeat 1%N (List.length y - List.length x) ++ sa)%list, sb. split; [apply Forall2_pad; exact Ha|].
    split; [exact Hb|]. rewrite np_broadcast_pad by lia. now rewrite La, Lb.
Qed.

Theorem broadcast_sound a b r : broadcast a b = BShape (Some r) ->
  forall sa sb sc, conf_shape sa a -> conf_shape sb b -> np_broadcast sa sb = Some sc -> conf_shape sc (Some r).
Proof.
  destruct a as [x|], b as [y|]; simpl; try discriminate. intros H sa sb sc Ha Hb Hc.
  destruct (aligned sa sb x y Ha Hb) as [xs [ys [H1 [H2 H3]]]].
  destruct (align x y) as [x' y']. cbn [fst snd] in *.
  destruct (map2o bce x' y') as [r'|] eqn:Er; [|discriminate]. inversion H; subst.
  rewrite H3 in Hc. simpl. exact (bce_list_sound xs x' H1 ys y' H2 _ sc Er Hc).
Qed.

Theorem broadcast_complete a b : broadcast a b = BRaise ->
  forall sa sb, conf_shape sa a -> conf_shape sb b -> np_broadcast sa sb = None.
Proof.
  destruct a as [x|], b as [y|]; simpl; try discriminate. intros H sa sb Ha Hb.
  destruct (aligned sa sb x y Ha Hb) as [xs [ys [H1 [H2 H3]]]].
  destruct (align x y) as [x' y']. cbn [fst snd] in *.
  destruct (map2o bce x' y') as [r'|] eqn:Er; [discriminate|].
  rewrite H3. exact (bce_list_complete xs x' H1 ys y' H2 Er).
Qed.

(* unknown rank: nothing is claimed, and that is the only way to get an unknown-rank result *)
Lemma broadcast_unknown_rank a b : broadcast a b = BShape None <-> (a = None \/ b = None).
Proof.
  destruct a as [x|], b as [y|]; simpl; split; intros H; auto; try (destruct H; discriminate).
  destruct (align x y) as [x' y']. destruct (map2o bce x' y'); discriminate.
Qed.

Lemma map2o_length {A B C} (f : A -> B -> option C) : forall a b r, List.length a = List.length b ->
  map2o f a b = Some r -> List.length r = List.length b.
Proof.
  induction a as [|x a IH]; destruct b as [|y b]; simpl; intros r Hl H; try discriminate.
  - inversion H; reflexivity.
  - destruct (f x y); [|discriminate]. destruct (map2o f a b) as [r'|] eqn:E; [|discriminate].
    inversion H; subst. simpl. f_equal. apply (IH b r'); [now injection Hl|exact E].
Qed.

(* the result has the larger rank *)
Lemma broadcast_rank x y r : broadcast (Some x) (Some y) = BShape (Some r) ->
  List.length r = Nat.max (List.length x) (List.length y).
Proof.
  simpl. unfold align. destruct (Nat.ltb (List.length y) (List.length x)) eqn:E; intros H.
  - apply Nat.ltb_lt in E. destruct (map2o bce _ x) as [r'|] eqn:Er; [|discriminate]. inversion H; subst.
    apply map2o_length in Er; [lia|]. rewrite app_length, repeat_length. lia.
  - apply Nat.ltb_ge in E. destruct (map2o bce _ y) as [r'|] eqn:Er; [|discriminate]. inversion H; subst.
    apply map2o_length in Er; [lia|]. rewrite app_length, repeat_length. lia.
Qed.

(* ---------------------------------------------------------------- exactness on constants *)
Lemma map2o_bce_const : forall xs ys,
  map2o bce (cshape xs) (cshape ys) = option_map cshape (map2o npb xs ys).
Proof.
  induction xs as [|x xs IH]; destruct ys as [|y ys]; simpl; try reflexivity.
  rewrite bce_const. destruct (npb x y); simpl; [|reflexivity].
  unfold cshape in IH. rewrite IH. destruct (map2o npb xs ys); reflexivity.
Qed.

Lemma cshape_pad k xs : (repeat (DC 1) k ++ cshape xs)%list = cshape (repeat 1%N k ++ xs).
Proof. unfold cshape. rewrite map_app. f_equal. induction k; simpl; [reflexivity|]. now f_equal. Qed.

Lemma cshape_length xs : List.length (cshape xs) = List.length xs.
Proof. apply map_length. Qed.

Definition bres_of (o : option (list N)) : bres :=
  match o with Some r => BShape (Some (cshape r)) | None => BRaise end.

Theorem broadcast_exact sa sb : broadcast (Some (cshape sa)) (Some (cshape sb)) = bres_of (np_broadcast sa sb).
Proof.
  unfold broadcast, align. rewrite !cshape_length.
  destruct (Nat.ltb (List.length sb) (List.length sa)) eqn:E.
  - apply Nat.ltb_lt in E. cbv beta iota. rewrite !cshape_length, cshape_pad, map2o_bce_const.
    rewrite np_broadcast_comm, np_broadcast_pad by lia.
    destruct (map2o npb (repeat 1%N (List.length sa - List.length sb) ++ sb) sa); reflexivity.
  - apply Nat.ltb_ge in E. cbv beta iota. rewrite !cshape_length, cshape_pad, map2o_bce_const.
    rewrite np_broadcast_pad by lia.
    destruct (map2o npb (repeat 1%N (List.length sb - List.length sa) ++ sa) sb); reflexivity.
Qed.

Lemma all_const_cshape l : all_const l = true -> exists sh, l = cshape sh.
Proof.
  induction l as [|d l IH]; simpl; intros H; [exists []; reflexivity|].
  apply andb_prop in H. destruct H as [H1 H2]. destruct (IH H2) as [sh Hs]. destruct d as [n| |]; try discriminate.
  apply Z.leb_le in H1. exists (Z.to_N n :: sh). simpl. rewrite Z2N.id by exact H1. now rewrite Hs.
Qed.

Lemma cshape_conf sh : Forall2 conf sh (cshape sh).
Proof. induction sh; simpl; constructor; [reflexivity|assumption]. Qed.

Lemma conf_cshape_inv : forall sh sh', Forall2 conf sh (cshape sh') -> sh = sh'.
Proof.
  induction sh as [|n sh IH]; destruct sh' as [|m sh']; simpl; intros H; inversion H; subst; [reflexivity|].
  simpl in *. f_equal; [lia|apply IH; assumption].
Qed.

(* all dims constant naturals => broadcast is numpy's broadcast_shapes, result or failure *)
Theorem broadcast_exact_all_const x y : all_const x = true -> all_const y = true ->
  exists sa sb, x = cshape sa /\ y = cshape sb /\ broadcast (Some x) (Some y) = bres_of (np_broadcast sa sb).
Proof.
  intros Hx Hy. destruct (all_const_cshape x Hx) as [sa Ha]. destruct (all_const_cshape y Hy) as [sb Hb].
  exists sa, sb. subst. split; [reflexivity|]. split; [reflexivity|]. apply broadcast_exact.
Qed.

Lemma broadcast_comm a b : broadcast a b = broadcast b a.
Proof.
  destruct a as [x|], b as [y|]; simpl; try reflexivity. unfold align.
  destruct (Nat.ltb (List.length y) (List.length x)) eqn:E1; destruct (Nat.ltb (List.length x) (List.length y)) eqn:E2;
    try reflexivity.
  - apply Nat.ltb_lt in E1. apply Nat.ltb_lt in E2. lia.
  - apply Nat.ltb_ge in E1. apply Nat.ltb_ge in E2. assert (L : List.length x = List.length y) by lia.
    rewrite L, Nat.sub_diag. simpl. clear E1 E2. revert y L.
    induction x as [|p x IH]; destruct y as [|q y]; simpl; intros L; try discriminate; [reflexivity|].
    injection L as L. rewrite (bce_comm p q). destruct (bce q p); [|reflexivity].
    specialize (IH y L). destruct (map2o bce x y), (map2o bce y x); try reflexivity; try discriminate.
    inversion IH; subst. reflexivity.
Qed.

(* ---------------------------------------------------------------- a static result is never vacuous *)
(* whenever broadcasting does not raise, conforming runtime shapes that do broadcast exist (so "raises" is exact) *)
Definition wit_a (x y : dim) : N :=
  match x with DC a => Z.to_N a | _ => match y with DC b => Z.to_N b | _ => 1%N end end.
Definition wit_b (x y : dim) : N := wit_a y x.

Lemma bce_witness x y d : bce x y = Some d -> wf_dim x = true -> wf_dim y = true ->
  conf (wit_a x y) x /\ conf (wit_b x y) y /\ exists c, npb (wit_a x y) (wit_b x y) = Some c.
Proof.
  unfold bce, npb, wit_b, wit_a. intros H Hx Hy.
  destruct x as [a|s|], y as [b|t|]; simpl in *; try apply Z.leb_le in Hx; try apply Z.leb_le in Hy;
    repeat match type of H with context[if ?c then _ else _] => destruct c eqn:? end; try discriminate;
    (split; [try exact I; lia|split; [try exact I; lia|]]); zb; try (eexists; reflexivity); try lia.
Qed.

Fixpoint wits (x y : list dim) : list N * list N :=
  match x, y with
  | a :: x', b :: y' => let '(l, r) := wits x' y' in (wit_a a b :: l, wit_b a b :: r)
  | _, _ => ([], [])
  end.

Lemma wits_ok : forall x y r, List.length x = List.length y -> forallb wf_dim x = true -> forallb wf_dim y = true ->
  map2o bce x y = Some r ->
  Forall2 conf (fst (wits x y)) x /\ Forall2 conf (snd (wits x y)) y /\
  exists cs, map2o npb (fst (wits x y)) (snd (wits x y)) = Some cs.
Proof.
  induction x as [|a x IH]; destruct y as [|b y]; simpl; intros r Hl Hx Hy H; try discriminate.
  - split; [constructor|]. split; [constructor|]. eexists; reflexivity.
  - apply andb_prop in Hx. apply andb_prop in Hy. destruct Hx as [Ha Hx], Hy as [Hb Hy]. injection Hl as Hl.
    destruct (bce a b) as [d|] eqn:Ed; [|discriminate].
    destruct (map2o bce x y) as [r'|] eqn:Er; [|discriminate].
    destruct (IH y r' Hl Hx Hy Er) as [I1 [I2 [cs Ic]]].
    destruct (bce_witness a b d Ed Ha Hb) as [W1 [W2 [c Wc]]].
    destruct (wits x y) as [l rr]. cbn [fst snd] in *.
    split; [constructor; assumption|]. split; [constructor; assumption|].
    simpl. rewrite Wc, Ic. eexists; reflexivity.
Qed.

Lemma conf_ones : forall k l, Forall2 conf l (repeat (DC 1) k) -> l = repeat 1%N k.
Proof.
  induction k as [|k IH]; simpl; intros l H; inversion H; subst; [reflexivity|].
  simpl in *. f_equal; [lia|apply IH; assumption].
Qed.

Lemma forallb_wf_pad k x : forallb wf_dim x = true -> forallb wf_dim (repeat (DC 1) k ++ x) = true.
Proof. intros H. induction k; simpl; assumption. Qed.

Lemma padded_witness x y r : (List.length x <= List.length y)%nat ->
  forallb wf_dim x = true -> forallb wf_dim y = true ->
  map2o bce (repeat (DC 1) (List.length y - List.length x) ++ x) y = Some r ->
  exists sa sb sc, Forall2 conf sa x /\ Forall2 conf sb y /\ np_broadcast sa sb = Some sc.
Proof.
  intros Hl Hx Hy H. set (k := (List.length y - List.length x)%nat) in *.
  assert (L : List.length (repeat (DC 1) k ++ x) = List.length y) by (rewrite app_length, repeat_length; lia).
  destruct (wits_ok _ y r L (forallb_wf_pad k x Hx) Hy H) as [W1 [W2 [cs Wc]]].
  destruct (wits (repeat (DC 1) k ++ x) y) as [wa wb]. cbn [fst snd] in *.
  apply Forall2_app_inv_r in W1. destruct W1 as [l1 [sa [F1 [F2 E]]]]. apply conf_ones in F1. subst.
  exists sa, wb, cs. split; [exact F2|]. split; [exact W2|].
  pose proof (Forall2_length' _ _ _ F2) as La. pose proof (Forall2_length' _ _ _ W2) as Lb.
  rewrite np_broadcast_pad by lia. rewrite La, Lb. exact Wc.
Qed.

Theorem broadcast_accepts_only_if_possible x y r :
  forallb wf_dim x = true -> forallb wf_dim y = true -> broadcast (Some x) (Some y) = BShape (Some r) ->
  exists sa sb sc, Forall2 conf sa x /\ Forall2 conf sb y /\ np_broadcast sa sb = Some sc.
Proof.
  intros Hx Hy. simpl. unfold align. destruct (Nat.ltb (List.length y) (List.length x)) eqn:E; intros H.
  - apply Nat.ltb_lt in E.
    destruct (map2o bce (repeat (DC 1) (List.length x - List.length y) ++ y) x) as [r'|] eqn:Er; [|discriminate].
    destruct (padded_witness y x r' (Nat.lt_le_incl _ _ E) Hy Hx Er) as [sb [sa [sc [F1 [F2 N]]]]].
    exists sa, sb, sc. split; [exact F2|]. split; [exact F1|]. rewrite np_broadcast_comm. exact N.
  - apply Nat.ltb_ge in E.
    destruct (map2o bce (repeat (DC 1) (List.length y - List.length x) ++ x) y) as [r'|] eqn:Er; [|discriminate].
    exact (padded_witness x y r' E Hx Hy Er).
Qed.

(* ShapeError exactly when no conforming runtime shapes broadcast (ranks known, constants naturals) *)
Theorem broadcast_raises_iff_impossible x y : forallb wf_dim x = true -> forallb wf_dim y = true ->
  (broadcast (Some x) (Some y) = BRaise <->
   forall sa sb, Forall2 conf sa x -> Forall2 conf sb y -> np_broadcast sa sb = None).
Proof.
  intros Hx Hy. split.
  - intros H sa sb Ha Hb. exact (broadcast_complete (Some x) (Some y) H sa sb Ha Hb).
  - intros H. destruct (broadcast (Some x) (Some y)) as [[r|]|] eqn:E; [| |reflexivity].
    + destruct (broadcast_accepts_only_if_possible x y r Hx Hy E) as [sa [sb [sc [F1 [F2 N]]]]].
      rewrite (H sa sb F1 F2) in N. discriminate.
    + apply broadcast_unknown_rank in E. destruct E; discriminate.
Qed.
