(* FuncFacts.v — functions (C14): one FunctionProto per (domain, name); two different definitions are rejected. *)
From Coq Require Import List String NArith Arith Bool.
From Spox Require Import Base IR Show Build Sem Plan Validate BuildFacts.
Import ListNotations.

Definition fkey (f : mfunction) : string * string := (f_domain f, f_name f).
Lemma fkey_eqb_iff a b : fkey_eqb a b = true <-> fkey a = fkey b.
Proof. unfold fkey_eqb, fkey. rewrite andb_true_iff, !String.eqb_eq. split; [intros [-> ->]; reflexivity|intros H; inversion H; auto]. Qed.

Section Fold.
Variable imports : list (string * nat).
Definition fstep (acc : list mfunction) (f : fdesc) : res (list mfunction) :=
  let pr := function_proto imports f in
  match find (fkey_eqb pr) acc with
  | Some old => if String.eqb (show_function old) (show_function pr) && String.eqb (f_vals old) (f_vals pr) then ret acc else raise ERuntime
  | None => ret (acc ++ [pr])%list end.

Lemma find_key_none pr acc : find (fkey_eqb pr) acc = None -> ~ In (fkey pr) (map fkey acc).
Proof. intros H Hc. apply in_map_iff in Hc. destruct Hc as [x [Hk Hx]]. pose proof (find_none _ _ H x Hx) as Hn.
  assert (fkey_eqb pr x = true) by (apply fkey_eqb_iff; congruence). congruence. Qed.

Lemma fold_inv : forall l acc r, foldM fstep l acc = inl r -> NoDup (map fkey acc) ->
  NoDup (map fkey r) /\ (forall x, In x acc -> In x r) /\
  (forall f, In f l -> exists old, In old r /\ fkey old = fkey (function_proto imports f) /\
                                 show_function old = show_function (function_proto imports f) /\
                                 f_vals old = f_vals (function_proto imports f)).
Proof.
  induction l as [|f t IH]; intros acc r H Hnd; cbn [foldM] in H.
  - inversion H; subst. repeat split; auto. intros f [].
  - apply bind_ok in H. destruct H as [acc' [Hs Ht]]. unfold fstep in Hs.
    destruct (find (fkey_eqb (function_proto imports f)) acc) as [old|] eqn:Ef.
    + destruct (String.eqb_spec (show_function old) (show_function (function_proto imports f))) as [Es|]; [|discriminate].
      cbn [andb] in Hs. destruct (String.eqb_spec (f_vals old) (f_vals (function_proto imports f))) as [Ev|]; [|discriminate].
      inversion Hs; subst acc'. destruct (IH acc r Ht Hnd) as (H1 & H2 & H3). repeat split; auto.
      intros g [<-|Hg]; [|auto]. apply find_some in Ef. destruct Ef as [Hin Hk]. exists old. repeat split; auto.
      symmetry. now apply fkey_eqb_iff.
    + inversion Hs; subst acc'. assert (Hnd' : NoDup (map fkey (acc ++ [function_proto imports f]))).
      { rewrite map_app. simpl. apply NoDup_app_snoc; [assumption|now apply find_key_none]. }
      destruct (IH _ r Ht Hnd') as (H1 & H2 & H3). repeat split; auto.
      * intros x Hx. apply H2. apply in_or_app. now left.
      * intros g [<-|Hg]; [|auto]. exists (function_proto imports f). repeat split; auto. apply H2. apply in_or_app. right. now left.
Qed.
End Fold.

Lemma NoDup_map_inj {A B} (f : A -> B) l x y : NoDup (map f l) -> In x l -> In y l -> f x = f y -> x = y.
Proof. induction l as [|a l IH]; simpl; intros Hnd Hx Hy E; [contradiction|]. inversion Hnd as [|b m Hnin Hnd']; subst.
  destruct Hx as [<-|Hx], Hy as [<-|Hy]; auto.
  - exfalso. apply Hnin. rewrite E. now apply in_map.
  - exfalso. apply Hnin. rewrite <- E. now apply in_map. Qed.

(* keys of the returned functions are unique, and every function met during the build is represented by a definition with the
   same key AND the same rendered body/signature/imports *)
Theorem to_model_functions b m : to_model b = inl m ->
  NoDup (map fkey (mfunctions m)) /\
  forall f, In f (b_funs b) -> exists d, In d (mfunctions m) /\ fkey d = fkey (function_proto (max_opset_policy (b_req b)) f) /\
                                   show_function d = show_function (function_proto (max_opset_policy (b_req b)) f) /\
                                   f_vals d = f_vals (function_proto (max_opset_policy (b_req b)) f).
Proof.
  unfold to_model. intros H. apply bind_ok in H. destruct H as [funs [Hf H]].
  destruct (struct_check (b_graph b)); [|discriminate]. simpl in H. destruct (forallb _ funs); [|discriminate]. inversion H; subst; simpl.
  destruct (fold_inv (max_opset_policy (b_req b)) (b_funs b) [] funs Hf (NoDup_nil _)) as (H1 & _ & H3). auto.
Qed.

(* a function whose definition differs between two uses is rejected: no model is returned *)
Theorem differing_bodies_rejected b f1 f2 : In f1 (b_funs b) -> In f2 (b_funs b) ->
  let i := max_opset_policy (b_req b) in
  fkey (function_proto i f1) = fkey (function_proto i f2) ->
  (show_function (function_proto i f1) <> show_function (function_proto i f2) \/ fd_vals f1 <> fd_vals f2) ->
  forall m, to_model b <> inl m.
Proof.
  intros H1 H2 i Hk Hs m Hm. destruct (to_model_functions b m Hm) as (Hnd & Hall).
  destruct (Hall f1 H1) as (d1 & Hd1 & Hk1 & Hs1 & Hv1). destruct (Hall f2 H2) as (d2 & Hd2 & Hk2 & Hs2 & Hv2).
  assert (d1 = d2) by (apply (NoDup_map_inj fkey (mfunctions m)); auto; fold i in Hk1, Hk2; congruence).
  subst d2. fold i in Hs1, Hs2, Hv1, Hv2. destruct Hs as [Hs|Hs]; apply Hs; [congruence|]. cbn [function_proto f_vals] in Hv1, Hv2. congruence.
Qed.
