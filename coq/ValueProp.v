(* ValueProp.v — executable model of spox's value propagation at ONE node construction
   (src/spox/_value_prop.py, _standard.py propagate_values_onnx, _inline.py propagate_values, _node.py Node.inference,
    _internal_op.py _Initializer, opset Constant.propagate_values).  No proofs in this file.

   The model is parameterised by a configuration [cfg]:
     c_guard   = false : the pinned tree (conversions PropValue.from_ref_value / from_ort_value and the scope lookups of
                         propagate_values_onnx / _Inline.propagate_values sit OUTSIDE any try)            -- "*_orig"
               = true  : repaired code (fixes/F5.diff): each backend entry is converted under try/except, entries that do
                         not name an output of the node are ignored
     c_nonefix = false : _Inline.propagate_values calls get_backend_calls() also under backend NONE (RuntimeError)
               = true  : repaired (fixes/F5b.diff): returns {} under NONE
     c_deep    = false : PropValue.check as pinned: Sequence/Optional payloads and object arrays are not looked into
               = true  : repaired (fixes/F5c.diff): check recurses into elements
     c_strict          : VALUE_PROP_STRICT_CHECK (tests/conftest.py sets it; a debugging switch that raises by design)

   Everything a third-party evaluator can hand back is a [pyval]; what the two wrappers _run_reference_implementation /
   _run_onnxruntime see is a [backend_result]. *)
From Coq Require Import List Bool String Arith.
Import ListNotations.
Open Scope string_scope.

(* ------------------------------------------------------------------------------------------------ type algebra *)
(* numpy dtypes as tags.  ELongLong/EULongLong: platform aliases ('q','Q') whose scalar type is not np.int64/np.uint64.
   EObjStr: object array holding only str (what the evaluators return for string tensors); EObjOther: any other object
   array.  EOtherNum: a numeric dtype that is no ONNX type (longdouble...); EOtherDT: anything else (datetime, void...). *)
Inductive elem := EBool | EI8 | EI16 | EI32 | EI64 | EU8 | EU16 | EU32 | EU64 | EF16 | EF32 | EF64 | EC64 | EC128 | EStr
  | ELongLong | EULongLong | EObjStr | EObjOther | EBytes | EOtherNum | EOtherDT.
Scheme Equality for elem.

Inductive dim := DConst (n : nat) | DUnk.          (* labels of unknown dimensions play no role in any comparison used here *)
Definition shape := option (list dim).             (* None = rank unknown *)
Inductive ty := Tensor (e : elem) (s : shape) | Sequence (t : ty) | Optional (t : ty).

Definition is_some {A} (o : option A) : bool := match o with Some _ => true | None => false end.

(* Natural.__le__ : Unknown <= anything; Constant n <= other iff other is Unknown or the same constant *)
Definition dim_sub (a b : dim) : bool :=
  match a, b with
  | DUnk, _ => true
  | DConst _, DUnk => true
  | DConst n, DConst m => Nat.eqb n m
  end.
Fixpoint forallb2 {A B} (f : A -> B -> bool) (l : list A) (m : list B) : bool :=
  match l, m with
  | [], [] => true
  | a :: l', b :: m' => f a b && forallb2 f l' m'
  | _, _ => false
  end.
(* Shape.__le__ *)
Definition shape_sub (a b : shape) : bool :=
  match a, b with
  | None, _ => true
  | _, None => true
  | Some x, Some y => forallb2 dim_sub x y
  end.
(* Shape.from_simple(value.shape) <= type._shape : a concrete array shape against a reported shape *)
Definition shape_le (s : list nat) (sh : shape) : bool := shape_sub (Some (map DConst s)) sh.

(* Type._subtype (Tensor: same scalar class and shape <=; containers covariant) *)
Fixpoint subtype (a b : ty) : bool :=
  match a, b with
  | Tensor e s, Tensor e' s' => elem_beq e e' && shape_sub s s'
  | Sequence x, Sequence y => subtype x y
  | Optional x, Optional y => subtype x y
  | _, _ => false
  end.

(* ------------------------------------------------------------------------------------------------ python values *)
Inductive pyval :=
| PArr (e : elem) (s : list nat)            (* numpy.ndarray *)
| PList (l : list pyval)                    (* list (exactly: isinstance(value, list)) *)
| PNone
| PScalar (e : elem)                        (* bool/int/float/complex/str/bytes/np.generic; e = dtype of np.array(x) *)
| POther (np_array : option (elem * list nat)).  (* anything else; what np.array(x) yields, None = np.array raises *)

(* PropValue.value : ndarray | list[PropValue] | PropValue | None *)
Inductive pval :=
| VArr (e : elem) (s : list nat)
| VList (l : list (ty * pval))
| VSome (t : ty) (v : pval)
| VNothing.

Inductive exn :=
| TypeError_unwrap_sequence      (* Type.unwrap_sequence on a non-Sequence type *)
| TypeError_no_handler           (* from_ort_value: "No handler for ORT value" *)
| TypeError_unknown_type         (* Var.unwrap_type on an untyped output *)
| KeyError_name                  (* scope.var[name] for a name the singleton scope does not know *)
| ValueError_strict              (* PropValue.__post_init__ under VALUE_PROP_STRICT_CHECK *)
| NumpyError                     (* np.array(value) raises (ragged tuple, ...) *)
| RuntimeError_backend.          (* get_backend_calls() under backend NONE *)
Inductive res (A : Type) := Ok (a : A) | Err (e : exn).
Arguments Ok {A} a.
Arguments Err {A} e.
Definition bind {A B} (r : res A) (f : A -> res B) : res B := match r with Ok a => f a | Err e => Err e end.

Section MapM.
  Variables (A B : Type) (f : A -> res B).
  Fixpoint mapM (l : list A) : res (list B) :=
    match l with
    | [] => Ok []
    | a :: t => match f a with
                | Err e => Err e
                | Ok b => match mapM t with Err e => Err e | Ok bs => Ok (b :: bs) end
                end
    end.
End MapM.
Arguments mapM {A B} f l.

Record cfg := mkCfg { c_guard : bool; c_nonefix : bool; c_deep : bool; c_strict : bool }.
Definition cfg_orig : cfg := mkCfg false false false false.     (* the pinned tree *)
Definition cfg_f5 : cfg := mkCfg true true false false.        (* F5 + F5b *)
Definition cfg_fixed : cfg := mkCfg true true true false.      (* F5 + F5b + F5c : the model of the repaired code *)

(* ------------------------------------------------------------------------------------------------ PropValue *)
(* __post_init__: numeric dtypes are rebuilt through their name (longlong -> int64) *)
Definition norm_elem (e : elem) : elem := match e with ELongLong => EI64 | EULongLong => EU64 | _ => e end.
Definition normalise (v : pval) : pval := match v with VArr e s => VArr (norm_elem e) s | _ => v end.

(* value.dtype against type.dtype: (object and str) or the very same scalar class *)
Definition dtype_ok (deep : bool) (ev et : elem) : bool :=
  match ev, et with
  | EObjStr, EStr => true
  | EObjOther, EStr => negb deep
  | _, _ => elem_beq ev et
  end.

(* PropValue.check.  Pinned code: a Sequence value is a list whose elements' ANNOTATED types are _subtype of the element
   type (the payloads are not looked at); an Optional value is None or any PropValue.  Repaired (deep): payloads are
   checked against the declared element type.  NB _subtype is a compatibility test, not an order (Unknown <= Constant),
   so the annotation test alone could never establish conformance. *)
Fixpoint check (deep : bool) (t : ty) (v : pval) {struct v} : bool :=
  match t, v with
  | Tensor e sh, VArr e' s => shape_le s sh && dtype_ok deep e' e
  | Sequence t', VList l =>
      forallb (fun p => match p with (te, ve) => subtype te t' && (if deep then check deep t' ve else true) end) l
  | Optional t', VNothing => true
  | Optional t', VSome te ve => if deep then check deep t' ve else true
  | _, _ => false
  end.

(* PropValue(typ, value): normalise, then the strict switch *)
Definition mk (c : cfg) (t : ty) (v : pval) : res (ty * pval) :=
  let v' := normalise v in
  if c_strict c && negb (check (c_deep c) t v') then Err ValueError_strict else Ok (t, v').

Definition is_sequence (t : ty) : bool := match t with Sequence _ => true | _ => false end.
(* "Sometimes non-Sequence values are wrapped in a list." *)
Definition unwrap1 (t : ty) (v : pyval) : pyval :=
  if is_sequence t then v else match v with PList [x] => x | _ => v end.

Definition is_object (e : elem) : bool := match e with EObjStr | EObjOther => true | _ => false end.

(* PropValue.from_ref_value *)
Fixpoint from_ref (c : cfg) (t : ty) (v0 : pyval) {struct t} : res (ty * pval) :=
  let v := unwrap1 t v0 in
  match v with
  | PNone => mk c t VNothing
  | _ =>
    match t with
    | Optional t' => bind (from_ref c t' v) (fun p => mk c t (VSome (fst p) (snd p)))
    | Sequence t' =>
        match v with
        | PList l => bind (mapM (from_ref c t') l) (fun ps => mk c t (VList ps))
        | PArr e s => mk c t (VArr e s)
        | PScalar e => mk c t (VArr e [])
        | POther (Some (e, s)) => mk c t (VArr e s)
        | POther None => Err NumpyError
        | PNone => mk c t VNothing
        end
    | Tensor _ _ =>
        match v with
        | PList _ => Err TypeError_unwrap_sequence
        | PArr e s => mk c t (VArr e s)
        | PScalar e => mk c t (VArr e [])
        | POther (Some (e, s)) => mk c t (VArr e s)
        | POther None => Err NumpyError
        | PNone => mk c t VNothing
        end
    end
  end.

(* PropValue.from_ort_value *)
Fixpoint from_ort (c : cfg) (t : ty) (v : pyval) {struct t} : res (ty * pval) :=
  match v with
  | PNone => mk c t VNothing
  | _ =>
    match t with
    | Optional t' => bind (from_ort c t' v) (fun p => mk c t (VSome (fst p) (snd p)))
    | Sequence t' =>
        match v with
        | PList l => bind (mapM (from_ort c t') l) (fun ps => mk c t (VList ps))
        | PArr e s => mk c t (VArr (if is_object e then EStr else e) s)
        | _ => Err TypeError_no_handler
        end
    | Tensor _ _ =>
        match v with
        | PList _ => Err TypeError_unwrap_sequence
        | PArr e s => mk c t (VArr (if is_object e then EStr else e) s)
        | _ => Err TypeError_no_handler
        end
    end
  end.

(* ------------------------------------------------------------------------------------------------ backends *)
Inductive backend := BNone | BRef | BOrt.
Inductive backend_result := BRaise (e : nat) | BDict (d : list (string * pyval)).
(* _run_reference_implementation / _run_onnxruntime: try: ... except Exception: return {} *)
Definition run_backend (r : backend_result) : list (string * pyval) :=
  match r with BRaise _ => [] | BDict d => d end.
(* get_backend_calls()[2] *)
Definition unwrap_feed (c : cfg) (bk : backend) (t : ty) (v : pyval) : res (ty * pval) :=
  match bk with BRef => from_ref c t v | BOrt => from_ort c t v | BNone => Err RuntimeError_backend end.

(* ------------------------------------------------------------------------------------------------ one node *)
Record invar := mkIn {
  i_name : string;            (* name in the singleton scope = first input field holding this Var *)
  i_type : option ty;
  i_hasval : bool;            (* var._value is not None *)
  i_which : option string }.  (* var._which_output: the field of the Var in ITS producer *)
Record outvar := mkOut {
  o_field : string;           (* output field of this node (= its name in the singleton scope) *)
  o_bname : string;           (* the name the backend uses for it (= o_field for standard nodes; the inlined model's
                                 declared output name for _Inline) *)
  o_inferred : option ty;     (* infer_output_types()[field]: computed from inputs and attributes only *)
  o_type0 : option ty;        (* type / value before inference (None/None from _init_output_vars) *)
  o_val0 : option pval }.
Inductive nkind :=
| KStandard                   (* StandardNode *)
| KInline                     (* _Inline *)
| KSource (v : option pval)   (* Constant (Some value built from its attribute; None for sparse_value) / _Initializer *)
| KPlain.                     (* Node.propagate_values: {} (Argument, Introduce, functions, ...) *)
Record node := mkNode { n_kind : nkind; n_in : list invar; n_subgraph : bool; n_out : list outvar }.

(* the first loop of Node.inference: the typing step.  It does not see the backend. *)
Definition out_type (o : outvar) : option ty := match o_type0 o with Some t => Some t | None => o_inferred o end.

Definition gate_open (n : node) : bool := forallb (fun i => is_some (i_type i) && i_hasval i) (n_in n).

(* scope.var[name] in the singleton scope, then ._which_output and .type of that Var *)
Definition lookup_name (n : node) (name : string) : option (bool * option string * option ty) :=
  match find (fun i => String.eqb (i_name i) name) (n_in n) with
  | Some i => Some (false, i_which i, i_type i)
  | None => match find (fun o => String.eqb (o_field o) name) (n_out n) with
            | Some o => Some (true, Some (o_field o), out_type o)
            | None => None
            end
  end.

(* result dictionaries: association lists in insertion order; Python's d[k] = v on an existing key overwrites *)
Definition dict_get {A} (d : list (string * A)) (k : string) : option A :=
  match find (fun p => String.eqb (fst p) k) (rev d) with Some p => Some (snd p) | None => None end.

(* propagate_values_onnx: one (name, result) item of output_feed.items():
     scope.var[name]._which_output : unwrap_feed(scope.var[name].unwrap_type(), result).value *)
Definition std_entry (c : cfg) (bk : backend) (n : node) (name : string) (v : pyval) : res (option (string * pval)) :=
  match lookup_name n name with
  | None => Err KeyError_name
  | Some (is_out, which, ot) =>
      if c_guard c && negb is_out then Ok None          (* repaired: not an output of this node -> ignored *)
      else match ot with
           | None => Err TypeError_unknown_type
           | Some t => match unwrap_feed c bk t v with
                       | Err e => Err e
                       | Ok p => Ok (match which with Some k => Some (k, snd p) | None => None end)
                       end
           end
  end.
(* the comprehension over output_feed.items(); repaired code: try/except around each item (re-raised under strict) *)
Fixpoint std_entries (c : cfg) (bk : backend) (n : node) (d : list (string * pyval)) : res (list (string * pval)) :=
  match d with
  | [] => Ok []
  | (name, v) :: rest =>
      match std_entry c bk n name v with
      | Err e => if c_guard c && negb (c_strict c) then std_entries c bk n rest else Err e
      | Ok None => std_entries c bk n rest
      | Ok (Some kv) => match std_entries c bk n rest with Err e => Err e | Ok l => Ok (kv :: l) end
      end
  end.

(* _Inline.propagate_values: outputs in declared order, each looked up by the model's output name *)
Definition inline_entry (c : cfg) (bk : backend) (o : outvar) (v : pyval) : res (ty * pval) :=
  match out_type o with
  | None => Err TypeError_unknown_type
  | Some t => unwrap_feed c bk t v
  end.
Fixpoint inline_entries (c : cfg) (bk : backend) (outs : list outvar) (d : list (string * pyval)) : res (list (string * pval)) :=
  match outs with
  | [] => Ok []
  | o :: rest =>
      match dict_get d (o_bname o) with
      | None => inline_entries c bk rest d
      | Some v =>
          match inline_entry c bk o v with
          | Err e => if c_guard c && negb (c_strict c) then inline_entries c bk rest d else Err e
          | Ok p => match inline_entries c bk rest d with Err e => Err e | Ok l => Ok ((o_field o, snd p) :: l) end
          end
      end
  end.

Definition first_field (n : node) : string := match n_out n with o :: _ => o_field o | [] => "" end.

(* Node.propagate_values as overridden by the four kinds *)
Definition propagate (c : cfg) (bk : backend) (n : node) (r : backend_result) : res (list (string * pval)) :=
  match n_kind n with
  | KPlain => Ok []
  | KSource None => Ok []
  | KSource (Some v) => Ok [(first_field n, v)]
  | KStandard =>
      match bk with
      | BNone => Ok []
      | _ => if negb (gate_open n) then Ok [] else if n_subgraph n then Ok []
             else std_entries c bk n (run_backend r)
      end
  | KInline =>
      if negb (gate_open n) then Ok []
      else match bk with
           | BNone => if c_nonefix c then Ok [] else Err RuntimeError_backend
           | _ => inline_entries c bk (n_out n) (run_backend r)
           end
  end.

(* the second loop of Node.inference: the keep rule.  Result per output: field, type, value, warned *)
Definition attach (c : cfg) (vals : list (string * pval)) (o : outvar) : res (string * option ty * option pval * bool) :=
  match out_type o, o_val0 o, dict_get vals (o_field o) with
  | Some t, None, Some v =>
      match mk c t v with
      | Err e => Err e
      | Ok p => if check (c_deep c) t (snd p) then Ok (o_field o, Some t, Some (snd p), false)
                else Ok (o_field o, Some t, None, true)           (* InferenceWarning, dropped *)
      end
  | ot, v0, _ => Ok (o_field o, ot, v0, false)
  end.

Definition construct (c : cfg) (bk : backend) (n : node) (r : backend_result)
  : res (list (string * option ty * option pval * bool)) :=
  bind (propagate c bk n r) (fun vals => mapM (attach c vals) (n_out n)).

(* observations *)
Definition out_types (l : list (string * option ty * option pval * bool)) : list (string * option ty) :=
  map (fun x => match x with (f, t, _, _) => (f, t) end) l.
Definition typing (n : node) : list (string * option ty) := map (fun o => (o_field o, out_type o)) (n_out n).

(* ------------------------------------------------------------------------------------------------ conformance *)
(* An INDEPENDENT statement of "value v is a value of type t" (what the harness oracle decides on numpy objects):
   recursion on the type, annotations inside the value are ignored. *)
Definition dtype_conf (ev et : elem) : bool := match ev, et with EObjStr, EStr => true | _, _ => elem_beq ev et end.
Fixpoint conforms (t : ty) (v : pval) {struct t} : bool :=
  match t with
  | Tensor e sh => match v with VArr e' s => shape_le s sh && dtype_conf e' e | _ => false end
  | Sequence t' => match v with VList l => forallb (fun p => conforms t' (snd p)) l | _ => false end
  | Optional t' => match v with VNothing => true | VSome _ ve => conforms t' ve | _ => false end
  end.

(* ------------------------------------------------------------------------------------------------ Constant *)
(* Constant.propagate_values: one value per attribute kind (n = number of list elements) *)
Inductive cattr := AValue (e : elem) (s : list nat) | AFloat | AInt | AString | AFloats (n : nat) | AInts (n : nat)
  | AStrings (n : nat) | ASparse.
Definition constant_value (a : cattr) : option pval :=
  match a with
  | AValue e s => Some (VArr e s)
  | AFloat => Some (VArr EF32 [])
  | AInt => Some (VArr EI64 [])
  | AString => Some (VArr EStr [])
  | AFloats n => Some (VArr EF32 [n])
  | AInts n => Some (VArr EI64 [n])
  | AStrings n => Some (VArr EStr [n])
  | ASparse => None
  end.
(* what ONNX's Constant inference reports for the attribute (taken as given: C05/C06 cover inference) *)
Definition constant_type (a : cattr) : option ty :=
  match a with
  | AValue e s => Some (Tensor (norm_elem e) (Some (map DConst s)))
  | AFloat => Some (Tensor EF32 (Some []))
  | AInt => Some (Tensor EI64 (Some []))
  | AString => Some (Tensor EStr (Some []))
  | AFloats n => Some (Tensor EF32 (Some [DConst n]))
  | AInts n => Some (Tensor EI64 (Some [DConst n]))
  | AStrings n => Some (Tensor EStr (Some [DConst n]))
  | ASparse => None
  end.
Definition constant_node (a : cattr) : node :=
  mkNode (KSource (constant_value a)) [] false [mkOut "output" "output" (constant_type a) None None].
(* _Initializer: Tensor(arr.dtype, arr.shape) (alias dtypes are canonicalised by Tensor since fix F3) and the array itself *)
Definition initializer_node (e : elem) (s : list nat) : node :=
  mkNode (KSource (Some (VArr e s))) [] false [mkOut "arg" "arg" (Some (Tensor (norm_elem e) (Some (map DConst s)))) None None].
