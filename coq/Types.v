(* Types.v — model of src/spox/_type_system.py and of the element-type conversion in src/spox/_utils.py (C13).
   No proofs in this file.

   Element types are identified by their ONNX TensorProto.DataType code.  This is the model of the code in which the
   stored numpy scalar type is the canonical one for its ONNX code (fix F3); that the current tree satisfies this for
   every accepted spelling is the per-run obligation [spell_check] over a table regenerated from the tree.

   Type()                      -> TTop      (the base class instance; `other == Type()` is the "any" of _subtype)
   Tensor(dtype, shape)        -> TTensor e s        constructor from a simple shape: [mk_tensor]
   Sequence(t) / Optional(t)   -> TSeq t / TOpt t
   _to_onnx / Type._from_onnx  -> [to_onnx] / [from_onnx] on a modelled onnx.TypeProto ([tproto])
   dataclass ==                -> [ty_eqb]
   _subtype                    -> [subtype]
   runtime values              -> [value], [conforms], [populated] *)
From Coq Require Import List String ZArith NArith Bool.
From Spox Require Import Shape.
Import ListNotations.
Open Scope Z_scope.

(* ---------------------------------------------------------------- element types *)
(* code, numpy/ml_dtypes scalar type that tensor_type_to_dtype returns (onnx 1.22, ml_dtypes 0.6); the harness compares
   this table with the current tree on every run *)
Definition elem_table : list (N * string) := [
  (1%N, "numpy.float32"); (2%N, "numpy.uint8"); (3%N, "numpy.int8"); (4%N, "numpy.uint16"); (5%N, "numpy.int16");
  (6%N, "numpy.int32"); (7%N, "numpy.int64"); (8%N, "numpy.str_"); (9%N, "numpy.bool"); (10%N, "numpy.float16");
  (11%N, "numpy.float64"); (12%N, "numpy.uint32"); (13%N, "numpy.uint64"); (14%N, "numpy.complex64");
  (15%N, "numpy.complex128"); (16%N, "ml_dtypes.bfloat16"); (17%N, "ml_dtypes.float8_e4m3fn");
  (18%N, "ml_dtypes.float8_e4m3fnuz"); (19%N, "ml_dtypes.float8_e5m2"); (20%N, "ml_dtypes.float8_e5m2fnuz");
  (21%N, "ml_dtypes.uint4"); (22%N, "ml_dtypes.int4"); (23%N, "ml_dtypes.float4_e2m1fn");
  (24%N, "ml_dtypes.float8_e8m0fnu"); (25%N, "ml_dtypes.uint2"); (26%N, "ml_dtypes.int2") ]%string.
Definition elem_codes : list N := map fst elem_table.
Definition defined_elem (e : N) : bool := existsb (N.eqb e) elem_codes.

(* ---------------------------------------------------------------- types *)
Inductive ty := TTop | TTensor (e : N) (s : shape) | TSeq (t : ty) | TOpt (t : ty).

(* Tensor.__init__: dtype_to_tensor_type(dtype) must succeed; Shape.from_simple(shape) *)
Definition mk_tensor (e : N) (s : option (list sdim)) : option ty :=
  if defined_elem e then Some (TTensor e (shape_of_simple s)) else None.

Fixpoint ty_eqb (a b : ty) : bool :=
  match a, b with
  | TTop, TTop => true
  | TTensor e s, TTensor e' s' => N.eqb e e' && shape_eqb s s'
  | TSeq x, TSeq y => ty_eqb x y
  | TOpt x, TOpt y => ty_eqb x y
  | _, _ => false
  end.

(* _subtype: every class starts with `other == Type() or self == other`; then same class and componentwise *)
Fixpoint subtype (a b : ty) : bool :=
  match b with
  | TTop => true
  | _ =>
      ty_eqb a b ||
      match a, b with
      | TTensor e s, TTensor e' s' => N.eqb e e' && shape_le s s'   (* issubclass(elem, elem') on canonical scalar types *)
      | TSeq x, TSeq y => subtype x y
      | TOpt x, TOpt y => subtype x y
      | _, _ => false
      end
  end.

Fixpoint proper (t : ty) : bool :=          (* an ONNX type: no Type() inside *)
  match t with TTop => false | TTensor _ _ => true | TSeq x => proper x | TOpt x => proper x end.
Fixpoint wf_ty (t : ty) : bool :=           (* constant dimensions are naturals *)
  match t with TTop => true | TTensor _ s => wf_shape s | TSeq x => wf_ty x | TOpt x => wf_ty x end.
Fixpoint canon_ty (t : ty) : bool :=        (* canonical representation (what the constructors produce) *)
  match t with TTop => true | TTensor e s => defined_elem e && canon_shape s | TSeq x => canon_ty x | TOpt x => canon_ty x end.

(* ---------------------------------------------------------------- onnx.TypeProto *)
Inductive pdim := PValue (n : Z) | PParam (s : string) | PNone.     (* oneof dim_value / dim_param / neither *)
Inductive tproto :=
| PEmpty                                                 (* no `value` field set *)
| PTensor (e : N) (s : option (list pdim))               (* tensor_type: elem_type, optional shape *)
| PSeq (t : tproto) | POpt (t : tproto).

Definition in_int64 (n : Z) : bool := Z.leb (- 9223372036854775808) n && Z.ltb n 9223372036854775808.

(* Natural.simple_to_onnx (via Shape.to_simple): protobuf refuses integers outside int64 *)
Definition dim_to_onnx (d : dim) : option pdim :=
  match simple_of_dim d with
  | SInt n => if in_int64 n then Some (PValue n) else None
  | SStr s => Some (PParam s)
  | SNone => Some PNone
  end.
Definition shape_to_onnx (s : shape) : option (option (list pdim)) :=
  match s with
  | None => Some None
  | Some l => match mapo dim_to_onnx l with Some r => Some (Some r) | None => None end
  end.

Fixpoint to_onnx (t : ty) : option tproto :=
  match t with
  | TTop => None                                        (* Type._to_onnx raises TypeError *)
  | TTensor e s =>
      if defined_elem e then match shape_to_onnx s with Some ps => Some (PTensor e ps) | None => None end else None
  | TSeq x => option_map PSeq (to_onnx x)
  | TOpt x => option_map POpt (to_onnx x)
  end.

(* Natural.simple_from_onnx then from_simple *)
Definition dim_from_onnx (p : pdim) : dim :=
  match p with PValue n => dim_of_simple (SInt n) | PParam s => dim_of_simple (SStr s) | PNone => dim_of_simple SNone end.

Fixpoint from_onnx (p : tproto) : option ty :=
  match p with
  | PEmpty => None                                      (* ValueError *)
  | PTensor e s => if defined_elem e then Some (TTensor e (option_map (map dim_from_onnx) s)) else None
  | PSeq q => option_map TSeq (from_onnx q)
  | POpt q => option_map TOpt (from_onnx q)
  end.

(* ---------------------------------------------------------------- runtime values *)
Inductive value :=
| VTensor (e : N) (sh : list N)          (* an array: element type and concrete shape *)
| VSeq (l : list value)
| VOpt (o : option value).

Fixpoint conforms (v : value) (t : ty) : Prop :=
  match t with
  | TTop => True
  | TTensor e s => match v with VTensor e' sh => e' = e /\ conf_shape sh s | _ => False end
  | TSeq t' => match v with VSeq l => Forall (fun x => conforms x t') l | _ => False end
  | TOpt t' => match v with VOpt None => True | VOpt (Some x) => conforms x t' | _ => False end
  end.

(* populated: sequences are non-empty and optionals present, at every level (an empty sequence conforms to every
   sequence type and an absent optional to every optional type, whatever the element type) *)
Fixpoint populated (v : value) : Prop :=
  match v with
  | VTensor _ _ => True
  | VSeq l => l <> [] /\ (fix all (l : list value) : Prop := match l with [] => True | x :: r => populated x /\ all r end) l
  | VOpt None => False
  | VOpt (Some x) => populated x
  end.

(* ---------------------------------------------------------------- spellings of element types *)
(* One row per spelling accepted or refused by the real Tensor(...) constructor, dumped from the current tree:
   sp_onnx   = what ONNX itself defines for the numpy scalar type of the spelling (None: no ONNX element type)
   sp_result = Refused, or Accepted stored code: id of the scalar type stored in the Tensor, code that _to_onnx emits *)
Inductive spell_result := Refused | Accepted (stored code : N).
Record spell_row := mkrow { sp_name : string; sp_onnx : option N; sp_result : spell_result }.

Fixpoint lookupN (k : N) (l : list (N * N)) : option N :=
  match l with [] => None | (k', v) :: r => if N.eqb k k' then Some v else lookupN k r end.

(* canon : ONNX code -> id of the scalar type that Type._from_onnx stores for it *)
Definition spell_ok (canon : list (N * N)) (r : spell_row) : bool :=
  match sp_onnx r, sp_result r with
  | None, Refused => true
  | Some c, Accepted st c' =>
      N.eqb c c' && defined_elem c && match lookupN c canon with Some st' => N.eqb st st' | None => false end
  | _, _ => false
  end.
Definition spell_check (canon : list (N * N)) (tbl : list spell_row) : bool := forallb (spell_ok canon) tbl.

(* what the per-run table check establishes (proved from [spell_check] in TypesFacts.v) *)
Definition spellings_canonical (canon : list (N * N)) (tbl : list spell_row) : Prop :=
  (* element types ONNX does not define are refused *)
  (forall r, In r tbl -> sp_onnx r = None -> sp_result r = Refused) /\
  (* a spelling of an ONNX element type c is accepted, emits c, and stores the scalar type from_onnx produces for c *)
  (forall r c, In r tbl -> sp_onnx r = Some c ->
     exists st, sp_result r = Accepted st c /\ lookupN c canon = Some st /\ defined_elem c = true) /\
  (* hence: two accepted spellings with the same ONNX element type give equal types (same stored scalar type) *)
  (forall r1 r2 st1 st2 c, In r1 tbl -> In r2 tbl ->
     sp_result r1 = Accepted st1 c -> sp_result r2 = Accepted st2 c -> st1 = st2).

(* structural reading of compatibility *)
Inductive compat : ty -> ty -> Prop :=
| compat_top a : compat a TTop
| compat_tensor e s s' : shape_le s s' = true -> compat (TTensor e s) (TTensor e s')
| compat_seq x y : compat x y -> compat (TSeq x) (TSeq y)
| compat_opt x y : compat x y -> compat (TOpt x) (TOpt y).

(* the TypeProto that to_onnx emits for the type built from p: an empty dim_param is the same as no value *)
Definition norm_pdim (d : pdim) : pdim := match d with PParam s => if String.eqb s "" then PNone else d | _ => d end.
Fixpoint norm_proto (p : tproto) : tproto :=
  match p with
  | PEmpty => PEmpty
  | PTensor e s => PTensor e (option_map (map norm_pdim) s)
  | PSeq q => PSeq (norm_proto q)
  | POpt q => POpt (norm_proto q)
  end.
Definition pfits_dim (d : pdim) : bool := match d with PValue n => in_int64 n | _ => true end.   (* dim_value is an int64 field *)
Fixpoint pfits (p : tproto) : bool :=
  match p with
  | PEmpty => true
  | PTensor _ s => match s with None => true | Some l => forallb pfits_dim l end
  | PSeq q => pfits q | POpt q => pfits q
  end.

(* _strip_dim_symbol with an always-true predicate: what spox.inline does to the model's input/output types *)
Definition strip_dim (d : dim) : dim := match d with DN _ => DA | _ => d end.
Fixpoint strip_ty (t : ty) : ty :=
  match t with
  | TTop => TTop
  | TTensor e s => TTensor e (option_map (map strip_dim) s)
  | TSeq x => TSeq (strip_ty x)
  | TOpt x => TOpt (strip_ty x)
  end.
