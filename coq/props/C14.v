(* C14 — functions mean their body, are defined once; inconsistent bodies are rejected.  Property theorems only. *)
From Coq Require Import List String NArith Arith Bool.
From Spox Require Import Base IR Show Build Sem Plan Validate BuildFacts SemFacts FuncFacts CompilePres ScopeFacts EmitFacts FunDefFacts AdaptFacts ReqFacts CoverFacts FunCoverFacts LegalFacts FunLegalFacts.
Import ListNotations.

(* The returned model has exactly one definition per used (domain, name): every function called from the main graph, from a
   control-flow body or from another function's body has a definition, and nothing else is defined. *)
Theorem C14_one_definition_per_key :
  forall p r m inputs outputs, build_checked p r = inl m ->
  all_vars (r_inputs r) = Some inputs -> all_vars (r_outputs r) = Some outputs ->
  let p' := final_prog p r inputs outputs in
  NoDup (fkeys m) /\ (forall k, In k (used_fkeys p' m) <-> In k (fkeys m)).
Proof. intros p r m i o H Hi Ho p'. apply build_checked_inv in H. destruct H as [_ Hv].
  exact (functions_one_per_key p r m i o Hi Ho Hv). Qed.
Print Assumptions C14_one_definition_per_key.

(* to_model keeps one proto per key, and every function met in the build is represented by a definition with identical rendering
   AND identical attribute values inside the body (two bodies that differ only in a Constant's tensor are different) *)
Theorem C14_definitions_merged_only_if_identical :
  forall b m, to_model b = inl m ->
  NoDup (map fkey (mfunctions m)) /\
  forall f, In f (b_funs b) -> exists d, In d (mfunctions m) /\ fkey d = fkey (function_proto (max_opset_policy (b_req b)) f) /\
                                   show_function d = show_function (function_proto (max_opset_policy (b_req b)) f) /\
                                   f_vals d = f_vals (function_proto (max_opset_policy (b_req b)) f).
Proof. exact to_model_functions. Qed.
Print Assumptions C14_definitions_merged_only_if_identical.

(* A function whose body differs between two calls is rejected at build time (RuntimeError), never silently merged. *)
Theorem C14_differing_bodies_rejected :
  forall b f1 f2, In f1 (b_funs b) -> In f2 (b_funs b) ->
  let i := max_opset_policy (b_req b) in
  fkey (function_proto i f1) = fkey (function_proto i f2) ->
  (show_function (function_proto i f1) <> show_function (function_proto i f2) \/ fd_vals f1 <> fd_vals f2) ->
  forall m, to_model b <> inl m.
Proof. exact differing_bodies_rejected. Qed.
Print Assumptions C14_differing_bodies_rejected.

(* The opset imports of a definition cover the requirement of every node of its body. *)
Theorem C14_function_imports_cover_body :
  forall p r m inputs outputs, build_checked p r = inl m ->
  all_vars (r_inputs r) = Some inputs -> all_vars (r_outputs r) = Some outputs ->
  let p' := final_prog p r inputs outputs in
  forall f u dv, In f (mfunctions m) -> In u (flat_map srcs_node (f_body f)) -> In dv (node_req p' u) ->
  exists iv, In iv (f_imports f) /\ fst iv = fold_domain (fst dv) /\ snd dv <= snd iv.
Proof. intros p r m i o H Hi Ho p' f u dv. apply build_checked_inv in H. destruct H as [_ Hv].
  exact (function_imports_cover_body p r m i o Hi Ho Hv f u dv). Qed.
Print Assumptions C14_function_imports_cover_body.

(* A call means its body: the emitted FunctionProto body, executed on the argument values, yields the meaning of the body's
   results (evaluation of the Python body's dataflow) — for every operator semantics; nested functions likewise. *)
Theorem C14_call_means_body :
  forall p r m inputs outputs, build_checked p r = inl m ->
  all_vars (r_inputs r) = Some inputs -> all_vars (r_outputs r) = Some outputs ->
  let p' := final_prog p r inputs outputs in
  forall f, In f (mfunctions m) ->
  forall (val : Type) (dv : val) (opsem : nat -> list (option val) -> list (clos val) -> list val),
  (forall n ivs c1 c2, Forall2 (fun a b => forall av, a av = b av) c1 c2 -> opsem n ivs c1 = opsem n ivs c2) ->
  forall av,
  run_plan p' (f_bodyid f) val dv opsem (plan_of_graph p' (f_bodyid f) (MGraph [] (f_body f) [])) av =
  map (meaning p' (f_bodyid f) val dv opsem (bindv val dv (gargsP p' (f_bodyid f)) av)) (gresP p' (f_bodyid f)).
Proof. intros p r m i o H Hi Ho p' f Hf val dv opsem Hext av. apply build_checked_inv in H. destruct H as [_ Hv].
  pose proof (function_plan_checked p r m i o Hi Ho Hv f Hf) as Hc. fold p' in Hc.
  assert (Ha : acyclic_b p' (f_bodyid f) = true) by (unfold check_plan in Hc; apply andb_prop in Hc; destruct Hc as [Hc _]; apply andb_prop in Hc; tauto).
  exact (plan_sem p' (f_bodyid f) Ha val dv opsem Hext _ Hc av). Qed.
Print Assumptions C14_call_means_body.

(* The same WITHOUT the validator, for legal bodies: the plan of every function body is proved well-formed from the build algorithm
   (discovery, scope tree, placement, emission) at every depth of function nesting; the premise is a decidable statement about the
   Python object graph of the body only (LegalFacts.legal_b), evaluated on every function of every generated program. *)
Theorem C14_call_means_body_for_legal_bodies :
  forall p r m inputs outputs, build_public p r = inl m ->
  all_vars (r_inputs r) = Some inputs -> all_vars (r_outputs r) = Some outputs ->
  exists args, (r_drop r = false -> args = map snd inputs) /\
    let p' := with_main p (Some args) outputs in
    forall f, In f (mfunctions m) -> legal_b p' (f_bodyid f) = true ->
    forall (val : Type) (dv : val) (opsem : nat -> list (option val) -> list (clos val) -> list val),
    (forall n ivs c1 c2, Forall2 (fun a b => forall av, a av = b av) c1 c2 -> opsem n ivs c1 = opsem n ivs c2) ->
    forall av,
    run_plan p' (f_bodyid f) val dv opsem (plan_of_graph p' (f_bodyid f) (MGraph [] (f_body f) [])) av =
    map (meaning p' (f_bodyid f) val dv opsem (bindv val dv (gargsP p' (f_bodyid f)) av)) (gresP p' (f_bodyid f)).
Proof. exact functions_mean_bodies_legal. Qed.
Print Assumptions C14_call_means_body_for_legal_bodies.

(* Every call has a definition, by construction (no validator): each function-call node emitted anywhere in the graph tree of the
   returned model - main graph or control-flow body at any depth - has a FunctionProto of its (domain, name): the loop step that
   emits the call records the function, the lists of bodies are appended to those of the enclosing graph, and to_model keeps one
   definition per key. *)
Theorem C14_every_call_has_a_definition :
  forall p r m inputs outputs,
  build_public p r = inl m -> all_vars (r_inputs r) = Some inputs -> all_vars (r_outputs r) = Some outputs ->
  exists args, forall n body fi fo fa, In (NReal n) (srcs_graph (mmain m)) ->
    kind (getn (with_main p (Some args) outputs) n) = KFunc body fi fo fa ->
    exists d, In d (mfunctions m) /\ f_domain d = domain (getn p n) /\ f_name d = ident (getn p n).
Proof. exact build_public_calls_defined. Qed.
Print Assumptions C14_every_call_has_a_definition.

Theorem C14_functions_recorded_at_every_depth :
  forall p un args_of own_of fbuild fuel s g prefix vi mg s' rq fs,
    compile p un args_of own_of fbuild fuel s g prefix vi = inl (mg, s', rq, fs) -> Covered p (srcs_graph mg) fs.
Proof. exact compile_functions_recorded. Qed.
Print Assumptions C14_functions_recorded_at_every_depth.

(* "... whose opset imports cover its body", by construction (no validator, no premise): for every FunctionProto of a returned model - a
   function called from the main graph, from a control-flow body or only from another function - every node of its body and every
   (domain, version) that node requires, the definition imports that domain (with "ai.onnx" folded into "") at a version that is at
   least the required one. *)
Theorem C14_function_imports_cover_the_body_by_construction :
  forall p r m inputs outputs,
  build_public p r = inl m -> all_vars (r_inputs r) = Some inputs -> all_vars (r_outputs r) = Some outputs ->
  exists args, forall d, In d (mfunctions m) -> forall u, In u (flat_map srcs_node (f_body d)) ->
    forall dv, In dv (node_req (with_main p (Some args) outputs) u) ->
      exists v, lookup String.eqb (fold_domain (fst dv)) (f_imports d) = Some v /\ snd dv <= v.
Proof. exact build_public_function_imports_cover. Qed.
Print Assumptions C14_function_imports_cover_the_body_by_construction.
