(* C17 — overloaded Python operators on Var follow numpy semantics.  Property theorems only.
   Model: Ops.v.  rt0 / np0 are the committed snapshot (OpsTable.v) of numpy's result_type table and of numpy's own
   operator result dtypes; the harness regenerates both from the installed numpy on every run and re-proves the
   table theorems on the regenerated data with the general lemmas used here.
   [repaired] = the tree with fixes/F10a.diff, fixes/F21.diff and fixes/F22.diff, [pinned] = the tree without them. *)
From Coq Require Import ZArith List Bool.
From Spox Require Import Ops OpsFacts OpsTable OpsTableFacts.
Import ListNotations.
Open Scope Z_scope.

(* ---- result element type = numpy's (type promotion on) ------------------------------------------------------- *)
(* For + - * / //, both constant-promotion settings, every pair of operand kinds with at least one Var (Vars and numpy
   scalars of the 11 numeric element types, Python ints and floats of ANY value, on either side): either the Python
   int does not fit the target type (OverflowError, as in numpy) or the operator yields a Var whose element type is
   the dtype numpy's own operator produces.  With constant promotion off the statement is for Var-Var pairs. *)
Theorem C17_result_dtype_is_numpys :
  forall r c o x y, (r = pinned \/ r = repaired) -> numeric_kind x -> numeric_kind y -> is_var x || is_var y = true ->
    (c = true \/ is_var x && is_var y = true) ->
    disp_arith rt0 r (mk_setting true c) o x y = Err EOverflow \/
    exists e t, disp_arith rt0 r (mk_setting true c) o x y = Ok e t /\ np0 o (tk_of x) (tk_of y) = Some t.
Proof. exact promo_dtype_is_numpys0. Qed.
Print Assumptions C17_result_dtype_is_numpys.

(* the same for ANY pair of tables that passes the finite check (what each run re-establishes for the live numpy) *)
Theorem C17_result_dtype_is_numpys_for_checked_tables :
  forall rt np, check_promo rt np = true ->
  forall r c o x y, (r = pinned \/ r = repaired) -> numeric_kind x -> numeric_kind y -> is_var x || is_var y = true ->
    (c = true \/ is_var x && is_var y = true) ->
    disp_arith rt r (mk_setting true c) o x y = Err EOverflow \/
    exists e t, disp_arith rt r (mk_setting true c) o x y = Ok e t /\ np o (tk_of x) (tk_of y) = Some t.
Proof. exact promo_dtype_is_numpys. Qed.
Print Assumptions C17_result_dtype_is_numpys_for_checked_tables.

(* scalar VALUES never influence the result element type (only whether OverflowError is raised) *)
Theorem C17_dtype_indep_of_scalar_values :
  forall rt r s o x y, disp_arith rt r s o x y = Err EOverflow \/
    res_dtype (disp_arith rt r s o x y) = res_dtype (disp_arith rt r s o (repr x) (repr y)).
Proof. exact dtype_indep_of_scalar_values. Qed.
Print Assumptions C17_dtype_indep_of_scalar_values.

(* integer promotion never loses an operand value: the integer result type contains both operand types *)
Theorem C17_int_promotion_lossless :
  forall kx ky t, In kx int_tks -> In ky int_tks -> rt0 kx ky = Some t -> is_int t = true ->
    forall ta z, (kx = TE ta \/ ky = TE ta) -> in_range ta z = true -> in_range t z = true.
Proof. exact int_promotion_lossless0. Qed.
Print Assumptions C17_int_promotion_lossless.

(* ---- type promotion off --------------------------------------------------------------------------------------- *)
(* differing element types: TypeError, for every operator, both constant-promotion settings, any table *)
Theorem C17_no_promotion_type_mismatch :
  forall rt r c o ta tb, ta <> tb -> disp_arith rt r (mk_setting false c) o (OVar ta) (OVar tb) = Err ETypeError.
Proof. exact no_promotion_type_mismatch. Qed.
Print Assumptions C17_no_promotion_type_mismatch.

(* a Python float (or floating numpy scalar) meeting an integer Var, on either side: TypeError *)
Theorem C17_no_promotion_float_meets_int :
  forall rt r c o t z, is_int t = true -> is_var z = false -> target_is_floating z = true ->
    disp_arith rt r (mk_setting false c) o (OVar t) z = Err ETypeError /\
    disp_arith rt r (mk_setting false c) o z (OVar t) = Err ETypeError.
Proof. exact no_promotion_float_meets_int. Qed.
Print Assumptions C17_no_promotion_float_meets_int.

(* whenever there is a result, it has the element type of a Var operand, no operand is fed through a Cast, and
   (except for the repaired //, whose correction casts an internal boolean) no Cast is emitted at all *)
Theorem C17_no_promotion_keeps_type :
  forall rt r c o x y e t, disp_arith rt r (mk_setting false c) o x y = Ok e t ->
    (x = OVar t \/ y = OVar t) /\ converts_operand e = false /\ (o <> FloorDiv -> has_cast e = false).
Proof. exact no_promotion_keeps_type. Qed.
Print Assumptions C17_no_promotion_keeps_type.

(* non-vacuity of the previous theorem: equal numeric element types always give a result of that type *)
Theorem C17_no_promotion_same_type_ok :
  forall rt r c o t, In t numeric_ety -> exists e, disp_arith rt r (mk_setting false c) o (OVar t) (OVar t) = Ok e t.
Proof. exact no_promotion_same_type_ok. Qed.
Print Assumptions C17_no_promotion_same_type_ok.

(* and the kept type is numpy's whenever the other operand is a Var or a Python scalar, except / on integers *)
Theorem C17_no_promotion_dtype_is_numpys :
  forall r c o x y e t, disp_arith rt0 r (mk_setting false c) o x y = Ok e t ->
    (forall u v, x <> ONp u v /\ y <> ONp u v) -> numpy_claim o t = true -> np0 o (tk_of x) (tk_of y) = Some t.
Proof. exact nopromo_dtype_is_numpys0. Qed.
Print Assumptions C17_no_promotion_dtype_is_numpys.

(* the excluded case, explicit: / on integer Vars without promotion is the integer Div and keeps the type *)
Theorem C17_truediv_without_promotion_keeps_int :
  exists e, disp_arith rt0 repaired (mk_setting false true) TrueDiv (OVar I32) (OVar I32) = Ok e I32 /\
            np0 TrueDiv (TE I32) (TE I32) = Some F64 /\ ieval e (-7) 2 = Some (-3).
Proof. exact truediv_without_promotion_keeps_int. Qed.
Print Assumptions C17_truediv_without_promotion_keeps_int.

(* ---- outside a block ------------------------------------------------------------------------------------------- *)
Theorem C17_outside_block_binary_typeerror :
  forall rt r o x y, is_var x || is_var y = true -> py_binop rt r None o x y = Err ETypeError.
Proof. exact outside_block_binary. Qed.
Print Assumptions C17_outside_block_binary_typeerror.

Theorem C17_outside_block_unary_typeerror :
  forall r t, fix_unary r = true ->
    py_unop r None PNeg (OVar t) = Err ETypeError /\ py_unop r None PInvert (OVar t) = Err ETypeError.
Proof. exact outside_block_unary. Qed.
Print Assumptions C17_outside_block_unary_typeerror.

(* pinned tree (F21): a unary dunder returning NotImplemented is not turned into TypeError by Python *)
Theorem C17_outside_block_unary_refuted :
  exists t, py_unop pinned None PNeg (OVar t) = RNotImplemented /\ py_unop pinned None PInvert (OVar t) = RNotImplemented.
Proof. exact outside_block_unary_refuted. Qed.
Print Assumptions C17_outside_block_unary_refuted.

(* ---- logical operators ------------------------------------------------------------------------------------------ *)
Theorem C17_logical_binary :
  forall rt r s l,
    py_binop rt r (Some s) (PLogic l) (OVar TB) (OVar TB) = Ok (EBin (logic_bop l) TB (EArg SA) (EArg SB)) TB /\
    forall p q, ieval (EBin (logic_bop l) TB (EArg SA) (EArg SB)) (b2z p) (b2z q) = Some (b2z (logic_sem l p q)).
Proof. exact logical_binary. Qed.
Print Assumptions C17_logical_binary.

Theorem C17_logical_invert :
  forall r s, py_unop r (Some s) PInvert (OVar TB) = Ok (EUn ONot TB (EArg SA)) TB /\
    forall p b, ieval (EUn ONot TB (EArg SA)) (b2z p) b = Some (b2z (negb p)).
Proof. exact logical_invert. Qed.
Print Assumptions C17_logical_invert.

(* anything else meeting & | ^ is rejected: non-Var operand -> TypeError, non-boolean Var -> onnx InferenceError *)
Theorem C17_logical_rejects :
  forall rt r s l x y, is_var x || is_var y = true -> (x, y) <> (OVar TB, OVar TB) ->
    py_binop rt r (Some s) (PLogic l) x y = Err (if is_var x && is_var y then EInference else ETypeError).
Proof. exact logical_rejects. Qed.
Print Assumptions C17_logical_rejects.

(* ---- integer arithmetic is exact modulo 2^w -------------------------------------------------------------------- *)
(* what "wrapped" means: wrap t z is THE representative of z modulo 2^width in t's range *)
Theorem C17_wrap_spec :
  forall t z, is_int t = true ->
    in_range t (wrap t z) = true /\ (exists k, wrap t z = z + k * 2 ^ width t) /\
    (forall r, in_range t r = true -> (exists k, r = z + k * 2 ^ width t) -> r = wrap t z).
Proof. exact wrap_spec. Qed.
Print Assumptions C17_wrap_spec.

(* + - * : for every table, repair state, setting and integer-valued operand kinds (Vars, Python ints, numpy integer
   scalars, either side), whenever the operator yields an integer-typed Var, the emitted tree computes, for ALL
   operand values a b in Z, the exact result wrapped to the result type — numpy's integer arithmetic *)
Theorem C17_int_arith_exact :
  forall rt r s o x y e t, wrap_arith o = true -> int_operand x = true -> int_operand y = true ->
    disp_arith rt r s o x y = Ok e t -> is_int t = true ->
    forall a b, ieval e a b = Some (wrap t (zarith o (val x a) (val y b))).
Proof. exact int_arith_exact. Qed.
Print Assumptions C17_int_arith_exact.

Theorem C17_neg_exact :
  forall r s t e t', py_unop r (Some s) PNeg (OVar t) = Ok e t' ->
    t' = t /\ (is_int t = true -> forall a b, ieval e a b = Some (wrap t (- a))).
Proof. exact neg_exact. Qed.
Print Assumptions C17_neg_exact.

(* unary - on unsigned element types: ONNX Neg does not accept them, so the pinned tree raises (onnx InferenceError)
   where numpy wraps; the tree with fixes/F22.diff emits 0 - x, and then every numeric element type has a result,
   exact modulo 2^w by C17_neg_exact *)
Theorem C17_neg_unsigned_pinned_rejects :
  forall r s t, fix_neg_unsigned r = false -> is_uint t = true -> py_unop r (Some s) PNeg (OVar t) = Err EInference.
Proof. exact neg_unsigned_pinned_rejects. Qed.
Print Assumptions C17_neg_unsigned_pinned_rejects.

Theorem C17_neg_numeric_repaired_ok :
  forall r s t, fix_neg_unsigned r = true -> In t numeric_ety -> exists e, py_unop r (Some s) PNeg (OVar t) = Ok e t.
Proof. exact neg_numeric_repaired_ok. Qed.
Print Assumptions C17_neg_numeric_repaired_ok.

(* ---- integer floor division ------------------------------------------------------------------------------------ *)
(* F10a, pinned tree: the emitted Div truncates; witness -7 // 2 *)
Theorem C17_floordiv_trunc_refuted :
  forall rt c, exists e a b,
    disp_arith rt pinned (mk_setting false c) FloorDiv (OVar I32) (OVar I32) = Ok e I32 /\
    in_range I32 a = true /\ in_range I32 b = true /\ b <> 0 /\ ieval e a b = Some (-3) /\ a / b = -4.
Proof. exact floordiv_trunc_refuted. Qed.
Print Assumptions C17_floordiv_trunc_refuted.

(* the correction on Z (Coq's Z.div is floor division) *)
Theorem C17_fix_floordiv_ok : forall a b, b <> 0 -> fix_floordiv_z a b = a / b.
Proof. exact fix_floordiv_ok. Qed.
Print Assumptions C17_fix_floordiv_ok.

(* repaired tree: for every signed result type, setting and integer-valued operand kinds, the emitted tree computes
   floor division for all operand values of the result type, b <> 0, excluding only INT_MIN // -1 *)
Theorem C17_floordiv_fixed_ok :
  forall rt s x y e t, disp_arith rt repaired s FloorDiv x y = Ok e t -> is_sint t = true ->
    int_operand x = true -> int_operand y = true ->
    forall a b, in_range t (val x a) = true -> in_range t (val y b) = true ->
      val y b <> 0 -> ~ (val x a = lo t /\ val y b = -1) ->
      ieval e a b = Some (val x a / val y b).
Proof. exact floordiv_fixed_ok. Qed.
Print Assumptions C17_floordiv_fixed_ok.

(* the excluded corner, stated: the exact quotient 2^(w-1) is not representable; IF the runtime's Div wraps there
   (the model's assumption — in C++ it is undefined behaviour and the harness does not execute it), the corrected
   tree yields INT_MIN, which is numpy's (wrapped) answer too *)
Theorem C17_floordiv_fixed_corner :
  forall t ea eb a b, is_sint t = true -> ieval ea a b = Some (lo t) -> ieval eb a b = Some (-1) ->
    ieval (floor_fix t ea eb (EBin ODiv t ea eb)) a b = Some (lo t) /\
    wrap t (lo t / -1) = lo t /\ in_range t (lo t / -1) = false.
Proof. exact floordiv_fixed_corner. Qed.
Print Assumptions C17_floordiv_fixed_corner.

(* unsigned types: the plain Div is floor division (pinned and repaired trees alike) *)
Theorem C17_floordiv_unsigned_ok :
  forall rt r s x y e t, disp_arith rt r s FloorDiv x y = Ok e t -> is_uint t = true ->
    int_operand x = true -> int_operand y = true ->
    forall a b, in_range t (val x a) = true -> in_range t (val y b) = true -> val y b <> 0 ->
      ieval e a b = Some (val x a / val y b).
Proof. exact floordiv_unsigned_ok. Qed.
Print Assumptions C17_floordiv_unsigned_ok.
