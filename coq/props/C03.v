(* C03 — the model's inputs and outputs are exactly what was requested.  Property theorems only. *)
From Coq Require Import List String NArith Arith Bool.
From Spox Require Import Base IR Show Build Validate BuildFacts ScopeFacts IOFacts.
Import ListNotations.

(* Graph inputs are exactly the requested entries (same names, order and types); with drop_unused_inputs exactly those
   on which some output depends (through inputs and subgraph results at any depth), in their given relative order.
   Graph outputs are exactly the requested entries, likewise. *)
Theorem C03_io_exact :
  forall p r m inputs outputs, build_checked p r = inl m ->
  all_vars (r_inputs r) = Some inputs -> all_vars (r_outputs r) = Some outputs ->
  let p' := final_prog p r inputs outputs in
  let want := if r_drop r then filter (fun kv => mem var_eqb (snd kv) (depends_on p' 0)) inputs else inputs in
  let ty kv := match vty p' (snd kv) with Some t => tshow t | None => "?"%string end in
  match mmain m with MGraph gi _ go_ =>
    map fst gi = map fst want /\ map fst go_ = map fst outputs /\ map snd go_ = map ty outputs /\ map snd gi = map ty want
  end.
Proof. intros p r m inputs outputs H Hi Ho. apply build_checked_inv in H. destruct H as [_ Hv].
  exact (io_names_exact p r m inputs outputs Hi Ho Hv). Qed.
Print Assumptions C03_io_exact.

(* A model is never returned with a graph input that was not listed: such a request ends in KeyError. *)
Theorem C03_no_unlisted_inputs :
  forall p r m inputs, build_public p r = inl m -> all_vars (r_inputs r) = Some inputs ->
  match mmain m with MGraph gi _ _ => forall i, In i gi -> In (fst i) (map fst inputs) end.
Proof. exact build_public_inputs_listed. Qed.
Print Assumptions C03_no_unlisted_inputs.

(* With drop_unused_inputs the test is on the argument Vars themselves (a missing argument whose generated name equals a listed
   name is still missing): every argument the outputs use is one of the listed Vars, else KeyError. *)
Theorem C03_drop_used_arguments_are_listed :
  forall p r m inputs outputs, build_public p r = inl m -> r_drop r = true ->
  all_vars (r_inputs r) = Some inputs -> all_vars (r_outputs r) = Some outputs ->
  exists un b1, build_main (S (List.length (graphs p))) (with_main p None outputs) un 0 = inl b1 /\
                forall v, In v (b_args b1) -> In v (map snd inputs).
Proof. exact build_public_drop_used_listed. Qed.
Print Assumptions C03_drop_used_arguments_are_listed.

(* By construction (no validator involved): the graph inputs of a returned model are the requested arguments - all of them in the
   given order, or with drop_unused_inputs a sub-sequence of them - and each carries the name it was listed under (the last one if a
   Var is listed under several names).  Rests on: a binding Var -> name is never changed once made (Ext, through every compile of any
   depth), Scope.update binds every named output under its name, the graph's value infos read the table. *)
Theorem C03_inputs_are_the_requested_arguments_under_their_names :
  forall p r m inputs outputs,
  build_public p r = inl m -> all_vars (r_inputs r) = Some inputs -> all_vars (r_outputs r) = Some outputs ->
  (forall kv, In kv inputs -> vidx (snd kv) < List.length (node_outs p (vnode (snd kv)))) ->
  exists args, (r_drop r = false -> args = map snd inputs) /\ (forall a, In a args -> In a (map snd inputs)) /\
    match mmain m with MGraph gi _ _ =>
      Forall2 (fun a x => forall n, lookup var_eqb a (user_names inputs) = Some n -> fst x = n) args gi end.
Proof. exact build_public_inputs. Qed.
Print Assumptions C03_inputs_are_the_requested_arguments_under_their_names.

(* ... and, without any premise, names AND types of inputs AND outputs: the graph inputs are the requested arguments (all in order;
   with drop_unused_inputs a sub-sequence), the graph outputs the requested outputs in order; every entry carries the name it was
   requested under and the concrete type of its Var.  (A Var that has a user name is only ever bound to that name: BoundRight.) *)
Theorem C03_io_by_construction :
  forall p r m inputs outputs,
  build_public p r = inl m -> all_vars (r_inputs r) = Some inputs -> all_vars (r_outputs r) = Some outputs ->
  exists args, (r_drop r = false -> args = map snd inputs) /\ (forall a, In a args -> In a (map snd inputs)) /\
    match mmain m with MGraph gi _ go_ =>
      Forall2 (fun a x => (forall n, lookup var_eqb a (user_names inputs) = Some n -> fst x = n) /\
                          exists t, vty p a = Some t /\ snd x = tshow t /\ tconcrete t = true) args gi /\
      map fst go_ = map fst outputs /\
      Forall2 (fun kv x => exists t, vty p (snd kv) = Some t /\ snd x = tshow t /\ tconcrete t = true) outputs go_
    end.
Proof. exact build_public_io. Qed.
Print Assumptions C03_io_by_construction.

(* Inputs or outputs that are not Vars raise TypeError; inputs that are not arguments raise TypeError; no outputs: ValueError. *)
Theorem C03_bad_kinds_typeerror :
  forall p r, all_vars (r_inputs r) = None \/ all_vars (r_outputs r) = None -> build_public p r = inr EType.
Proof. exact build_public_bad_kinds. Qed.
Print Assumptions C03_bad_kinds_typeerror.
Theorem C03_inputs_not_arguments_typeerror :
  forall p r inputs, all_vars (r_inputs r) = Some inputs ->
  (exists kv, In kv inputs /\ is_arg p (vnode (snd kv)) = false) -> build_public p r = inr EType.
Proof. exact build_public_inputs_not_arguments. Qed.
Print Assumptions C03_inputs_not_arguments_typeerror.
Theorem C03_no_outputs_valueerror :
  forall p r inputs, all_vars (r_inputs r) = Some inputs -> r_outputs r = [] ->
  forallb (fun kv => is_arg p (vnode (snd kv))) inputs = true -> build_public p r = inr EValue.
Proof. exact build_public_no_outputs. Qed.
Print Assumptions C03_no_outputs_valueerror.
