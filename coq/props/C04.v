(* C04 — each operator application is emitted once, in the innermost enclosing scope.  Property theorems only. *)
From Coq Require Import List String NArith Arith Bool.
From Spox Require Import Base IR Show Build Sem Plan Validate BuildFacts SemFacts DfsFacts ScopeFacts EmitFacts ReachFacts DiscoverFacts CoverageFacts LcaFacts PlacementFacts DefUseFacts.
Import ListNotations.

(* The source nodes of all emitted nodes (all nested graphs) are duplicate-free and are exactly the non-argument nodes on which
   some requested output depends (through inputs and subgraph results). *)
Theorem C04_emitted_once :
  forall p r m inputs outputs, build_checked p r = inl m ->
  all_vars (r_inputs r) = Some inputs -> all_vars (r_outputs r) = Some outputs ->
  NoDup (srcs_graph (mmain m)) /\
  forall u, In u (srcs_graph (mmain m)) <-> In u (reachable (final_prog p r inputs outputs) 0).
Proof. intros p r m i o H Hi Ho. apply build_checked_inv in H. destruct H as [_ Hv].
  exact (emitted_exactly_once p r m i o Hi Ho Hv). Qed.
Print Assumptions C04_emitted_once.

(* Placement: the graph path of an emitted application is an ancestor-or-equal of the graph of each of its consumers (sound)
   and the deepest such path (innermost). *)
Theorem C04_placement_innermost :
  forall p r m inputs outputs, build_checked p r = inl m ->
  all_vars (r_inputs r) = Some inputs -> all_vars (r_outputs r) = Some outputs ->
  let p' := final_prog p r inputs outputs in
  let paths := paths_graph [] (mmain m) in
  forall u pu, In (NReal u, pu) paths ->
  let cps := flat_map (fun w => match lookup nref_eqb w paths with Some q => [q] | None => [] end)
                      (consumers p' (map fst paths) (NReal u)) in
  cps <> [] /\ (forall q, In q cps -> prefix pu q) /\ (forall c, (forall q, In q cps -> prefix c q) -> prefix c pu).
Proof. intros p r m i o H Hi Ho p' paths u pu Hu. apply build_checked_inv in H. destruct H as [_ Hv].
  exact (placed_innermost p r m i o Hi Ho Hv u pu Hu). Qed.
Print Assumptions C04_placement_innermost.

(* Definition before use through enclosing graphs (hence: a value depending on a body argument cannot sit outside that body,
   because the argument is defined only there): the emitted structure is a well-formed plan. *)
Theorem C04_def_before_use :
  forall p r m inputs outputs, build_checked p r = inl m ->
  all_vars (r_inputs r) = Some inputs -> all_vars (r_outputs r) = Some outputs ->
  let p' := final_prog p r inputs outputs in
  wf (is_argP p') (insP p' 0) (subsP p' 0) (gargsP p') (gresP p') (noutsP p') (plan_of_graph p' 0 (mmain m)) [] [].
Proof. intros p r m i o H Hi Ho p'. apply build_checked_inv in H. destruct H as [_ Hv].
  pose proof (plan_checked p r m i o Hi Ho Hv) as Hc. unfold check_plan in Hc. apply andb_prop in Hc. destruct Hc as [_ Hw].
  apply wf_b_sound. exact Hw. Qed.
Print Assumptions C04_def_before_use.

(* LCA facts used above: longest common prefix of root paths is the lowest common ancestor. *)
Theorem C04_lcp_is_lca :
  forall ps l, lcp_all ps = Some l ->
  (forall q, In q ps -> prefix l q) /\ (forall c, (forall q, In q ps -> prefix c q) -> prefix c l).
Proof. exact lcp_all_spec. Qed.
Print Assumptions C04_lcp_is_lca.

(* The traversal itself (no validator involved): on an acyclic dependency relation the builder's DFS postorder lists every node
   once, lists every dependency (input or subgraph result) of a node before the node, and contains the source. *)
Theorem C04_postorder_spec :
  forall adj (rank : nref -> nat), (forall u v, In v (adj u) -> rank v < rank u) ->
  forall fuel src, rank src < fuel ->
  let post := postorder fuel adj src in NoDup post /\ closed nref adj post /\ In src post.
Proof. exact postorder_spec. Qed.
Print Assumptions C04_postorder_spec.

(* Emission (no validator involved).  Whatever compile returns for scope g — any fuel, nesting depth, mix of operators,
   functions, inlined models — the top level of its GraphProto holds exactly the non-argument nodes that the scope resolution
   assigned to g (own_of g), once each, in the builder's topological order ... *)
Theorem C04_graph_holds_exactly_its_own_nodes :
  forall p un args_of own_of fbuild fuel s g prefix is_main ai ms ro s' rq fs,
    compile p un args_of own_of fbuild fuel s g prefix is_main = inl (MGraph ai ms ro, s', rq, fs) ->
    map src_of ms = filter (fun u => negb (is_arg p u)) (own_of g).
Proof. exact compile_top_srcs. Qed.
Print Assumptions C04_graph_holds_exactly_its_own_nodes.

(* ... the whole tree of GraphProtos is the unfolding [spec_srcs] of the ownership map along the subgraph attributes ... *)
Theorem C04_emitted_tree_is_ownership_unfolded :
  forall p un args_of own_of fbuild fuel s g prefix is_main mg s' rq fs,
    compile p un args_of own_of fbuild fuel s g prefix is_main = inl (mg, s', rq, fs) ->
    srcs_graph mg = spec_srcs p own_of fuel g.
Proof. exact compile_srcs. Qed.
Print Assumptions C04_emitted_tree_is_ownership_unfolded.

(* ... and for build_main: if the traversal order has no duplicates (true on acyclic programs by C04_postorder_spec) and no graph
   occurs twice in the graph tree, every node is emitted at most once in the whole model. *)
Theorem C04_build_main_emits_at_most_once :
  forall ffuel p un main b,
    build_main ffuel p un main = inl b -> emission_premises_b p main = true -> NoDup (srcs_graph (b_graph b)).
Proof. exact build_main_emitted_at_most_once. Qed.
Print Assumptions C04_build_main_emits_at_most_once.

(* Definition before use inside one graph, by construction: when the nodes of scope g are the sub-sequence of a dependency-closed
   order selected by the ownership test (which is how build_main defines them, with the order of C04_postorder_spec), every
   dependency of an emitted node that belongs to the same scope is emitted earlier in that graph. *)
Theorem C04_same_graph_dependencies_first :
  forall p un args_of own_of fbuild fuel s g prefix vi ai ms ro s' rq fs topo sel,
    compile p un args_of own_of fbuild fuel s g prefix vi = inl (MGraph ai ms ro, s', rq, fs) ->
    closed nref (full_adj p) topo -> own_of g = filter sel topo ->
    forall l1 n l2, ms = l1 ++ n :: l2 -> forall w, In w (deps p (src_of n)) -> sel w = true -> is_arg p w = false ->
    In w (map src_of l1).
Proof. exact same_graph_dependencies_first. Qed.
Print Assumptions C04_same_graph_dependencies_first.

(* "... and not at all otherwise", by construction (no validator): whatever the public build emits - in the main graph or in any nested
   body - is an operator application on which a requested output depends (a member of the one traversal from the requested outputs).
   [args] are the arguments of the built main graph: all listed inputs, or with drop_unused_inputs a sub-list of them. *)
Theorem C04_only_applications_an_output_depends_on_are_emitted_by_construction :
  forall p r m inputs outputs,
  build_public p r = inl m -> all_vars (r_inputs r) = Some inputs -> all_vars (r_outputs r) = Some outputs ->
  exists args, (r_drop r = false -> args = map snd inputs) /\ (forall a, In a args -> In a (map snd inputs)) /\
    forall u, In u (srcs_graph (mmain m)) ->
      In u (topo_of (with_main p (Some args) outputs) 0) /\ is_arg (with_main p (Some args) outputs) u = false.
Proof. exact build_public_emits_only_reachable. Qed.
Print Assumptions C04_only_applications_an_output_depends_on_are_emitted_by_construction.

(* "... exactly once IF some requested output depends on it", by construction (no validator): COVERAGE.  Whatever the public build
   returns, the source nodes of the emitted nodes (main graph and every nested body) are EXACTLY the non-argument members of the one
   traversal from the requested outputs - nothing an output depends on is dropped, nothing else is emitted.  Premises (decidable,
   evaluated on every generated program): the reflected object graph is acyclic and only operator / function nodes carry subgraph
   attributes.  With C04_build_main_emits_at_most_once: exactly once. *)
Theorem C04_emitted_iff_a_requested_output_depends_on_it_by_construction :
  forall p r m inputs outputs,
  build_public p r = inl m -> all_vars (r_inputs r) = Some inputs -> all_vars (r_outputs r) = Some outputs ->
  cover_premises_b (with_main p None outputs) = true ->
  exists args, (r_drop r = false -> args = map snd inputs) /\ (forall a, In a args -> In a (map snd inputs)) /\
    forall u, In u (srcs_graph (mmain m)) <->
      (In u (topo_of (with_main p (Some args) outputs) 0) /\ is_arg (with_main p (Some args) outputs) u = false).
Proof. exact build_public_emits_exactly. Qed.
Print Assumptions C04_emitted_iff_a_requested_output_depends_on_it_by_construction.

(* what discovery establishes on every program on which it succeeds (acyclic object graph): no graph is listed twice, the root is
   listed; every subgraph attribute met while traversing a listed graph D belongs to a listed graph that is owned by exactly the node
   carrying it and was finished BEFORE D; every listed graph but the root was met through such an attribute; every listed graph is
   reachable from the root's results. *)
Theorem C04_discovery_facts :
  forall p (rank : nref -> nat), (forall u v, In v (full_adj p u) -> rank v < rank u) ->
  forall root d, discover (fuel_of p) p dstate0 root = inl d ->
  NoDup (d_post d) /\ In root (d_post d) /\
  (forall D, In D (d_post d) -> forall x k h, In x (trav p D) -> In (k, h) (subs_of p x) ->
       lookup Nat.eqb h (d_own d) = Some x /\ before (d_post d) h D) /\
  (forall h, In h (d_post d) -> h = root \/ exists D x k, In D (d_post d) /\ In x (trav p D) /\ In (k, h) (subs_of p x)) /\
  (forall h, In h (d_post d) -> reach (full_adj p) (NIntro root) (NIntro h)).
Proof. exact discover_facts. Qed.
Print Assumptions C04_discovery_facts.

(* the scope resolution assigns every node of every traversed graph to an ALREADY PROCESSED graph (the alternating-walk lca only
   returns graphs on the two ancestor chains), for any fuel and any owner table *)
Theorem C04_scope_resolution_stays_within_processed_graphs :
  forall p own l done sc, K p done sc -> K p (done ++ l) (fold_left (update_scope_tree p own) l sc).
Proof. exact fold_K. Qed.
Print Assumptions C04_scope_resolution_stays_within_processed_graphs.

(* every node a requested output depends on is owned by a graph that hangs on a chain of (graph, owner node) links below the main
   graph - the chains compile follows *)
Theorem C04_every_reachable_node_is_owned_on_a_chain_from_the_main_graph :
  forall p (rank : nref -> nat), (forall u v, In v (full_adj p u) -> rank v < rank u) -> (forall u, rank u < fuel_of p) -> wf_kinds p ->
  forall main d, discover (fuel_of p) p dstate0 main = inl d ->
  forall u, In u (topo_of p main) -> exists h, Path p (own_of_def p d main) main h /\ In u (own_of_def p d main h).
Proof. exact every_reachable_node_is_owned_on_a_chain. Qed.
Print Assumptions C04_every_reachable_node_is_owned_on_a_chain_from_the_main_graph.

(* ScopeTree.lca, the alternating-ancestor walk: on ANY parent function, for two start nodes whose ancestor chains meet within the
   fuel, the node returned is a common ancestor of both, and every common ancestor of both is an ancestor-or-self of it. *)
Theorem C04_alternating_walk_returns_the_lowest_common_ancestor :
  forall own sc a b fuel i j, let par := parent own sc in
  up par i a = up par j b -> 2 * Nat.max i j + 1 < fuel ->
  let r := lca fuel own sc a b [a] [b] in
  (exists i' j', r = up par i' a /\ r = up par j' b) /\ (forall i' j', up par i' a = up par j' b -> exists m, up par i' a = up par m r).
Proof. exact lca_correct. Qed.
Print Assumptions C04_alternating_walk_returns_the_lowest_common_ancestor.

(* "A value is defined in the innermost graph that encloses all of its uses", by construction (no validator): after the scope
   resolution of build_main - the incremental relaxation over the discovered graphs, parents first, on a scope tree that is being
   built at the same time - the graph [s] a node [u] is assigned to (the GraphProto that holds it, C04_graph_holds_exactly_its_own_nodes)
   is the LOWEST COMMON ANCESTOR, in the FINAL scope tree ([Anc c h]: c is reached from h by going to the graph that holds the node
   carrying h, repeatedly), of all graphs whose traversal contains u: it encloses each of them, and every graph that encloses all of
   them encloses it.  Premise: the reflected object graph is acyclic within the builder's fuel (evaluated on every program). *)
Theorem C04_placement_is_the_lowest_common_ancestor_by_construction :
  forall p (rank : nref -> nat), (forall u v, In v (full_adj p u) -> rank v < rank u) -> (forall u, rank u < fuel_of p) ->
  forall main d, discover (fuel_of p) p dstate0 main = inl d ->
  forall u s, lookup nref_eqb u (scopes_of p d) = Some s ->
    (forall E, In E (d_post d) -> In u (trav p E) -> Anc p d s E) /\
    (forall c, (forall E, In E (d_post d) -> In u (trav p E) -> Anc p d c E) -> Anc p d c s) /\
    (exists E, In E (d_post d) /\ In u (trav p E)).
Proof. exact placement_is_lowest_common_ancestor. Qed.
Print Assumptions C04_placement_is_the_lowest_common_ancestor_by_construction.

(* Defined before use ACROSS scopes, by construction (no validator): for every application u placed in graph s and every
   non-argument application w it takes an operand from, w is placed in a graph s_w that is s or an ancestor of s in the final scope
   tree; if s_w = s, w precedes u in the GraphProto of s ([own_of_def] is the node list of that GraphProto,
   C04_graph_holds_exactly_its_own_nodes); otherwise the chain from s up to s_w ends in a graph h whose carrier node o is placed in
   s_w, and w precedes o there - the value is defined in the enclosing graph before the node whose body uses it. *)
Theorem C04_operands_are_defined_before_use_in_an_enclosing_graph_by_construction :
  forall p (rank : nref -> nat), (forall u v, In v (full_adj p u) -> rank v < rank u) -> (forall u, rank u < fuel_of p) ->
  forall main d, discover (fuel_of p) p dstate0 main = inl d ->
  forall s u w, In u (own_of_def p d main s) -> In w (deps p u) -> is_arg p w = false ->
  exists s_w, In w (own_of_def p d main s_w) /\ Anc p d s_w s /\
    ((s_w = s /\ before_in (own_of_def p d main s) w u) \/
     (exists h o kk, Anc p d h s /\ In (kk, h) (subs_of p o) /\ In o (own_of_def p d main s_w) /\ before_in (own_of_def p d main s_w) w o)).
Proof. exact operands_are_defined_before_use_in_an_enclosing_graph. Qed.
Print Assumptions C04_operands_are_defined_before_use_in_an_enclosing_graph_by_construction.
