(* C06 — reported types are sound: runtime values always conform to them.  Property theorems only.
   Model: Infer.v ([infer_<Op>] = spox's hand-written routine, [rt_<Op>] = runtime dtype/shape written from the ONNX
   documentation, [conforms] = same element type, same rank when a shape is reported, equal size in every constant
   dim; [sound inferred rt] = whenever the routine reports types and the runtime yields values, each value conforms
   to its reported type).  Proofs: InferFacts.v.  All statements quantify over all types, all shapes, all attribute
   values and all sizes of unknown / named dims. *)
From Coq Require Import List NArith ZArith Bool String.
From Spox Require Import Infer InferFacts.
Import ListNotations.
Open Scope N_scope.

(* ---- routines that are sound as they stand ---- *)

Theorem infer_sound_ArrayFeatureExtractor : forall x y vx vy,
  conforms_opt vx x -> conforms_opt vy y ->
  sound (infer_ArrayFeatureExtractor x y) (rt_ArrayFeatureExtractor vx vy).
Proof. exact sound_ArrayFeatureExtractor. Qed.
Print Assumptions infer_sound_ArrayFeatureExtractor.

Theorem infer_sound_Binarizer : forall x v, conforms_opt v x -> sound (infer_Binarizer x) (rt_Binarizer v).
Proof. exact sound_Binarizer. Qed.
Print Assumptions infer_sound_Binarizer.

Theorem infer_sound_CategoryMapper : forall x cats_int64s cats_strings v,
  conforms_opt v x -> sound (infer_CategoryMapper x cats_int64s cats_strings) (rt_CategoryMapper v).
Proof. exact sound_CategoryMapper. Qed.
Print Assumptions infer_sound_CategoryMapper.

Theorem infer_sound_Imputer : forall x floats int64s v,
  conforms_opt v x -> sound (infer_Imputer x floats int64s) (rt_Imputer v).
Proof. exact sound_Imputer. Qed.
Print Assumptions infer_sound_Imputer.

Theorem infer_sound_OneHotEncoder : forall x cats_int64s cats_strings v,
  conforms_opt v x -> sound (infer_OneHotEncoder x cats_int64s cats_strings) (rt_OneHotEncoder cats_int64s cats_strings v).
Proof. exact sound_OneHotEncoder. Qed.
Print Assumptions infer_sound_OneHotEncoder.

Theorem infer_sound_Scaler : forall x scale offset v,
  conforms_opt v x -> sound (infer_Scaler x scale offset) (rt_Scaler v).
Proof. exact sound_Scaler. Qed.
Print Assumptions infer_sound_Scaler.

Theorem infer_sound_TreeEnsembleRegressor : forall x n_targets v,
  conforms_opt v x -> sound (infer_TreeEnsembleRegressor x n_targets) (rt_TreeEnsembleRegressor n_targets v).
Proof. exact sound_TreeEnsembleRegressor. Qed.
Print Assumptions infer_sound_TreeEnsembleRegressor.

(* whatever ONNX's own inference said before ([onnx_rejects]), and however many slices are selected ([k]) *)
Theorem infer_sound_Compress : forall onnx_rejects inp cond axis k vi vc,
  conforms_opt vi inp -> conforms_opt vc cond ->
  sound (infer_Compress onnx_rejects inp cond axis) (rt_Compress axis k vi vc).
Proof. exact sound_Compress. Qed.
Print Assumptions infer_sound_Compress.

(* ---- LinearRegressor (F6) ---- *)

(* X : float32[3,4], targets = 2: reported float32[3,4], runtime (3,2) *)
Theorem infer_sound_LinearRegressor_refuted :
  exists x targets v tys outs, conforms_opt v x /\ infer_LinearRegressor x = Ok tys /\
    rt_LinearRegressor targets v = Some outs /\ ~ Forall2 conforms_opt outs tys /\
    x = Some (Tensor F32 (Some [DConst 3; DConst 4])) /\ targets = 2 /\
    tys = [Some (Tensor F32 (Some [DConst 3; DConst 4]))] /\ outs = [(F32, [3; 2])].
Proof. exact LinearRegressor_refuted. Qed.
Print Assumptions infer_sound_LinearRegressor_refuted.

(* sound exactly when the number of features is not reported as a constant, or equals [targets] *)
Theorem infer_sound_LinearRegressor_when : forall x targets v,
  match x with
  | Some (Tensor _ (Some [_; DConst c])) | Some (Tensor _ (Some [DConst c])) => c = targets
  | _ => True
  end ->
  conforms_opt v x -> sound (infer_LinearRegressor x) (rt_LinearRegressor targets v).
Proof. exact sound_LinearRegressor_when. Qed.
Print Assumptions infer_sound_LinearRegressor_when.

(* ---- Normalizer (F7) ---- *)

(* X : float64[3,4]: reported float64[3,4], runtime float32 (3,4) *)
Theorem infer_sound_Normalizer_refuted :
  exists x norm v tys outs, conforms_opt v x /\ infer_Normalizer x norm = Ok tys /\
    rt_Normalizer v = Some outs /\ ~ Forall2 conforms_opt outs tys /\
    x = Some (Tensor F64 (Some [DConst 3; DConst 4])) /\
    tys = [Some (Tensor F64 (Some [DConst 3; DConst 4]))] /\ outs = [(F32, [3; 4])].
Proof. exact Normalizer_refuted. Qed.
Print Assumptions infer_sound_Normalizer_refuted.

Theorem infer_sound_Normalizer_when : forall x norm v,
  match x with Some (Tensor e _) => e = F32 | _ => True end ->
  conforms_opt v x -> sound (infer_Normalizer x norm) (rt_Normalizer v).
Proof. exact sound_Normalizer_when. Qed.
Print Assumptions infer_sound_Normalizer_when.

(* ---- TreeEnsembleClassifier (new finding) ---- *)

(* 4 votes (class_ids) over 2 class labels: reported scores float32[?,4], runtime (5,2) *)
Theorem infer_sound_TreeEnsembleClassifier_refuted :
  exists x ids li ls v tys outs, conforms_opt v x /\ infer_TreeEnsembleClassifier x ids li ls = Ok tys /\
    rt_TreeEnsembleClassifier li ls v = Some outs /\ ~ Forall2 conforms_opt outs tys /\
    ids = Some 4 /\ li = Some 2 /\ ls = None /\
    tys = [Some (Tensor I64 (Some [DUnk])); Some (Tensor F32 (Some [DUnk; DConst 4]))] /\ outs = [(I64, [5]); (F32, [5; 2])].
Proof. exact TreeEnsembleClassifier_refuted. Qed.
Print Assumptions infer_sound_TreeEnsembleClassifier_refuted.

(* sound when class_ids is absent or lists as many votes as there are class labels (labels Y always sound) *)
Theorem infer_sound_TreeEnsembleClassifier_when : forall x class_ids labels_int64s labels_strings v,
  match class_ids with
  | None => True
  | Some c => Some c = match labels_strings with Some e => Some e | None => labels_int64s end
  end ->
  conforms_opt v x ->
  sound (infer_TreeEnsembleClassifier x class_ids labels_int64s labels_strings)
        (rt_TreeEnsembleClassifier labels_int64s labels_strings v).
Proof. exact sound_TreeEnsembleClassifier_when. Qed.
Print Assumptions infer_sound_TreeEnsembleClassifier_when.

(* ---- Loop carried values (F18) ----
   [body i] = the carried part of the body at iteration i as a function on runtime values; hypotheses: the body's
   typing is sound for arguments of the declared types (= the initial values' types), element types are static,
   ONNX accepted the node (tensor carried values of equal element type).  Claim: after ANY number of trips the
   carried values conform to the reported types. *)

(* carried float32[2], body concat(a, a): reported float32[4]; runtime (2,), (4,), (8,) *)
Theorem infer_sound_Loop_orig_refuted :
  exists body tin tres v0,
    loop_counterexample loop_carried_orig body tin tres v0 0 /\ loop_counterexample loop_carried_orig body tin tres v0 2 /\
    tin = [Some (Tensor F32 (Some [DConst 2]))] /\ loop_carried_orig tin tres = [Some (Tensor F32 (Some [DConst 4]))] /\
    map (fun k => loop_run body k v0) [0; 1; 2]%nat = [[(F32, [2])]; [(F32, [4])]; [(F32, [8])]].
Proof. exact Loop_orig_refuted. Qed.
Print Assumptions infer_sound_Loop_orig_refuted.

(* "keep the dims on which the initial and the body result type agree" (DESIGN.md Appendix D) is not enough:
   carried float32[2,2], body transpose(concat(a, a)): reported float32[2,?], runtime (4,4) after two trips *)
Theorem infer_sound_Loop_appendixD_refuted :
  exists body tin tres v0,
    loop_counterexample loop_carried_appendixD body tin tres v0 2 /\
    tin = [Some (Tensor F32 (Some [DConst 2; DConst 2]))] /\
    loop_carried_appendixD tin tres = [Some (Tensor F32 (Some [DConst 2; DUnk]))] /\
    loop_run body 2 v0 = [(F32, [4; 4])].
Proof. exact Loop_appendixD_refuted. Qed.
Print Assumptions infer_sound_Loop_appendixD_refuted.

(* the repaired routine (fixes/F18.diff): shapes are claimed only when every carried body result keeps its declared
   argument type (then that type is a loop invariant); otherwise only the element types *)
Theorem infer_sound_Loop_fixed :
  forall (body : nat -> list val -> list val) (tin tres : list ity),
    (forall i vs, Forall2 conforms_opt vs tin -> Forall2 conforms_opt (body i vs) tres) ->
    (forall i vs, Forall2 elem_agrees vs tin -> Forall2 elem_agrees (body i vs) tres) ->
    Forall2 same_elem tin tres ->
    forall v0, Forall2 conforms_opt v0 tin ->
    forall k, Forall2 conforms_opt (loop_run body k v0) (loop_carried_fixed tin tres).
Proof. exact Loop_fixed_sound. Qed.
Print Assumptions infer_sound_Loop_fixed.

(* ---- inline ---- *)

(* replacing named dims by unknown only weakens a type — and loses nothing conformance can see *)
Theorem strip_dims_sound : forall v t, conforms v t -> conforms v (strip_dims t).
Proof. exact InferFacts.strip_dims_sound. Qed.
Print Assumptions strip_dims_sound.

Theorem strip_dims_exact : forall v t, conforms v (strip_dims t) -> conforms v t.
Proof. exact InferFacts.strip_dims_exact. Qed.
Print Assumptions strip_dims_exact.

(* relative to the inlined model's own declared output types *)
Theorem inline_types_sound : forall decl_in decl_out args tys outs,
  infer_Inline decl_in decl_out args = Ok tys -> Forall2 conforms outs decl_out -> Forall2 conforms_opt outs tys.
Proof. exact InferFacts.inline_types_sound. Qed.
Print Assumptions inline_types_sound.

(* the boolean conformance test used by the harness is the relation of the theorems *)
Theorem conforms_decidable : forall v t, conforms_optb v t = true <-> conforms_opt v t.
Proof. exact conforms_optb_spec. Qed.
Print Assumptions conforms_decidable.
