(* C12 — build and inline are pure, repeatable and independent of process history.  Property theorems only. *)
From Coq Require Import List String Bool.
From Spox Require Import Base IR Show Build Sem Plan Validate BuildFacts Store StoreFacts StoreFacts2 DfsFacts ScopeFacts EmitFacts.
Import ListNotations.

(* build leaves the name of every Var the caller holds as it found it — on success and on every failure, and also when one
   Var is listed under several input names (the builder itself only renames its own fresh result identities) *)
Theorem C12_build_restores_names :
  forall (body : store -> store) s inputs, (forall s1 x, body s1 x = s1 x) ->
  forall x, with_renames body s inputs x = s x.
Proof. exact build_restores_names. Qed.
Print Assumptions C12_build_restores_names.

(* the save-by-overwrite of the pinned tree violates this: build({'a': x, 'b': x}) leaves x named 'a' *)
Theorem C12_overwrite_save_refuted : exists s inputs x, with_renames_overwrite (fun s => s) s inputs x <> s x.
Proof. exact overwrite_save_refuted. Qed.
Print Assumptions C12_overwrite_save_refuted.

(* build is a function of the request and of the reachable part of the program only: the model has no other input.
   Two programs that agree on the nodes and graphs reachable... is immediate from the definition; the observable form is:
   the emitted source nodes are exactly the reachable ones (nothing constructed earlier and not requested can show up). *)
Theorem C12_only_reachable_emitted :
  forall p r m inputs outputs, build_checked p r = inl m ->
  all_vars (r_inputs r) = Some inputs -> all_vars (r_outputs r) = Some outputs ->
  forall u, In u (srcs_graph (mmain m)) <-> In u (reachable (final_prog p r inputs outputs) 0).
Proof. intros p r m i o H Hi Ho. apply build_checked_inv in H. destruct H as [_ Hv].
  exact (proj2 (emitted_exactly_once p r m i o Hi Ho Hv)). Qed.
Print Assumptions C12_only_reachable_emitted.

(* The same without the validator: nothing that was constructed earlier in the process and is not needed by the request can show up in a
   built model - the emitted applications are taken from the traversal that starts at the requested outputs, in every graph of the model. *)
Theorem C12_nothing_unrequested_is_emitted_by_construction :
  forall p r m inputs outputs,
  build_public p r = inl m -> all_vars (r_inputs r) = Some inputs -> all_vars (r_outputs r) = Some outputs ->
  exists args, (r_drop r = false -> args = map snd inputs) /\ (forall a, In a args -> In a (map snd inputs)) /\
    forall u, In u (srcs_graph (mmain m)) ->
      In u (topo_of (with_main p (Some args) outputs) 0) /\ is_arg (with_main p (Some args) outputs) u = false.
Proof. exact build_public_emits_only_reachable. Qed.
Print Assumptions C12_nothing_unrequested_is_emitted_by_construction.

(* What the builder sees DURING a build: each listed Var carries a name the request lists for it (the last one), every other
   Var of the process its own name - nothing else is renamed. *)
Theorem C12_during_build_listed_vars_carry_requested_name :
  forall s inputs x, In x (map snd inputs) -> exists n, during s inputs x = Some n /\ In (n, x) inputs.
Proof. exact during_build_listed. Qed.
Print Assumptions C12_during_build_listed_vars_carry_requested_name.

Theorem C12_during_build_other_vars_untouched :
  forall s inputs x, ~ In x (map snd inputs) -> during s inputs x = s x.
Proof. exact during_build_unlisted. Qed.
Print Assumptions C12_during_build_other_vars_untouched.

(* Independence of process history, for the store: after ANY sequence of earlier builds - each may have succeeded or failed, with
   any inputs, also one Var under several names - every Var has the name it had at the start ... *)
Theorem C12_any_history_of_builds_restores_names :
  forall reqs : list ((store -> store) * list (string * var)),
  Forall (fun r => forall s1 x, fst r s1 x = s1 x) reqs ->
  forall s x, fold_left build_step reqs s x = s x.
Proof. exact history_restores_names. Qed.
Print Assumptions C12_any_history_of_builds_restores_names.

(* ... and so the names a later build works with are those it would work with in a fresh process. *)
Theorem C12_build_view_independent_of_history :
  forall (reqs : list ((store -> store) * list (string * var))) s inputs,
  Forall (fun r => forall s1 x, fst r s1 x = s1 x) reqs ->
  forall x, during (fold_left build_step reqs s) inputs x = during s inputs x.
Proof. exact view_independent_of_history. Qed.
Print Assumptions C12_build_view_independent_of_history.
