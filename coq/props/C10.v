(* C10 — constants and attributes are embedded exactly and captured at the call.  Property theorems only.
   Models: Tensor.v (arrays <-> TensorProto), TensorAttr.v (attribute kinds), TensorHeap.v (object heap). *)
From Coq Require Import NArith ZArith List Bool String.
From Spox Require Import Tensor TensorFacts TensorAttr TensorAttrFacts TensorHeap TensorHeapFacts.
Import ListNotations.
Open Scope N_scope.

(* Exactness.  For EVERY element type (26), shape (0-d, empty, any rank) and payload of bit patterns (well-formed = as
   many elements as the shape says, each word within the element width, strings are Unicode text): what to_array reads
   back from the TensorProto written by the (repaired) from_array is the array — element type, shape, every bit. *)
Theorem C10_decode_encode : forall t, wf t = true -> decode (encode t) = Some t.
Proof. exact decode_encode. Qed.
Print Assumptions C10_decode_encode.

(* The pinned from_array (typed fields only) delivers the array with every word passed through [canon] ... *)
Theorem C10_decode_encode_pinned : forall t, wf t = true -> decode (encode_pinned t) = Some (canon_tensor t).
Proof. exact decode_encode_pinned. Qed.
Print Assumptions C10_decode_encode_pinned.

(* ... which is the array itself unless it contains one of the lossy words ... *)
Theorem C10_decode_encode_pinned_lossless :
  forall t, wf t = true -> all_lossless t = true -> decode (encode_pinned t) = Some t.
Proof. exact decode_encode_pinned_lossless. Qed.
Print Assumptions C10_decode_encode_pinned_lossless.

(* ... and the lossy words are exactly: binary32 signalling NaNs (also as a complex64 component), float8e5m2 infinities
   and non-canonical NaNs, float8e8m0 pattern 0.  float16 / bfloat16 / binary64 / complex128 NaNs of every kind, -0.0,
   denormals, infinities, 2^64-1 are all lossless. *)
Theorem C10_lossy_characterised : forall e w, w < 2 ^ width e ->
  (lossless e w = false <->
   (e = F32 /\ is_snan32 w = true) \/
   (e = C64 /\ (is_snan32 (w mod 2 ^ 32) = true \/ is_snan32 (w / 2 ^ 32) = true)) \/
   (e = F8E5M2 /\ (w = 0x7C \/ w = 0xFC \/ w = 0x7D \/ w = 0x7F \/ w = 0xFD \/ w = 0xFF)) \/
   (e = F8E8M0 /\ w = 0)).
Proof. exact lossy_characterised. Qed.
Print Assumptions C10_lossy_characterised.

(* The pinned from_array violates exactness: witness float32 [0x7F800001]. *)
Theorem C10_pinned_refuted : exists t, wf t = true /\ decode (encode_pinned t) <> Some t.
Proof. exact pinned_refuted. Qed.
Print Assumptions C10_pinned_refuted.

(* The repair changes the encoding of no lossless tensor. *)
Theorem C10_encode_conservative : forall t, all_lossless t = true -> encode t = encode_pinned t.
Proof. exact encode_conservative. Qed.
Print Assumptions C10_encode_conservative.

(* The Var has exactly the array's type (Constant: ONNX inference reads data_type and dims of the attribute). *)
Theorem C10_var_type_is_array_type :
  forall t, proto_type (encode t) = Some (array_type t) /\ proto_type (encode_pinned t) = Some (array_type t).
Proof. exact proto_type_encode. Qed.
Print Assumptions C10_var_type_is_array_type.

(* Attribute kinds.  K(value, name) succeeds iff the value is of the declared kind and otherwise raises TypeError; the
   AttributeProto has the given name, the ONNX attribute type of the class and the exact value ([emit]: FLOAT/FLOATS are
   the binary32 rounding [f64_to_f32] of float(value), modelled on bit patterns and validated against the
   implementation on every run; INT/INTS the integer; STRING/STRINGS the UTF-8 bytes; TENSOR the exact encoding). *)
Theorem C10_attr_kind_checked : forall k n v, modelled k v = true ->
  make_attr true k n v = if kind_ok k v then Ok (mkA n (declared k) (emit k v)) else Err EType.
Proof. exact attr_kind_checked. Qed.
Print Assumptions C10_attr_kind_checked.

(* The pinned tree deviates at three places (AttributeError, ValueError, AttrTensors unusable) ... *)
Theorem C10_attr_pinned_refuted :
  make_attr false ATensor "value" (PInt 5) = Err EAttribute /\
  make_attr false ADtype "to" PDtypeBad = Err EValue /\
  kind_ok ATensors (PList [PArr (mkT I64 [] (PNum [1]))]) = true /\
  make_attr false ATensors "x" (PList [PArr (mkT I64 [] (PNum [1]))]) = Err EType.
Proof. exact attr_pinned_refuted. Qed.
Print Assumptions C10_attr_pinned_refuted.

(* ... and nowhere else. *)
Theorem C10_attr_pinned_agrees : forall k n v,
  (k = ATensor -> match v with PArr t => all_lossless t = true | _ => has_copy v = true end) ->
  (k = ADtype -> v <> PDtypeBad) -> k <> ATensors ->
  make_attr false k n v = make_attr true k n v.
Proof. exact attr_pinned_agrees. Qed.
Print Assumptions C10_attr_pinned_agrees.

(* Captured at the call.  For every operator call (any number of attribute arguments of any kind — arrays and lists are
   objects of the caller's heap — and a variadic input list), and EVERY later history of caller-side mutations
   (in-place writes, fill, resize, in-place reshape, arbitrary in-place change of arrays; append / clear / setitem / pop /
   extend / reverse / insert on lists, including the list of Vars; creation and mutation of new objects): the
   AttributeProtos, the live attribute values (initializers, propagated values) and the node's inputs seen by a later
   build are those computed from the arguments as they were at the call.  Hypotheses: the caller mutates only objects it
   owns ([scoped]: it cannot name the attribute's private copy) and passed objects it owns ([call_ok]). *)
Theorem C10_captured_at_call : forall fixed st c st' n,
  state_ok st = true -> call_ok st c = true -> construct Copy fixed st c = (st', n) ->
  forall ms, scoped st' ms = true -> build (run st' ms) n = expected fixed st c.
Proof. exact captured_at_call. Qed.
Print Assumptions C10_captured_at_call.

(* A constructor that keeps the caller's array / list instead of copying violates it (so the property is not vacuous),
   and so does a caller that reaches into the private copy (so the scoping hypothesis is needed). *)
Theorem C10_alias_refuted :
  exists ms, state_ok st_demo = true /\ call_ok st_demo call_demo = true /\
    let '(st', n) := construct Alias true st_demo call_demo in
    scoped st' ms = true /\
    b_live (build (run st' ms) n) <> b_live (expected true st_demo call_demo) /\
    b_inputs (build (run st' ms) n) <> b_inputs (expected true st_demo call_demo).
Proof. exact alias_refuted. Qed.
Print Assumptions C10_alias_refuted.

Theorem C10_unscoped_refuted :
  exists ms, let '(st', n) := construct Copy true st_demo call_demo in
    scoped st' ms = false /\ b_live (build (run st' ms) n) <> b_live (expected true st_demo call_demo).
Proof. exact unscoped_refuted. Qed.
Print Assumptions C10_unscoped_refuted.

(* const(v, dtype) is constant(value = numpy.array(v, dtype)): one TENSOR attribute "value" that decodes to exactly
   that array; the Var has the array's type and propagates the array. *)
Theorem C10_const_is_constant_of_array : forall arr, wf arr = true ->
  const true arr = Ok (mkC "Constant" [mkA "value" TTENSOR (VT (encode arr))] (Some (array_type arr)) (Some arr)) /\
  attr_tensor (VT (encode arr)) = Some arr.
Proof. exact const_is_constant_of_array. Qed.
Print Assumptions C10_const_is_constant_of_array.

(* Constant from value_float / value_int / value_string / value_floats / value_ints: the propagated value is the tensor
   that the emitted attribute denotes under ONNX's Constant semantics. *)
Theorem C10_constant_propagated_is_attr : forall k n v c, modelled k v = true ->
  match k with AFloat32 | AInt64 | AFloat32s | AInt64s => True | AString => match v with PBytes _ => False | _ => True end | _ => False end ->
  constant_of true k n v = Ok c ->
  exists a, c_attrs c = [a] /\ a_name a = n /\ a_type a = declared k /\ attr_tensor (a_val a) = c_value c /\ c_value c <> None.
Proof. exact constant_propagated_is_attr. Qed.
Print Assumptions C10_constant_propagated_is_attr.
