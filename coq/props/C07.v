(* C07 — propagated constant values equal what the model computes.  Property theorems only.
   Models: ValueProp.v (one node construction: conversions, mapping of backend results to outputs, keep rule, Constant,
   initializer, inlined model), ValuePropProg.v (programs = constructions in order, unsafe_cast), ValuePropSem.v (abstract
   DAG with run-time meaning). *)
From Coq Require Import List Bool String Arith.
From Spox Require Import ValueProp ValuePropFacts ValuePropProg ValuePropProgFacts ValuePropC07Facts ValuePropSem ValuePropSemFacts.
Import ListNotations.
Open Scope string_scope.

(* --- the value has the Var's type ------------------------------------------------------------------------------- *)
(* One construction (repaired, deep check): whatever the backend hands back, a value attached to a fresh output conforms
   to the type reported for that output: dtype, shape and container at every level ([conforms] is stated independently
   of PropValue.check). *)
Theorem C07_value_has_var_type_node :
  forall c bk n r outs, c_deep c = true -> (forall o, In o (n_out n) -> o_val0 o = None) ->
  construct c bk n r = Ok outs ->
  forall f ot v w, In (f, ot, Some v, w) outs -> exists t, ot = Some t /\ conforms t v = true.
Proof. exact attached_values_conform. Qed.
Print Assumptions C07_value_has_var_type_node.

(* Whole programs (any typing function, evaluator, fault plan): every Var that carries a value has a type and the value
   conforms to it.  unsafe_cast is excluded here: it copies the value and reports the type it is given (next theorem),
   so the result is well-typed exactly when the caller keeps the documented contract. *)
Theorem C07_value_has_var_type :
  forall (opk : Type) (infer : opk -> list vstate -> list (option ty)) (bk : nat -> list vstate -> backend_result)
         c b fault prog i env,
  c_deep c = true -> Forall (fun st => s_cast opk st = None) prog -> Forall typed_value env ->
  Forall typed_value (fst (run opk infer bk c b fault i prog env)).
Proof. exact value_has_var_type. Qed.
Print Assumptions C07_value_has_var_type.

Theorem C07_unsafe_cast_copies :
  forall (opk : Type) (infer : opk -> list vstate -> list (option ty)) c b (st : step opk) env r t,
  s_cast opk st = Some t ->
  step_outs opk infer c b st env r = [(Some t, match ins_of opk st env with s :: _ => snd s | [] => None end)].
Proof. exact unsafe_cast_copies. Qed.
Print Assumptions C07_unsafe_cast_copies.

(* Constant: per attribute kind the value built by Constant.propagate_values (float32 / int64 / str, length of the list;
   the tensor's own normalised dtype and shape), attached without consulting any backend, conforming to the inferred type. *)
Theorem C07_constant_value_typed :
  forall a c bk r, c_strict c = false -> a <> ASparse ->
  exists t v0, constant_type a = Some t /\ constant_value a = Some v0 /\
    construct c bk (constant_node a) r = Ok [("output", Some t, Some (normalise v0), false)] /\ conforms t (normalise v0) = true.
Proof. exact constant_value_typed. Qed.
Print Assumptions C07_constant_value_typed.

(* --- the value does not depend on any input --------------------------------------------------------------------- *)
(* [deps prog dep] marks the environment entries that have an Argument in their dependency cone.  For every program whose
   steps are well-formed (constants/arguments have no operands, unsafe_cast has one), every backend/evaluator/fault plan:
   a Var with a value is unmarked.  (Induction over construction order; values originate at Constant/initializer and
   pass an operator only when all its operands carry values.) *)
Theorem C07_value_input_independent :
  forall (opk : Type) (infer : opk -> list vstate -> list (option ty)) (bk : nat -> list vstate -> backend_result)
         c b fault prog i env dep,
  Forall (wf_step opk) prog -> Forall2 indep env dep ->
  Forall2 indep (fst (run opk infer bk c b fault i prog env)) (deps opk prog dep).
Proof. exact value_input_independent. Qed.
Print Assumptions C07_value_input_independent.

(* --- results go to the output that carries their name ------------------------------------------------------------- *)
(* Standard node, repaired mapping, EVERY result dictionary d (any names, any order, any payloads): the value attached to
   output field f is the converted and normalised entry stored in d under f – the name of that very output. *)
Theorem C07_value_right_output :
  forall c bk n d outs f ot v w,
  c_guard c = true -> n_kind n = KStandard -> (forall o, In o (n_out n) -> o_val0 o = None) ->
  construct c bk n (BDict d) = Ok outs -> In (f, ot, Some v, w) outs ->
  exists py o t p, In (f, py) d /\ In o (n_out n) /\ o_field o = f /\ out_type o = Some t /\
                   unwrap_feed c bk t py = Ok p /\ v = normalise (snd p).
Proof. exact value_right_output. Qed.
Print Assumptions C07_value_right_output.

(* Inlined model (any configuration): field outputs_k receives the entry stored under the k-th declared output name. *)
Theorem C07_value_right_output_inline :
  forall c bk n d outs f ot v w,
  n_kind n = KInline -> (forall o, In o (n_out n) -> o_val0 o = None) ->
  construct c bk n (BDict d) = Ok outs -> In (f, ot, Some v, w) outs ->
  exists o py t p, In o (n_out n) /\ o_field o = f /\ dict_get d (o_bname o) = Some py /\ out_type o = Some t /\
                   unwrap_feed c bk t py = Ok p /\ v = normalise (snd p).
Proof. exact value_right_output_inline. Qed.
Print Assumptions C07_value_right_output_inline.

(* The pinned mapping (scope.var[name]._which_output) is NOT by output name: an entry stored under the name of an input
   whose producer calls its output "output" lands on this node's output "output" (dictionary without any entry for it). *)
Theorem C07_value_right_output_orig_refuted :
  construct cfg_orig BRef w_ident (BDict [("input", PArr EI64 [2])]) = Ok [("output", Some w_t2, Some (VArr EI64 [2]), false)] /\
  construct cfg_fixed BRef w_ident (BDict [("input", PArr EI64 [2])]) = Ok [("output", Some w_t2, None, false)].
Proof. exact value_right_output_orig_refuted. Qed.
Print Assumptions C07_value_right_output_orig_refuted.

(* --- the value is what the model computes ------------------------------------------------------------------------- *)
(* Abstract DAG (ValuePropSem.v).  HYPOTHESIS A "backend agrees with opsem on constant inputs": whatever survives of the
   backend's answer for output k equals the k-th run-time result of the operator on the same operand values.  Then for
   every program and EVERY input binding rho, each entry that carries a propagated value evaluates to exactly that value.
   (Where A fails in this environment – DFT, STFT, Resize/align_corners under onnxruntime vs. the reference evaluator –
   the harness reports the operator; nothing in spox can establish A.) *)
Theorem C07_value_equals_runtime :
  forall (opk content : Type) (opsem : opk -> list content -> list content)
         (backend : opk -> list content -> list (option content)) (dflt : content),
  (* backend agrees with opsem on constant inputs *)
  (forall o cs k c, nth k (backend o cs) None = Some c -> nth k (opsem o cs) dflt = c) ->
  forall prog rho penv env,
  agree content penv env -> agree content (prop_run opk content backend prog penv) (eval opk content opsem dflt prog rho env).
Proof. exact value_equals_runtime. Qed.
Print Assumptions C07_value_equals_runtime.

Theorem C07_value_same_for_all_inputs :
  forall (opk content : Type) (opsem : opk -> list content -> list content)
         (backend : opk -> list content -> list (option content)) (dflt : content),
  (forall o cs k c, nth k (backend o cs) None = Some c -> nth k (opsem o cs) dflt = c) ->
  forall prog rho rho' j c,
  nth j (prop_run opk content backend prog []) None = Some c ->
  nth j (eval opk content opsem dflt prog rho []) dflt = c /\ nth j (eval opk content opsem dflt prog rho' []) dflt = c.
Proof. exact value_same_for_all_inputs. Qed.
Print Assumptions C07_value_same_for_all_inputs.

(* the hypothesis is satisfiable on a non-trivial DAG: x (input), 2, 3, op0(2,3) -> (5 kept, second output dropped),
   op1(x, 5) (no value), unsafe_cast of the 5 *)
Theorem C07_value_equals_runtime_example :
  prop_run nat nat ToySem.backend ToySem.prog [] = [None; Some 2; Some 3; Some 5; None; None; Some 5] /\
  eval nat nat ToySem.opsem 0 ToySem.prog [7] [] = [7; 2; 3; 5; 6; 35; 5] /\
  agree nat (prop_run nat nat ToySem.backend ToySem.prog []) (eval nat nat ToySem.opsem 0 ToySem.prog [7] []).
Proof. exact (conj ToySem.propagated (conj ToySem.executed ToySem.instance)). Qed.
Print Assumptions C07_value_equals_runtime_example.

(* initializer: the array itself (dtype normalised), typed by its own dtype and shape, for any backend / backend result *)
Theorem C07_initializer_value_typed :
  forall e s c bk r, c_strict c = false ->
  construct c bk (initializer_node e s) r
    = Ok [("arg", Some (Tensor (norm_elem e) (Some (map DConst s))), Some (VArr (norm_elem e) s), false)] /\
  conforms (Tensor (norm_elem e) (Some (map DConst s))) (VArr (norm_elem e) s) = true.
Proof. exact initializer_value_typed. Qed.
Print Assumptions C07_initializer_value_typed.
