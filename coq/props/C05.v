(* C05 — constructor calls type-check eagerly and agree with ONNX strict inference.  Property theorems only.
   ONNX's inference is the variable [infer]: every theorem below holds for EVERY such function. *)
From Coq Require Import List String Bool Arith ZArith NArith.
From Spox Require Import NodeProto NodeProtoFacts NodeProtoKeys.
Import ListNotations.

(* slots_roundtrip (inputs).  For every signature in which a variadic parameter occurs only in last position (this
   includes every signature of ONNX's shape: singles, then optionals, then at most one variadic), every argument
   pattern accepted by the field-kind checks, every value naming that gives the call's Vars non-empty names, and every
   min_input: ONNX's positional binding of the emitted input list recovers exactly which argument sits in which
   parameter.  Excludes "optional shifted by one", "variadic swallowed a neighbour", over-trimming. *)
Theorem C05_slots_roundtrip :
  forall nm node_name build_subgraph c,
    (forall v, In v (all_vars (c_ins c)) -> nm v <> EmptyString) ->
    variadic_last (s_ins (c_sig c)) = true -> args_ok (s_ins (c_sig c)) (c_ins c) = true ->
    bind_slots (s_ins (c_sig c)) (n_inputs (emit nm node_name build_subgraph c)) = Some (map (amap nm) (c_ins c)).
Proof. exact inputs_roundtrip. Qed.
Print Assumptions C05_slots_roundtrip.

Theorem C05_slots_roundtrip_outputs :
  forall nm node_name build_subgraph c,
    (forall v, In v (all_vars (c_outs c)) -> nm v <> EmptyString) ->
    variadic_last (s_outs (c_sig c)) = true -> args_ok (s_outs (c_sig c)) (c_outs c) = true ->
    bind_slots (s_outs (c_sig c)) (n_outputs (emit nm node_name build_subgraph c)) = Some (map (amap nm) (c_outs c)).
Proof. exact outputs_roundtrip. Qed.
Print Assumptions C05_slots_roundtrip_outputs.

(* ONNX's stricter signature shape implies the hypothesis used above. *)
Theorem C05_onnx_shape_is_covered : forall sl, onnx_shape sl = true -> variadic_last sl = true.
Proof. exact onnx_shape_variadic_last. Qed.
Print Assumptions C05_onnx_shape_is_covered.

(* The emitted input list is the canonical one (excludes under-trimming as well): it differs from the full positional
   list by trailing empty names only, is not shorter than min_input when enough arguments exist, and beyond min_input
   its last name is not empty; with at most min_input positions nothing is removed. *)
Theorem C05_inputs_canonical :
  forall nm node_name build_subgraph c,
    let full := names_of nm (in_flat c) in
    let out := n_inputs (emit nm node_name build_subgraph c) in
    (exists k, full = out ++ repeat EmptyString k) /\
    (min_in c <= List.length full -> min_in c <= List.length out) /\
    (min_in c < List.length out -> last out EmptyString <> EmptyString) /\
    (List.length full <= min_in c -> out = full).
Proof. exact inputs_canonical. Qed.
Print Assumptions C05_inputs_canonical.

(* Outputs created by Node._init_output_vars are all named: the node has exactly one output name per declared
   (non-variadic) output plus out_variadic, none empty, nothing trimmed. *)
Theorem C05_outputs_all_emitted :
  forall nm node_name build_subgraph c k fresh,
    (forall v, In v (all_vars (c_outs c)) -> nm v <> EmptyString) ->
    c_outs c = init_outputs (s_outs (c_sig c)) k fresh ->
    n_outputs (emit nm node_name build_subgraph c) = names_of nm (out_flat c) /\
    List.length (n_outputs (emit nm node_name build_subgraph c)) = declared_count (s_outs (c_sig c)) k /\
    (forall x, In x (n_outputs (emit nm node_name build_subgraph c)) -> x <> EmptyString).
Proof. exact outputs_all_emitted. Qed.
Print Assumptions C05_outputs_all_emitted.

(* The same for the one-node model that inference actually sees: it exists (no ScopeError / TypeError), its naming
   (first key wins) is injective on the call's Vars, and both round trips hold. *)
Theorem C05_singleton_roundtrip :
  forall c,
    keys_ok c = true -> call_ok c = true -> some_input_untyped c = false ->
    variadic_last (s_ins (c_sig c)) = true -> variadic_last (s_outs (c_sig c)) = true ->
    exists sc m, singleton c = SOk m /\
      bind_slots (s_ins (c_sig c)) (n_inputs (m_node m)) = Some (map (amap (nm_of sc)) (c_ins c)) /\
      bind_slots (s_outs (c_sig c)) (n_outputs (m_node m)) = Some (map (amap (nm_of sc)) (c_outs c)) /\
      (forall v w, In v (all_vars (c_ins c) ++ all_vars (c_outs c)) -> In w (all_vars (c_ins c) ++ all_vars (c_outs c)) ->
                   nm_of sc v = nm_of sc w -> v = w).
Proof. exact singleton_roundtrip. Qed.
Print Assumptions C05_singleton_roundtrip.

(* keys_ok follows from the signature alone: distinct non-empty field names over inputs and outputs, none of which
   starts with "<variadic field>_" (evaluated for every shipped class on every run) *)
Theorem C05_keys_ok_from_signature :
  forall c, call_ok c = true -> sig_keys_ok (c_sig c) = true -> keys_ok c = true.
Proof. exact keys_ok_from_signature. Qed.
Print Assumptions C05_keys_ok_from_signature.

(* attrs_forwarded: the emitted attribute list is exactly the set attributes, in declaration order, each under the
   Attr object's name with its value (a subgraph under its field key); unset attributes are absent. *)
Theorem C05_attrs_forwarded :
  forall nm node_name build_subgraph c,
    n_attrs (emit nm node_name build_subgraph c) = filter_map (attr_emitted build_subgraph) (c_attrs c).
Proof. exact attrs_forwarded. Qed.
Print Assumptions C05_attrs_forwarded.
(* with the generated constructors' convention Attr name = field name, the names are the field names *)
Theorem C05_attrs_names :
  forall nm node_name build_subgraph c,
    (forall a n v, In a (c_attrs c) -> a_set a = Some (n, v) -> n = a_key a) ->
    map fst (n_attrs (emit nm node_name build_subgraph c)) =
    map a_key (filter (fun a => match a_set a with Some _ => true | None => false end) (c_attrs c)).
Proof. exact attrs_names. Qed.
Print Assumptions C05_attrs_names.

(* consts_forwarded (and typed inputs): every input Var's type is a graph input, and every constant operand an
   initializer, under the name the node uses for that Var. *)
Theorem C05_consts_forwarded :
  forall c sc m,
    keys_ok c = true -> scope_fill [] (somes (in_flat c) ++ somes (out_flat c)) = Some sc -> singleton c = SOk m ->
    forall k v, In (k, Some v) (in_flat c) ->
      (forall t, vi_ty (vlookup (c_env c) v) = Some t -> In (nm_of sc v, to_onnx t) (m_inputs m)) /\
      (forall a, vi_const (vlookup (c_env c) v) = Some a -> In (nm_of sc v, a) (m_inits m)).
Proof. exact inputs_forwarded. Qed.
Print Assumptions C05_consts_forwarded.
Theorem C05_inits_only_consts :
  forall c m, keys_ok c = true -> singleton c = SOk m ->
    forall k a, In (k, a) (m_inits m) -> exists v, In (k, Some v) (in_flat c) /\ vi_const (vlookup (c_env c) v) = Some a.
Proof. exact inits_only_consts. Qed.
Print Assumptions C05_inits_only_consts.

(* dummy subgraphs are typed like the real ones *)
Theorem C05_dummy_subgraph_typed :
  forall key args res,
    map snd (g_inputs (dummy_subgraph key args res)) = map to_onnx args /\
    map snd (g_outputs (dummy_subgraph key args res)) = map to_onnx res.
Proof. exact dummy_subgraph_typed. Qed.
Print Assumptions C05_dummy_subgraph_typed.

(* untyped_input_no_check: with an untyped input the outcome does not depend on [infer] at all (inference is never
   consulted), nothing is raised and every output is untyped. *)
Theorem C05_untyped_input_no_check :
  forall (E : Type) c, some_input_untyped c = true ->
    forall infer : smodel -> E + list (string * option oty),
      call_outcome infer c = Returned (map (fun k => (k, None)) (out_keys c)).
Proof. exact untyped_input_no_check. Qed.
Print Assumptions C05_untyped_input_no_check.

(* reject_iff_infer_rejects: with all inputs typed the call raises e iff inference of the singleton model raises e;
   otherwise every output gets the inferred type of the value info of its key, invented dimensions erased. *)
Theorem C05_reject_iff_infer_rejects :
  forall (E : Type) c, keys_ok c = true -> some_input_untyped c = false ->
    exists m, singleton c = SOk m /\
      forall infer : smodel -> E + list (string * option oty),
        (forall e, call_outcome infer c = Raised e <-> infer m = inl e) /\
        (forall infos, infer m = inr infos ->
           call_outcome infer c =
           match results_of infos [] with
           | None => RaisedOther
           | Some r => Returned (map (fun k => (k, option_map strip (dict_get r k))) (out_keys c))
           end).
Proof. exact reject_iff_infer_rejects. Qed.
Print Assumptions C05_reject_iff_infer_rejects.

(* wrong-kind arguments: an argument whose kind does not fit its field (a required input given as None or as a list, a bare Var for a
   variadic field, ...) makes the constructor raise at the call, whatever inference would say; with arguments of the right kinds the
   constructor IS the inference-driven outcome of the theorems above. *)
Theorem C05_wrong_kind_raises_at_the_call :
  forall (E : Type) (infer : smodel -> E + list (string * option oty)) c,
    (args_ok (s_ins (c_sig c)) (c_ins c) = false -> construct infer c = RaisedOther) /\
    (args_ok (s_ins (c_sig c)) (c_ins c) = true -> construct infer c = call_outcome infer c).
Proof. exact wrong_kind_raises. Qed.
Print Assumptions C05_wrong_kind_raises_at_the_call.

(* what "invented dimensions erased" means *)
Theorem C05_strip_spec :
  (forall d, strip_dim d = match d with DSym s => if String.prefix unk_prefix s then DUnk else DSym s | _ => d end) /\
  (forall t, no_invented t = true -> strip t = t) /\ (forall t, no_invented (strip t) = true) /\
  (forall t, ty_normal t = true -> from_onnx (to_onnx t) = Some t).
Proof. exact (conj strip_dim_spec (conj strip_keeps (conj strip_no_invented from_to_onnx))). Qed.
Print Assumptions C05_strip_spec.

(* F20 — the property FAILS for BatchNormalization in inference mode: whatever inference does elsewhere, if it applies
   ONNX's rule "one output when training_mode = 0", the constructor call (which names all three declared outputs, see
   C05_outputs_all_emitted) is rejected although the one-output node is what ONNX accepts. *)
Theorem C05_batchnorm_inference_mode_refuted :
  forall E (infer : smodel -> E + list (string * option oty)) e0, bn_rule infer e0 ->
    call_outcome infer (bn_call (typed_env 5) "0") = Raised e0.
Proof. exact batchnorm_inference_mode_refuted. Qed.
Print Assumptions C05_batchnorm_inference_mode_refuted.
