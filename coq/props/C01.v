(* C01 — a built model computes exactly the dataflow the program describes.  Property theorems only.
   [meaning] is the value a Var denotes (evaluation of the dataflow DAG, subgraphs as closures over the enclosing bindings);
   [run_plan] executes the emitted nested graphs node by node (the emitted model with names erased: which application
   sits in which graph in which order; the naming layer is C02's).  The statement holds for EVERY operator semantics. *)
From Coq Require Import List String NArith Arith Bool.
From Spox Require Import Base IR Show Build Sem Plan Named Validate BuildFacts SemFacts NamedFacts EmitFacts CoverageFacts PlanFacts WfFacts LegalFacts.
Import ListNotations.

Theorem C01_build_sem :
  forall p r m inputs outputs,
  build_checked p r = inl m -> all_vars (r_inputs r) = Some inputs -> all_vars (r_outputs r) = Some outputs ->
  let p' := final_prog p r inputs outputs in
  forall (val : Type) (dv : val) (opsem : nat -> list (option val) -> list (clos val) -> list val),
  (forall n ivs c1 c2, Forall2 (fun a b => forall av, a av = b av) c1 c2 -> opsem n ivs c1 = opsem n ivs c2) ->
  forall av : list val,
  run_plan p' 0 val dv opsem (plan_of_graph p' 0 (mmain m)) av =
  map (meaning p' 0 val dv opsem (bindv val dv (request_args p r inputs outputs) av)) (map snd outputs).
Proof. exact build_sem. Qed.
Print Assumptions C01_build_sem.

(* End to end on the emitted model AS EMITTED: executing the nested graphs by value NAMES, the way ONNX executes them (a node reads
   the names defined earlier in its graph or in an enclosing graph; omitted trailing optionals read as absent), yields the meaning of
   each requested Var.  (Inlined blocks and function calls are single abstract operator applications here: C08 / C14.) *)
Theorem C01_build_sem_named :
  forall p r m inputs outputs,
  build_checked p r = inl m -> all_vars (r_inputs r) = Some inputs -> all_vars (r_outputs r) = Some outputs ->
  let p' := final_prog p r inputs outputs in
  forall (val : Type) (dv : val) (opsem : nat -> list (option val) -> list (clos val) -> list val),
  (forall n ivs c1 c2, Forall2 (fun a b => forall av, a av = b av) c1 c2 -> opsem n ivs c1 = opsem n ivs c2) ->
  forall av : list val,
  run_named p' 0 val dv opsem (mmain m) [] av =
  map (meaning p' 0 val dv opsem (bindv val dv (request_args p r inputs outputs) av)) (map snd outputs).
Proof. exact build_sem_named. Qed.
Print Assumptions C01_build_sem_named.

(* Names erased = names kept: for ANY table Var -> name that is injective and consistent with the emitted model. *)
Theorem C01_named_is_plan :
  forall p main (val : Type) (dv : val) (opsem : nat -> list (option val) -> list (clos val) -> list val),
  (forall n ivs c1 c2, Forall2 (fun a b => forall av, a av = b av) c1 c2 -> opsem n ivs c1 = opsem n ivs c2) ->
  forall tbl, table_inj tbl = true -> forall g, Pg p main val dv opsem tbl g.
Proof. exact named_is_plan. Qed.
Print Assumptions C01_named_is_plan.

(* The abstract core: ANY well-formed linearisation of a program into nested graphs (every input defined earlier in the same or
   an enclosing graph, outputs fresh, body arguments local) computes the program's meaning — creation order, which callback made
   a value, reuse counts and unrequested constructions are not inputs of [eval] and cannot matter. *)
Theorem C01_linearisation_correct :
  forall (val : Type) (dv : val) is_argn insn subsn gargsn gresn noutsn opsem,
  (forall n ivs c1 c2, Forall2 (fun a b => forall av, a av = b av) c1 c2 -> opsem n ivs c1 = opsem n ivs c2) ->
  forall rank : nref -> nat,
  (forall n x, is_argn n = false -> In (Some x) (insn n) -> rankv rank x < rank n) ->
  (forall n g r, is_argn n = false -> In g (subsn n) -> In r (gresn g) -> rankv rank r < rank n) ->
  forall pl, wf_b is_argn insn subsn gargsn gresn noutsn pl [] [] = true -> forall av,
  run_graph val dv insn gargsn gresn noutsn opsem pl [] av =
  map (ev val dv is_argn insn subsn gargsn gresn opsem rank (bindv val dv (gargsn (pgid pl)) av)) (gresn (pgid pl)).
Proof. intros. eapply run_main_correct; eassumption. Qed.
Print Assumptions C01_linearisation_correct.

(* Every application is emitted exactly once iff some requested output depends on it (shared with C04). *)
Theorem C01_unrequested_irrelevant :
  forall p r m inputs outputs, build_checked p r = inl m ->
  all_vars (r_inputs r) = Some inputs -> all_vars (r_outputs r) = Some outputs ->
  forall u, In u (srcs_graph (mmain m)) <-> In u (reachable (final_prog p r inputs outputs) 0).
Proof. intros p r m i o H Hi Ho. apply build_checked_inv in H. destruct H as [_ Hv].
  exact (proj2 (emitted_exactly_once p r m i o Hi Ho Hv)). Qed.
Print Assumptions C01_unrequested_irrelevant.

(* "Every well-typed program ... builds [a model that computes the program's dataflow]" has a structural half that needs no
   validator: no operator application a requested output depends on is ever DROPPED by a successful build (and nothing else is
   emitted) - main_model_nodes = reachable applications, as sets, for every program whose object graph is acyclic. *)
Theorem C01_no_application_is_dropped_by_construction :
  forall p r m inputs outputs,
  build_public p r = inl m -> all_vars (r_inputs r) = Some inputs -> all_vars (r_outputs r) = Some outputs ->
  cover_premises_b (with_main p None outputs) = true ->
  exists args, (r_drop r = false -> args = map snd inputs) /\ (forall a, In a args -> In a (map snd inputs)) /\
    forall u, In u (srcs_graph (mmain m)) <->
      (In u (topo_of (with_main p (Some args) outputs) 0) /\ is_arg (with_main p (Some args) outputs) u = false).
Proof. exact build_public_emits_exactly. Qed.
Print Assumptions C01_no_application_is_dropped_by_construction.

(* The plan of a returned model - the emitted model with names erased: which application sits in which graph, in which order, with
   which nested bodies - IS the ownership map of the scope resolution unfolded along the subgraph attributes, a function
   [spec_plan_of] of the PROGRAM alone.  By construction (no validator): compile adds nothing, drops nothing, reorders nothing. *)
Theorem C01_plan_is_the_ownership_map_unfolded :
  forall ffuel p un main b, build_main ffuel p un main = inl b -> spec_plan_of p main = Some (plan_of_graph p main (b_graph b)).
Proof. exact build_main_plan. Qed.
Print Assumptions C01_plan_is_the_ownership_map_unfolded.

(* The semantic theorem WITHOUT a check of the model's output.  Premise ([spec_check], decidable, a function of the program and the
   request only, evaluated on every generated program that builds): the specification-level plan is a well-formed linearisation
   (operands defined earlier in the same or an enclosing graph, body arguments local, results defined) of an acyclic program.
   Then, whatever build_public returns, executing its nested graphs on any values of the inputs yields, for each requested output, the
   meaning of the requested Var - for EVERY extensional operator semantics. *)
Theorem C01_build_sem_by_construction :
  forall p r m inputs outputs,
  build_public p r = inl m -> all_vars (r_inputs r) = Some inputs -> all_vars (r_outputs r) = Some outputs ->
  exists args, (r_drop r = false -> args = map snd inputs) /\ (forall a, In a args -> In a (map snd inputs)) /\
    let p' := with_main p (Some args) outputs in
    spec_check p' 0 = true ->
    forall (val : Type) (dv : val) (opsem : nat -> list (option val) -> list (clos val) -> list val),
    (forall n ivs c1 c2, Forall2 (fun a b => forall av, a av = b av) c1 c2 -> opsem n ivs c1 = opsem n ivs c2) ->
    forall av,
    run_plan p' 0 val dv opsem (plan_of_graph p' 0 (mmain m)) av =
    map (meaning p' 0 val dv opsem (bindv val dv args av)) (map snd outputs).
Proof. exact build_sem_by_construction. Qed.
Print Assumptions C01_build_sem_by_construction.

(* C01 for LEGAL programs, with NO check of the output and NO evaluated plan premise.  [legal_b] is a decidable condition on the program
   and the request only: acyclic object graph; operands are outputs of real nodes with valid output indices; attribute names unique per
   node; only operator / function nodes carry subgraphs; the declared arguments of the graphs are distinct Argument outputs, disjoint
   between graphs; and NO LEAK - every argument a node uses is declared by the graph the scope resolution places the node in, or by an
   enclosing one.  The well-formedness of the emitted plan is then PROVED from the algorithm-level facts (discovery, placement = lowest
   common ancestor, operands defined before use, coverage, the plan = ownership map unfolded), and whatever build_public returns computes,
   for every extensional operator semantics and every input binding, the meaning of each requested Var. *)
Theorem C01_plan_of_a_legal_program_is_well_formed :
  forall ffuel p un main b, build_main ffuel p un main = inl b -> legal_b p main = true ->
  wf (is_argP p) (insP p main) (subsP p main) (gargsP p) (gresP p) (noutsP p) (plan_of_graph p main (b_graph b)) [] [].
Proof. exact build_main_plan_wf. Qed.
Print Assumptions C01_plan_of_a_legal_program_is_well_formed.

Theorem C01_build_sem_for_legal_programs :
  forall p r m inputs outputs,
  build_public p r = inl m -> all_vars (r_inputs r) = Some inputs -> all_vars (r_outputs r) = Some outputs ->
  exists args, (r_drop r = false -> args = map snd inputs) /\ (forall a, In a args -> In a (map snd inputs)) /\
    let p' := with_main p (Some args) outputs in
    legal_b p' 0 = true ->
    forall (val : Type) (dv : val) (opsem : nat -> list (option val) -> list (clos val) -> list val),
    (forall n ivs c1 c2, Forall2 (fun a b => forall av, a av = b av) c1 c2 -> opsem n ivs c1 = opsem n ivs c2) ->
    forall av,
    run_plan p' 0 val dv opsem (plan_of_graph p' 0 (mmain m)) av =
    map (meaning p' 0 val dv opsem (bindv val dv args av)) (map snd outputs).
Proof. exact build_sem_legal. Qed.
Print Assumptions C01_build_sem_for_legal_programs.
