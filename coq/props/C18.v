(* C18 — user-defined operators are emitted verbatim and compose like standard ones.  Property theorems only.
   A user-defined operator is a call whose signature has s_min = None (generic Node: min_input = len(inputs),
   min_output = len(outputs)).  Hook results (types T, values V, exceptions E), PropValue.check and the concreteness
   test are arbitrary: every theorem holds for all of them. *)
From Coq Require Import List String Bool Arith NArith.
From Spox Require Import NodeProto NodeProtoFacts CustomOp CustomOpFacts.
Import ListNotations.

(* custom_verbatim: one node with the declared operator name and domain; inputs and outputs are the positional name
   lists of the declared slots with nothing trimmed; the attributes are exactly the set ones, in declaration order,
   each under the Attr object's own name (a subgraph under its field key). *)
Theorem C18_custom_verbatim :
  forall nm node_name build_subgraph c,
    s_min (c_sig c) = None ->
    let n := emit nm node_name build_subgraph c in
    n_op n = s_op (c_sig c) /\ n_domain n = s_domain (c_sig c) /\ n_name n = node_name /\
    n_inputs n = names_of nm (in_flat c) /\ n_outputs n = names_of nm (out_flat c) /\
    List.length (n_inputs n) = List.length (in_flat c) /\ List.length (n_outputs n) = List.length (out_flat c) /\
    n_attrs n = filter_map (attr_emitted build_subgraph) (c_attrs c).
Proof. exact custom_verbatim. Qed.
Print Assumptions C18_custom_verbatim.

(* declared order, slot by slot: a Var gives its name, an omitted optional the empty name (kept even when trailing),
   a variadic field its members in order *)
Theorem C18_custom_inputs_in_declared_order :
  forall nm node_name build_subgraph c,
    s_min (c_sig c) = None -> List.length (s_ins (c_sig c)) = List.length (c_ins c) ->
    n_inputs (emit nm node_name build_subgraph c) = flat_map (slot_names nm) (c_ins c).
Proof. exact custom_inputs_in_declared_order. Qed.
Print Assumptions C18_custom_inputs_in_declared_order.
Theorem C18_custom_outputs_in_declared_order :
  forall nm node_name build_subgraph c,
    s_min (c_sig c) = None -> List.length (s_outs (c_sig c)) = List.length (c_outs c) ->
    n_outputs (emit nm node_name build_subgraph c) = flat_map (slot_names nm) (c_outs c).
Proof. exact custom_outputs_in_declared_order. Qed.
Print Assumptions C18_custom_outputs_in_declared_order.

(* ... and ONNX-style positional binding reads the arguments back (C05's round trip, any min_input) *)
Theorem C18_custom_roundtrip :
  forall nm node_name build_subgraph c,
    (forall v, In v (all_vars (c_ins c)) -> nm v <> EmptyString) ->
    variadic_last (s_ins (c_sig c)) = true -> args_ok (s_ins (c_sig c)) (c_ins c) = true ->
    bind_slots (s_ins (c_sig c)) (n_inputs (emit nm node_name build_subgraph c)) = Some (map (amap nm) (c_ins c)).
Proof. exact inputs_roundtrip. Qed.
Print Assumptions C18_custom_roundtrip.

(* custom_import: every domain required by some node is imported, at the highest version any node requires for it *)
Theorem C18_custom_import :
  forall reqs d v, In (d, v) reqs ->
    exists m, policy_version reqs (norm_domain d) = Some m /\ (v <= m)%N /\
              (exists d1, In (d1, m) reqs /\ norm_domain d1 = norm_domain d) /\
              (forall d2 v2, In (d2, v2) reqs -> norm_domain d2 = norm_domain d -> (v2 <= m)%N).
Proof. exact custom_import. Qed.
Print Assumptions C18_custom_import.
Theorem C18_no_import_without_requirement :
  forall reqs d', policy_version reqs d' = None <-> (forall d v, In (d, v) reqs -> norm_domain d <> d').
Proof. exact no_import_without_requirement. Qed.
Print Assumptions C18_no_import_without_requirement.

(* hooks_determine_outputs: with hooks that return (anything), construction never fails; every output's type is the
   type hook's entry under the output's key (untyped, with a missing-type warning, when there is none); its value is
   the value hook's entry iff the output is typed and the value checks against the type (otherwise dropped with a
   warning).  Entries under other keys, inputs and attributes play no role. *)
Theorem C18_hooks_determine_outputs :
  forall (T V E : Type) (check : T -> V -> bool) (concrete : T -> bool) keys inputs_concrete
         (types : list (string * T)) (values : list (string * V)),
    exists ws, node_init check concrete keys inputs_concrete (inr types : hook E T) (inr values : hook E V) =
      inr (map (fun k => {| o_key := k; o_type := dict_get types k; o_value := expected_value T V check types values k |}) keys, ws) /\
      (forall k, In k keys -> dict_get types k = None -> In (WMissing k) ws) /\
      (forall k t v, In k keys -> dict_get types k = Some t -> dict_get values k = Some v -> check t v = false -> In (WDropped k) ws).
Proof. exact hooks_determine_outputs. Qed.
Print Assumptions C18_hooks_determine_outputs.
Theorem C18_absent_hooks :
  forall (T V E : Type) (check : T -> V -> bool) (concrete : T -> bool) keys inputs_concrete,
    node_init check concrete keys inputs_concrete (inr [] : hook E T) (inr [] : hook E V) =
    inr (map (fun k => {| o_key := k; o_type := None; o_value := None |}) keys, map WMissing keys).
Proof. exact absent_hooks. Qed.
Print Assumptions C18_absent_hooks.
Theorem C18_init_raises_iff_hook_raises :
  forall (T V E : Type) (check : T -> V -> bool) (concrete : T -> bool) keys inputs_concrete (th : hook E T) (vh : hook E V) e,
    node_init check concrete keys inputs_concrete th vh = inl e <-> th = inl e \/ (exists types, th = inr types /\ vh = inl e).
Proof. exact init_raises_iff_hook_raises. Qed.
Print Assumptions C18_init_raises_iff_hook_raises.

(* custom_never_converted: a node of a non-default domain is never handed to the version converter; it is left as it
   is, with a warning exactly when its version differs from the imported one *)
Theorem C18_custom_never_converted :
  forall internal single has_graph d reqs v target same,
    is_default d = false -> In (d, v) reqs ->
    let r := adapt_decision internal single has_graph d reqs target same in
    (r = Unchanged \/ r = UnchangedWarned) /\
    (r = UnchangedWarned <->
     internal = false /\ single = true /\ has_graph = false /\ same = false /\ raw_max reqs d <> Some target).
Proof. exact custom_never_converted. Qed.
Print Assumptions C18_custom_never_converted.

(* "all domains" fails at one point: an operator class that spells the default domain "ai.onnx" crashes the build
   (adapt_best_effort normalises the node's domain but not the domains in opset_req: max() of an empty set) *)
Theorem C18_domain_alias_literal_refuted :
  exists reqs, In ("ai.onnx"%string, 1%N) reqs /\ adapt_decision false true false "ai.onnx" reqs 16%N false = Crash.
Proof. exact domain_alias_literal_refuted. Qed.
Print Assumptions C18_domain_alias_literal_refuted.
