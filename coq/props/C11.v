(* C11 — every shipped operator constructor conforms to its ONNX schema.  Property theorems only (data-independent).

   TRANSLATOR MODE: the tables ([table : list shipped], [schemas : list schema]) are regenerated from the current
   spox tree and onnx.defs on every run (harness/c11_dump.py -> SigsGen_<module>.v in the run's scratch directory); each
   generated file proves  [check_all excused table schemas = true]  by vm_compute and instantiates the theorems below
   ([all_conform_lifted_<module>], [complete_<module>]).  [excused] is the explicit list of known-finding keys. *)
From Coq Require Import List String ZArith Bool.
From Spox Require Import Sig SigFacts.
Import ListNotations.
Open Scope string_scope.

(* The lifted statement.  For ANY tables: if the boolean check computes to true, then every shipped entry has a schema
   of its name in the module's schema table and satisfies every clause of the declarative property [Conforms]
   (name/domain/since-version; inputs; outputs; attribute names, kinds, requiredness; defaults; constructor signature;
   every observed emission = [emit] of the arguments and binds back to them slot by slot; attributes emitted under
   their schema names with the value given or the default; all patterns covered), each clause either established or its
   key listed in [excused].  The bound of the finite check is [table] itself. *)
Theorem C11_all_constructors_conform :
  forall excused table schemas, check_all excused table schemas = true ->
  forall e, In e table -> Conforms excused schemas e.
Proof. exact check_all_sound. Qed.
Print Assumptions C11_all_constructors_conform.

(* Completeness: every non-deprecated schema in force at the module's version has a shipped entry. *)
Theorem C11_complete :
  forall excused table schemas, check_all excused table schemas = true ->
  forall s, In s schemas -> s_deprecated s = false ->
  In (s_name s ++ "/completeness") excused \/ exists e, In e table /\ e_key e = s_name s.
Proof. exact check_all_complete. Qed.
Print Assumptions C11_complete.

(* With no exceptions listed, the tables have no duplicate operator keys / schema names. *)
Theorem C11_tables_nodup :
  forall table schemas, check_all [] table schemas = true -> NoDup (map e_key table) /\ NoDup (map s_name schemas).
Proof. exact check_all_nodup. Qed.
Print Assumptions C11_tables_nodup.

(* ONNX's positional binding recovers exactly which argument sits in which schema slot, for every signature whose
   variadic slot (if any) is last, every fitting argument pattern (unbounded) and every lower bound m on the number of
   emitted names: excludes "optional shifted by one", "variadic swallowed a neighbour", over- and under-trimming. *)
Theorem C11_slots_roundtrip :
  forall sig args m, fitsb sig args = true -> bind_slots sig (emit m args) = Some args.
Proof. exact slots_roundtrip. Qed.
Print Assumptions C11_slots_roundtrip.

Theorem C11_slots_injective :
  forall sig a1 a2 m1 m2, fitsb sig a1 = true -> fitsb sig a2 = true -> emit m1 a1 = emit m2 a2 -> a1 = a2.
Proof. exact slots_injective. Qed.
Print Assumptions C11_slots_injective.

(* The emitted attribute list is exactly the set ones (given, else constructor default), under their field names. *)
Theorem C11_attrs_forwarded :
  forall names f n v, In (n, v) (emit_attrs names f) <-> In n names /\ f n = Some v.
Proof. exact attrs_forwarded. Qed.
Print Assumptions C11_attrs_forwarded.

(* Field-wise independence: the emission for ANY subset of given attributes is the concatenation, in field order, of
   what each field emits when only that field's own entry of the given list is kept. *)
Theorem C11_attrs_subsets_from_singletons :
  forall names d g, emit_attrs names (eff_of d g) = flat_map (fun n => emit_attrs [n] (eff_of d (restrict n g))) names.
Proof. exact attrs_subsets_from_singletons. Qed.
Print Assumptions C11_attrs_subsets_from_singletons.

(* Non-vacuity: the checker accepts a conforming two-input / two-attribute entry with five observations. *)
Theorem C11_checker_accepts_example : check_all [] [ex_entry] [ex_schema] = true.
Proof. exact checker_accepts. Qed.
Print Assumptions C11_checker_accepts_example.
