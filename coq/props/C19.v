(* C19 — subgraph callbacks run exactly once, with the prescribed arguments.  Property theorems only.
   Model: Subgraph.v (unsuffixed = repaired code, *_orig = the unchanged tree), proofs: SubgraphFacts.v. *)
From Coq Require Import ZArith NArith List Bool Arith.
From Spox Require Import Subgraph SubgraphFacts.
Import ListNotations.
Open Scope Z_scope.

(* --- exactly once ---------------------------------------------------------------------------------------------
   For every control-flow constructor (If, Loop, Scan, SequenceMap), all operand lists, all attribute values and all
   callback behaviours: when the constructor gets as far as issuing its node, the calls it made are exactly its
   callbacks, each once, in the order else_branch, then_branch / body. *)
Theorem C19_callback_once :
  forall o oc tr, construct o = Some (oc, tr) -> (forall e, oc <> OErr e) -> map fst tr = map cb_id (op_callbacks o).
Proof. exact callback_once_gen. Qed.
Print Assumptions C19_callback_once.

(* the same on any of the four trees (with / without each repair): the defects of the unchanged tree concern the
   argument types and the output count, not the number of invocations *)
Theorem C19_callback_once_any_tree :
  forall f13 f19 o oc tr, construct_gen f13 f19 o = Some (oc, tr) -> (forall e, oc <> OErr e) ->
    map fst tr = map cb_id (op_callbacks o).
Proof. exact callback_once_tree. Qed.
Print Assumptions C19_callback_once_any_tree.

(* counting form: with pairwise distinct callbacks, each one occurs exactly once in the trace *)
Theorem C19_callback_once_count :
  forall o oc tr c, construct o = Some (oc, tr) -> (forall e, oc <> OErr e) -> NoDup (map cb_id (op_callbacks o)) ->
  In c (op_callbacks o) -> count_occ Nat.eq_dec (map fst tr) (cb_id c) = 1%nat.
Proof. exact callback_once_count. Qed.
Print Assumptions C19_callback_once_count.

(* on EVERY outcome, errors included: the calls are an initial segment of the callbacks (never twice, never out of
   order, nothing is called after a failure) *)
Theorem C19_callback_at_most_once :
  forall o oc tr, construct o = Some (oc, tr) -> exists n, map fst tr = firstn n (map cb_id (op_callbacks o)).
Proof. exact callback_at_most_once_gen. Qed.
Print Assumptions C19_callback_at_most_once.

(* --- building never calls again --------------------------------------------------------------------------------- *)
Theorem C19_build_never_calls :
  forall n i w, w_trace (iter n (fun w => step w (OpBuild i)) w) = w_trace w.
Proof. exact build_never_calls_gen. Qed.
Print Assumptions C19_build_never_calls.

Theorem C19_singleton_never_calls :
  forall n i w, w_trace (iter n (fun w => step w (OpSingleton i)) w) = w_trace w.
Proof. exact singleton_never_calls_gen. Qed.
Print Assumptions C19_singleton_never_calls.

(* any session: the global call trace is the concatenation of the constructors' own traces; builds and inference
   re-runs, in any number and interleaving, contribute nothing *)
Theorem C19_history_trace :
  forall l w, w_trace (run_ops w l) = (w_trace w ++ flat_map op_trace l)%list.
Proof. exact history_trace. Qed.
Print Assumptions C19_history_trace.

Theorem C19_rebuilds_never_call :
  forall l, forallb is_rebuild l = true -> forall w, w_trace (run_ops w l) = w_trace w.
Proof. exact rebuilds_never_call. Qed.
Print Assumptions C19_rebuilds_never_call.

(* --- prescribed argument types (repaired code) ------------------------------------------------------------------- *)
Theorem C19_arg_types_prescribed_if :
  forall e t, Forall (fun c : call => snd c = spec_if) (snd (if_ e t)).
Proof. exact arg_types_if. Qed.
Print Assumptions C19_arg_types_prescribed_if.

(* Loop, for all numbers and types of carried values: (iteration number, condition, carried...) *)
Theorem C19_arg_types_prescribed_loop :
  forall carried body,
    snd (loop (map Some carried) body) =
    (if callable (cb_beh body)
     then [(cb_id body, Tensor e_int64 (Some [DInt 1%N]) :: Tensor e_bool (Some [DInt 1%N]) :: carried)] else []) /\
    spec_loop carried (Tensor e_int64 (Some [DInt 1%N]) :: Tensor e_bool (Some [DInt 1%N]) :: carried).
Proof. exact arg_types_loop. Qed.
Print Assumptions C19_arg_types_prescribed_loop.

(* Scan, for all operand lists, every split m and all scan axes that ONNX allows *)
Theorem C19_arg_types_prescribed_scan :
  forall tys m axes dirs body p, spec_scan tys m axes = Some p ->
    snd (scan (map Some tys) (Z.of_nat m) axes dirs body) = if callable (cb_beh body) then [(cb_id body, p)] else [].
Proof. exact arg_types_scan. Qed.
Print Assumptions C19_arg_types_prescribed_scan.

Theorem C19_arg_types_prescribed_seqmap :
  forall s adds body p, spec_seqmap s adds = Some p ->
    snd (sequence_map (Some s) (map Some adds) body) = if callable (cb_beh body) then [(cb_id body, p)] else [].
Proof. exact arg_types_seqmap. Qed.
Print Assumptions C19_arg_types_prescribed_seqmap.

(* --- the number of returned Vars fixes the output count -------------------------------------------------------------
   every Graph attribute has exactly as many results as its callback's iterable yields (list or one-shot), and
   out_variadic is the ONNX count for that number (Loop: minus the condition) *)
Theorem C19_out_count_from_results :
  forall o k gs n tr, construct o = Some (ONode k gs n, tr) ->
    Forall2 (fun g c => exists elems, yielded (cb_beh c) = Some elems /\ List.length (g_results g) = List.length elems /\
                                      g_ctor g = cb_id c) gs (op_callbacks o) /\
    exists c elems, hd_error (op_callbacks o) = Some c /\ yielded (cb_beh c) = Some elems /\
                    n = spec_out_count k (List.length elems).
Proof. exact out_count_gen. Qed.
Print Assumptions C19_out_count_from_results.

(* --- malformed callbacks: TypeError at the call, no node, and no call other than the single one ---------------------- *)
Theorem C19_malformed_typeerror :
  forall o body tys, op_callbacks o = [body] -> op_types o = Some (Ok tys) -> malformed (List.length tys) (cb_beh body) ->
    construct o = Some (OErr EType, if callable (cb_beh body) then [(cb_id body, tys)] else []).
Proof. exact malformed_single. Qed.
Print Assumptions C19_malformed_typeerror.

Theorem C19_malformed_typeerror_if_else :
  forall e t, malformed 0 (cb_beh e) -> if_ e t = (OErr EType, if callable (cb_beh e) then [(cb_id e, [])] else []).
Proof. exact malformed_if_else. Qed.
Print Assumptions C19_malformed_typeerror_if_else.

Theorem C19_malformed_typeerror_if_then :
  forall e t g tr, subgraph [] e = (Ok g, tr) -> malformed 0 (cb_beh t) ->
    if_ e t = (OErr EType, ((cb_id e, []) :: if callable (cb_beh t) then [(cb_id t, [])] else [])).
Proof. exact malformed_if_then. Qed.
Print Assumptions C19_malformed_typeerror_if_then.

(* subgraph(types, f) with a non-Type among the types: TypeError, nothing is called *)
Theorem C19_subgraph_bad_types :
  forall mat types f, In None types -> subgraph_gen mat types f = (Err EType, []).
Proof. exact subgraph_bad_types_in. Qed.
Print Assumptions C19_subgraph_bad_types.

(* --- the unchanged tree -------------------------------------------------------------------------------------------- *)
(* F13a: state float32[3], scan input float32[5,3]: the axis is stripped from the FIRST num_scan_inputs operands and
   the shape of the rest is dropped *)
Theorem C19_arg_types_prescribed_scan_refuted :
  exists tys m axes dirs body p,
    spec_scan tys m axes = Some p /\ callable (cb_beh body) = true /\
    snd (scan_orig (map Some tys) (Z.of_nat m) axes dirs body) <> [(cb_id body, p)].
Proof. exact scan_orig_refuted. Qed.
Print Assumptions C19_arg_types_prescribed_scan_refuted.
(* ... what does hold there: operands whose rank is unknown *)
Theorem C19_arg_types_scan_orig_unknown_rank :
  forall tys m dirs body, forallb rank_unknown tys = true -> (m <= List.length tys)%nat ->
    spec_scan tys m None = Some tys /\
    snd (scan_orig (map Some tys) (Z.of_nat m) None dirs body) = if callable (cb_beh body) then [(cb_id body, tys)] else [].
Proof. exact scan_orig_unknown_rank. Qed.
Print Assumptions C19_arg_types_scan_orig_unknown_rank.

(* F13b: a tensor-typed additional input -> AttributeError before anything is called *)
Theorem C19_arg_types_prescribed_seqmap_refuted :
  exists s adds body p,
    spec_seqmap s adds = Some p /\ callable (cb_beh body) = true /\
    sequence_map_orig (Some s) (map Some adds) body = (OErr EAttr, []).
Proof. exact seqmap_orig_refuted. Qed.
Print Assumptions C19_arg_types_prescribed_seqmap_refuted.
Theorem C19_arg_types_seqmap_orig_all_sequences :
  forall s adds body p, forallb is_seq adds = true -> spec_seqmap s adds = Some p ->
    snd (sequence_map_orig (Some s) (map Some adds) body) = if callable (cb_beh body) then [(cb_id body, p)] else [].
Proof. exact seqmap_orig_all_sequences. Qed.
Print Assumptions C19_arg_types_seqmap_orig_all_sequences.

(* F19: a generator result is consumed by the validation; the operator is issued with zero outputs *)
Theorem C19_out_count_refuted :
  exists e t gs n tr elems,
    if_orig e t = (ONode KIf gs n, tr) /\ yielded (cb_beh e) = Some elems /\
    n <> spec_out_count KIf (List.length elems) /\ n = 0.
Proof. exact out_count_orig_refuted. Qed.
Print Assumptions C19_out_count_refuted.
(* ... what does hold there: callbacks whose result can be traversed twice behave as in the repaired code *)
Theorem C19_orig_reiterable :
  forall k types body outv, (forall l, cb_beh body <> BOneShot l) ->
    ctor1 false k types body outv = ctor1 true k types body outv.
Proof. exact ctor1_orig_reiterable. Qed.
Print Assumptions C19_orig_reiterable.
