(* C15 — value propagation is fail-safe under backend faults.  Property theorems only.
   Model: ValueProp.v (one node construction), ValuePropProg.v (programs).  cfg_orig = the pinned tree, cfg_fixed = the
   repaired code (fixes/F5.diff, F5b.diff, F5c.diff). *)
From Coq Require Import List Bool String Arith.
From Spox Require Import ValueProp ValuePropFacts ValuePropProg ValuePropProgFacts.
Import ListNotations.
Open Scope string_scope.

(* For EVERY backend result (any exception, any dictionary of any python values, any names), either backend or NONE,
   any node (standard, inlined model, constant/initializer, plain): construction returns Ok – for the repaired code
   with the debugging switch VALUE_PROP_STRICT_CHECK off. *)
Theorem C15_construct_never_fails :
  forall c bk n r, c_guard c = true -> c_nonefix c = true -> c_strict c = false -> exists outs, construct c bk n r = Ok outs.
Proof. exact construct_never_fails. Qed.
Print Assumptions C15_construct_never_fails.

(* The pinned code raises at the constructor: a list for a Tensor-typed output (F5; both backends) ... *)
Theorem C15_construct_never_fails_orig_refuted :
  construct cfg_orig BRef w_add (BDict [("C", PList [PArr EI64 [2]; PArr EI64 [2]])]) = Err TypeError_unwrap_sequence
  /\ construct cfg_orig BOrt w_add (BDict [("C", PList [PArr EI64 [2]])]) = Err TypeError_unwrap_sequence.
Proof. exact construct_fails_orig_list_for_tensor. Qed.
Print Assumptions C15_construct_never_fails_orig_refuted.
(* ... a scalar under onnxruntime, an object numpy cannot convert, a name the node does not know, an inlined model fed
   with constants while propagation is switched off. *)
Theorem C15_construct_orig_refuted_other_mechanisms :
  construct cfg_orig BOrt w_add (BDict [("C", PScalar EF64)]) = Err TypeError_no_handler /\
  construct cfg_orig BRef w_add (BDict [("C", POther None)]) = Err NumpyError /\
  construct cfg_orig BRef w_add (BDict [("D", PArr EI64 [2])]) = Err KeyError_name /\
  construct cfg_orig BNone w_inline (BDict []) = Err RuntimeError_backend.
Proof.
  exact (conj construct_fails_orig_scalar_ort (conj construct_fails_orig_numpy
        (conj construct_fails_orig_unknown_name construct_fails_orig_inline_none))).
Qed.
Print Assumptions C15_construct_orig_refuted_other_mechanisms.

(* Every value attached by a construction passed PropValue.check against the Var's type (anything else was on the
   Var before) – for every configuration, backend and backend result. *)
Theorem C15_no_nonconforming_value :
  forall c bk n r outs, construct c bk n r = Ok outs ->
  forall f ot v w, In (f, ot, Some v, w) outs ->
    (exists o, In o (n_out n) /\ o_field o = f /\ o_val0 o = Some v) \/ (exists t, ot = Some t /\ check (c_deep c) t v = true).
Proof. exact no_nonconforming_value. Qed.
Print Assumptions C15_no_nonconforming_value.

(* With the repaired (deep) check, "passes check" is conformance in the independent sense [conforms]: dtype, shape and
   container at every level.  Fresh outputs (as made by _init_output_vars) carry no earlier value. *)
Theorem C15_attached_values_conform :
  forall c bk n r outs, c_deep c = true -> (forall o, In o (n_out n) -> o_val0 o = None) ->
  construct c bk n r = Ok outs ->
  forall f ot v w, In (f, ot, Some v, w) outs -> exists t, ot = Some t /\ conforms t v = true.
Proof. exact attached_values_conform. Qed.
Print Assumptions C15_attached_values_conform.

(* The pinned check is shallow: sequence elements of the wrong element type, an Optional payload of the wrong dtype and
   shape, an object array of non-strings for a string tensor are all attached. *)
Theorem C15_shallow_check_refuted :
  (exists v, construct cfg_f5 BRef w_seq (BDict [("output_sequence", PList [PArr EF32 [2]; PArr EF32 [2]])])
             = Ok [("output_sequence", Some w_seq_t, Some v, false)] /\ conforms w_seq_t v = false) /\
  (exists v, construct cfg_f5 BOrt w_opt (BDict [("output", PArr EF32 [3])])
             = Ok [("output", Some (Optional w_t2), Some v, false)] /\ conforms (Optional w_t2) v = false) /\
  (exists v, construct cfg_f5 BRef w_ident_str (BDict [("output", PArr EObjOther [2])])
             = Ok [("output", Some w_str_t, Some v, false)] /\ conforms w_str_t v = false).
Proof. exact shallow_check_attaches_nonconforming. Qed.
Print Assumptions C15_shallow_check_refuted.

(* The node's output types are those of the typing step, which does not see the backend: any two backend results,
   backends and configurations give the same types. *)
Theorem C15_types_unaffected_at_node :
  forall c1 c2 bk1 bk2 n r1 r2 o1 o2,
  construct c1 bk1 n r1 = Ok o1 -> construct c2 bk2 n r2 = Ok o2 -> out_types o1 = out_types o2.
Proof. exact types_unaffected_at_node. Qed.
Print Assumptions C15_types_unaffected_at_node.

(* Backend NONE: operators and (repaired) inlined models get their inferred types and no value. *)
Theorem C15_none_backend_no_values :
  forall c n r, (n_kind n = KStandard \/ (n_kind n = KInline /\ c_nonefix c = true)) ->
  construct c BNone n r = Ok (map (fun o => (o_field o, out_type o, o_val0 o, false)) (n_out n)).
Proof. exact none_backend_no_values. Qed.
Print Assumptions C15_none_backend_no_values.

(* ---- programs (sequences of constructions; every step refers to earlier Vars only) ------------------------------ *)
(* [vle s s'] : the state s' of a Var in the faulty run is the fault-free state s, or it carries no value and its type is
   equal to or more permissive than the fault-free one.
   Under the hypothesis "infer monotone in known constant operands" (named below), for every program, backend, step
   evaluator bk and fault plan: if every faulted step ended with nothing attached (the fault was a detected one:
   exception, non-conforming or missing result – see C15_attached_values_conform for why anything attached conforms),
   then every Var of the faulty run is [vle]-related to the fault-free one: types only get more permissive, values only
   disappear, nothing new or different is attached downstream. *)
Theorem C15_downstream_more_permissive :
  forall (opk : Type) (infer : opk -> list vstate -> list (option ty)) (bk : nat -> list vstate -> backend_result),
  (* infer monotone in known constant operands *)
  (forall o ins ins', Forall2 vle ins ins' -> Forall2 (fun t t' => oty_ge t t' = true) (infer o ins) (infer o ins')) ->
  forall c b fault prog i env env',
  Forall (wf_step opk) prog -> Forall2 vle env env' ->
  snd (run opk infer bk c b fault i prog env') = true ->
  Forall2 vle (fst (run opk infer bk c b (@no_fault) i prog env)) (fst (run opk infer bk c b fault i prog env')).
Proof. exact downstream_more_permissive. Qed.
Print Assumptions C15_downstream_more_permissive.

(* Switching propagation off: the structure that reaches the build ([structure prog]: operators, edges, names) is a
   function of the program alone – Var states are no input to it –, and the Var states under NONE are [vle]-related to
   those under any backend: only the precision of reported types (hence of value infos) can differ. *)
Theorem C15_none_backend_same_models :
  forall (opk : Type) (infer : opk -> list vstate -> list (option ty)) (bk : nat -> list vstate -> backend_result),
  (forall o ins ins', Forall2 vle ins ins' -> Forall2 (fun t t' => oty_ge t t' = true) (infer o ins) (infer o ins')) ->
  forall c b prog i env env',
  c_nonefix c = true -> Forall (wf_step opk) prog -> Forall2 vle env env' ->
  Forall2 vle (fst (run opk infer bk c b (@no_fault) i prog env)) (fst (run opk infer bk c BNone (@no_fault) i prog env')).
Proof. exact none_backend_same_models. Qed.
Print Assumptions C15_none_backend_same_models.

(* the hypotheses are satisfiable on a non-trivial program: constant shape -> Mul (faulted: list for a tensor) -> Reshape *)
Theorem C15_downstream_example :
  Forall2 vle (fst (run nat Toy.infer Toy.bk cfg_fixed BRef (@no_fault) 0 Toy.prog []))
              (fst (run nat Toy.infer Toy.bk cfg_fixed BRef Toy.fault 0 Toy.prog [])) /\
  (run nat Toy.infer Toy.bk cfg_fixed BRef Toy.fault 0 Toy.prog [] =
    ([(Some Toy.t_data, Some (VArr EF32 [6])); (Some Toy.t_sh, Some (VArr EI64 [2])); (Some Toy.t_sh, None);
      (Some (Tensor EF32 (Some [DUnk; DUnk])), None)], true)).
Proof. exact (conj Toy.downstream_instance Toy.faulty_run). Qed.
Print Assumptions C15_downstream_example.
