(* C13 — types are canonical; compatibility and broadcasting are exact and sound.  Property theorems only.
   Model: Shape.v (src/spox/_shape.py), Types.v (src/spox/_type_system.py, element-type conversion of _utils.py).
   The per-run obligation [spell_check canon table = true] over the spelling table regenerated from the current tree is
   compiled by harness/c13.py against C13_spelling_canonical below. *)
From Coq Require Import List String ZArith NArith Bool.
From Spox Require Import Shape ShapeFacts Types TypesFacts.
Import ListNotations.
Open Scope Z_scope.

(* ------------------------------------------------------------------ canonical representation / ONNX round trip *)

(* Converting a type to its ONNX form and back is the identity (whenever the conversion succeeds). *)
Theorem C13_from_to_onnx :
  forall t p, canon_ty t = true -> to_onnx t = Some p -> from_onnx p = Some t.
Proof. exact from_to_onnx. Qed.
Print Assumptions C13_from_to_onnx.

(* ... and in the other direction a TypeProto is reproduced up to normalisation (an empty dim_param is no value). *)
Theorem C13_to_from_onnx :
  forall p t, pfits p = true -> from_onnx p = Some t -> to_onnx t = Some (norm_proto p).
Proof. exact to_from_onnx. Qed.
Print Assumptions C13_to_from_onnx.

(* ... hence to_onnx is injective: distinct types never share an ONNX form. *)
Theorem C13_to_onnx_injective :
  forall a b p, canon_ty a = true -> canon_ty b = true -> to_onnx a = Some p -> to_onnx b = Some p -> a = b.
Proof. exact to_onnx_injective. Qed.
Print Assumptions C13_to_onnx_injective.

(* The conversion succeeds for every ONNX type (no Type() inside) whose constant dimensions fit int64, and is refused
   for anything containing the base Type(). *)
Theorem C13_to_onnx_total :
  forall t, proper t = true -> canon_ty t = true -> fits t = true -> exists p, to_onnx t = Some p.
Proof. exact to_onnx_total. Qed.
Print Assumptions C13_to_onnx_total.
Theorem C13_to_onnx_refuses_top : forall t, proper t = false -> to_onnx t = None.
Proof. exact to_onnx_refuses_top. Qed.
Print Assumptions C13_to_onnx_refuses_top.

(* Everything the constructors produce is canonical: Tensor(...) from a simple shape, and Type._from_onnx. *)
Theorem C13_mk_tensor_canonical :
  forall e s t, mk_tensor e s = Some t -> canon_ty t = true /\ proper t = true.
Proof. exact mk_tensor_canonical. Qed.
Print Assumptions C13_mk_tensor_canonical.
Theorem C13_from_onnx_canonical :
  forall p t, from_onnx p = Some t -> canon_ty t = true /\ proper t = true.
Proof. exact from_onnx_canonical. Qed.
Print Assumptions C13_from_onnx_canonical.

(* Element types ONNX does not define are refused, by the constructor and by _from_onnx. *)
Theorem C13_undefined_elem_refused :
  forall e, defined_elem e = false -> (forall s, mk_tensor e s = None) /\ (forall s, from_onnx (PTensor e s) = None).
Proof. exact undefined_elem_refused. Qed.
Print Assumptions C13_undefined_elem_refused.

(* == is structural equality of the canonical representation. *)
Theorem C13_equality_structural : forall a b, ty_eqb a b = true <-> a = b.
Proof. exact ty_eqb_eq. Qed.
Print Assumptions C13_equality_structural.

(* Spellings: if the (regenerated) table passes the check then undefined element types are refused, every spelling of
   an ONNX element type is accepted with that code and the canonical stored scalar type, and any two accepted spellings
   with the same ONNX element type give equal types. *)
Theorem C13_spelling_canonical :
  forall canon tbl, spell_check canon tbl = true -> spellings_canonical canon tbl.
Proof. exact spell_check_sound. Qed.
Print Assumptions C13_spelling_canonical.

(* the table check is not vacuous: the state of the tree before fix F3 (two accepted spellings of INT64 storing
   different scalar types) violates spelling canonicity *)
Theorem C13_spelling_alias_refuted :
  exists canon tbl,
    (forall r, In r tbl -> exists st c, sp_result r = Accepted st c /\ sp_onnx r = Some c) /\
    ~ spellings_canonical canon tbl.
Proof. exact spelling_alias_refuted. Qed.
Print Assumptions C13_spelling_alias_refuted.

(* ------------------------------------------------------------------ compatibility *)

(* The judgement holds exactly when a common populated runtime value exists. Domain: the left operand is an ONNX type
   (no Type() inside), constant dimensions are naturals. *)
Theorem C13_subtype_exact :
  forall a b, proper a = true -> wf_ty a = true -> wf_ty b = true ->
  (subtype a b = true <-> exists v, populated v /\ conforms v a /\ conforms v b).
Proof. exact subtype_exact. Qed.
Print Assumptions C13_subtype_exact.

(* the two halves with their minimal hypotheses *)
Theorem C13_subtype_sound :
  forall a b, wf_ty a = true -> wf_ty b = true -> subtype a b = true -> exists v, populated v /\ conforms v a /\ conforms v b.
Proof. exact subtype_sound. Qed.
Print Assumptions C13_subtype_sound.
Theorem C13_subtype_complete :
  forall a b, proper a = true -> (exists v, populated v /\ conforms v a /\ conforms v b) -> subtype a b = true.
Proof. exact subtype_complete. Qed.
Print Assumptions C13_subtype_complete.

(* structural reading: same constructor and element type; a rank unknown, or equal ranks and each axis equal or unknown *)
Theorem C13_subtype_structural : forall a b, subtype a b = true <-> compat a b.
Proof. exact subtype_compat. Qed.
Print Assumptions C13_subtype_structural.
Theorem C13_shape_le_structural :
  forall a b, shape_le a b = true <->
  (a = None \/ b = None \/
   exists x y, a = Some x /\ b = Some y /\ Forall2 (fun p q => p = q \/ is_const p = false \/ is_const q = false) x y).
Proof. exact shape_le_char. Qed.
Print Assumptions C13_shape_le_structural.

(* reflexive; symmetric on ONNX types; Type() is accepted on the right only; not transitive *)
Theorem C13_subtype_refl : forall a, subtype a a = true.
Proof. exact subtype_refl. Qed.
Print Assumptions C13_subtype_refl.
Theorem C13_subtype_sym : forall a b, proper a = true -> proper b = true -> subtype a b = subtype b a.
Proof. exact subtype_sym. Qed.
Print Assumptions C13_subtype_sym.
Theorem C13_subtype_top : forall a, subtype a TTop = true.
Proof. exact subtype_top. Qed.
Print Assumptions C13_subtype_top.
Theorem C13_subtype_not_transitive :
  exists a b c, proper a = true /\ proper b = true /\ proper c = true /\
                subtype a b = true /\ subtype b c = true /\ subtype a c = false.
Proof. exact subtype_not_transitive. Qed.
Print Assumptions C13_subtype_not_transitive.

(* dimension labels never matter for compatibility (spox.inline strips them from the model's types before the check) *)
Theorem C13_subtype_ignores_labels :
  forall a b, subtype a (strip_ty b) = subtype a b /\ subtype (strip_ty a) b = subtype a b.
Proof. exact subtype_strip. Qed.
Print Assumptions C13_subtype_ignores_labels.

(* outside the domain the exactness statement is false of the code: witnesses *)
Theorem C13_subtype_exact_top_left_refuted :
  exists a b, wf_ty a = true /\ wf_ty b = true /\ subtype a b = false /\
              exists v, populated v /\ conforms v a /\ conforms v b.
Proof. exact subtype_top_left_refuted. Qed.
Print Assumptions C13_subtype_exact_top_left_refuted.
Theorem C13_subtype_exact_negative_dim_refuted :
  exists a b, proper a = true /\ proper b = true /\ subtype a b = true /\
              ~ exists v, populated v /\ conforms v a /\ conforms v b.
Proof. exact subtype_negative_dim_refuted. Qed.
Print Assumptions C13_subtype_exact_negative_dim_refuted.
(* ... and a repeated label is not read as "equal sizes" (Tensor docstring: "not very strictly enforced") *)
Theorem C13_subtype_repeated_label_refuted :
  exists s s', shape_le (Some s) (Some s') = true /\ wf_shape (Some s) = true /\ wf_shape (Some s') = true /\
               ~ exists sh, conf_strict_2 sh s /\ conf_strict_2 sh s'.
Proof. exact subtype_repeated_label_refuted. Qed.
Print Assumptions C13_subtype_repeated_label_refuted.

(* ------------------------------------------------------------------ broadcasting *)

(* All dimensions constant: the static result is numpy's broadcast shape, result or failure. *)
Theorem C13_broadcast_exact :
  forall sa sb, broadcast (Some (cshape sa)) (Some (cshape sb)) = bres_of (np_broadcast sa sb).
Proof. exact broadcast_exact. Qed.
Print Assumptions C13_broadcast_exact.
Theorem C13_broadcast_exact_all_const :
  forall x y, all_const x = true -> all_const y = true ->
  exists sa sb, x = cshape sa /\ y = cshape sb /\ broadcast (Some x) (Some y) = bres_of (np_broadcast sa sb).
Proof. exact broadcast_exact_all_const. Qed.
Print Assumptions C13_broadcast_exact_all_const.

(* Soundness: whatever is claimed (rank and every constant dimension of the result) holds for the numpy broadcast of any
   conforming runtime shapes. *)
Theorem C13_broadcast_sound :
  forall a b r, broadcast a b = BShape (Some r) ->
  forall sa sb sc, conf_shape sa a -> conf_shape sb b -> np_broadcast sa sb = Some sc -> conf_shape sc (Some r).
Proof. exact broadcast_sound. Qed.
Print Assumptions C13_broadcast_sound.

(* It raises only when no conforming runtime shapes could broadcast. *)
Theorem C13_broadcast_raises_only_if_impossible :
  forall a b, broadcast a b = BRaise ->
  forall sa sb, conf_shape sa a -> conf_shape sb b -> np_broadcast sa sb = None.
Proof. exact broadcast_complete. Qed.
Print Assumptions C13_broadcast_raises_only_if_impossible.

(* ... and conversely a static result is never vacuous: if it does not raise, conforming runtime shapes that broadcast
   exist; so (ranks known, constants naturals) ShapeError is raised EXACTLY when no conforming values could broadcast. *)
Theorem C13_broadcast_accepts_only_if_possible :
  forall x y r, forallb wf_dim x = true -> forallb wf_dim y = true -> broadcast (Some x) (Some y) = BShape (Some r) ->
  exists sa sb sc, Forall2 conf sa x /\ Forall2 conf sb y /\ np_broadcast sa sb = Some sc.
Proof. exact broadcast_accepts_only_if_possible. Qed.
Print Assumptions C13_broadcast_accepts_only_if_possible.
Theorem C13_broadcast_raises_iff_impossible :
  forall x y, forallb wf_dim x = true -> forallb wf_dim y = true ->
  (broadcast (Some x) (Some y) = BRaise <->
   forall sa sb, Forall2 conf sa x -> Forall2 conf sb y -> np_broadcast sa sb = None).
Proof. exact broadcast_raises_iff_impossible. Qed.
Print Assumptions C13_broadcast_raises_iff_impossible.

(* An unknown-rank result is returned exactly when an operand has unknown rank; otherwise the rank is the larger one. *)
Theorem C13_broadcast_unknown_rank : forall a b, broadcast a b = BShape None <-> (a = None \/ b = None).
Proof. exact broadcast_unknown_rank. Qed.
Print Assumptions C13_broadcast_unknown_rank.
Theorem C13_broadcast_rank :
  forall x y r, broadcast (Some x) (Some y) = BShape (Some r) -> List.length r = Nat.max (List.length x) (List.length y).
Proof. exact broadcast_rank. Qed.
Print Assumptions C13_broadcast_rank.
Theorem C13_broadcast_comm : forall a b, broadcast a b = broadcast b a.
Proof. exact broadcast_comm. Qed.
Print Assumptions C13_broadcast_comm.

(* hypotheses are satisfiable on non-trivial inputs *)
Example C13_example_subtype :
  let a := TSeq (TTensor 1 (Some [DC 2; DN "N"%string; DA])) in
  let b := TSeq (TTensor 1 (Some [DA; DC 3; DN "M"%string])) in
  proper a = true /\ wf_ty a = true /\ wf_ty b = true /\ subtype a b = true /\
  witness a b = VSeq [VTensor 1 [2; 3; 1]%N].
Proof. exact subtype_exact_hyps_satisfiable. Qed.
Print Assumptions C13_example_subtype.
Example C13_example_broadcast :
  broadcast (Some [DC 3; DC 1; DN "N"%string]) (Some [DC 4; DA]) = BShape (Some [DC 3; DC 4; DA]) /\
  conf_shape [3; 1; 5]%N (Some [DC 3; DC 1; DN "N"%string]) /\ conf_shape [4; 5]%N (Some [DC 4; DA]) /\
  np_broadcast [3; 1; 5]%N [4; 5]%N = Some [3; 4; 5]%N /\
  broadcast (Some [DC 2; DA]) (Some [DC 3; DC 1]) = BRaise.
Proof. exact broadcast_example. Qed.
Print Assumptions C13_example_broadcast.
