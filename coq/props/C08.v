(* C08 — inline(m) denotes exactly the function of m, for any valid m.  Property theorems only. *)
From Coq Require Import List String Bool Arith.
From Spox Require Import Base IR Show Build Sem Plan Validate BuildFacts Inline InlineFacts CompilePres ScopeFacts InlineDefs InlineInj InlineSeq.
Import ListNotations.

(* Call boundary: positional arguments bind in input order, keywords by name, omitted inputs take the default of that name. *)
Theorem C08_bind_spec :
  forall (A : Type) in_names defaults (args : list A) kw slots,
  bind_args A in_names defaults args kw = inl slots ->
  List.length args <= List.length in_names /\ List.length slots = List.length in_names /\
  (forall k, In k (map fst kw) -> In k in_names) /\
  (forall i n, nth_error in_names i = Some n ->
     nth_error slots i = Some (match lookup String.eqb n (kw ++ zip_pos A in_names args) with Some a => Given a | None => Default n end) /\
     (lookup String.eqb n (kw ++ zip_pos A in_names args) = None -> In n defaults)).
Proof. exact bind_ok_spec. Qed.
Print Assumptions C08_bind_spec.

(* Missing, duplicated, unknown and surplus arguments raise TypeError. *)
Theorem C08_duplicate_typeerror :
  forall (A : Type) in_names defaults (args : list A) kw,
  (exists n, In n (map fst (zip_pos A in_names args)) /\ In n (map fst kw)) -> bind_args A in_names defaults args kw = inr EType.
Proof. exact bind_duplicate_typeerror. Qed.
Print Assumptions C08_duplicate_typeerror.
Theorem C08_missing_typeerror :
  forall (A : Type) in_names defaults (args : list A) kw n,
  In n in_names -> ~ In n (map fst kw) -> ~ In n (map fst (zip_pos A in_names args)) -> ~ In n defaults ->
  exists e, bind_args A in_names defaults args kw = inr e /\ e = EType.
Proof. exact bind_missing_typeerror. Qed.
Print Assumptions C08_missing_typeerror.
Theorem C08_unknown_keyword_rejected :
  forall (A : Type) in_names defaults (args : list A) kw k,
  In k (map fst kw) -> ~ In k in_names -> exists e, bind_args A in_names defaults args kw = inr e.
Proof. exact bind_unknown_typeerror. Qed.
Print Assumptions C08_unknown_keyword_rejected.
Theorem C08_surplus_positional_typeerror :
  forall (A : Type) in_names defaults (args : list A) kw,
  List.length in_names < List.length args -> bind_args A in_names defaults args kw = inr EType.
Proof. exact bind_surplus_typeerror. Qed.
Print Assumptions C08_surplus_positional_typeerror.
(* ... which the pinned tree's binding does not do (zip truncation): witness one input, three positionals *)
Theorem C08_surplus_positional_orig_refuted :
  exists in_names (args : list nat) slots, List.length in_names < List.length args /\ bind_args_orig nat in_names [] args [] = inl slots.
Proof. exact bind_orig_surplus_refuted. Qed.
Print Assumptions C08_surplus_positional_orig_refuted.

(* Arguments whose type cannot match the declared input type raise TypeError; returned Vars carry the declared output types. *)
Theorem C08_bad_type_typeerror :
  forall (ty : Type) (subtype : ty -> ty -> bool) declared given i d t,
  nth_error declared i = Some d -> nth_error given i = Some (Some t) -> subtype t d = false ->
  check_inputs ty subtype declared given = inr EType.
Proof. exact bad_type_typeerror. Qed.
Print Assumptions C08_bad_type_typeerror.
Theorem C08_output_types_declared :
  forall (ty : Type) (subtype : ty -> ty -> bool) din given dout tys,
  infer_output_types ty subtype din given dout = inl tys -> tys = dout.
Proof. exact output_types_declared. Qed.
Print Assumptions C08_output_types_declared.

(* Emission: every inlined block in the returned model is its Inline node's foreign graph under a renaming that is a function
   (one emitted name per original name, inputs ↦ operand names, outputs ↦ result names, "" ↦ "") and injective on the names
   internal to the block; together with C02_value_names_globally_unique the internal names are disjoint from every other name in
   the model, however often and wherever (bodies, functions) the model is inlined. *)
Theorem C08_inline_blocks_alpha :
  forall p r m inputs outputs, build_checked p r = inl m ->
  all_vars (r_inputs r) = Some inputs -> all_vars (r_outputs r) = Some outputs ->
  let p' := final_prog p r inputs outputs in
  forall u i o b,
  In (u, i, o, b) (inlines_graph (mmain m) ++ flat_map (fun f => flat_map inlines_node (f_body f)) (mfunctions m))%list ->
  exists n om imps, u = NReal n /\ kind (getn p' n) = KInline om imps /\ alpha_ok om i o b = true.
Proof. intros p r m i o H Hi Ho p' u ii oo b Hb. apply build_checked_inv in H. destruct H as [_ Hv].
  exact (inline_blocks_checked p r m i o Hi Ho Hv u ii oo b Hb). Qed.
Print Assumptions C08_inline_blocks_alpha.
Theorem C08_renaming_functional_injective :
  forall ps, (pair_functional ps = true -> forall a b, In a ps -> In b ps -> fst a = fst b -> snd a = snd b) /\
             (pair_injective ps = true -> forall a b, In a ps -> In b ps -> snd a = snd b -> snd a <> ""%string -> fst a = fst b).
Proof. intros ps. split; [apply pair_functional_sound|apply pair_injective_sound]. Qed.
Print Assumptions C08_renaming_functional_injective.

(* The renaming of an inlined model, by construction (no validator): (1) every name defined in the emitted block comes from a
   definition of the inlined model through the relation Rn of the final renaming state, (2) Rn is a function of the inner name, and
   (3) it is injective: two inner names renamed to one non-empty outer name are the same name, or both are inputs of the inlined
   model which the caller bound to one outer value.  I.e. the block is the inlined model up to a consistent renaming. *)
Theorem C08_block_definitions_come_from_the_model :
  forall nm u operands gi go_ s2 body vi ri sri rb srb ro sro rvi srvi,
  mapS (rename_val nm u operands gi go_) (s2, [], []) gi = inl (ri, sri) ->
  (fix go (st : rstate) (l : list onode) {struct l} : res (list mraw * rstate) :=
     match l with
     | [] => ret ([], st)
     | n :: t => do rn <- rename_onode nm u operands gi go_ st n ;; do rt <- go (snd rn) t ;; ret (fst rn :: fst rt, snd rt)
     end) sri body = inl (rb, srb) ->
  mapS (rename_val nm u operands gi go_) srb go_ = inl (ro, sro) ->
  mapS (rename_val nm u operands gi go_) sro vi = inl (rvi, srvi) ->
  InvVt srvi /\ vname (fst (fst srvi)) = vname s2 /\
  Cov u operands gi go_ srvi (flat_map odefs_node body) (flat_map defs_raw rb).
Proof. exact inline_block_state_ok. Qed.
Print Assumptions C08_block_definitions_come_from_the_model.

Theorem C08_renaming_is_a_function :
  forall u operands in_names out_names st d r r',
  Rn u operands in_names out_names st d r -> Rn u operands in_names out_names st d r' -> r = r'.
Proof. exact Rn_functional. Qed.
Print Assumptions C08_renaming_is_a_function.

Theorem C08_renaming_is_injective :
  forall u operands in_names out_names st d d' r,
  ScopeInv (fst (fst st)) -> InvVt st ->
  (forall i v k, nth i operands None = Some v -> v <> V u k) ->
  Rn u operands in_names out_names st d r -> Rn u operands in_names out_names st d' r -> r <> ""%string ->
  d = d' \/ (index_last d in_names 0 None <> None /\ index_last d' in_names 0 None <> None).
Proof. exact Rn_injective. Qed.
Print Assumptions C08_renaming_is_injective.

(* ... and in ORDER: the definitions of the emitted block are the renaming (relation Rn of the final state) of a subsequence of the
   definitions of the inlined model, position by position - omitted ("") outputs are the only ones dropped; together with injectivity
   an inlined model that defines every name once yields a block that defines every non-empty name once (InlineSeq.Seq_NoDup). *)
Theorem C08_block_definitions_are_the_renamed_definitions_in_order :
  forall nm u operands gi go_ R0 body st rb st',
  (fix go (st : rstate) (l : list onode) {struct l} : res (list mraw * rstate) :=
     match l with
     | [] => ret ([], st)
     | n :: t => do rn <- rename_onode nm u operands gi go_ st n ;; do rt <- go (snd rn) t ;; ret (fst rn :: fst rt, snd rt)
     end) st body = inl (rb, st') -> InvV R0 st ->
  St_le st st' /\ InvV R0 st' /\ Seq u operands gi go_ st' (flat_map odefs_node body) (flat_map defs_raw rb).
Proof. exact body_loop_seq. Qed.
Print Assumptions C08_block_definitions_are_the_renamed_definitions_in_order.

Theorem C08_one_definition_per_name_is_preserved :
  forall u operands gi go_ st i r, Seq u operands gi go_ st i r -> NoDup i ->
  (forall d d' x, In d i -> In d' i -> Rn u operands gi go_ st d x -> Rn u operands gi go_ st d' x -> x <> ""%string -> d = d') ->
  NoDup (nonempty r).
Proof. exact Seq_NoDup. Qed.
Print Assumptions C08_one_definition_per_name_is_preserved.
