(* C02 — build never hands back an invalid ONNX model.  Property theorems only (proofs in BuildFacts.v).
   [build_checked] is the model of spox.build (coq/Build.v build_public) followed by the model's own validators;
   the per-run correspondence shows that the real build returns exactly [build_checked]'s model (names included). *)
From Coq Require Import List String NArith Arith Bool.
From Spox Require Import Base IR Show Build Validate BuildFacts ScopeFacts EmitFacts SsaFacts GlobalFacts InlineDefs GlobalInline.
Import ListNotations.

(* A model is returned only after the final structural check (per-graph SSA without shadowing, definition before use
   through enclosing graphs, outputs defined) accepted it; in every other case the result is an exception value. *)
Theorem C02_never_invalid :
  forall p r m, build_checked p r = inl m -> struct_check (mmain m) = true.
Proof. intros p r m H. apply build_checked_inv in H. destruct H as [H _]. exact (build_public_checked p r m H). Qed.
Print Assumptions C02_never_invalid.

(* Every value name is defined exactly once in the whole model, all nested subgraphs and inlined blocks included. *)
Theorem C02_value_names_globally_unique :
  forall p r m, build_checked p r = inl m -> NoDup (defs_graph (mmain m)).
Proof. intros p r m H. apply build_checked_inv in H. destruct H as [Hb Hv].
  assert (exists i o, all_vars (r_inputs r) = Some i /\ all_vars (r_outputs r) = Some o) as (i & o & Hi & Ho).
  { unfold validators in Hv. destruct (all_vars (r_inputs r)), (all_vars (r_outputs r)); try discriminate; eauto. }
  exact (value_names_globally_unique p r m i o Hi Ho Hv). Qed.
Print Assumptions C02_value_names_globally_unique.

(* Every non-empty node name occurs once. *)
Theorem C02_node_names_unique :
  forall p r m, build_checked p r = inl m -> NoDup (nonempty (names_graph (mmain m))).
Proof. intros p r m H. apply build_checked_inv in H. destruct H as [Hb Hv].
  assert (exists i o, all_vars (r_inputs r) = Some i /\ all_vars (r_outputs r) = Some o) as (i & o & Hi & Ho).
  { unfold validators in Hv. destruct (all_vars (r_inputs r)), (all_vars (r_outputs r)); try discriminate; eauto. }
  exact (node_names_unique p r m i o Hi Ho Hv). Qed.
Print Assumptions C02_node_names_unique.

(* One opset import per domain. *)
Theorem C02_one_import_per_domain :
  forall p r m, build_checked p r = inl m -> NoDup (map fst (mimports m)).
Proof. intros p r m H. apply build_checked_inv in H. destruct H as [Hb Hv].
  assert (exists i o, all_vars (r_inputs r) = Some i /\ all_vars (r_outputs r) = Some o) as (i & o & Hi & Ho).
  { unfold validators in Hv. destruct (all_vars (r_inputs r)), (all_vars (r_outputs r)); try discriminate; eauto. }
  exact (one_import_per_domain p r m i o Hi Ho Hv). Qed.
Print Assumptions C02_one_import_per_domain.

(* Algorithmic (validator-free) layer: the Builder's naming tables are injective by construction and the names reserved
   for the contents of inlined models never collide with a Var name — for every successful Builder run (main graph or
   function body), of any size and nesting depth. *)
Theorem C02_scope_tables_injective :
  forall ffuel p un main b, build_main ffuel p un main = inl b -> ScopeInv (b_scope b).
Proof. exact build_main_scope_inv. Qed.
Print Assumptions C02_scope_tables_injective.

Theorem C02_distinct_vars_distinct_names :
  forall ffuel p un main b v w n,
    build_main ffuel p un main = inl b -> vlook (b_scope b) v = inl n -> vlook (b_scope b) w = inl n -> v = w.
Proof. exact distinct_vars_distinct_names. Qed.
Print Assumptions C02_distinct_vars_distinct_names.

Theorem C02_distinct_nodes_distinct_names :
  forall ffuel p un main b v w n,
    build_main ffuel p un main = inl b -> nlook (b_scope b) v = inl n -> nlook (b_scope b) w = inl n -> v = w.
Proof. exact distinct_nodes_distinct_names. Qed.
Print Assumptions C02_distinct_nodes_distinct_names.

Theorem C02_reserved_names_never_name_a_var :
  forall ffuel p un main b v n,
    build_main ffuel p un main = inl b -> vlook (b_scope b) v = inl n -> ~ In n (reserved (b_scope b)).
Proof. exact reserved_names_never_name_a_var. Qed.
Print Assumptions C02_reserved_names_never_name_a_var.

(* Top-level SSA by construction (no validator): in the GraphProto compiled for any scope - any fuel, nesting, operator mix - no
   output name of a top-level node occurs twice, because the names are the table entries of distinct Vars.  (Internals of inlined
   blocks and nesting across graphs: C02_value_names_globally_unique, by validator.) *)
Theorem C02_top_level_ssa_by_construction :
  forall p un args_of own_of fbuild fuel s g prefix vi ai ms ro s' rq fs,
    compile p un args_of own_of fbuild fuel s g prefix vi = inl (MGraph ai ms ro, s', rq, fs) -> ScopeInv s -> NoDup (own_of g) ->
    NoDup (tops ms).
Proof. exact compile_top_ssa. Qed.
Print Assumptions C02_top_level_ssa_by_construction.

Theorem C02_build_main_top_level_ssa :
  forall vi ffuel p un main b, build_main_gen vi ffuel p un main = inl b -> NoDup (topo_of p main) ->
  match b_graph b with MGraph _ ms _ => NoDup (tops ms) end.
Proof. exact build_main_top_ssa. Qed.
Print Assumptions C02_build_main_top_level_ssa.

(* The whole model, by construction (no validator), for programs without inlined models: every value name - graph inputs and node
   outputs of the main graph and of every nested graph at any depth - is defined exactly once.  Premise (decidable, evaluated on every
   program of the check): no source node occurs twice in the unfolding of the ownership map (spec_all). *)
Theorem C02_value_names_unique_in_the_whole_model_by_construction :
  forall vi ffuel p un main b,
    build_main_gen vi ffuel p un main = inl b -> global_premises_b p main = true -> NoDup (defs_graph (b_graph b)).
Proof. exact build_main_global. Qed.
Print Assumptions C02_value_names_unique_in_the_whole_model_by_construction.

Theorem C02_public_build_value_names_unique_by_construction :
  forall p r m inputs outputs,
    build_public p r = inl m -> all_vars (r_inputs r) = Some inputs -> all_vars (r_outputs r) = Some outputs ->
    exists args, (r_drop r = false -> args = map snd inputs) /\ (forall a, In a args -> In a (map snd inputs)) /\
      (global_premises_b (with_main p (Some args) outputs) 0 = true -> NoDup (defs_graph (mmain m))).
Proof. exact build_public_global. Qed.
Print Assumptions C02_public_build_value_names_unique_by_construction.

(* Inlined blocks, by construction (no validator): every name defined inside the block emitted for an Inline node is "" (an omitted
   optional output), a name RESERVED for the block, or the table entry of an output Var of the Inline node itself; reserved names stay
   reserved and never name a Var - so internals of inlined models cannot collide with any graph input or node output around them.
   Premise: the inlined model does not define a value under the name of one of its own inputs (every valid ONNX model). *)
Theorem C02_inline_internals_are_reserved_or_own_outputs :
  forall p un fbuild rec prefix ms s rq fs sfs n acc' gi gin body go_ vi imp,
  compile_step p un fbuild rec prefix (ms, s, rq, fs, sfs) (NReal n) = inl acc' ->
  is_arg p (NReal n) = false -> kind (getn p n) = KInline (OGraph gi gin body go_ vi) imp -> inner_defs_ok gi body ->
  let '(ms', s', _, _, _) := acc' in
  exists nm inn outn b, ms' = ms ++ [MInline nm (NReal n) inn outn b] /\
    forall x, In x (flat_map defs_raw b) ->
      x = ""%string \/ In x (reserved s') \/ exists k, lookup var_eqb (V (NReal n) k) (vname s') = Some x.
Proof. exact inline_step_defs. Qed.
Print Assumptions C02_inline_internals_are_reserved_or_own_outputs.

Theorem C02_reserved_names_persist_and_name_no_var :
  (forall p un args_of own_of fbuild x fuel s g prefix vi mg s' rq fs,
     compile p un args_of own_of fbuild fuel s g prefix vi = inl (mg, s', rq, fs) -> In x (reserved s) -> In x (reserved s')) /\
  (forall s x v, ScopeInv s -> In x (reserved s) -> lookup var_eqb v (vname s) <> Some x).
Proof. split; [exact compile_reserved_persist|exact reserved_is_no_var_name]. Qed.
Print Assumptions C02_reserved_names_persist_and_name_no_var.

(* The whole model INCLUDING inlined blocks, by construction (no validator): every non-empty value name - graph inputs, node outputs and
   the internal names of every inlined block, in the main graph and in every nested graph - is defined exactly once.  Premises
   (decidable, evaluated on every program of the check): no source node occurs twice in the unfolding of the ownership map, and every
   inlined model defines each of its names once, none of them under the name of one of its inputs, and is not applied to its own outputs.
   The premise on the inlined model cannot be dropped: the pinned code keeps a duplication the inlined model already has (known finding F33). *)
Theorem C02_value_names_unique_in_the_whole_model_with_inlined_blocks_by_construction :
  forall vi ffuel p un main b,
    build_main_gen vi ffuel p un main = inl b -> global_premises2_b p main = true -> NoDup (nonempty (defs_graph (b_graph b))).
Proof. exact build_main_global2. Qed.
Print Assumptions C02_value_names_unique_in_the_whole_model_with_inlined_blocks_by_construction.

Theorem C02_public_build_value_names_unique_with_inlined_blocks_by_construction :
  forall p r m inputs outputs,
    build_public p r = inl m -> all_vars (r_inputs r) = Some inputs -> all_vars (r_outputs r) = Some outputs ->
    exists args, (r_drop r = false -> args = map snd inputs) /\ (forall a, In a args -> In a (map snd inputs)) /\
      (global_premises2_b (with_main p (Some args) outputs) 0 = true -> NoDup (nonempty (defs_graph (mmain m)))).
Proof. exact build_public_global2. Qed.
Print Assumptions C02_public_build_value_names_unique_with_inlined_blocks_by_construction.

(* One inlined block: its non-empty definitions are pairwise distinct, each the table entry of an output Var of the Inline node or a name
   reserved while the block was emitted (not reserved before), and the naming tables stay injective. *)
Theorem C02_inlined_block_defines_each_name_once :
  forall p un fbuild rec prefix ms s rq fs sfs n acc' gi gin body go_ vi imp,
  compile_step p un fbuild rec prefix (ms, s, rq, fs, sfs) (NReal n) = inl acc' ->
  is_arg p (NReal n) = false -> kind (getn p n) = KInline (OGraph gi gin body go_ vi) imp -> ScopeInv s ->
  inline_ok n (ins (getn p n)) gi body ->
  let '(ms', s', _, _, _) := acc' in
  exists nm inn outn b, ms' = ms ++ [MInline nm (NReal n) inn outn b] /\
    ScopeInv s' /\ IOFacts.Ext s s' /\ Rsub s s' /\
    NoDup (nonempty (flat_map defs_raw b)) /\ WN s s' [NReal n] (nonempty (flat_map defs_raw b)).
Proof. exact inline_step_unique. Qed.
Print Assumptions C02_inlined_block_defines_each_name_once.
