(* C09 — one opset per domain; mixed-version programs build and keep their meaning.  Property theorems only. *)
From Coq Require Import List String NArith Arith Bool.
From Spox Require Import Base IR Show Build Sem Plan Validate BuildFacts Adapt AdaptFacts PolicyFacts ReqFacts CoverFacts.
Import ListNotations.

(* The opset imports are max_opset_policy of the collected requirements (own nodes, subgraphs, function bodies, inlined models,
   result identities) … *)
Theorem C09_imports_are_policy :
  forall b m, to_model b = inl m -> mimports m = max_opset_policy (b_req b).
Proof. intros b m H. apply to_model_struct in H. tauto. Qed.
Print Assumptions C09_imports_are_policy.

(* … which has exactly one entry per domain ('ai.onnx' folded into the default domain) … *)
Theorem C09_one_import_per_domain : forall r, NoDup (map fst (max_opset_policy r)).
Proof. exact policy_one_per_domain. Qed.
Print Assumptions C09_one_import_per_domain.

(* … whose version is the largest one required for that domain, and is required by something … *)
Theorem C09_import_is_max_required :
  forall r d v, lookup String.eqb d (max_opset_policy r) = Some v ->
  (forall dv, In dv r -> fold_domain (fst dv) = d -> snd dv <= v) /\ (exists dv, In dv r /\ fold_domain (fst dv) = d /\ snd dv = v).
Proof. exact policy_is_max. Qed.
Print Assumptions C09_import_is_max_required.

(* … and every required domain is imported at no less than each requirement. *)
Theorem C09_every_requirement_covered :
  forall r dv, In dv r -> exists v, lookup String.eqb (fold_domain (fst dv)) (max_opset_policy r) = Some v /\ snd dv <= v.
Proof. exact policy_covers. Qed.
Print Assumptions C09_every_requirement_covered.

(* The default domain is never imported below 14 in a returned model. *)
Theorem C09_default_domain_floor :
  forall p r m, build_checked p r = inl m -> exists v, lookup String.eqb ""%string (mimports m) = Some v /\ 14 <= v.
Proof. intros p r m H. apply build_checked_inv in H. destruct H as [_ Hv]. unfold validators in Hv.
  destruct (all_vars (r_inputs r)); [|discriminate]. destruct (all_vars (r_outputs r)); [|discriminate].
  repeat (apply andb_prop in Hv; destruct Hv as [Hv ?]).
  match goal with H : floor_ok m = true |- _ => unfold floor_ok in H; destruct (lookup String.eqb ""%string (mimports m)) as [v|]; [|discriminate];
    exists v; split; [reflexivity|now apply Nat.leb_le in H] end. Qed.
Print Assumptions C09_default_domain_floor.

(* The same by construction (no validator): a result identity can only be named by the loop step that also records its requirement
   ("", 14); the graph outputs need those names; the policy covers every recorded requirement.  Premise: the requested arguments of
   every graph are outputs of real nodes (true of every reflected program; evaluated on every program of the check). *)
Theorem C09_default_domain_floor_by_construction :
  forall p r m, wf_gargs p -> build_public p r = inl m ->
  exists v, lookup String.eqb ""%string (mimports m) = Some v /\ 14 <= v.
Proof. exact build_public_floor. Qed.
Print Assumptions C09_default_domain_floor_by_construction.

(* Which nodes are handed to the version converter: never a node of another domain, never a node already at the imported version. *)
Theorem C09_custom_domain_never_converted :
  forall p imports differs n, match n with MNode _ _ dom _ _ _ _ => fold_domain dom <> ""%string | _ => True end ->
  forall s t, adapt_decision p imports differs n <> Convert s t.
Proof. exact custom_domain_never_converted. Qed.
Print Assumptions C09_custom_domain_never_converted.
Theorem C09_same_version_never_converted :
  forall p imports differs nm op dom k i o al,
  version_of imports dom = Some (version (getn p k)) -> adapt_decision p imports differs (MNode nm op dom (NReal k) i o al) = Keep.
Proof. exact same_version_never_converted. Qed.
Print Assumptions C09_same_version_never_converted.

(* The imports COVER the model, by construction (no validator, no premise): for every node emitted anywhere in a returned model - main
   graph or a control-flow body at any depth; operator, function call, inlined model, result identity - and every (domain, version) that
   node requires, the model imports that domain (with "ai.onnx" folded into "") at a version that is at least the required one.  Together
   with C09_one_import_per_domain and C09_imported_version_is_the_maximum_required: each domain is imported once, at the highest version
   any node of the model needs.  [args] are the arguments of the built main graph. *)
Theorem C09_imports_cover_every_emitted_node_by_construction :
  forall p r m inputs outputs,
  build_public p r = inl m -> all_vars (r_inputs r) = Some inputs -> all_vars (r_outputs r) = Some outputs ->
  exists args, (r_drop r = false -> args = map snd inputs) /\ (forall a, In a args -> In a (map snd inputs)) /\
    forall u, In u (srcs_graph (mmain m)) -> forall dv, In dv (node_req (with_main p (Some args) outputs) u) ->
      exists v, lookup String.eqb (fold_domain (fst dv)) (mimports m) = Some v /\ snd dv <= v.
Proof. exact build_public_imports_cover. Qed.
Print Assumptions C09_imports_cover_every_emitted_node_by_construction.

(* The imports are a function of the SET of requirements: the order in which they are collected (traversal order, iteration order of a
   set, what was built before) and repeated requirements do not matter ... *)
Theorem C09_imports_depend_only_on_the_set_of_requirements :
  forall r r', (forall dv, In dv r <-> In dv r') ->
  forall d, lookup String.eqb d (max_opset_policy r) = lookup String.eqb d (max_opset_policy r').
Proof. exact policy_depends_on_requirement_set. Qed.
Print Assumptions C09_imports_depend_only_on_the_set_of_requirements.

(* ... the alias "ai.onnx" of the default domain never gets an import of its own, and a requirement stated under the alias counts for
   the default domain ... *)
Theorem C09_alias_never_imported : forall r, lookup String.eqb "ai.onnx"%string (max_opset_policy r) = None.
Proof. exact policy_never_imports_alias. Qed.
Print Assumptions C09_alias_never_imported.

Theorem C09_alias_requirement_counts_for_default_domain :
  forall r v w, In ("ai.onnx"%string, v) r -> lookup String.eqb ""%string (max_opset_policy r) = Some w -> v <= w.
Proof. exact policy_alias_counts_for_default. Qed.
Print Assumptions C09_alias_requirement_counts_for_default_domain.

(* ... and no domain is imported that nothing requires. *)
Theorem C09_only_required_domains_imported :
  forall r d, (forall dv, In dv r -> fold_domain (fst dv) <> d) -> lookup String.eqb d (max_opset_policy r) = None.
Proof. exact policy_imports_only_required_domains. Qed.
Print Assumptions C09_only_required_domains_imported.

(* More requirements never lower an import: merging the requirements of bodies, functions and inlined models into the owner's (on either
   side) keeps every import at or above what the owner alone needs. *)
Theorem C09_more_requirements_never_lower_an_import :
  forall (r extra : req) d v, lookup String.eqb d (max_opset_policy r) = Some v ->
  exists w, lookup String.eqb d (max_opset_policy (r ++ extra)%list) = Some w /\ v <= w /\
            lookup String.eqb d (max_opset_policy (extra ++ r)%list) = Some w.
Proof. exact policy_monotone. Qed.
Print Assumptions C09_more_requirements_never_lower_an_import.
