(* C16 — scoped settings are restored on every exit from their block.  Property theorems only. *)
From Coq Require Import List Arith Bool.
From Spox Require Import Settings SettingsFacts SettingsFacts2.
Import ListNotations.

(* Any sequence of with-blocks / decorated calls of the three settings, nested in any order, whose bodies complete,
   raise any exception (at any depth) or catch exceptions, leaves all three settings as they were — on normal and on
   exceptional exit. *)
Theorem C16_blocks_restore_all_settings :
  forall l, forallb scoped l = true -> forall s, cur (fst (run_seq exec s l)) = cur s.
Proof. exact prog_scoped_restores. Qed.
Print Assumptions C16_blocks_restore_all_settings.

(* Even when the body calls the non-scoped setters, the block's own setting is back in force after it. *)
Theorem C16_block_restores_own_setting :
  forall k v body s, get (cur (fst (exec s (Block k v body)))) k = get (cur s) k.
Proof. exact block_restores_own_setting. Qed.
Print Assumptions C16_block_restores_own_setting.

(* The setting is in force inside the block, and what the block does afterwards is to restore the previous value. *)
Theorem C16_inside_sees_setting :
  forall k v rest s, exists s1, exec (upd s k v) Obs = (s1, Normal) /\ hd (0,0,0) (log s1) = set (cur s) k v /\
  fst (exec s (Block k v (Obs :: rest))) = upd (fst (run_seq exec s1 rest)) k (get (cur s) k).
Proof. exact inside_sees_setting. Qed.
Print Assumptions C16_inside_sees_setting.

(* Exceptions are not swallowed or altered by a block. *)
Theorem C16_block_outcome :
  forall k v body s, snd (exec s (Block k v body)) = snd (run_seq exec (upd s k v) body).
Proof. exact block_outcome. Qed.
Print Assumptions C16_block_outcome.

(* Managers written as plain generators (no try/finally) violate the property: witness. *)
Theorem C16_nofinally_refuted :
  exists p s, scoped p = true /\ cur (fst (exec_nofinally s (Try [p]))) <> cur s.
Proof. exact nofinally_refuted. Qed.
Print Assumptions C16_nofinally_refuted.

(* Frame: a block touches no setting but its own - every other setting is exactly what the body left. *)
Theorem C16_block_leaves_other_settings_alone :
  forall k v body s j, distinct_setting k j ->
  get (cur (fst (exec s (Block k v body)))) j = get (cur (fst (run_seq exec (upd s k v) body))) j.
Proof. exact block_frame. Qed.
Print Assumptions C16_block_leaves_other_settings_alone.

(* Inside a block, after ANY completed prefix of scoped statements (nested blocks of the same or other settings,
   caught exceptions), the settings in force are again exactly the block's: inner blocks restore the OUTER value. *)
Theorem C16_setting_in_force_after_any_scoped_prefix :
  forall k v l s, forallb scoped l = true -> snd (run_seq exec (upd s k v) l) = Normal ->
  exists s1, run_seq exec (upd s k v) (l ++ [Obs]) = (s1, Normal) /\ hd (0,0,0) (log s1) = set (cur s) k v.
Proof. exact obs_in_block_after_scoped_prefix. Qed.
Print Assumptions C16_setting_in_force_after_any_scoped_prefix.

(* Why tests without exceptions cannot settle the property: on every program in which nothing raises, managers
   WITHOUT try/finally give exactly the same final settings, outcome and observations as the protected ones. *)
Theorem C16_exception_free_programs_cannot_tell :
  forall l, forallb noraise l = true ->
  forall s0, run_prog_nofinally s0 l = run_prog s0 l /\ snd (fst (run_prog s0 l)) = Normal.
Proof. exact noraise_programs_cannot_tell. Qed.
Print Assumptions C16_exception_free_programs_cannot_tell.

(* ... and with one they restore nothing: the unprotected block ends in the state in which its body raised. *)
Theorem C16_nofinally_block_skips_restore :
  forall k v body s e, snd (run_seq exec_nofinally (upd s k v) body) = Raised e ->
  exec_nofinally s (Block k v body) = run_seq exec_nofinally (upd s k v) body.
Proof. exact nofinally_block_skips_restore. Qed.
Print Assumptions C16_nofinally_block_skips_restore.

(* Nested blocks of the SAME setting: inside the inner block the inner value is in force, after it the OUTER block's value is back
   (the log is newest first: the second observation sees v again, the first saw w). *)
Theorem C16_innermost_wins_and_outer_value_returns :
  forall k v w s, exists s2, run_seq exec (upd s k v) [Block k w [Obs]; Obs] = (s2, Normal) /\
    log s2 = [set (cur s) k v; set (cur s) k w] ++ log s /\ cur s2 = set (cur s) k v.
Proof. exact innermost_wins_and_outer_returns. Qed.
Print Assumptions C16_innermost_wins_and_outer_value_returns.
