(* C16 — scoped settings are restored on every exit from their block.  Property theorems only. *)
From Coq Require Import List Arith Bool.
From Spox Require Import Settings SettingsFacts.
Import ListNotations.

(* Any sequence of with-blocks / decorated calls of the three settings, nested in any order, whose bodies complete,
   raise any exception (at any depth) or catch exceptions, leaves all three settings as they were — on normal and on
   exceptional exit. *)
Theorem C16_blocks_restore_all_settings :
  forall l, forallb scoped l = true -> forall s, cur (fst (run_seq exec s l)) = cur s.
Proof. exact prog_scoped_restores. Qed.
Print Assumptions C16_blocks_restore_all_settings.

(* Even when the body calls the non-scoped setters, the block's own setting is back in force after it. *)
Theorem C16_block_restores_own_setting :
  forall k v body s, get (cur (fst (exec s (Block k v body)))) k = get (cur s) k.
Proof. exact block_restores_own_setting. Qed.
Print Assumptions C16_block_restores_own_setting.

(* The setting is in force inside the block, and what the block does afterwards is to restore the previous value. *)
Theorem C16_inside_sees_setting :
  forall k v rest s, exists s1, exec (upd s k v) Obs = (s1, Normal) /\ hd (0,0,0) (log s1) = set (cur s) k v /\
  fst (exec s (Block k v (Obs :: rest))) = upd (fst (run_seq exec s1 rest)) k (get (cur s) k).
Proof. exact inside_sees_setting. Qed.
Print Assumptions C16_inside_sees_setting.

(* Exceptions are not swallowed or altered by a block. *)
Theorem C16_block_outcome :
  forall k v body s, snd (exec s (Block k v body)) = snd (run_seq exec (upd s k v) body).
Proof. exact block_outcome. Qed.
Print Assumptions C16_block_outcome.

(* Managers written as plain generators (no try/finally) violate the property: witness. *)
Theorem C16_nofinally_refuted :
  exists p s, scoped p = true /\ cur (fst (exec_nofinally s (Try [p]))) <> cur s.
Proof. exact nofinally_refuted. Qed.
Print Assumptions C16_nofinally_refuted.
