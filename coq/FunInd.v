(* FunInd.v — induction principle over the nesting of function builds: a predicate [Qb p body nodes] that holds of every body built by
   build_main_gen (for any value-info mode, fuel and names) holds of every function description a build collects, at any depth
   (functions called from the main graph, from control-flow bodies, from other functions).  Generic version of FunCoverFacts. *)
From Coq Require Import List String NArith Arith Bool Lia.
From Spox Require Import Base IR Show Build Sem Plan Named Validate BuildFacts CompilePres ScopeFacts AdaptFacts ReqFacts CoverFacts FuncFacts.
Import ListNotations.
Open Scope list_scope.

Section FunInd.
Variable Qb : prog -> nat -> list mnode -> Prop.
Definition Q (p : prog) (f : fdesc) : Prop := Qb p (fd_bodyid f) (fd_body f).
Hypothesis HQ : forall vi ff p un body b, build_main_gen vi ff p un body = inl b -> Qb p body (body_nodes (b_graph b)).



Section FunIndS.
Variables (p : prog) (un : names) (args_of : nat -> list var) (own_of : nat -> list nref)
          (fbuild : nat -> nat -> res (list mnode * req * list fdesc)).
Hypothesis Hfb : forall n body bn brq bfs, fbuild n body = inl (bn, brq, bfs) -> Qb p body bn /\ Forall (Q p) bfs.

Definition accQ (acc : list mnode * scope * req * list fdesc * list fdesc) : Prop :=
  let '(ms, s, rq, fs, sfs) := acc in Forall (Q p) fs /\ Forall (Q p) sfs.

Section Step.
Variable rec : scope -> nat -> String.string -> option bool -> res (mgraph * scope * req * list fdesc).
Hypothesis Hrec : forall s g pre vi mg s' rq fs, rec s g pre vi = inl (mg, s', rq, fs) -> Forall (Q p) fs.

Lemma attr_fold_Q nm : forall l a0 al sz rqz fz,
  foldM (fun (acc : list (String.string * option mgraph) * scope * req * list fdesc) (ka : String.string * attrv) =>
           let '(l, s, rq, fs) := acc in
           match snd ka with
           | AVal _ => ret ((l ++ [(fst ka, None)])%list, s, rq, fs)
           | AGraph sub =>
             do r <- rec s sub (nm ++ "_" ++ fst ka ++ "__")%string (Some false) ;;
             let '(mg, s', rq', fs') := r in
             ret ((l ++ [(fst ka, Some mg)])%list, s', union req_eqb rq rq', (fs ++ fs')%list)
           end) l a0 = inl (al, sz, rqz, fz) ->
  Forall (Q p) (snd a0) -> Forall (Q p) fz.
Proof. induction l as [|ka t IH]; intros [[[l0 sa] rqa] fsa] al sz rqz fz H Hc; cbn [foldM] in H; cbn [snd] in Hc.
  - inversion H; subst. exact Hc.
  - apply bind_ok in H. destruct H as [[[[l1 s1] rq1] fs1] [Hk H]]. eapply IH; [exact H|]. cbn [snd].
    destruct (snd ka) as [sub|x]; [|inversion Hk; subst; exact Hc].
    apply bind_ok in Hk. destruct Hk as [[[[mg0 sb] rqb] fsb] [Hcm Hk]]. inversion Hk; subst.
    apply Forall_app. split; [exact Hc|exact (Hrec _ _ _ _ _ _ _ _ Hcm)]. Qed.

Lemma step_Q prefix acc u acc' : compile_step p un fbuild rec prefix acc u = inl acc' -> accQ acc -> accQ acc'.
Proof.
  destruct acc as [[[[ms s] rq] fs] sfs]. destruct acc' as [[[[ms' s'] rq'] fs'] sfs']. intros Hu [Hf Hsf]. unfold accQ. unfold compile_step in Hu.
  destruct (is_arg p u) eqn:Ea; [inversion Hu; subst; split; assumption|].
  destruct u as [n|g'].
  - apply bind_ok in Hu. destruct Hu as [[rqm fsm] [Hmeta Hu]].
    assert (Hfm : Forall (Q p) fsm).
    { destruct (kind (getn p n)) eqn:Hk; try (inversion Hmeta; subst; exact Hf).
      apply bind_ok in Hmeta. destruct Hmeta as [[[bn brq] bfs] [Hb Hmeta]]. inversion Hmeta; subst.
      destruct (Hfb _ _ _ _ _ Hb) as [Hc Hbf]. apply Forall_app. split; [exact Hf|]. constructor; [exact Hc|exact Hbf]. }
    apply bind_ok in Hu. destruct Hu as [s2 [_ Hu]].
    destruct (kind (getn p n)) as [| | |om imp|body fi fo fa] eqn:Hk.
    + inversion Hu; subst. split; assumption.
    + apply bind_ok in Hu. destruct Hu as [o [_ Hu]]. inversion Hu; subst. split; assumption.
    + apply bind_ok in Hu. destruct Hu as [nm [_ Hu]]. apply bind_ok in Hu. destruct Hu as [inn [_ Hu]].
      apply bind_ok in Hu. destruct Hu as [outn [_ Hu]]. apply bind_ok in Hu. destruct Hu as [[[[al s3] rq3] sfs3] [Hsg Hu]].
      inversion Hu; subst. split; [exact Hfm|]. exact (attr_fold_Q nm _ ([], s2, rqm, sfs) _ _ _ _ Hsg Hsf).
    + apply bind_ok in Hu. destruct Hu as [nm [_ Hu]]. destruct om as [gi gin body go_ vi].
      apply bind_ok in Hu. destruct Hu as [[ri sri] [_ Hu]]. apply bind_ok in Hu. destruct Hu as [[rb srb] [_ Hu]].
      apply bind_ok in Hu. destruct Hu as [[ro sro] [_ Hu]]. apply bind_ok in Hu. destruct Hu as [[rvi srvi] [_ Hu]].
      apply bind_ok in Hu. destruct Hu as [ids [_ Hu]]. apply bind_ok in Hu. destruct Hu as [inn [_ Hu]].
      apply bind_ok in Hu. destruct Hu as [outn [_ Hu]]. inversion Hu; subst. split; assumption.
    + apply bind_ok in Hu. destruct Hu as [nm [_ Hu]]. apply bind_ok in Hu. destruct Hu as [inn [_ Hu]].
      apply bind_ok in Hu. destruct Hu as [outn [_ Hu]]. apply bind_ok in Hu. destruct Hu as [[[[al s3] rq3] sfs3] [Hsg Hu]].
      inversion Hu; subst. split; [exact Hfm|]. exact (attr_fold_Q nm _ ([], s2, rqm, sfs) _ _ _ _ Hsg Hsf).
  - apply bind_ok in Hu. destruct Hu as [s2 [_ Hu]].
    apply bind_ok in Hu. destruct Hu as [nm [_ Hu]]. apply bind_ok in Hu. destruct Hu as [i [_ Hu]].
    apply bind_ok in Hu. destruct Hu as [o [_ Hu]]. inversion Hu; subst. split; assumption.
Qed.
End Step.

Theorem compile_Q : forall fuel s g prefix vi mg s' rq fs,
  compile p un args_of own_of fbuild fuel s g prefix vi = inl (mg, s', rq, fs) -> Forall (Q p) fs.
Proof.
  induction fuel as [|f IH]; intros s g prefix vi mg s' rq fs H; [discriminate H|]. cbn [Build.compile] in H.
  apply bind_ok in H. destruct H as [s1 [_ H]].
  apply bind_ok in H. destruct H as [[[[[ms s3] rq3] fs0] sfs] [H2 H]].
  assert (Hc3 : accQ (ms, s3, rq3, fs0, sfs)).
  { assert (Hi : accQ ([], s1, [], [], [])) by (split; constructor). revert H2 Hi. apply (CompilePres.foldM_inv accQ). intros acc u acc' Hs. eapply step_Q; [|exact Hs]. exact IH. }
  destruct (Nat.eqb (List.length (gres (getg p g))) 0); [discriminate H|].
  apply bind_ok in H. destruct H as [ai [_ H]]. apply bind_ok in H. destruct H as [ro [_ H]]. inversion H; subst.
  destruct Hc3 as [A B]. apply Forall_app. split; assumption.
Qed.
End FunIndS.

(* functions build their bodies with their own Builder: induction on the nesting of function builds *)
Theorem build_main_Q : forall ffuel vi p un main b,
  build_main_gen vi ffuel p un main = inl b -> Forall (Q p) (b_funs b).
Proof. induction ffuel as [|ff IH]; intros vi p un main b H; [discriminate|]. cbn [build_main_gen] in H.
  apply bind_ok in H. destruct H as [d [_ H]]. apply bind_ok in H. destruct H as [[[[mg s] rq] fs] [Hc H]].
  inversion H; subst. cbn [b_funs]. eapply compile_Q; [|exact Hc].
  intros n body bn brq bfs Hb. cbn beta in Hb. apply bind_ok in Hb. destruct Hb as [b0 [Hb0 Hb]]. inversion Hb; subst.
  split; [|exact (IH _ _ _ _ _ Hb0)]. exact (HQ _ _ _ _ _ _ Hb0). Qed.
End FunInd.
