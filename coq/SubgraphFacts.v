(* SubgraphFacts.v — proofs about Subgraph.v (C19). *)
From Coq Require Import ZArith NArith List Bool Lia Arith.
From Spox Require Import Subgraph.
Import ListNotations.
Open Scope Z_scope.

Definition callable (b : behaviour) : bool := match b with BNotCallable => false | _ => true end.

(* ------------------------------------------------------------------------------------------------ basics *)
Lemma all_types_map_Some l : all_types (map Some l) = Some l.
Proof. induction l as [|t l IH]; cbn; [reflexivity|]. rewrite IH. reflexivity. Qed.

Lemma mapM_length {A B} (f : A -> result B) l : forall r, mapM f l = Ok r -> List.length r = List.length l.
Proof.
  induction l as [|x l IH]; cbn; intros r H.
  - inversion H. reflexivity.
  - destruct (f x) as [y|e]; cbn in H; [|discriminate]. destruct (mapM f l) as [ys|e]; cbn in H; [|discriminate].
    inversion H. cbn. f_equal. apply IH. reflexivity.
Qed.

Lemma mapM_unwrap_type_Some l : mapM unwrap_type (map Some l) = Ok l.
Proof. induction l as [|t l IH]; cbn; [reflexivity|]. rewrite IH. reflexivity. Qed.

Lemma mapM_app {A B} (f : A -> result B) l1 l2 :
  mapM f (l1 ++ l2) = bind (mapM f l1) (fun a => bind (mapM f l2) (fun b => Ok (a ++ b)%list)).
Proof.
  induction l1 as [|x l1 IH]; cbn.
  - destruct (mapM f l2); reflexivity.
  - destruct (f x) as [y|e]; cbn; [|reflexivity]. rewrite IH.
    destruct (mapM f l1) as [a|e]; cbn; [|reflexivity]. destruct (mapM f l2) as [b|e]; reflexivity.
Qed.

(* ------------------------------------------------------------------------------------------------ subgraph() *)
(* the call trace of subgraph(): empty when the types are bad or the callback is not callable, else ONE call *)
Lemma subgraph_trace mat types f :
  snd (subgraph_gen mat types f) =
  match all_types types with
  | Some tys => if callable (cb_beh f) then [(cb_id f, tys)] else []
  | None => []
  end.
Proof. unfold subgraph_gen. destruct (all_types types); [|reflexivity]. destruct (cb_beh f); reflexivity. Qed.

Definition made_from (g : graph) (tys : list ty) (f : callback) : Prop :=
  g_args g = tys /\ g_ctor g = cb_id f /\ callable (cb_beh f) = true.

Lemma subgraph_ok mat types f g tr :
  subgraph_gen mat types f = (Ok g, tr) ->
  exists tys, all_types types = Some tys /\ tr = [(cb_id f, tys)] /\ made_from g tys f.
Proof.
  unfold subgraph_gen, made_from. destruct (all_types types) as [tys|]; [|discriminate].
  destruct (cb_beh f) as [elems|elems| | |] eqn:Hb; intros H; inversion H; subst; clear H; exists tys.
  - destruct (mapM (eval_elem tys) elems) as [vs|]; cbn in *; [|discriminate].
    destruct (mapM var_type vs) as [rs|]; cbn in *; [|discriminate]. inversion H1; subst. cbn. auto.
  - destruct mat.
    + destruct (mapM (eval_elem tys) elems) as [vs|]; cbn in *; [|discriminate].
      destruct (mapM var_type vs) as [rs|]; cbn in *; [|discriminate]. inversion H1; subst. cbn. auto.
    + destruct (lazy_validate tys elems); cbn in *; [|discriminate]. inversion H1; subst. cbn. auto.
Qed.

(* repaired subgraph(): the Graph has exactly as many results as the callback's iterable yields *)
Lemma subgraph_result_count types f g tr :
  subgraph types f = (Ok g, tr) ->
  exists elems, yielded (cb_beh f) = Some elems /\ List.length (g_results g) = List.length elems.
Proof.
  unfold subgraph, subgraph_gen. destruct (all_types types) as [tys|]; [|discriminate].
  destruct (cb_beh f) as [elems|elems| | |] eqn:Hb; intros H; inversion H; subst; clear H; exists elems; (split; [reflexivity|]);
  destruct (mapM (eval_elem tys) elems) as [vs|] eqn:E1; cbn in *; try discriminate;
  destruct (mapM var_type vs) as [rs|] eqn:E2; cbn in *; try discriminate; inversion H1; subst; cbn;
  rewrite (mapM_length _ _ _ E2). exact (mapM_length _ _ _ E1). exact (mapM_length _ _ _ E1).
Qed.

(* the unchanged subgraph() agrees with the repaired one on everything that is not a one-shot iterable *)
Lemma subgraph_orig_same types f :
  (forall l, cb_beh f <> BOneShot l) -> subgraph_orig types f = subgraph types f.
Proof.
  intros H. unfold subgraph_orig, subgraph, subgraph_gen. destruct (all_types types); [|reflexivity].
  destruct (cb_beh f) eqn:E; try reflexivity. exfalso. apply (H elems). reflexivity.
Qed.

(* --- malformed callbacks *)
Definition in_range (n : nat) (r : relem) : Prop := match r with RArg i => (i < n)%nat | _ => True end.
Definition malformed (nargs : nat) (b : behaviour) : Prop :=
  b = BNotCallable \/ b = BNonIterable \/
  exists elems, yielded b = Some elems /\ In RNonVar elems /\ Forall (in_range nargs) elems.

Lemma eval_all_in_range tys elems :
  Forall (in_range (List.length tys)) elems ->
  exists vs, mapM (eval_elem tys) elems = Ok vs /\ (In RNonVar elems -> In VOther vs).
Proof.
  induction elems as [|r elems IH]; intros HF.
  - exists []. split; [reflexivity|]. intros [].
  - inversion HF as [|r' l' Hr Hl]; subst. destruct (IH Hl) as [vs [E Hin]].
    assert (exists v, eval_elem tys r = Ok v /\ (r = RNonVar -> v = VOther)) as [v [Ev Hv]].
    { destruct r as [i|t|]; cbn in *.
      - destruct (nth_error tys i) eqn:En; [eexists; split; [reflexivity|discriminate]|].
        apply nth_error_None in En. lia.
      - eexists; split; [reflexivity|discriminate].
      - eexists; split; [reflexivity|reflexivity]. }
    exists (v :: vs). split.
    + cbn [mapM]. rewrite Ev. cbn. rewrite E. reflexivity.
    + intros [H|H]; [left; apply Hv; exact H|right; apply Hin; exact H].
Qed.

Lemma var_types_other vs : In VOther vs -> mapM var_type vs = Err EType.
Proof.
  induction vs as [|v vs IH]; intros H; [destruct H|]. cbn [mapM]. destruct v as [t|]; cbn.
  - destruct H as [H|H]; [discriminate|]. rewrite (IH H). reflexivity.
  - reflexivity.
Qed.

Lemma subgraph_malformed types tys f :
  all_types types = Some tys -> malformed (List.length tys) (cb_beh f) ->
  subgraph types f = (Err EType, if callable (cb_beh f) then [(cb_id f, tys)] else []).
Proof.
  intros Ht Hm. unfold subgraph, subgraph_gen. rewrite Ht.
  destruct Hm as [Hb|[Hb|[elems [Hy [Hin HF]]]]].
  - rewrite Hb. reflexivity.
  - rewrite Hb. reflexivity.
  - destruct (eval_all_in_range tys elems HF) as [vs [E Hv]].
    destruct (cb_beh f) as [l|l| | |]; cbn in Hy; try discriminate; inversion Hy; subst; cbn [callable];
    rewrite E; cbn [bind]; rewrite (var_types_other vs (Hv Hin)); reflexivity.
Qed.

(* ------------------------------------------------------------------------------------------------ ctor1 *)
Lemma ctor1_trace mat k types body outv :
  snd (ctor1 mat k types body outv) =
  match types with
  | Ok tys => if callable (cb_beh body) then [(cb_id body, tys)] else []
  | Err _ => []
  end.
Proof.
  unfold ctor1. destruct types as [tys|e]; [|reflexivity].
  pose proof (subgraph_trace mat (map Some tys) body) as H. rewrite all_types_map_Some in H.
  destruct (subgraph_gen mat (map Some tys) body) as [r tr]. cbn [snd] in H. subst tr.
  destruct r; cbn [snd singleton_model]; [apply app_nil_r|reflexivity].
Qed.

Lemma ctor1_node mat k types body outv kk gs n tr :
  ctor1 mat k types body outv = (ONode kk gs n, tr) ->
  exists tys g, types = Ok tys /\ subgraph_gen mat (map Some tys) body = (Ok g, [(cb_id body, tys)]) /\
                kk = k /\ gs = [g] /\ n = outv (List.length (g_results g)) /\ tr = [(cb_id body, tys)].
Proof.
  unfold ctor1. destruct types as [tys|e]; [|discriminate].
  destruct (subgraph_gen mat (map Some tys) body) as [r tr0] eqn:E. destruct r as [g|e]; [|discriminate].
  intros H. inversion H; subst. destruct (subgraph_ok _ _ _ _ _ E) as [tys' [Ha [Ht _]]].
  rewrite all_types_map_Some in Ha. inversion Ha; subst tys'. subst tr0.
  exists tys, g. cbn [snd singleton_model]. rewrite app_nil_r. split; [reflexivity|]. split; [exact E|]. repeat split; reflexivity.
Qed.

Lemma ctor1_malformed k types tys body outv :
  types = Ok tys -> malformed (List.length tys) (cb_beh body) ->
  ctor1 true k types body outv = (OErr EType, if callable (cb_beh body) then [(cb_id body, tys)] else []).
Proof.
  intros -> Hm. unfold ctor1. fold subgraph.
  rewrite (subgraph_malformed (map Some tys) tys body (all_types_map_Some tys) Hm). reflexivity.
Qed.

(* ------------------------------------------------------------------------------------------------ callbacks once *)
Definition op_types (o : op) : option (result (list ty)) :=
  match o with
  | OpLoop v _ => Some (loop_types v)
  | OpScan ops m ax _ _ => Some (scan_types ops m ax)
  | OpSeqMap s a _ => Some (seqmap_types s a)
  | _ => None
  end.

Lemma construct_ctor1 o body :
  op_callbacks o = [body] ->
  exists k types outv, op_types o = Some types /\ construct o = Some (ctor1 true k types body outv) /\
                       (forall r, outv r = spec_out_count k r).
Proof.
  destruct o; cbn; intros H; inversion H; subst.
  - exists KLoop, (loop_types v_initial), (fun n => Z.of_nat n - 1). auto.
  - exists KScan, (scan_types ops num_scan_inputs axes), Z.of_nat. auto.
  - exists KSeqMap, (seqmap_types input_sequence additional), Z.of_nat. auto.
Qed.

Lemma if_trace mat e t :
  snd (if_gen mat e t) =
  ((if callable (cb_beh e) then [(cb_id e, [])] else []) ++
   match fst (subgraph_gen mat [] e) with
   | Ok _ => if callable (cb_beh t) then [(cb_id t, [])] else []
   | Err _ => []
   end)%list.
Proof.
  unfold if_gen. pose proof (subgraph_trace mat [] e) as H1. pose proof (subgraph_trace mat [] t) as H2.
  cbn [all_types] in H1, H2.
  destruct (subgraph_gen mat [] e) as [r1 t1]. cbn [snd fst] in *. subst t1.
  destruct r1 as [g1|e1]; [|cbn [snd]; symmetry; apply app_nil_r].
  destruct (subgraph_gen mat [] t) as [r2 t2]. cbn [snd] in *. subst t2.
  destruct r2; cbn [snd singleton_model]; [rewrite app_nil_r|]; reflexivity.
Qed.

(* a constructor that gets as far as issuing the node has called each of its callbacks exactly once, in order *)
Theorem callback_once_gen o oc tr :
  construct o = Some (oc, tr) -> (forall e, oc <> OErr e) -> map fst tr = map cb_id (op_callbacks o).
Proof.
  intros Hc Hne. destruct o; cbn in Hc; inversion Hc as [H]; clear Hc.
  - (* If *)
    unfold if_, if_gen in H. destruct (subgraph_gen true [] else_branch) as [r1 t1] eqn:E1.
    destruct r1 as [g1|e1]; [|inversion H; subst; exfalso; eapply Hne; reflexivity].
    destruct (subgraph_gen true [] then_branch) as [r2 t2] eqn:E2.
    destruct r2 as [g2|e2]; [|inversion H; subst; exfalso; eapply Hne; reflexivity].
    inversion H; subst. destruct (subgraph_ok _ _ _ _ _ E1) as [a1 [_ [-> _]]].
    destruct (subgraph_ok _ _ _ _ _ E2) as [a2 [_ [-> _]]]. reflexivity.
  - destruct oc as [kk gs n|e]; [|exfalso; eapply Hne; reflexivity].
    unfold loop, loop_gen in H. destruct (ctor1_node _ _ _ _ _ _ _ _ _ H) as [tys [g [_ [_ [_ [_ [_ ->]]]]]]]. reflexivity.
  - destruct oc as [kk gs n|e]; [|exfalso; eapply Hne; reflexivity].
    unfold scan in H. destruct (ctor1_node _ _ _ _ _ _ _ _ _ H) as [tys [g [_ [_ [_ [_ [_ ->]]]]]]]. reflexivity.
  - destruct oc as [kk gs n|e]; [|exfalso; eapply Hne; reflexivity].
    unfold sequence_map in H. destruct (ctor1_node _ _ _ _ _ _ _ _ _ H) as [tys [g [_ [_ [_ [_ [_ ->]]]]]]]. reflexivity.
Qed.

(* whatever happens (errors included), the calls made are an initial segment of the callbacks: never twice, never
   out of order, and nothing is called after a failure *)
Theorem callback_at_most_once_gen o oc tr :
  construct o = Some (oc, tr) -> exists n, map fst tr = firstn n (map cb_id (op_callbacks o)).
Proof.
  intros Hc. destruct o; cbn in Hc; inversion Hc as [H]; clear Hc.
  - pose proof (if_trace true else_branch then_branch) as Ht. fold if_ in Ht. rewrite H in Ht. cbn [snd] in Ht. subst tr.
    cbn [op_callbacks map].
    destruct (callable (cb_beh else_branch)) eqn:C1.
    + destruct (fst (subgraph_gen true [] else_branch)); [destruct (callable (cb_beh then_branch))|].
      * exists 2%nat. reflexivity.
      * exists 1%nat. reflexivity.
      * exists 1%nat. reflexivity.
    + assert (fst (subgraph_gen true [] else_branch) = Err EType) as ->.
      { unfold subgraph_gen. cbn [all_types]. destruct (cb_beh else_branch); try discriminate. reflexivity. }
      exists 0%nat. reflexivity.
  - pose proof (ctor1_trace true KLoop (loop_types v_initial) body (fun n => Z.of_nat n - 1)) as Ht.
    unfold loop, loop_gen in H. rewrite H in Ht. cbn [snd] in Ht. subst tr.
    destruct (loop_types v_initial); [destruct (callable (cb_beh body))|]; [exists 1%nat|exists 0%nat|exists 0%nat]; reflexivity.
  - pose proof (ctor1_trace true KScan (scan_types ops num_scan_inputs axes) body Z.of_nat) as Ht.
    unfold scan in H. rewrite H in Ht. cbn [snd] in Ht. subst tr.
    destruct (scan_types ops num_scan_inputs axes); [destruct (callable (cb_beh body))|]; [exists 1%nat|exists 0%nat|exists 0%nat]; reflexivity.
  - pose proof (ctor1_trace true KSeqMap (seqmap_types input_sequence additional) body Z.of_nat) as Ht.
    unfold sequence_map in H. rewrite H in Ht. cbn [snd] in Ht. subst tr.
    destruct (seqmap_types input_sequence additional); [destruct (callable (cb_beh body))|]; [exists 1%nat|exists 0%nat|exists 0%nat]; reflexivity.
Qed.

(* counting form: with pairwise distinct callback ids, each id occurs exactly once *)
Lemma count_occ_nodup (l : list nat) x : NoDup l -> In x l -> count_occ Nat.eq_dec l x = 1%nat.
Proof.
  intros Hn Hi. pose proof (proj1 (NoDup_count_occ Nat.eq_dec l) Hn x) as Hle.
  pose proof (proj1 (count_occ_In Nat.eq_dec l x) Hi). lia.
Qed.
Theorem callback_once_count o oc tr c :
  construct o = Some (oc, tr) -> (forall e, oc <> OErr e) -> NoDup (map cb_id (op_callbacks o)) ->
  In c (op_callbacks o) -> count_occ Nat.eq_dec (map fst tr) (cb_id c) = 1%nat.
Proof.
  intros Hc Hne Hnd Hin. rewrite (callback_once_gen o oc tr Hc Hne).
  apply count_occ_nodup; [exact Hnd|]. apply in_map. exact Hin.
Qed.

(* ------------------------------------------------------------------------------------------------ histories *)
Lemma step_trace w o : w_trace (step w o) = (w_trace w ++ op_trace o)%list.
Proof.
  unfold step, step_gen, op_trace. destruct (construct o) as [[oc tr]|] eqn:E; [reflexivity|].
  destruct o; cbn in E; try discriminate.
  - destruct (nth_error (w_nodes w) i) as [n|]; [|symmetry; apply app_nil_r].
    destruct n; cbn; reflexivity.
  - destruct (nth_error (w_nodes w) i) as [n|]; [|symmetry; apply app_nil_r].
    destruct n; cbn; reflexivity.
Qed.

Theorem history_trace l : forall w, w_trace (run_ops w l) = (w_trace w ++ flat_map op_trace l)%list.
Proof.
  unfold run_ops. induction l as [|o l IH]; intros w; cbn [fold_left flat_map].
  - symmetry. apply app_nil_r.
  - rewrite IH, step_trace, app_assoc. reflexivity.
Qed.

Theorem build_never_calls_gen n : forall i w, w_trace (iter n (fun w => step w (OpBuild i)) w) = w_trace w.
Proof.
  induction n as [|n IH]; intros i w; cbn [iter]; [reflexivity|].
  rewrite IH, step_trace. cbn. apply app_nil_r.
Qed.
Theorem singleton_never_calls_gen n : forall i w, w_trace (iter n (fun w => step w (OpSingleton i)) w) = w_trace w.
Proof.
  induction n as [|n IH]; intros i w; cbn [iter]; [reflexivity|].
  rewrite IH, step_trace. cbn. apply app_nil_r.
Qed.

Definition is_rebuild (o : op) : bool := match o with OpBuild _ | OpSingleton _ => true | _ => false end.
Theorem rebuilds_never_call l : forallb is_rebuild l = true -> forall w, w_trace (run_ops w l) = w_trace w.
Proof.
  intros H w. rewrite history_trace. replace (flat_map op_trace l) with (@nil call); [apply app_nil_r|].
  induction l as [|o l IH]; [reflexivity|]. cbn [forallb] in H. apply andb_prop in H. destruct H as [Ho Hl].
  cbn [flat_map]. rewrite <- (IH Hl). destruct o; cbn in Ho; try discriminate; reflexivity.
Qed.

Lemma construct_gen_repaired o : construct_gen true true o = construct o.
Proof. destruct o; reflexivity. Qed.
Lemma run_ops_on_repaired l : run_ops_on true true l = run_ops empty_world l.
Proof.
  unfold run_ops_on, run_ops, step. f_equal.
Qed.

(* builds do what they are for: they reproduce the stored signature of each subgraph *)
Lemma build_reads_graph k gs n : fst (build_subgraphs (ONode k gs n)) = map (fun g => (g_args g, g_results g)) gs.
Proof. reflexivity. Qed.

(* ------------------------------------------------------------------------------------------------ argument types *)
Theorem arg_types_if e t : Forall (fun c : call => snd c = spec_if) (snd (if_ e t)).
Proof.
  unfold if_. rewrite if_trace. apply Forall_app. split.
  - destruct (callable (cb_beh e)); repeat constructor.
  - destruct (fst (subgraph_gen true [] e)); [destruct (callable (cb_beh t))|]; repeat constructor.
Qed.

Theorem arg_types_loop carried body :
  snd (loop (map Some carried) body) =
  (if callable (cb_beh body)
   then [(cb_id body, Tensor e_int64 (Some [DInt 1%N]) :: Tensor e_bool (Some [DInt 1%N]) :: carried)] else []) /\
  spec_loop carried (Tensor e_int64 (Some [DInt 1%N]) :: Tensor e_bool (Some [DInt 1%N]) :: carried).
Proof.
  split.
  - unfold loop, loop_gen. rewrite ctor1_trace. unfold loop_types. rewrite mapM_unwrap_type_Some. reflexivity.
  - eexists. eexists. split; [reflexivity|]. split; right; reflexivity.
Qed.

(* --- Scan *)
Lemma remove_nth_slices {A} (l : list A) : forall i, (firstn i l ++ skipn (S i) l)%list = remove_nth i l.
Proof.
  induction l as [|x l IH]; intros i.
  - destruct i; reflexivity.
  - destruct i as [|i]; [reflexivity|]. cbn [firstn remove_nth]. change (skipn (S (S i)) (x :: l)) with (skipn (S i) l).
    cbn [app]. f_equal. apply IH.
Qed.

Lemma drop_axis_spec e s a t :
  scan_element (Tensor e s) a = Some t -> Tensor e (drop_axis s a) = t.
Proof.
  destruct s as [dims|]; cbn [scan_element]; [|intros H; inversion H; reflexivity].
  destruct (andb _ _) eqn:Hr; [|discriminate]. intros H. inversion H; subst; clear H.
  apply andb_prop in Hr. destruct Hr as [H1 H2]. apply Z.leb_le in H1. apply Z.ltb_lt in H2.
  destruct dims as [|d dims]; [cbn in *; lia|].
  unfold drop_axis. set (l := d :: dims) in *. set (r := Z.of_nat (List.length l)) in *.
  assert (Hr : 0 < r) by (subst r l; cbn [List.length]; lia).
  f_equal. f_equal. rewrite remove_nth_slices. f_equal. f_equal.
  destruct (a <? 0) eqn:Hn.
  - apply Z.ltb_lt in Hn. symmetry. apply Z.mod_unique with (q := -1); lia.
  - apply Z.ltb_ge in Hn. apply Z.mod_small. lia.
Qed.

Lemma scan_elements_model ts : forall axes els,
  scan_elements ts axes = Some els ->
  mapM (fun oa : operand * Z => bind (unwrap_tensor (fst oa)) (fun es => Ok (Tensor (fst es) (drop_axis (snd es) (snd oa)))))
       (combine (map Some ts) axes) = Ok els.
Proof.
  induction ts as [|t ts IH]; intros axes els H.
  - destruct axes; cbn in H; [|discriminate]. inversion H. reflexivity.
  - destruct axes as [|a axes]; cbn [scan_elements] in H; [discriminate|].
    destruct (scan_element t a) as [x|] eqn:Ex; [|discriminate].
    destruct (scan_elements ts axes) as [xs|] eqn:Exs; [|discriminate]. inversion H; subst; clear H.
    cbn [map combine mapM fst snd]. destruct t as [e s| |]; cbn in Ex; try discriminate.
    cbn [unwrap_tensor unwrap_type bind fst snd]. rewrite (drop_axis_spec e s a x Ex).
    rewrite (IH axes xs Exs). reflexivity.
Qed.

Lemma forallb_tensor_firstn ts n : forallb is_tensor ts = true -> forallb is_tensor (firstn n ts) = true.
Proof.
  revert n. induction ts as [|t ts IH]; intros n H; [destruct n; reflexivity|].
  destruct n; [reflexivity|]. cbn in *. apply andb_prop in H. destruct H as [-> H]. cbn. apply IH. exact H.
Qed.

Lemma scan_types_spec tys m axes p :
  spec_scan tys m axes = Some p -> scan_types (map Some tys) (Z.of_nat m) axes = Ok p.
Proof.
  unfold spec_scan, scan_types. destruct (andb _ _) eqn:Hc; [|discriminate].
  apply andb_prop in Hc. destruct Hc as [Hm Ht]. apply Nat.leb_le in Hm.
  destruct (scan_elements _ _) as [els|] eqn:Es; [|discriminate]. intros H. inversion H; subst; clear H.
  rewrite map_length. rewrite Nat2Z.id.
  assert (Hk : Z.of_nat (List.length tys) - Z.of_nat m = Z.of_nat (List.length tys - m)) by lia.
  rewrite Hk. unfold py_take, py_drop.
  assert (0 <=? Z.of_nat (List.length tys - m) = true) as -> by (apply Z.leb_le; lia).
  rewrite !Nat2Z.id. rewrite firstn_map, skipn_map.
  rewrite mapM_unwrap_type_Some. cbn [bind].
  pose proof (scan_elements_model _ _ _ Es) as Hx. unfold operand in *. rewrite Hx. reflexivity.
Qed.

Theorem arg_types_scan tys m axes dirs body p :
  spec_scan tys m axes = Some p ->
  snd (scan (map Some tys) (Z.of_nat m) axes dirs body) = if callable (cb_beh body) then [(cb_id body, p)] else [].
Proof. intros H. unfold scan. rewrite ctor1_trace, (scan_types_spec _ _ _ _ H). reflexivity. Qed.

(* --- SequenceMap *)
Lemma seqmap_samples_model adds : forall xs,
  seqmap_samples adds = Some xs ->
  mapM (fun o => bind (unwrap_type o) (fun t => Ok (elem_or_self t))) (map Some adds) = Ok xs.
Proof.
  induction adds as [|t adds IH]; intros xs H; cbn in H.
  - inversion H. reflexivity.
  - destruct (seqmap_sample t) as [x|] eqn:Ex; [|discriminate].
    destruct (seqmap_samples adds) as [xs'|] eqn:Exs; [|discriminate]. inversion H; subst; clear H.
    cbn [map mapM unwrap_type bind]. rewrite (IH xs' eq_refl). cbn [bind].
    destruct t as [e s|t'|t']; cbn in Ex; try discriminate.
    + inversion Ex. reflexivity.
    + destruct t'; try discriminate. inversion Ex. reflexivity.
Qed.

Theorem arg_types_seqmap s adds body p :
  spec_seqmap s adds = Some p ->
  snd (sequence_map (Some s) (map Some adds) body) = if callable (cb_beh body) then [(cb_id body, p)] else [].
Proof.
  intros H. unfold sequence_map. rewrite ctor1_trace. unfold spec_seqmap in H.
  destruct s as [e sh|t|t]; try discriminate. destruct t as [e sh| |]; try discriminate.
  destruct (seqmap_samples adds) as [xs|] eqn:Exs; [|discriminate]. inversion H; subst; clear H.
  unfold seqmap_types. cbn [unwrap_type bind elem_type_attr]. rewrite (seqmap_samples_model adds xs Exs). reflexivity.
Qed.

(* ------------------------------------------------------------------------------------------------ output count *)
Theorem out_count_gen o k gs n tr :
  construct o = Some (ONode k gs n, tr) ->
  Forall2 (fun g c => exists elems, yielded (cb_beh c) = Some elems /\ List.length (g_results g) = List.length elems /\
                                    g_ctor g = cb_id c)
          gs (op_callbacks o) /\
  exists c elems, hd_error (op_callbacks o) = Some c /\ yielded (cb_beh c) = Some elems /\
                  n = spec_out_count k (List.length elems).
Proof.
  intros Hc. destruct o; cbn in Hc; inversion Hc as [H]; clear Hc.
  - unfold if_, if_gen in H. fold subgraph in H. destruct (subgraph [] else_branch) as [r1 t1] eqn:E1.
    destruct r1 as [g1|e1]; [|discriminate]. destruct (subgraph [] then_branch) as [r2 t2] eqn:E2.
    destruct r2 as [g2|e2]; [|discriminate]. inversion H; subst; clear H.
    destruct (subgraph_result_count _ _ _ _ E1) as [el1 [Y1 L1]]. destruct (subgraph_result_count _ _ _ _ E2) as [el2 [Y2 L2]].
    destruct (subgraph_ok _ _ _ _ _ E1) as [a1 [_ [_ [_ [C1 _]]]]]. destruct (subgraph_ok _ _ _ _ _ E2) as [a2 [_ [_ [_ [C2 _]]]]].
    split.
    + constructor; [exists el1; auto|]. constructor; [exists el2; auto|constructor].
    + exists else_branch, el1. cbn. rewrite L1. auto.
  - unfold loop, loop_gen in H. destruct (ctor1_node _ _ _ _ _ _ _ _ _ H) as [tys [g [_ [E [-> [-> [-> _]]]]]]].
    fold subgraph in E. destruct (subgraph_result_count _ _ _ _ E) as [el [Y L]].
    destruct (subgraph_ok _ _ _ _ _ E) as [a [_ [_ [_ [C _]]]]].
    split; [constructor; [exists el; auto|constructor]|]. exists body, el. cbn. rewrite L. auto.
  - unfold scan in H. destruct (ctor1_node _ _ _ _ _ _ _ _ _ H) as [tys [g [_ [E [-> [-> [-> _]]]]]]].
    fold subgraph in E. destruct (subgraph_result_count _ _ _ _ E) as [el [Y L]].
    destruct (subgraph_ok _ _ _ _ _ E) as [a [_ [_ [_ [C _]]]]].
    split; [constructor; [exists el; auto|constructor]|]. exists body, el. cbn. rewrite L. auto.
  - unfold sequence_map in H. destruct (ctor1_node _ _ _ _ _ _ _ _ _ H) as [tys [g [_ [E [-> [-> [-> _]]]]]]].
    fold subgraph in E. destruct (subgraph_result_count _ _ _ _ E) as [el [Y L]].
    destruct (subgraph_ok _ _ _ _ _ E) as [a [_ [_ [_ [C _]]]]].
    split; [constructor; [exists el; auto|constructor]|]. exists body, el. cbn. rewrite L. auto.
Qed.

(* ------------------------------------------------------------------------------------------------ malformed *)
Theorem malformed_single o body tys :
  op_callbacks o = [body] -> op_types o = Some (Ok tys) -> malformed (List.length tys) (cb_beh body) ->
  construct o = Some (OErr EType, if callable (cb_beh body) then [(cb_id body, tys)] else []).
Proof.
  intros Hcb Ht Hm. destruct (construct_ctor1 o body Hcb) as [k [types [outv [Ht' [Hc _]]]]].
  rewrite Ht in Ht'. inversion Ht'; subst types. rewrite Hc. f_equal. apply ctor1_malformed; [reflexivity|exact Hm].
Qed.

Theorem malformed_if_else e t :
  malformed 0 (cb_beh e) -> if_ e t = (OErr EType, if callable (cb_beh e) then [(cb_id e, [])] else []).
Proof.
  intros Hm. unfold if_, if_gen. fold subgraph. rewrite (subgraph_malformed [] [] e eq_refl Hm). reflexivity.
Qed.

Theorem malformed_if_then e t g tr :
  subgraph [] e = (Ok g, tr) -> malformed 0 (cb_beh t) ->
  if_ e t = (OErr EType, ((cb_id e, []) :: if callable (cb_beh t) then [(cb_id t, [])] else [])).
Proof.
  intros He Hm. unfold if_, if_gen. fold subgraph. rewrite He.
  destruct (subgraph_ok _ _ _ _ _ He) as [a [Ha [-> _]]]. cbn in Ha. inversion Ha; subst a.
  rewrite (subgraph_malformed [] [] t eq_refl Hm). reflexivity.
Qed.

(* ------------------------------------------------------------------------------------------------ the unchanged tree *)
Definition f32 (l : list N) : ty := Tensor 1%N (Some (map DInt l)).

(* F13a: state float32[3], scan input float32[5,3] *)
Theorem scan_orig_refuted :
  exists tys m axes dirs body p,
    spec_scan tys m axes = Some p /\ callable (cb_beh body) = true /\
    snd (scan_orig (map Some tys) (Z.of_nat m) axes dirs body) <> [(cb_id body, p)].
Proof.
  exists [f32 [3%N]; f32 [5%N; 3%N]], 1%nat, None, None, (mkcb 0 (BList [RArg 0; RArg 1])), [f32 [3%N]; f32 [3%N]].
  split; [reflexivity|]. split; [reflexivity|]. vm_compute. discriminate.
Qed.
(* what the unchanged code passes on that witness: the state has lost its axis, the scanned value its shape *)
Example scan_orig_witness_trace :
  snd (scan_orig [Some (f32 [3%N]); Some (f32 [5%N; 3%N])] 1 None None (mkcb 0 (BList [RArg 0; RArg 1])))
  = [(0%nat, [f32 []; Tensor 1%N None])].
Proof. reflexivity. Qed.

(* what does hold of the unchanged Scan: operands of unknown rank (nothing to strip, nothing to lose) *)
Definition rank_unknown (t : ty) : bool := match t with Tensor _ None => true | _ => false end.
Lemma orig_strip_unknown l :
  forallb rank_unknown l = true ->
  mapM (fun o => bind (unwrap_tensor o) (fun es => Ok (Tensor (fst es) (strip_first (snd es))))) (map Some l) = Ok l /\
  mapM (fun o => bind (unwrap_tensor o) (fun es => Ok (Tensor (fst es) None))) (map Some l) = Ok l.
Proof.
  induction l as [|t l IH]; intros H; [split; reflexivity|]. cbn [forallb] in H. apply andb_prop in H. destruct H as [Ht Hl].
  destruct (IH Hl) as [I1 I2]. destruct t as [e [d|]| |]; try discriminate.
  split; cbn [map mapM unwrap_tensor unwrap_type bind fst snd strip_first]; [rewrite I1|rewrite I2]; reflexivity.
Qed.
Lemma forallb_firstn {A} (f : A -> bool) l n : forallb f l = true -> forallb f (firstn n l) = true.
Proof.
  revert n. induction l as [|x l IH]; intros n H; [destruct n; reflexivity|]. destruct n; [reflexivity|].
  cbn in *. apply andb_prop in H. destruct H as [-> H]. cbn. apply IH. exact H.
Qed.
Lemma forallb_skipn {A} (f : A -> bool) l n : forallb f l = true -> forallb f (skipn n l) = true.
Proof.
  revert n. induction l as [|x l IH]; intros n H; [destruct n; reflexivity|]. destruct n; [exact H|].
  cbn in *. apply andb_prop in H. destruct H as [_ H]. apply IH. exact H.
Qed.
Lemma scan_elements_unknown l : forallb rank_unknown l = true -> scan_elements l (repeat 0 (List.length l)) = Some l.
Proof.
  induction l as [|t l IH]; intros H; [reflexivity|]. cbn [forallb] in H. apply andb_prop in H. destruct H as [Ht Hl].
  destruct t as [e [d|]| |]; try discriminate. cbn [List.length repeat scan_elements scan_element]. rewrite (IH Hl). reflexivity.
Qed.
Theorem scan_orig_unknown_rank tys m dirs body :
  forallb rank_unknown tys = true -> (m <= List.length tys)%nat ->
  spec_scan tys m None = Some tys /\
  snd (scan_orig (map Some tys) (Z.of_nat m) None dirs body) = if callable (cb_beh body) then [(cb_id body, tys)] else [].
Proof.
  intros Hu Hm. split.
  - unfold spec_scan. apply Nat.leb_le in Hm. rewrite Hm.
    assert (forallb is_tensor tys = true) as ->.
    { clear -Hu. induction tys as [|t l IH]; [reflexivity|]. cbn in *. apply andb_prop in Hu. destruct Hu as [Ht Hl].
      rewrite (IH Hl). destruct t as [e [d|]| |]; try discriminate. reflexivity. }
    cbn [andb]. apply Nat.leb_le in Hm.
    replace m with (List.length (skipn (List.length tys - m) tys)) at 2 by (rewrite skipn_length; lia).
    rewrite (scan_elements_unknown _ (forallb_skipn _ _ _ Hu)). rewrite firstn_skipn. reflexivity.
  - unfold scan_orig. rewrite ctor1_trace. unfold scan_types_orig, py_take, py_drop.
    assert (0 <=? Z.of_nat m = true) as -> by (apply Z.leb_le; lia). rewrite !Nat2Z.id.
    rewrite firstn_map, skipn_map.
    rewrite (proj1 (orig_strip_unknown _ (forallb_firstn _ _ m Hu))). cbn [bind].
    rewrite (proj2 (orig_strip_unknown _ (forallb_skipn _ _ m Hu))). cbn [bind]. rewrite firstn_skipn. reflexivity.
Qed.

(* F13b: a tensor-typed additional input *)
Theorem seqmap_orig_refuted :
  exists s adds body p,
    spec_seqmap s adds = Some p /\ callable (cb_beh body) = true /\
    sequence_map_orig (Some s) (map Some adds) body = (OErr EAttr, []).
Proof.
  exists (Seq (f32 [2%N])), [f32 [3%N]], (mkcb 0 (BList [RArg 0])), [f32 [2%N]; f32 [3%N]].
  split; [reflexivity|]. split; reflexivity.
Qed.
(* what does hold of the unchanged SequenceMap: all additional operands are sequences *)
Definition is_seq (t : ty) : bool := match t with Seq _ => true | _ => false end.
Theorem seqmap_orig_all_sequences s adds body p :
  forallb is_seq adds = true -> spec_seqmap s adds = Some p ->
  snd (sequence_map_orig (Some s) (map Some adds) body) = if callable (cb_beh body) then [(cb_id body, p)] else [].
Proof.
  intros Hs H. unfold sequence_map_orig. rewrite ctor1_trace. unfold spec_seqmap in H.
  destruct s as [e sh|t|t]; try discriminate. destruct t as [e sh| |]; try discriminate.
  destruct (seqmap_samples adds) as [xs|] eqn:Exs; [|discriminate]. inversion H; subst; clear H.
  unfold seqmap_types_orig. cbn [unwrap_type bind elem_type_attr].
  assert (mapM (fun o => bind (unwrap_type o) elem_type_attr) (map Some adds) = Ok xs) as ->; [|reflexivity].
  revert xs Exs. induction adds as [|t adds IH]; intros xs Exs; cbn in Exs.
  - inversion Exs. reflexivity.
  - cbn [forallb] in Hs. apply andb_prop in Hs. destruct Hs as [Ht Hl].
    destruct (seqmap_sample t) as [x|] eqn:Ex; [|discriminate].
    destruct (seqmap_samples adds) as [xs'|]; [|discriminate]. inversion Exs; subst; clear Exs.
    cbn [map mapM unwrap_type bind]. rewrite (IH Hl xs' eq_refl).
    destruct t as [e' s'|t'|t']; try discriminate. destruct t'; try discriminate. cbn in Ex. inversion Ex. reflexivity.
Qed.

(* F19: a generator result is consumed by the validation; the Graph, and so the operator, gets zero outputs *)
Theorem out_count_orig_refuted :
  exists e t gs n tr elems,
    if_orig e t = (ONode KIf gs n, tr) /\ yielded (cb_beh e) = Some elems /\
    n <> spec_out_count KIf (List.length elems) /\ n = 0.
Proof.
  exists (mkcb 0 (BOneShot [ROuter (f32 [])])), (mkcb 1 (BOneShot [ROuter (f32 [])])).
  eexists. eexists. eexists. eexists. split; [reflexivity|]. split; [reflexivity|]. split; [vm_compute; discriminate|reflexivity].
Qed.
(* what does hold of the unchanged subgraph(): re-iterable results (lists, tuples) *)
Theorem if_orig_reiterable e t :
  (forall l, cb_beh e <> BOneShot l) -> (forall l, cb_beh t <> BOneShot l) -> if_orig e t = if_ e t.
Proof.
  intros H1 H2. unfold if_orig, if_, if_gen. fold subgraph subgraph_orig.
  rewrite (subgraph_orig_same [] e H1), (subgraph_orig_same [] t H2). reflexivity.
Qed.
Theorem ctor1_orig_reiterable k types body outv :
  (forall l, cb_beh body <> BOneShot l) -> ctor1 false k types body outv = ctor1 true k types body outv.
Proof.
  intros H. unfold ctor1. destruct types as [tys|]; [|reflexivity]. fold subgraph subgraph_orig.
  rewrite (subgraph_orig_same _ body H). reflexivity.
Qed.


(* ------------------------------------------------------------------------------------------------ any tree *)
(* "exactly once, in order" does not depend on the two repairs: it holds of the unchanged tree as well *)
Theorem callback_once_tree f13 f19 o oc tr :
  construct_gen f13 f19 o = Some (oc, tr) -> (forall e, oc <> OErr e) -> map fst tr = map cb_id (op_callbacks o).
Proof.
  intros Hc Hne. destruct o; cbn in Hc; inversion Hc as [H]; clear Hc.
  - unfold if_gen in H. destruct (subgraph_gen f19 [] else_branch) as [r1 t1] eqn:E1.
    destruct r1 as [g1|e1]; [|inversion H; subst; exfalso; eapply Hne; reflexivity].
    destruct (subgraph_gen f19 [] then_branch) as [r2 t2] eqn:E2.
    destruct r2 as [g2|e2]; [|inversion H; subst; exfalso; eapply Hne; reflexivity].
    inversion H; subst. destruct (subgraph_ok _ _ _ _ _ E1) as [a1 [_ [-> _]]].
    destruct (subgraph_ok _ _ _ _ _ E2) as [a2 [_ [-> _]]]. reflexivity.
  - destruct oc as [kk gs n|e]; [|exfalso; eapply Hne; reflexivity].
    unfold loop_gen in H. destruct (ctor1_node _ _ _ _ _ _ _ _ _ H) as [tys [g [_ [_ [_ [_ [_ ->]]]]]]]. reflexivity.
  - destruct oc as [kk gs n|e]; [|exfalso; eapply Hne; reflexivity].
    destruct (ctor1_node _ _ _ _ _ _ _ _ _ H) as [tys [g [_ [_ [_ [_ [_ ->]]]]]]]. reflexivity.
  - destruct oc as [kk gs n|e]; [|exfalso; eapply Hne; reflexivity].
    destruct (ctor1_node _ _ _ _ _ _ _ _ _ H) as [tys [g [_ [_ [_ [_ [_ ->]]]]]]]. reflexivity.
Qed.

(* subgraph() with something that is not a Type among the types: TypeError before anything is called *)
Theorem subgraph_bad_types mat types f : all_types types = None -> subgraph_gen mat types f = (Err EType, []).
Proof. intros H. unfold subgraph_gen. rewrite H. reflexivity. Qed.
Lemma all_types_none types : In None types -> all_types types = None.
Proof.
  induction types as [|t types IH]; intros H; [destruct H|]. destruct t as [t|]; [|reflexivity].
  destruct H as [H|H]; [discriminate|]. cbn. rewrite (IH H). reflexivity.
Qed.

Theorem subgraph_bad_types_in mat types f : In None types -> subgraph_gen mat types f = (Err EType, []).
Proof. intros H. apply subgraph_bad_types, all_types_none, H. Qed.

(* ------------------------------------------------------------------------------------------------ non-vacuity *)
Example scan_spec_example :   (* two states, two scanned values, one scanned along axis -1, one of unknown dims *)
  spec_scan [f32 [3%N]; Tensor 7%N None; Tensor 1%N (Some [DInt 5%N; DSym 0%N; DUnk]); f32 [4%N; 5%N]] 2 (Some [0; -1])
  = Some [f32 [3%N]; Tensor 7%N None; Tensor 1%N (Some [DSym 0%N; DUnk]); f32 [4%N]].
Proof. reflexivity. Qed.
Example seqmap_spec_example :
  spec_seqmap (Seq (f32 [2%N])) [f32 [3%N]; Seq (Tensor 7%N None)] = Some [f32 [2%N]; f32 [3%N]; Tensor 7%N None].
Proof. reflexivity. Qed.
Example malformed_example : malformed 3 (BOneShot [RArg 2; RNonVar; RArg 0]).
Proof. right. right. eexists. split; [reflexivity|]. split; [right; left; reflexivity|]. repeat constructor. Qed.
Example history_example :
  let body := mkcb 4 (BOneShot [RArg 1; RArg 2; RArg 0]) in
  let w := run_ops empty_world [OpLoop [Some (f32 [2%N])] body; OpBuild 0; OpSingleton 0; OpIf (mkcb 5 (BList [ROuter (f32 [])])) (mkcb 6 (BList [ROuter (f32 [])])); OpBuild 1; OpBuild 0] in
  map fst (w_trace w) = [4; 5; 6]%nat /\ List.length (w_built w) = 4%nat /\
  nth_error (w_nodes w) 0 = Some (ONode KLoop [mkgraph [Tensor 7%N (Some [DInt 1%N]); Tensor 9%N (Some [DInt 1%N]); f32 [2%N]]
                                                       [Tensor 9%N (Some [DInt 1%N]); f32 [2%N]; Tensor 7%N (Some [DInt 1%N])] 4] 2).
Proof. repeat split; reflexivity. Qed.
