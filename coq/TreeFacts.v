(* TreeFacts.v — order facts about the FINAL scope tree of build_main (on top of PlacementFacts): the ancestors of a graph are graphs
   processed no later than it; "encloses" is antisymmetric; the chain of ancestors of a graph is the chain of (graph, carrier) links compile
   descends along; the result node of every graph is placed in that graph. *)
From Coq Require Import List String NArith Arith Bool Lia.
From Spox Require Import Base IR Show Build Sem Plan Named Validate DfsFacts ReachFacts DiscoverFacts ScopeFacts EmitFacts CoverageFacts LcaFacts
                         PlacementFacts DefUseFacts BuildFacts.
Import ListNotations.
Open Scope list_scope.

Section Tree.
Variable p : prog.
Variable rank : nref -> nat.
Hypothesis Hrank : forall u v, In v (full_adj p u) -> rank v < rank u.
Hypothesis Hfuel : forall u, rank u < fuel_of p.
Variable main : nat.
Variable d : dstate.
Hypothesis Hd : discover (fuel_of p) p dstate0 main = inl d.

Let gt := rev (d_post d).
Let own := d_own d.
Let scf := scopes_of p d.
Notation parf := (parf p d).
Notation Anc := (Anc p d).

Lemma gtN : NoDup gt. Proof. exact (gt_NoDup p rank Hrank main d Hd). Qed.

(* going up from a graph at position |l1| stays within l1 ++ [h] *)
Lemma up_stays : forall n l1 h l2, List.length l1 <= n -> gt = l1 ++ h :: l2 -> forall k, In (up parf k h) (l1 ++ [h]).
Proof.
  induction n as [|n IH]; intros l1 h l2 Hn Egt k.
  - destruct l1; [|cbn in Hn; lia]. cbn [app]. induction k as [|k IHk]; [now left|]. cbn [up].
    destruct (parf_earlier p rank Hrank main d Hd [] h l2 Egt) as [E|[]]. rewrite E. exact IHk.
  - induction k as [|k IHk]; [apply in_or_app; right; now left|]. cbn [up].
    destruct (parf_earlier p rank Hrank main d Hd l1 h l2 Egt) as [E|Hin]; [rewrite E; exact IHk|].
    apply in_split in Hin. destruct Hin as [a [b Eab]].
    assert (Ha : List.length a <= n). { rewrite Eab, app_length in Hn. cbn in Hn. lia. }
    assert (E2 : gt = a ++ parf h :: (b ++ h :: l2)). { rewrite Egt, Eab, <- app_assoc. reflexivity. }
    pose proof (IH a (parf h) (b ++ h :: l2) Ha E2 k) as Hk. apply in_or_app. left. rewrite Eab.
    apply in_app_or in Hk. destruct Hk as [Hk|[<-|[]]]; apply in_or_app; [now left|right; now left].
Qed.

Lemma Anc_pos a h l1 l2 : gt = l1 ++ h :: l2 -> Anc a h -> In a (l1 ++ [h]).
Proof. intros Egt [k <-]. exact (up_stays (List.length l1) l1 h l2 (le_n _) Egt k). Qed.

Lemma Anc_in_gt a h : In h gt -> Anc a h -> In a gt.
Proof. intros Hh Ha. apply in_split in Hh. destruct Hh as [l1 [l2 E]]. pose proof (Anc_pos a h l1 l2 E Ha) as H.
  rewrite E. apply in_app_or in H. destruct H as [H|[<-|[]]]; apply in_or_app; [now left|right; now left]. Qed.

Theorem Anc_antisym a b : In b gt -> Anc a b -> Anc b a -> a = b.
Proof.
  intros Hb Hab Hba. pose proof (Anc_in_gt a b Hb Hab) as Ha.
  apply in_split in Hb. destruct Hb as [lb [rb Eb]]. apply in_split in Ha. destruct Ha as [la [ra Ea]].
  pose proof (Anc_pos a b lb rb Eb Hab) as H1. pose proof (Anc_pos b a la ra Ea Hba) as H2.
  apply in_app_or in H1. destruct H1 as [H1|[H1|[]]]; [|now symmetry].
  apply in_app_or in H2. destruct H2 as [H2|[H2|[]]]; [|exact H2].
  exfalso. apply in_split in H1. destruct H1 as [x [y Exy]].
  assert (E3 : gt = x ++ a :: (y ++ b :: rb)). { rewrite Eb, Exy, <- app_assoc. reflexivity. }
  assert (x = la). { eapply NoDup_split_unique; [rewrite <- E3; apply gtN|]. rewrite <- E3. exact Ea. } subst x.
  assert (Hnd : NoDup (la ++ a :: (y ++ b :: rb))) by (rewrite <- E3; apply gtN).
  eapply NoDup_app_disj; [exact Hnd|exact H2|]. right. apply in_or_app. right. now left.
Qed.

(* the parent of a graph carried by a node placed in g is g *)
Lemma parf_of_carried g o k h : In o (own_of_def p d main g) -> In (k, h) (subs_of p o) -> parf h = g.
Proof.
  intros Ho Hk. unfold own_of_def in Ho. apply filter_In in Ho. destruct Ho as [Hot Hos].
  destruct (lookup nref_eqb o (scopes_of p d)) as [s|] eqn:Es; [|discriminate]. apply Nat.eqb_eq in Hos. subst s.
  destruct (discover_facts p rank Hrank main d Hd) as [_ [_ [Hown _]]].
  assert (Hr : reach (full_adj p) (NIntro main) o) by (eapply postorder_sound; exact Hot).
  destruct (discovered_cover p rank Hrank main Hfuel d Hd o Hr) as [D [HD HoD]].
  destruct (Hown D HD o k h HoD Hk) as [Hl _].
  unfold PlacementFacts.parf, parent. rewrite Hl, Es. reflexivity.
Qed.

(* operands are NReal nodes: then the result node of a graph is traversed by that graph only, and is placed in it *)
Definition ins_real : Prop := forall u v, In v (deps p u) -> exists n, v = NReal n.

Lemma intro_only_own (Hreal : ins_real) g E : In (NIntro g) (trav p E) -> E = g.
Proof.
  intros H. apply postorder_sound in H. remember (NIntro E) as src eqn:Es. remember (NIntro g) as tgt eqn:Et.
  revert g Et. induction H as [|x y _ IH Hy]; intros g Et.
  - subst. now inversion Et.
  - subst y. destruct (Hreal _ _ Hy) as [n E']. discriminate E'.
Qed.

Theorem result_node_placed_in_its_graph (Hreal : ins_real) g : In g (d_post d) -> lookup nref_eqb (NIntro g) scf = Some g.
Proof.
  intros Hg.
  assert (Hdeps : forall a b, In b (deps p a) -> rank b < rank a) by (intros a b Hb; apply Hrank; now apply deps_full).
  assert (Hsrc : In (NIntro g) (trav p g)).
  { exact (proj2 (proj2 (postorder_spec (deps p) rank Hdeps (fuel_of p) (NIntro g) (Hfuel _)))). }
  destruct (sc_total p d (NIntro g) g Hg Hsrc) as [s Hs]. fold scf in Hs. rewrite Hs. f_equal.
  destruct (placement_is_lowest_common_ancestor p rank Hrank Hfuel main d Hd (NIntro g) s Hs) as [Ma [Mb _]].
  apply Anc_antisym; [now apply -> in_rev|now apply Ma|].
  apply Mb. intros E HE HuE. rewrite (intro_only_own Hreal g E HuE). apply Anc_refl.
Qed.
End Tree.
