(* TensorHeapFacts.v — proofs about TensorHeap.v (C10, "captured at the call"). *)
From Coq Require Import NArith ZArith List Bool String Lia.
From Spox Require Import Tensor TensorAttr TensorHeap.
Import ListNotations.
Open Scope N_scope.

(* ------------------------------------------------------------------ heap basics *)
Lemma mem_In o l : mem o l = true <-> In o l.
Proof.
  unfold mem. rewrite existsb_exists. split.
  - intros (x & Hx & E). apply N.eqb_eq in E. now subst.
  - intros H. exists o. split; [assumption|apply N.eqb_refl].
Qed.

Lemma lookup_not_in h o : ~ In o (dom h) -> lookup h o = None.
Proof.
  induction h as [|[o' ob] h IH]; [reflexivity|]. cbn. intros H.
  destruct (o' =? o) eqn:E; [apply N.eqb_eq in E; tauto|]. apply IH. tauto.
Qed.

Lemma max_ge h o : In o (dom h) -> o <= fold_right N.max 0 (dom h).
Proof.
  induction h as [|[o' ob] h IH]; cbn [dom map fst fold_right In]; [tauto|].
  intros [->|H]; [lia|]. specialize (IH H). unfold dom in IH. lia.
Qed.
Lemma fresh_not_in h : ~ In (fresh h) (dom h).
Proof. intros H. apply max_ge in H. unfold fresh in H. lia. Qed.

(* ------------------------------------------------------------------ privacy invariant *)
Definition refs (c : cap) : list oid := match c with CArr o | CListRef o => [o] | _ => [] end.
Definition inv (st : state) : Prop := forall o, In o (s_owned st) -> In o (dom (s_heap st)).
Definition private (st : state) (c : cap) : Prop :=
  forall o, In o (refs c) -> In o (dom (s_heap st)) /\ ~ In o (s_owned st).

Lemma state_ok_inv st : state_ok st = true -> inv st.
Proof. unfold state_ok, inv. rewrite forallb_forall. intros H o Ho. apply mem_In. now apply H. Qed.

(* st' extends st: same owner set, every existing object unchanged, nothing removed *)
Definition ext (st st' : state) : Prop :=
  s_owned st' = s_owned st /\
  (forall o, In o (dom (s_heap st)) -> lookup (s_heap st') o = lookup (s_heap st) o) /\
  (forall o, In o (dom (s_heap st)) -> In o (dom (s_heap st'))).

Lemma ext_refl st : ext st st.
Proof. repeat split; auto. Qed.
Lemma ext_trans a b c : ext a b -> ext b c -> ext a c.
Proof.
  intros (A1 & A2 & A3) (B1 & B2 & B3). repeat split.
  - congruence.
  - intros o Ho. rewrite B2 by auto. auto.
  - auto.
Qed.

Lemma ext_read st st' c : ext st st' -> private st c -> private st' c /\ read (s_heap st') c = read (s_heap st) c.
Proof.
  intros (E1 & E2 & E3) P. split.
  - intros o Ho. destruct (P o Ho) as [Hd Hn]. rewrite E1. auto.
  - destruct c as [o|l|v|o]; cbn [read]; try reflexivity; rewrite E2; auto; apply (P o); cbn; auto.
Qed.

Lemma ext_snapshot st st' a : inv st -> ext st st' -> arg_ok st a = true -> snapshot (s_heap st') a = snapshot (s_heap st) a.
Proof.
  intros I (E1 & E2 & E3) Ha. destruct a as [o|v]; [|reflexivity]. cbn in *. apply mem_In in Ha. rewrite E2; auto.
Qed.

Lemma ext_inv st st' : inv st -> ext st st' -> inv st'.
Proof. intros I (E1 & E2 & E3) o Ho. rewrite E1 in Ho. auto. Qed.

Lemma ext_arg_ok st st' a : ext st st' -> arg_ok st' a = arg_ok st a.
Proof. intros (E1 & _). destruct a; cbn; [now rewrite E1|reflexivity]. Qed.

(* ------------------------------------------------------------------ one capture (Copy) *)
Lemma capture_copy st a st' c : inv st -> capture Copy st a = (st', c) ->
  ext st st' /\ private st' c /\ read (s_heap st') c = snapshot (s_heap st) a.
Proof.
  intros I H. destruct a as [o|v]; cbn [capture] in H.
  2: { injection H as <- <-. split; [apply ext_refl|split; [intros ? []|reflexivity]]. }
  destruct (lookup (s_heap st) o) as [[t|l]|] eqn:L.
  - injection H as <- <-. pose proof (fresh_not_in (s_heap st)) as F.
    assert (X : forall o0, In o0 (dom (s_heap st)) -> (fresh (s_heap st) =? o0) = false).
    { intros o0 Ho. apply N.eqb_neq. intros E. rewrite <- E in Ho. tauto. }
    split; [|split].
    + unfold ext. cbn [s_heap s_owned dom map fst]. split; [reflexivity|split].
      * intros o0 Ho. cbn [lookup]. now rewrite X.
      * intros o0 Ho. now right.
    + intros o0 Ho. cbn in Ho. destruct Ho as [<-|[]]. cbn [s_heap s_owned dom map fst]. split; [now left|].
      intros Ho. apply F. now apply I.
    + cbn [read s_heap lookup snapshot]. rewrite N.eqb_refl. now rewrite L.
  - injection H as <- <-. split; [apply ext_refl|split; [intros ? []|]]. cbn. now rewrite L.
  - injection H as <- <-. split; [apply ext_refl|split; [intros ? []|]]. cbn. now rewrite L.
Qed.

Lemma capture_all_copy args : forall st st' caps, inv st -> forallb (arg_ok st) args = true ->
  capture_all Copy st args = (st', caps) ->
  ext st st' /\ Forall (private st') caps /\ observe st' caps = map (snapshot (s_heap st)) args.
Proof.
  induction args as [|a r IH]; intros st st' caps I Hok H.
  - injection H as <- <-. split; [apply ext_refl|split; [constructor|reflexivity]].
  - cbn [capture_all] in H. destruct (capture Copy st a) as [st1 c] eqn:C1.
    destruct (capture_all Copy st1 r) as [st2 cs] eqn:C2. injection H as <- <-.
    cbn [forallb] in Hok. apply andb_prop in Hok. destruct Hok as [Ha Hr].
    destruct (capture_copy _ _ _ _ I C1) as (E1 & P1 & R1).
    assert (I1 : inv st1) by (eapply ext_inv; eauto).
    assert (Hr1 : forallb (arg_ok st1) r = true).
    { rewrite forallb_forall in *. intros x Hx. rewrite (ext_arg_ok _ _ _ E1). auto. }
    destruct (IH _ _ _ I1 Hr1 C2) as (E2 & P2 & R2).
    destruct (ext_read _ _ _ E2 P1) as [P1' R1'].
    split; [|split].
    + eapply ext_trans; eauto.
    + constructor; assumption.
    + unfold observe in *. cbn [map]. rewrite R1', R1, R2. f_equal.
      apply map_ext_in. intros x Hx. apply ext_snapshot; auto. rewrite forallb_forall in Hr. auto.
Qed.

(* ------------------------------------------------------------------ caller steps preserve private things *)
Lemma step_private st m c : inv st -> scoped1 st m = true -> private st c ->
  inv (step st m) /\ private (step st m) c /\ read (s_heap (step st m)) c = read (s_heap st) c.
Proof.
  intros I S P.
  assert (K : forall o ob, In o (s_owned st) \/ o = fresh (s_heap st) ->
              let st' := mkS ((o, ob) :: s_heap st) (s_owned st) in
              private st' c /\ read (s_heap st') c = read (s_heap st) c).
  { intros o ob Ho. cbn zeta. split.
    - intros r Hr. destruct (P r Hr) as [Hd Hn]. cbn. auto.
    - destruct c as [r|l|v|r]; cbn [read s_heap lookup]; try reflexivity.
      all: destruct (P r (or_introl eq_refl)) as [Hd Hn].
      all: assert (E : (o =? r) = false) by (apply N.eqb_neq; intros ->; destruct Ho as [Ho|Ho]; [tauto|subst; now apply (fresh_not_in (s_heap st))]).
      all: now rewrite E. }
  destruct m as [o i w|o i s|o w|o d|o d|o t|o v|o|o i v|o|o l|o|o i v|o ob|ob]; cbn [step target]; cbn [scoped1 target] in S.
  15: { (* MAlloc *)
    destruct (K (fresh (s_heap st)) ob (or_intror eq_refl)) as [K1 K2]. split; [|split].
    - intros o [<-|Ho]; cbn; auto.
    - intros r Hr. destruct (K1 r Hr) as [Hd Hn]. split; [exact Hd|]. cbn. intros [E|Ho].
      + destruct (P r Hr) as [Hd' _]. rewrite <- E in Hd'. now apply (fresh_not_in (s_heap st)).
      + destruct (P r Hr) as [_ Hn']. tauto.
    - exact K2. }
  all: apply mem_In in S.
  all: match goal with S : In ?o _ |- _ => destruct (lookup (s_heap st) o) eqn:L end; [|split; [exact I|split; [exact P|reflexivity]]].
  all: match goal with S : In ?o _ |- context [mkS ((?o, ?x) :: _) _] => destruct (K o x (or_introl S)) as [K1 K2] end.
  all: split; [intros r Hr; cbn; right; now apply I|split; [exact K1|exact K2]].
Qed.

Lemma run_private ms : forall st cs, inv st -> scoped st ms = true -> Forall (private st) cs ->
  observe (run st ms) cs = observe st cs /\ Forall (private (run st ms)) cs /\ inv (run st ms).
Proof.
  induction ms as [|m r IH]; intros st cs I S P; [auto|].
  cbn [scoped] in S. apply andb_prop in S. destruct S as [S1 S2]. cbn [run fold_left]. fold (run (step st m) r).
  assert (P' : Forall (private (step st m)) cs /\ observe (step st m) cs = observe st cs).
  { clear IH S2. induction P as [|c cs Pc Pcs IHP]; [split; [constructor|reflexivity]|].
    destruct (step_private _ _ _ I S1 Pc) as (_ & A & B). destruct IHP as [C D].
    split; [now constructor|]. unfold observe in *. cbn [map]. now rewrite B, D. }
  destruct P' as [P1 O1]. destruct cs as [|c0 cs0].
  - assert (I' : inv (step st m)).
    { destruct (step_private st m (CImm PNone) I S1) as (A & _); [intros ? []|exact A]. }
    destruct (IH _ [] I' S2 (Forall_nil _)) as (A & B & C). auto.
  - assert (I' : inv (step st m)).
    { inversion P; subst. now destruct (step_private st m c0 I S1) as (A & _). }
    destruct (IH _ _ I' S2 P1) as (A & B & C). rewrite A, O1. auto.
Qed.

(* ------------------------------------------------------------------ the property *)
Theorem captured_at_call fixed st c st' n :
  state_ok st = true -> call_ok st c = true -> construct Copy fixed st c = (st', n) ->
  forall ms, scoped st' ms = true -> build (run st' ms) n = expected fixed st c.
Proof.
  intros Hok Hc H ms S. apply state_ok_inv in Hok. unfold call_ok in Hc. apply andb_prop in Hc. destruct Hc as [Ha Hi].
  unfold construct in H. destruct (capture_all Copy st (map snd (k_attrs c))) as [st1 caps] eqn:C1.
  destruct (capture_all_copy _ _ _ _ Hok Ha C1) as (E1 & P1 & O1).
  assert (I1 : inv st1) by (eapply ext_inv; eauto).
  destruct (match k_inputs c with Some o => capture Copy st1 (ARef o) | None => (st1, CTuple []) end) as [st2 cin] eqn:C2.
  injection H as <- <-.
  assert (X : ext st1 st2 /\ private st2 cin /\
              read (s_heap st2) cin = match k_inputs c with Some o => snapshot (s_heap st) (ARef o) | None => PList [] end).
  { destruct (k_inputs c) as [o|].
    - destruct (capture_copy _ _ _ _ I1 C2) as (A & B & D). split; [exact A|split; [exact B|]]. rewrite D.
      apply (ext_snapshot st st1 (ARef o)); auto.
    - injection C2 as <- <-. split; [apply ext_refl|split; [intros ? []|reflexivity]]. }
  destruct X as (E2 & Pin & Rin).
  assert (I2 : inv st2) by (eapply ext_inv; eauto).
  assert (P2 : Forall (private st2) (cin :: caps)).
  { constructor; [exact Pin|]. eapply Forall_impl; [|exact P1]. intros a Pa. now destruct (ext_read _ _ _ E2 Pa). }
  assert (O2 : observe st2 caps = observe st1 caps).
  { unfold observe. apply map_ext_in. intros a Hin. rewrite Forall_forall in P1. now destruct (ext_read _ _ _ E2 (P1 a Hin)). }
  destruct (run_private ms st2 (cin :: caps) I2 S P2) as (A & _ & _).
  unfold observe in A. cbn [map] in A. injection A as A1 A2.
  unfold build, expected. cbn [n_cached n_caps n_in]. cbv zeta.
  unfold observe at 2. rewrite A1, A2. fold (observe st2 caps). rewrite O2, O1, Rin. reflexivity.
Qed.

(* the cached AttributeProtos are, in particular, those of the values at the call; the live values are the snapshots *)
Corollary captured_tensor_attr fixed st o t name st' n :
  state_ok st = true -> mem o (s_owned st) = true -> lookup (s_heap st) o = Some (OArr t) ->
  construct Copy fixed st (mkCall [(ATensor, name, ARef o)] None) = (st', n) ->
  forall ms, scoped st' ms = true ->
  b_attrs (build (run st' ms) n) = [make_attr fixed ATensor name (PArr t)] /\ b_live (build (run st' ms) n) = [PArr t].
Proof.
  intros Hok Ho L H ms S.
  assert (Hc : call_ok st (mkCall [(ATensor, name, ARef o)] None) = true).
  { unfold call_ok, arg_ok. cbn [k_attrs k_inputs map snd forallb]. now rewrite Ho. }
  rewrite (captured_at_call fixed st _ st' n Hok Hc H ms S).
  unfold expected. cbn [k_attrs k_inputs map snd fst zip_attr snapshot b_attrs b_live]. rewrite L. cbn [obj_val]. auto.
Qed.

(* ------------------------------------------------------------------ non-vacuity: a constructor that keeps the caller's
   object violates the property, for arrays and for lists (variadic inputs included) *)
Definition st_demo : state :=
  mkS [(2, OList [PVar 7; PVar 8]); (1, OArr (mkT I64 [2] (PNum [1; 2])))] [1; 2].
Definition call_demo : call := mkCall [(ATensor, "value"%string, ARef 1)] (Some 2).

Theorem alias_refuted :
  exists ms, state_ok st_demo = true /\ call_ok st_demo call_demo = true /\
    let '(st', n) := construct Alias true st_demo call_demo in
    scoped st' ms = true /\
    b_live (build (run st' ms) n) <> b_live (expected true st_demo call_demo) /\
    b_inputs (build (run st' ms) n) <> b_inputs (expected true st_demo call_demo).
Proof. exists [MWrite 1 0 5; LAppend 2 (PVar 9)]. vm_compute. repeat split; try reflexivity; discriminate. Qed.

(* without the scoping hypothesis (a caller reaching into the attribute's private copy) nothing can be promised *)
Theorem unscoped_refuted :
  exists ms, let '(st', n) := construct Copy true st_demo call_demo in
    scoped st' ms = false /\ b_live (build (run st' ms) n) <> b_live (expected true st_demo call_demo).
Proof. exists [MWrite 3 0 5]. vm_compute. split; [reflexivity|discriminate]. Qed.

Example captured_example :
  let ms := [MWrite 1 0 5; MResize 1 [3; 1]; MAlloc (OList []); LAppend 4 (PInt 3); LClear 2; MReshape 1 [1; 3]; MSetArr 1 (mkT F32 [] (PNum [0]))] in
  let '(st', n) := construct Copy true st_demo call_demo in
  scoped st' ms = true /\
  obj_val (lookup (s_heap (run st' ms)) 1) = PArr (mkT F32 [] (PNum [0])) /\          (* the caller's array did change *)
  obj_val (lookup (s_heap (run st' ms)) 2) = PList [] /\
  build (run st' ms) n = expected true st_demo call_demo /\
  b_live (build (run st' ms) n) = [PArr (mkT I64 [2] (PNum [1; 2]))] /\
  b_inputs (build (run st' ms) n) = PList [PVar 7; PVar 8].
Proof. vm_compute. repeat split; reflexivity. Qed.
