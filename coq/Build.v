(* Build.v — executable model of spox.build (src/spox/_public.py build, _build.py Builder, _scope.py, _graph.py
   to_onnx / to_onnx_model, _node.py to_onnx, _internal_op.py), transcribed step by step from the code:
     discover (argument sets, owners, parents-first graph order, the four BuildErrors)
     update_scope_tree with the alternating-walk LCA, resolve_scopes (one global DFS postorder, partitioned per owner)
     compile_graph (Scope.update naming with shared counters, Node.to_onnx emission, recursive subgraphs)
     value infos (TypeError / ValueError for untyped / rank-less inputs and outputs), opset policy,
     the final structural check (what onnx.checker enforces structurally), the additional-inputs KeyError.
   No proofs in this file. *)
From Coq Require Import List String NArith Arith Bool Ascii.
From Spox Require Import Base IR Show.
Import ListNotations.
Open Scope string_scope.

(* ---------- dependencies ---------- *)
Definition deps (p : prog) (u : nref) : list nref :=
  match u with
  | NReal n => flat_map (fun ov => match ov with Some v => [vnode v] | None => [] end) (ins (getn p n))
  | NIntro g => map (fun kv => vnode (snd kv)) (gres (getg p g))
  end.
Definition subs_of (p : prog) (u : nref) : list (string * nat) :=
  match u with NReal n => subs (getn p n) | NIntro _ => [] end.
Definition is_arg (p : prog) (u : nref) : bool :=
  match u with NReal n => match kind (getn p n) with KArg => true | _ => false end | NIntro _ => false end.
Definition full_adj (p : prog) (u : nref) : list nref :=
  (deps p u ++ map (fun kg => NIntro (snd kg)) (subs_of p u))%list.

(* recursive DFS postorder (= iterative_dfs), fuel-bounded; state = (visited, postorder) *)
Fixpoint dfs (fuel : nat) (adj : nref -> list nref) (st : list nref * list nref) (u : nref) : list nref * list nref :=
  match fuel with O => st | S f =>
    if mem nref_eqb u (fst st) then st else
    let st1 := fold_left (dfs f adj) (adj u) (u :: fst st, snd st) in
    (fst st1, (snd st1 ++ [u])%list)
  end.
Definition postorder (fuel : nat) (adj : nref -> list nref) (src : nref) : list nref := snd (dfs fuel adj ([], []) src).
Definition fuel_of (p : prog) : nat := List.length (nodes p) + List.length (graphs p) + 1.

(* ---------- discovery ---------- *)
Record dstate := {
  d_vis : list nat;                     (* Builder.graphs *)
  d_post : list nat;                    (* graph_topo before the reverse *)
  d_own : list (nat * nref);            (* scope_tree.subgraph_owner *)
  d_all : list (nat * list var);        (* all_arguments_in *)
  d_claimed : list (nat * list var);    (* claimed_arguments_in *)
  d_args : list (nat * list var)        (* arguments_of *)
}.
Definition dstate0 : dstate := {| d_vis := []; d_post := []; d_own := []; d_all := []; d_claimed := []; d_args := [] |}.
Definition getl {A} (g : nat) (l : list (nat * list A)) : list A := match lookup Nat.eqb g l with Some x => x | None => [] end.
Definition argvar (u : nref) : var := V u 0.

Fixpoint discover (fuel : nat) (p : prog) (st : dstate) (g : nat) : res dstate :=
  match fuel with O => raise EFuel | S f =>
    if mem Nat.eqb g (d_vis st) then ret st else
    if match gres (getg p g) with [] => true | _ => false end then raise EBuild else
    let st0 := {| d_vis := g :: d_vis st; d_post := d_post st; d_own := d_own st; d_all := d_all st;
                  d_claimed := d_claimed st; d_args := d_args st |} in
    let nodes_post := postorder (fuel_of p) (deps p) (NIntro g) in
    (* collect_arguments, in postorder; acc = (state, all, claimed, used) *)
    do r <- foldM (fun (acc : dstate * list var * list var * list var) (nd : nref) =>
              let '(st, all, claimed, used) := acc in
              let '(all, used) := if is_arg p nd then (add_set var_eqb (argvar nd) all, add_set var_eqb (argvar nd) used)
                                  else (all, used) in
              foldM (fun (acc : dstate * list var * list var * list var) (kg : string * nat) =>
                  let '(st, all, claimed, used) := acc in
                  do st' <- discover f p st (snd kg) ;;
                  let all' := union var_eqb all (getl (snd kg) (d_all st')) in
                  let claimed' := union var_eqb claimed (getl (snd kg) (d_claimed st')) in
                  match lookup Nat.eqb (snd kg) (d_own st') with
                  | None => ret ({| d_vis := d_vis st'; d_post := d_post st'; d_own := ((snd kg, nd) :: d_own st')%list;
                                    d_all := d_all st'; d_claimed := d_claimed st'; d_args := d_args st' |}, all', claimed', used)
                  | Some o => if nref_eqb o nd then ret (st', all', claimed', used) else raise EBuild
                  end) (subs_of p nd) (st, all, claimed, used))
            nodes_post (st0, [], [], []) ;;
    let '(st1, all, claimed, used) := r in
    let '(all, args) := match gargs (getg p g) with
                        | None => (all, diff var_eqb all claimed)
                        | Some l => (union var_eqb all l, l) end in
    if match inter var_eqb args claimed with [] => false | _ => true end then raise EBuild else
    if match inter var_eqb claimed used with [] => false | _ => true end then raise EBuild else
    let claimed := union var_eqb claimed args in
    ret {| d_vis := d_vis st1; d_post := (d_post st1 ++ [g])%list; d_own := d_own st1;
           d_all := (g, all) :: d_all st1; d_claimed := (g, claimed) :: d_claimed st1; d_args := (g, args) :: d_args st1 |}
  end.

(* ---------- scope tree (algorithm of the code: incremental relaxation with the alternating-walk LCA) ---------- *)
Definition parent (own : list (nat * nref)) (sc : list (nref * nat)) (g : nat) : nat :=
  match lookup Nat.eqb g own with
  | Some o => match lookup nref_eqb o sc with Some s => s | None => g end
  | None => g end.
Fixpoint lca (fuel : nat) own sc (a b : nat) (va vb : list nat) : nat :=
  match fuel with O => a | S f =>
    if mem Nat.eqb a vb then a else lca f own sc b (parent own sc a) vb (a :: va)
  end.
Definition update_scope_tree (p : prog) own (sc : list (nref * nat)) (g : nat) : list (nref * nat) :=
  let F := fuel_of p in
  fold_left (fun sc nd =>
     let cur := match lookup nref_eqb nd sc with Some s => s | None => g end in
     set_assoc nref_eqb nd (lca (2 * F) own sc g cur [g] [cur]) sc)
   (postorder F (deps p) (NIntro g)) sc.

(* ---------- naming (ScopeSpace / Scope.update) ---------- *)
Definition counters := list (string * N).
Definition enum (c : counters) (base : string) : string * counters :=
  let i := match lookup String.eqb base c with Some i => i | None => 0%N end in
  (base ++ "_" ++ dec i, set_assoc String.eqb base (i + 1)%N c).
Definition maybe_enum (c : counters) (base : string) : string * counters :=
  match lookup String.eqb base c with
  | None => (base, set_assoc String.eqb base 0%N c)
  | Some _ => enum c base end.

Record scope := { vname : list (var * string); nname : list (nref * string); vcnt : counters; ncnt : counters;
                  reserved : list string }.
Definition scope0 : scope := {| vname := []; nname := []; vcnt := []; ncnt := []; reserved := [] |}.
Definition with_vname s x := {| vname := x; nname := nname s; vcnt := vcnt s; ncnt := ncnt s; reserved := reserved s |}.
Definition with_nname s x := {| vname := vname s; nname := x; vcnt := vcnt s; ncnt := ncnt s; reserved := reserved s |}.
Definition with_vcnt s x := {| vname := vname s; nname := nname s; vcnt := x; ncnt := ncnt s; reserved := reserved s |}.
Definition with_ncnt s x := {| vname := vname s; nname := nname s; vcnt := vcnt s; ncnt := x; reserved := reserved s |}.
Definition with_reserved s x := {| vname := vname s; nname := nname s; vcnt := vcnt s; ncnt := ncnt s; reserved := x |}.

(* ScopeSpace.__setitem__ on the value namespace.  `key in self` is true for reserved names too, and then
   `self[key]` raises KeyError (reserved names have no object) *)
Definition set_var (s : scope) (v : var) (name : string) : res scope :=
  match find (fun kv => String.eqb name (snd kv)) (vname s) with
  | Some (v', _) => if var_eqb v v' then ret s else raise EScope
  | None =>
    if mem String.eqb name (reserved s) then raise EKey else
    match lookup var_eqb v (vname s) with
    | Some _ => raise EScope
    | None => ret (with_vname s (vname s ++ [(v, name)])%list) end end.
Definition set_node (s : scope) (n : nref) (name : string) : res scope :=
  match find (fun kv => String.eqb name (snd kv)) (nname s) with
  | Some (n', _) => if nref_eqb n n' then ret s else raise EScope
  | None => match lookup nref_eqb n (nname s) with
            | Some _ => raise EScope
            | None => ret (with_nname s (nname s ++ [(n, name)])%list) end end.

Definition node_ident (p : prog) (u : nref) : string :=
  match u with
  | NReal n => match kind (getn p n) with
               | KArg => "Argument" | KInit => "Initializer" | KInline _ _ => "Inline" | _ => ident (getn p n) end
  | NIntro _ => "Introduce" end.
Definition node_outs (p : prog) (u : nref) : list string :=
  match u with
  | NReal n => outs (getn p n)
  | NIntro g => map (fun i => "outputs_" ++ decn i) (seqn 0 (List.length (gres (getg p g)))) end.

(* Var._name during the build: names set before the build (reflected), overridden by build()'s temporary renames
   of the inputs, and the main graph's result identities named after the requested outputs *)
Definition names := list (var * string).
Definition pre_name (p : prog) (v : var) : option string :=
  match v with V (NReal n) o => nth o (vnames (getn p n)) None | _ => None end.
Definition var_name (p : prog) (un : names) (v : var) : option string :=
  match lookup var_eqb v un with Some n => Some n | None => pre_name p v end.

Definition scope_update (p : prog) (un : names) (s : scope) (u : nref) (prefix : string) : res scope :=
  let '(nm, nc) := enum (ncnt s) (prefix ++ node_ident p u) in
  do s1 <- set_node (with_ncnt s nc) u nm ;;
  foldM (fun (s : scope) (io : nat * string) =>
    let v := V u (fst io) in
    match var_name p un v with
    | Some n => set_var s v n
    | None => let '(n, vc) := maybe_enum (vcnt s) (nm ++ "_" ++ snd io) in set_var (with_vcnt s vc) v n end)
    (combine (seqn 0 (List.length (node_outs p u))) (node_outs p u)) s1.

(* ---------- emission ---------- *)
Fixpoint trim (min : nat) (l : list string) : list string :=      (* drop trailing "" while length > min *)
  match l with [] => [] | x :: t =>
    let t' := trim (pred min) t in
    match t' with [] => if (String.eqb x "" && Nat.eqb min 0)%bool then [] else [x] | _ => x :: t' end end.

Definition vlook (s : scope) (v : var) : res string :=
  match lookup var_eqb v (vname s) with Some n => ret n | None => raise EKey end.
Definition nlook (s : scope) (u : nref) : res string :=
  match lookup nref_eqb u (nname s) with Some n => ret n | None => raise EKey end.

Definition vty (p : prog) (v : var) : option tinfo :=
  match v with
  | V (NReal n) o => nth o (vtys (getn p n)) None
  | V (NIntro g) i => match nth_error (gres (getg p g)) i with
                      | Some (_, V (NReal n) o) => nth o (vtys (getn p n)) None
                      | _ => None end
  end.

(* value infos of a graph's arguments / results; to_onnx(concrete) *)
(* [mode]: Some true = Graph.to_onnx(concrete=True) (the main graph of the model), Some false = a subgraph (types need not be
   concrete), None = no value infos at all: a function body is only compiled (Function.to_onnx_function takes the nodes of the
   build result; a FunctionProto carries no types, so nothing is required of the types of the body's arguments and results) *)
Definition value_info (p : prog) (mode : option bool) (s : scope) (v : var) : res (string * string) :=
  do nm <- vlook s v ;;
  match mode with
  | None => ret (nm, "")
  | Some concrete =>
    match vty p v with
    | None => raise EType                                       (* Var.unwrap_type on an untyped Var *)
    | Some t => if (concrete && negb (tconcrete t))%bool then raise EValue else ret (nm, tshow t)
    end
  end.

(* opset requirements *)
Definition req := list (string * nat).
Definition req_eqb (a b : string * nat) := String.eqb (fst a) (fst b) && Nat.eqb (snd a) (snd b).
Definition INTERNAL_MIN_OPSET := 14.
(* the result identity of a graph: Identity accepts OPTIONAL values only from opset 16 on (the reflector renders an Optional type
   as "opt(...)") *)
Definition is_optional (t : tinfo) : bool := String.prefix "opt(" (tshow t).
Definition intro_version (p : prog) (g : nat) : nat :=
  if existsb (fun kv => match vty p (snd kv) with Some t => is_optional t | None => false end) (gres (getg p g)) then 16 else INTERNAL_MIN_OPSET.
Definition node_req (p : prog) (u : nref) : req :=
  match u with
  | NIntro g => [("", intro_version p g)]
  | NReal n => match kind (getn p n) with
               | KArg | KInit => []
               | KInline _ imps => (imps ++ [("", INTERNAL_MIN_OPSET)])%list
               | _ => [(domain (getn p n), version (getn p n))] end end.

(* ---------- inlined models: _Inline.to_onnx / rename_in_graph ---------- *)
Fixpoint index_last (x : string) (l : list string) (i : nat) (acc : option nat) : option nat :=
  match l with [] => acc | y :: t => index_last x t (S i) (if String.eqb x y then Some i else acc) end.
Definition rstate := (scope * list (string * string) * list (string * string))%type.   (* scope, inner_renames, inner_node_renames *)

(* reserve_prefixed of _Inline.to_onnx: the prefixed name, enumerated until it is neither reserved nor the name of a Var (the
   enumerated name of one inner name may be the plain name of another one).  Every round produces a new name (the counter of
   [base] grows), so |taken names| + 1 rounds always suffice; the fuel is never exhausted. *)
Definition name_taken (sc : scope) (r : string) : bool :=
  (mem String.eqb r (reserved sc) || mem String.eqb r (map snd (vname sc)))%bool.
Fixpoint reserve_free (fuel : nat) (base r : string) (sc : scope) : res (string * scope) :=
  if name_taken sc r then
    match fuel with
    | O => raise EFuel
    | S f => let '(r', vc') := enum (vcnt sc) base in reserve_free f base r' (with_vcnt sc vc')
    end
  else ret (r, with_reserved sc (reserved sc ++ [r])%list).
Definition reserve_prefixed (nm : string) (sc : scope) (name : string) : res (string * scope) :=
  if String.eqb name "" then ret ("", sc) else
  let base := (nm ++ "__" ++ name)%string in
  let '(r, vc) := maybe_enum (vcnt sc) base in
  reserve_free (S (List.length (reserved sc) + List.length (vname sc))) base r (with_vcnt sc vc).

Section Inline.
Variable nm : string.                    (* scope.node[self] *)
Variable u : nref.
Variable operands : list (option var).   (* self.inputs.inputs *)
Variable in_names out_names : list string.

Definition rename_val (st : rstate) (name : string) : res (string * rstate) :=
  let '(sc, vt, nt) := st in
  match index_last name in_names 0 None with
  | Some i => match nth i operands None with Some v => do r <- vlook sc v ;; ret (r, st) | None => raise EKey end
  | None =>
    match index_last name out_names 0 None with
    | Some k => do r <- vlook sc (V u k) ;; ret (r, st)
    | None =>
      match lookup String.eqb name vt with
      | Some r => ret (r, st)
      | None => do rs <- reserve_prefixed nm sc name ;; ret (fst rs, (snd rs, ((name, fst rs) :: vt)%list, nt))
      end end end.
Definition rename_node (st : rstate) (name : string) : res (string * rstate) :=
  let '(sc, vt, nt) := st in
  if String.eqb name "" then ret ("", st) else
  match lookup String.eqb name nt with
  | Some r => ret (r, st)
  | None => do rs <- reserve_prefixed nm sc name ;; ret (fst rs, (snd rs, vt, ((name, fst rs) :: nt)%list))
  end.
Fixpoint mapS {A} (f : rstate -> A -> res (string * rstate)) (st : rstate) (l : list A) : res (list string * rstate) :=
  match l with [] => ret ([], st) | x :: t => do r <- f st x ;; do r2 <- mapS f (snd r) t ;; ret (fst r :: fst r2, snd r2) end.

Fixpoint rename_onode (st : rstate) (n : onode) {struct n} : res (mraw * rstate) :=
  match n with ONode name op dom i o sl =>
    do rn <- rename_node st name ;;
    do ri <- mapS rename_val (snd rn) i ;;
    do ro <- mapS rename_val (snd ri) o ;;
    do rs <- (fix go (st : rstate) (l : list (string * option ograph)) {struct l} : res (list (string * option mrawgraph) * rstate) :=
               match l with
               | [] => ret ([], st)
               | (k, Some g) :: t => do rg <- rename_ograph st g ;; do rt <- go (snd rg) t ;; ret ((k, Some (fst rg)) :: fst rt, snd rt)
               | (k, None) :: t => do rt <- go st t ;; ret ((k, None) :: fst rt, snd rt)
               end) (snd ro) sl ;;
    ret (MRaw (fst rn) op dom (fst ri) (fst ro) (fst rs), snd rs)
  end
with rename_ograph (st : rstate) (g : ograph) {struct g} : res (mrawgraph * rstate) :=
  match g with OGraph gi ginit body go_ vi =>
    do ri <- mapS rename_val st gi ;;
    do rinit <- mapS rename_val (snd ri) ginit ;;
    do rb <- (fix go (st : rstate) (l : list onode) {struct l} : res (list mraw * rstate) :=
               match l with
               | [] => ret ([], st)
               | n :: t => do rn <- rename_onode st n ;; do rt <- go (snd rn) t ;; ret (fst rn :: fst rt, snd rt)
               end) (snd rinit) body ;;
    do ro <- mapS rename_val (snd rb) go_ ;;
    do rv <- mapS rename_val (snd ro) vi ;;
    ret (MRawGraph (fst ri) (fst rinit) (fst rb) (fst ro), snd rv)
  end.
End Inline.


(* what the outer build needs to know about a function body built by its own Builder (fresh Scope) *)
Record fdesc := { fd_node : nat; fd_domain : string; fd_name : string; fd_inputs : list string; fd_outputs : list string;
                  fd_attrs : list string; fd_body : list mnode; fd_req : req; fd_bodyid : nat; fd_vals : string }.

Section Compile.
Variable p : prog.
Variable un : names.
Variable args_of : nat -> list var.
Variable own_of : nat -> list nref.   (* scope_own *)
Variable fbuild : nat -> nat -> res (list mnode * req * list fdesc).   (* node, body graph ↦ body nodes, body requirements, nested functions *)

(* the attribute VALUES (digests supplied by the reflection) of every node a function body consists of, in traversal order:
   two FunctionProtos that render alike but hold, say, different Constant tensors are different definitions *)
Definition body_values (body : nat) : string :=
  String.concat ";" (flat_map (fun u => match u with
                                         | NReal n => flat_map (fun ka => match snd ka with AVal r => [r] | AGraph _ => [] end) (attrs (getn p n))
                                         | NIntro _ => [] end)
                              (postorder (2 * fuel_of p) (full_adj p) (NIntro body))).

(* one step of compile_graph's loop over the nodes of a scope; [rec] compiles a subgraph (= compile with less fuel) *)
Definition compile_step (rec : scope -> nat -> string -> option bool -> res (mgraph * scope * req * list fdesc)) (prefix : string)
    (acc : list mnode * scope * req * list fdesc * list fdesc) (u : nref) : res (list mnode * scope * req * list fdesc * list fdesc) :=
      let '(ms, s, rq, fs, sfs) := acc in
      if is_arg p u then ret acc else
      match u with
      | NIntro g' =>
          let rq := union req_eqb rq (node_req p u) in
          do s2 <- scope_update p un s u prefix ;;
          do nm <- nlook s2 u ;;
          do i <- mapM (fun kv : string * var => vlook s2 (snd kv)) (gres (getg p g')) ;;
          do o <- mapM (fun k => vlook s2 (V u k)) (seqn 0 (List.length (gres (getg p g')))) ;;
          ret ((ms ++ [MIntro nm u i o])%list, s2, rq, fs, sfs)
      | NReal n =>
          let nd := getn p n in
          (* update_metadata (opset requirements, functions) comes before Scope.update *)
          do meta <- match kind nd with
                     | KFunc body _ _ _ =>
                         do b <- fbuild n body ;;
                         let '(bnodes, brq, bfs) := b in
                         ret (union req_eqb (union req_eqb rq [(domain nd, version nd)]) brq,
                              (fs ++ {| fd_node := n; fd_domain := domain nd; fd_name := ident nd;
                                        fd_inputs := match kind nd with KFunc _ a _ _ => a | _ => [] end;
                                        fd_outputs := match kind nd with KFunc _ _ b _ => b | _ => [] end;
                                        fd_attrs := match kind nd with KFunc _ _ _ c => c | _ => [] end;
                                        fd_body := bnodes; fd_req := brq; fd_bodyid := body;
                                        fd_vals := body_values body |} :: bfs)%list)
                     | _ => ret (union req_eqb rq (node_req p u), fs)
                     end ;;
          let '(rq, fs) := meta in
          do s2 <- scope_update p un s u prefix ;;
          match kind nd with
          | KArg => ret acc
          | KInit => do o <- vlook s2 (V u 0) ;; ret ((ms ++ [MInit o u])%list, s2, rq, fs, sfs)
          | KInline om _ =>
            do nm <- nlook s2 u ;;
            match om with OGraph gi _ body go_ vi =>
              let rv := rename_val nm u (ins nd) gi go_ in
              do ri <- mapS rv (s2, [], []) gi ;;
              do rb <- (fix go (st : rstate) (l : list onode) {struct l} : res (list mraw * rstate) :=
                         match l with
                         | [] => ret ([], st)
                         | n :: t => do rn <- rename_onode nm u (ins nd) gi go_ st n ;; do rt <- go (snd rn) t ;; ret (fst rn :: fst rt, snd rt)
                         end) (snd ri) body ;;
              do ro <- mapS rv (snd rb) go_ ;;
              do rvi <- mapS rv (snd ro) vi ;;
              let s3 := fst (fst (snd rvi)) in
              (* pass-through outputs (an output that is also an input) are defined by an Identity *)
              do ids <- mapM (fun k =>
                          let name := nth k go_ "" in
                          match index_last name go_ 0 None, index_last name gi 0 None with
                          | Some k', Some i =>
                              if Nat.eqb k k' then
                                match nth i (ins nd) None with
                                | Some v => do a <- vlook s3 v ;; do b <- vlook s3 (V u k) ;; ret [MRaw "" "Identity" "" [a] [b] []]
                                | None => raise EKey end
                              else ret []
                          | _, _ => ret [] end) (seqn 0 (List.length go_)) ;;
              do inn <- mapM (fun ov => match ov with Some v => vlook s3 v | None => ret "" end) (ins nd) ;;
              do outn <- mapM (fun i => vlook s3 (V u i)) (seqn 0 (List.length (outs nd))) ;;
              ret ((ms ++ [MInline nm u inn outn (fst rb ++ List.concat ids)%list])%list, s3, rq, fs, sfs)
            end
          | KOp | KFunc _ _ _ _ =>
            do nm <- nlook s2 u ;;
            do inn <- mapM (fun ov => match ov with Some v => vlook s2 v | None => ret "" end) (ins nd) ;;
            do outn <- mapM (fun i => vlook s2 (V u i)) (seqn 0 (List.length (outs nd))) ;;
            do sg <- foldM (fun (acc : list (string * option mgraph) * scope * req * list fdesc) (ka : string * attrv) =>
                     let '(l, s, rq, fs) := acc in
                     match snd ka with
                     | AVal _ => ret ((l ++ [(fst ka, None)])%list, s, rq, fs)
                     | AGraph sub =>
                       do r <- rec s sub (nm ++ "_" ++ fst ka ++ "__") (Some false) ;;
                       let '(mg, s', rq', fs') := r in
                       ret ((l ++ [(fst ka, Some mg)])%list, s', union req_eqb rq rq', (fs ++ fs')%list)
                     end) (attrs nd) ([], s2, rq, sfs) ;;
            let '(al, s3, rq3, sfs3) := sg in
            ret ((ms ++ [MNode nm (ident nd) (domain nd) u (trim (min_in nd) inn) (trim (min_out nd) outn) al])%list, s3, rq3, fs, sfs3)
          end
      end.

(* compile_graph + (for subgraphs) the value infos that Graph.to_onnx() computes right after it.
   Returns the emitted graph, the threaded scope, the opset requirements and the functions met (own nodes and subgraphs). *)
Fixpoint compile (fuel : nat) (s : scope) (g : nat) (prefix : string) (is_main : option bool) : res (mgraph * scope * req * list fdesc) :=
  match fuel with O => raise EFuel | S f =>
  do s1 <- foldM (fun s a => scope_update p un s (vnode a) prefix) (args_of g) s ;;
  do r <- foldM (compile_step (compile f) prefix) (own_of g) ([], s1, [], [], []) ;;
  let '(ms, s3, rq, fs0, sfs) := r in
  let fs := (fs0 ++ sfs)%list in   (* functions of subgraphs are appended after the graph's own *)
  let nres := List.length (gres (getg p g)) in
  if Nat.eqb nres 0 then raise EValue else
  do ai <- mapM (value_info p is_main s3) (args_of g) ;;
  do ro <- mapM (value_info p is_main s3) (map (V (NIntro g)) (seqn 0 nres)) ;;
  ret (MGraph ai ms ro, s3, rq, fs)
  end.
End Compile.

(* ---------- opset policy ---------- *)
Definition fold_domain (d : string) : string := if String.eqb d "ai.onnx" then "" else d.
Fixpoint insert_sorted (d : string) (v : nat) (l : list (string * nat)) : list (string * nat) :=
  match l with
  | [] => [(d, v)]
  | (d', v') :: t =>
      if String.eqb d d' then (d', Nat.max v v') :: t
      else if String.ltb d d' then (d, v) :: l else (d', v') :: insert_sorted d v t
  end.
Definition max_opset_policy (r : req) : list (string * nat) :=
  fold_left (fun acc dv => insert_sorted (fold_domain (fst dv)) (snd dv) acc) r [].

(* ---------- what onnx.checker.check_model enforces structurally (probed against onnx 1.22) ---------- *)
Definition nonempty (l : list string) : list string := filter (fun x => negb (String.eqb x "")) l.
Definition is_init (n : mnode) : bool := match n with MInit _ _ => true | _ => false end.

Section Check.
(* one pass over a node list: every input visible, every output fresh, subgraphs checked with what is visible so far *)
Fixpoint check_raws (fuel : nat) (outer defd : list string) (l : list mraw) : option (list string) :=
  match fuel with O => None | S f =>
  match l with
  | [] => Some defd
  | MRaw _ _ _ i o sl :: t =>
      let ins := nonempty i in let outs := nonempty o in
      if forallb (fun x => mem String.eqb x defd || mem String.eqb x outer) ins
         && forallb (fun x => negb (mem String.eqb x defd || mem String.eqb x outer)) outs
         && nodupb String.eqb outs
         && forallb (fun ks => match snd ks with None => true | Some (MRawGraph gi ginit b go_) =>
               let start := (gi ++ ginit)%list in
               nodupb String.eqb start && forallb (fun x => negb (mem String.eqb x defd || mem String.eqb x outer)) start &&
               match check_raws f (defd ++ outer)%list start b with
               | Some d => forallb (fun x => mem String.eqb x d || mem String.eqb x defd || mem String.eqb x outer) go_
               | None => false end end) sl
      then check_raws f outer (defd ++ outs)%list t else None
  end end.

Fixpoint check_nodes (fuel : nat) (outer defd : list string) (l : list mnode) : option (list string) :=
  match fuel with O => None | S f =>
  match l with
  | [] => Some defd
  | n :: t =>
    match n with
    | MInit _ _ => check_nodes f outer defd t
    | MNode _ _ _ _ i o al =>
      let ins := nonempty i in let outs := nonempty o in
      if forallb (fun x => mem String.eqb x defd || mem String.eqb x outer) ins
         && forallb (fun x => negb (mem String.eqb x defd || mem String.eqb x outer)) outs
         && nodupb String.eqb outs
         && forallb (fun ka => match snd ka with
                               | Some (MGraph gi b go_) =>
                                   let inits := flat_map (fun n => match n with MInit nm _ => [nm] | _ => [] end) b in
                                   let start := (map fst gi ++ inits)%list in
                                   nodupb String.eqb start
                                   && forallb (fun x => negb (mem String.eqb x defd || mem String.eqb x outer)) start
                                   && match check_nodes f (defd ++ outer)%list start b with
                                      | Some d => forallb (fun x => mem String.eqb (fst x) d || mem String.eqb (fst x) defd || mem String.eqb (fst x) outer) go_
                                      | None => false end
                               | None => true end) al
      then check_nodes f outer (defd ++ outs)%list t else None
    | MIntro _ _ i o =>
      if forallb (fun x => mem String.eqb x defd || mem String.eqb x outer) i
         && forallb (fun x => negb (mem String.eqb x defd || mem String.eqb x outer)) o && nodupb String.eqb o
      then check_nodes f outer (defd ++ o)%list t else None
    | MInline _ _ _ _ body =>
      match check_raws (S (S (List.length body)) * S f) outer defd body with
      | Some d => check_nodes f outer d t
      | None => None end
    end
  end end.
End Check.

Fixpoint size_raw (n : mraw) : nat :=
  match n with MRaw _ _ _ _ _ sl =>
    S (fold_left (fun d ks => d + match snd ks with Some (MRawGraph _ _ b _) => S (fold_left (fun d n => d + size_raw n) b 0) | None => 0 end) sl 0) end.
Fixpoint size_node (n : mnode) : nat :=
  match n with
  | MNode _ _ _ _ _ _ al => S (fold_left (fun d ka => match snd ka with Some g => d + size_graph g | None => d end) al 0)
  | MInline _ _ _ _ b => S (fold_left (fun d n => d + size_raw n) b 0)
  | _ => 1 end
with size_graph (g : mgraph) : nat :=
  match g with MGraph _ body _ => S (fold_left (fun d n => d + size_node n) body 0) end.

Definition struct_check (g : mgraph) : bool :=
  match g with MGraph gi b go_ =>
    let inits := flat_map (fun n => match n with MInit nm _ => [nm] | _ => [] end) b in
    let start := (map fst gi ++ inits)%list in
    nodupb String.eqb start &&
    forallb (fun x => negb (String.eqb x "")) (map fst gi ++ map fst go_)%list &&     (* "" is not a value name *)
    match check_nodes (S (size_graph g)) [] start b with
    | Some d => forallb (fun x => mem String.eqb (fst x) d) go_
    | None => false end
  end.

(* ---------- Builder.build_main with graph [main] as the main graph ---------- *)
Record built := { b_graph : mgraph; b_scope : scope; b_req : req; b_args : list var; b_funs : list fdesc }.

Definition body_nodes (g : mgraph) : list mnode := match g with MGraph _ b _ => b end.

Fixpoint build_main_gen (vi : option bool) (ffuel : nat) (p : prog) (un : names) (main : nat) : res built :=
  match ffuel with O => raise EFuel | S ff =>
  let F := fuel_of p in
  do d <- discover F p dstate0 main ;;
  let gtopo := rev (d_post d) in
  let sc := fold_left (update_scope_tree p (d_own d)) gtopo [] in
  let topo := postorder (2 * F) (full_adj p) (NIntro main) in
  let own_of g := filter (fun u => match lookup nref_eqb u sc with Some s => Nat.eqb s g | None => false end) topo in
  let args_of g := getl g (d_args d) in
  (* a function body is built by its own Builder with a fresh Scope; its result identities are named after its outputs *)
  let fbuild (n body : nat) : res (list mnode * req * list fdesc) :=
    let unb := (un ++ map (fun ik => (V (NIntro body) (fst ik), fst (snd ik)))
                        (combine (seqn 0 (List.length (gres (getg p body)))) (gres (getg p body))))%list in
    do b <- build_main_gen None ff p unb body ;;
    ret (body_nodes (b_graph b), b_req b, b_funs b) in
  do r <- compile p un args_of own_of fbuild F scope0 main "" vi ;;
  let '(mg, s, rq, fs) := r in
  ret {| b_graph := mg; b_scope := s; b_req := rq; b_args := args_of main; b_funs := fs |}
  end.

Definition build_main := build_main_gen (Some true).

(* Graph.to_onnx_model on the result: one FunctionProto per (domain, name), RuntimeError on two different definitions *)
Definition function_proto (model_imports : list (string * nat)) (f : fdesc) : mfunction :=
  {| f_domain := fd_domain f; f_name := fd_name f; f_inputs := fd_inputs f; f_outputs := fd_outputs f; f_attrs := fd_attrs f;
     f_body := fd_body f; f_imports := max_opset_policy (fd_req f ++ model_imports)%list; f_bodyid := fd_bodyid f;
     f_vals := fd_vals f |}.
Definition fkey_eqb (a b : mfunction) := String.eqb (f_domain a) (f_domain b) && String.eqb (f_name a) (f_name b).

Definition to_model (b : built) : res model :=
  let imports := max_opset_policy (b_req b) in
  do funs <- foldM (fun acc f =>
               let pr := function_proto imports f in
               match find (fkey_eqb pr) acc with
               | Some old => if String.eqb (show_function old) (show_function pr) && String.eqb (f_vals old) (f_vals pr)
                             then ret acc else raise ERuntime
               | None => ret (acc ++ [pr])%list end) (b_funs b) [] ;;
  (* the checker also walks every FunctionProto: nodes topologically sorted w.r.t. the function inputs; initializers of a
     body graph are not part of a FunctionProto, so a body that uses one is rejected *)
  let fun_ok (f : mfunction) :=
    match check_nodes (S (size_graph (MGraph [] (f_body f) []))) [] (f_inputs f) (f_body f) with
    | Some d => forallb (fun o => mem String.eqb o d) (f_outputs f)
    | None => false end in
  if struct_check (b_graph b) && forallb fun_ok funs then ret {| mmain := b_graph b; mimports := imports; mfunctions := funs |}
  else raise EValidation.

(* ---------- the public build() ---------- *)
Definition all_vars (l : list (string * pyobj)) : option (list (string * var)) :=
  fold_right (fun kv acc => match snd kv, acc with PVar v, Some t => Some ((fst kv, v) :: t) | _, _ => None end) (Some []) l.

Definition with_main (p : prog) (args : option (list var)) (outs : list (string * var)) : prog :=
  {| nodes := nodes p; graphs := {| gargs := args; gres := outs |} :: tl (graphs p) |}.

Definition build_public (p : prog) (r : request) : res model :=
  match all_vars (r_inputs r) with None => raise EType | Some inputs =>
  match all_vars (r_outputs r) with None => raise EType | Some outputs =>
  if negb (forallb (fun kv => is_arg p (vnode (snd kv))) inputs) then raise EType else
  match outputs with [] => raise EValue | _ =>
  (* _temporary_renames: later entries override earlier ones; the main result identities get the output names *)
  let un0 := fold_left (fun acc kv => set_assoc var_eqb (snd kv) (fst kv) acc) inputs [] in
  let un := (un0 ++ map (fun ik => (V (NIntro 0) (fst ik), fst (snd ik))) (combine (seqn 0 (List.length outputs)) outputs))%list in
  let ivars := map snd inputs in
  let FF := S (List.length (graphs p)) in
  do args <- (if r_drop r then
                (* first build without requested arguments, then request the used inputs in the given order *)
                do b1 <- build_main FF (with_main p None outputs) un 0 ;;
                let used := b_args b1 in
                (* an argument that is used but not listed is refused here, compared as a Var (its generated name may equal a listed name) *)
                if forallb (fun v => mem var_eqb v ivars) used then ret (filter (fun v => mem var_eqb v used) ivars)
                else raise EKey
              else ret ivars) ;;
  do b <- build_main FF (with_main p (Some args) outputs) un 0 ;;
  do m <- to_model b ;;
  match mmain m with MGraph gi _ _ =>
    if forallb (fun i => mem String.eqb (fst i) (map fst inputs)) gi then ret m else raise EKey
  end
  end end end.
