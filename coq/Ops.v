(* Ops.v — model of spox's overloaded Python operators on Var (C17).
   Anchors: src/spox/_future.py  (_NumpyLikeOperatorDispatcher, operator_overloading)
            src/spox/_var.py     (Var.__add__ ... Var.__rxor__, NotImplementedOperatorDispatcher)

   What is modelled
   * operand kinds of a Python-level operator application: a Var of an element type, a Python int (with its value),
     a Python float, a numpy scalar of a dtype (np.generic; integer value kept when the dtype is integer/bool);
   * the dispatcher state: None = outside any operator_overloading block (NotImplementedOperatorDispatcher),
     Some {tp; cp} = inside a block with type_promotion = tp, constant_promotion = cp;
   * _promote exactly as written: the [targets] list, np.result_type (a TABLE [rt] over
     (element type | weak Python int | weak Python float)^2 that the harness regenerates from numpy on every run),
     [to_floating], the two no-promotion TypeError rules, _promote_target (Cast for Vars when promoting, Constant
     holding np.array(obj, dtype=target) for scalars when constant promotion is on, TypeError for a raw scalar
     otherwise; OverflowError of np.array for an out-of-range Python int);
   * the emitted ONNX operators per Python operator as an expression TREE over the operand Vars ([expr]), the ONNX
     type constraints of these operators (violations surface as onnx InferenceError), the result element type and
     the error class;
   * Python's operator protocol around the dispatcher: a binary operator whose dunder returns NotImplemented raises
     TypeError, a unary operator whose dunder returns NotImplemented just evaluates to NotImplemented;
   * integer semantics of the emitted tree on Z ([ieval]): two's-complement wrap written explicitly, ONNX integer
     Div = Z.quot (truncation).  Floating arithmetic is not modelled (validated only, see harness/c17.py).

   [repairs] selects the modelled source: the pinned tree (all false) or the tree with fixes/F10a.diff,
   fixes/F21.diff and fixes/F22.diff applied.  No proofs in this file. *)
From Coq Require Import ZArith List Bool.
Import ListNotations.
Open Scope Z_scope.

(* ---------------------------------------------------------------------------------------------- element types *)
Inductive ety := I8 | I16 | I32 | I64 | U8 | U16 | U32 | U64 | F16 | F32 | F64 | TB.
Definition all_ety : list ety := [I8; I16; I32; I64; U8; U16; U32; U64; F16; F32; F64; TB].
Definition numeric_ety : list ety := [I8; I16; I32; I64; U8; U16; U32; U64; F16; F32; F64].
Definition int_ety : list ety := [I8; I16; I32; I64; U8; U16; U32; U64].
Definition sint_ety : list ety := [I8; I16; I32; I64].
Definition float_ety : list ety := [F16; F32; F64].

Definition ety_code (t : ety) : Z :=
  match t with I8 => 0 | I16 => 1 | I32 => 2 | I64 => 3 | U8 => 4 | U16 => 5 | U32 => 6 | U64 => 7
             | F16 => 8 | F32 => 9 | F64 => 10 | TB => 11 end.
Definition ety_eqb (a b : ety) : bool := ety_code a =? ety_code b.

Definition is_sint t := match t with I8 | I16 | I32 | I64 => true | _ => false end.
Definition is_uint t := match t with U8 | U16 | U32 | U64 => true | _ => false end.
Definition is_int t := is_sint t || is_uint t.              (* issubclass(., np.integer): bool is NOT an integer *)
Definition is_float t := match t with F16 | F32 | F64 => true | _ => false end.
Definition is_bool t := match t with TB => true | _ => false end.

Definition width (t : ety) : Z :=
  match t with I8 | U8 => 8 | I16 | U16 => 16 | I32 | U32 => 32 | I64 | U64 => 64 | _ => 0 end.
Definition lo (t : ety) : Z := if is_sint t then - 2 ^ (width t - 1) else 0.
Definition hi (t : ety) : Z :=
  if is_sint t then 2 ^ (width t - 1) - 1 else if is_uint t then 2 ^ width t - 1 else if is_bool t then 1 else 0.
Definition in_range (t : ety) (z : Z) : bool := (lo t <=? z) && (z <=? hi t).

(* conversion of an integer value to an integer / bool element type: C-style (ONNX Cast, numpy astype) *)
Definition wrap (t : ety) (z : Z) : Z :=
  if is_uint t then z mod 2 ^ width t
  else if is_sint t then (z + 2 ^ (width t - 1)) mod 2 ^ width t - 2 ^ (width t - 1)
  else if is_bool t then (if z =? 0 then 0 else 1)
  else z.

(* ---------------------------------------------------------------------- numpy's result_type domain and tables *)
Inductive tk := TE (t : ety) | TWI | TWF.      (* a dtype | a Python int (weak) | a Python float (weak) *)
Definition tk_eqb (a b : tk) : bool :=
  match a, b with TE x, TE y => ety_eqb x y | TWI, TWI => true | TWF, TWF => true | _, _ => false end.
Definition all_tk : list tk := map TE all_ety ++ [TWI; TWF].

Inductive arith := Add | Sub | Mul | TrueDiv | FloorDiv.
Definition all_arith : list arith := [Add; Sub; Mul; TrueDiv; FloorDiv].
Definition arith_code (o : arith) : Z := match o with Add => 0 | Sub => 1 | Mul => 2 | TrueDiv => 3 | FloorDiv => 4 end.
Definition arith_eqb (a b : arith) : bool := arith_code a =? arith_code b.

Definition rt_table := list (tk * tk * option ety).               (* np.result_type(x, y); None = numpy raises *)
Definition np_table := list (arith * tk * tk * option ety).       (* dtype of  x <op> y  computed by numpy itself *)

Fixpoint rt_lookup (tab : rt_table) (x y : tk) : option ety :=
  match tab with
  | [] => None
  | (a, b, r) :: rest => if tk_eqb a x && tk_eqb b y then r else rt_lookup rest x y
  end.
Fixpoint np_lookup (tab : np_table) (o : arith) (x y : tk) : option ety :=
  match tab with
  | [] => None
  | (p, a, b, r) :: rest => if arith_eqb p o && tk_eqb a x && tk_eqb b y then r else np_lookup rest o x y
  end.

(* ------------------------------------------------------------------------------------- operands, settings, ops *)
Inductive operand :=
| OVar (t : ety)                 (* a Var whose type is Tensor(t, ...) *)
| OPyInt (v : Z)                 (* a Python int *)
| OPyFloat                       (* a Python float (value irrelevant to types, emitted operators and errors) *)
| ONp (t : ety) (v : Z).         (* a numpy scalar of dtype t; v = its value when t is an integer type or bool *)

Definition is_var (x : operand) : bool := match x with OVar _ => true | _ => false end.
Definition tk_of (x : operand) : tk :=
  match x with OVar t => TE t | OPyInt _ => TWI | OPyFloat => TWF | ONp t _ => TE t end.

Record setting := mk_setting { tp : bool; cp : bool }.       (* type_promotion, constant_promotion *)
Definition all_settings : list setting :=
  [mk_setting true true; mk_setting true false; mk_setting false true; mk_setting false false].

Record repairs := mk_repairs { fix_floordiv : bool;       (* fixes/F10a.diff: floor correction for signed integers *)
                               fix_unary : bool;          (* fixes/F21.diff: unary operators outside a block raise *)
                               fix_neg_unsigned : bool }. (* fixes/F22.diff: -x on unsigned Vars emitted as 0 - x *)
Definition pinned : repairs := mk_repairs false false false.
Definition repaired : repairs := mk_repairs true true true.

Inductive logic := LAnd | LOr | LXor.
Inductive pyop := PArith (o : arith) | PLogic (o : logic) | PNeg | PInvert.

(* emitted ONNX operators *)
Inductive bop := OAdd | OSub | OMul | ODiv | OAnd | OOr | OXor | OEqual | OLess.
Inductive uop := ONeg | OFloor | ONot.
Inductive side := SA | SB.                                    (* first / second argument of the dispatcher call *)
Inductive expr :=
| EArg (s : side)                                             (* the operand Var itself *)
| EConst (t : ety) (v : option Z)                             (* Constant of dtype t; Some v: integer/bool value *)
| ECast (t : ety) (e : expr)                                  (* Cast(e, to = t) *)
| EBin (o : bop) (t : ety) (e1 e2 : expr)                     (* t = element type of the operands *)
| EUn (o : uop) (t : ety) (e : expr).

Inductive err := ETypeError | EOverflow | EInference.         (* TypeError | OverflowError | onnx InferenceError *)
Inductive res :=
| Ok (e : expr) (t : ety)            (* a Var computed by tree e, of element type t *)
| Err (c : err)
| RNotImplemented                    (* the expression evaluates to the Python object NotImplemented *)
| RNoVar.                            (* neither operand is a Var: not an application of Var's operators *)

(* ---------------------------------------------------------------------------------------------- ONNX typing *)
(* type constraints of the standard operators used (ai.onnx 13/14; bfloat16 and strings do not occur here) *)
Definition bop_accepts (o : bop) (t : ety) : bool :=
  match o with
  | OAdd | OSub | OMul | ODiv | OLess => negb (is_bool t)
  | OAnd | OOr | OXor => is_bool t
  | OEqual => true
  end.
Definition uop_accepts (o : uop) (t : ety) : bool :=
  match o with
  | ONeg => is_sint t || is_float t
  | OFloor => is_float t
  | ONot => is_bool t
  end.

(* ------------------------------------------------------------------------------------------------- _promote *)
(* np.array(obj, dtype = target) wrapped in a Constant *)
Definition int_like t := is_int t || is_bool t.
Definition mk_const (target : ety) (x : operand) : res :=
  match x with
  | OPyInt v =>
      if is_int target && negb (in_range target v) then Err EOverflow
      else Ok (EConst target (if int_like target then Some (wrap target v) else None)) target
  | OPyFloat => Ok (EConst target None) target
  | ONp t v => Ok (EConst target (if int_like target && int_like t then Some (wrap target v) else None)) target
  | OVar _ => Err ETypeError   (* not reached *)
  end.

Definition promote_target (s : setting) (target : ety) (x : operand) (sd : side) : res :=
  match x with
  | OVar _ => Ok (if tp s then ECast target (EArg sd) else EArg sd) target
  | _ => if cp s then mk_const target x else Err ETypeError
  end.

(* issubclass(np.result_type(value).type, np.floating) for one entry of [targets] *)
Definition target_is_floating (x : operand) : bool :=
  match x with OVar t => is_float t | OPyInt _ => false | OPyFloat => true | ONp t _ => is_float t end.

Section WithTable.
  Variable rt : tk -> tk -> option ety.

  (* the target element type, or the error raised before any operand is converted *)
  Definition promote_type (s : setting) (to_floating : bool) (x y : operand) : option ety + err :=
    if tp s then
      match rt (tk_of x) (tk_of y) with
      | Some t => inl (Some (if to_floating && negb (is_float t) then F64 else t))
      | None => inr ETypeError                                        (* numpy: no common dtype *)
      end
    else
      match x, y with
      | OVar a, OVar b => if ety_eqb a b then inl (Some a) else inr ETypeError      (* len(dtypes) > 1 *)
      | OVar a, z | z, OVar a =>
          if is_int a && target_is_floating z then inr ETypeError                   (* "Floating constant operands..." *)
          else inl (Some a)
      | _, _ => inl None
      end.

  Definition promote (s : setting) (to_floating : bool) (x y : operand) : (expr * expr * ety) + err :=
    match promote_type s to_floating x y with
    | inr e => inr e
    | inl None => inr ETypeError
    | inl (Some t) =>
        match promote_target s t x SA with
        | Ok ea _ =>
            match promote_target s t y SB with
            | Ok eb _ => inl (ea, eb, t)
            | Err e => inr e
            | _ => inr ETypeError
            end
        | Err e => inr e
        | _ => inr ETypeError
        end
    end.

  (* ------------------------------------------------------------------------------------- the dispatcher methods *)
  Definition mk_bin (o : bop) (t : ety) (ea eb : expr) (tres : ety) : res :=
    if bop_accepts o t then Ok (EBin o t ea eb) tres else Err EInference.

  (* the correction of fixes/F10a.diff:  c - Cast(And(Not(Equal(rem, 0)), Xor(Less(rem, 0), Less(b, 0)))),
     rem = a - c * b *)
  Definition floor_fix (t : ety) (ea eb c : expr) : expr :=
    let zero := EConst t (Some 0) in
    let rem := EBin OSub t ea (EBin OMul t c eb) in
    let adjust := EBin OAnd TB (EUn ONot TB (EBin OEqual t rem zero))
                               (EBin OXor TB (EBin OLess t rem zero) (EBin OLess t eb zero)) in
    EBin OSub t c (ECast t adjust).

  Definition arith_bop (o : arith) : bop :=
    match o with Add => OAdd | Sub => OSub | Mul => OMul | TrueDiv => ODiv | FloorDiv => ODiv end.

  (* what the dispatcher method does with the promoted operands *)
  Definition finish_arith (r : repairs) (o : arith) (t : ety) (ea eb : expr) : res :=
    match o with
    | FloorDiv =>
        match mk_bin ODiv t ea eb t with
        | Ok c _ =>
            if negb (is_int t) then (if uop_accepts OFloor t then Ok (EUn OFloor t c) t else Err EInference)
            else if fix_floordiv r && is_sint t then Ok (floor_fix t ea eb c) t
            else Ok c t
        | other => other
        end
    | _ => mk_bin (arith_bop o) t ea eb t
    end.

  Definition disp_arith (r : repairs) (s : setting) (o : arith) (x y : operand) : res :=
    match promote s (match o with TrueDiv => true | _ => false end) x y with
    | inr e => Err e
    | inl (ea, eb, t) => finish_arith r o t ea eb
    end.

  (* and_/or_/xor/not_/neg do not promote: the operands go to the operator constructor as they are; a non-Var is
     rejected by the constructor's field validation (TypeError), a Var of a wrong element type by ONNX inference *)
  Definition logic_bop (o : logic) : bop := match o with LAnd => OAnd | LOr => OOr | LXor => OXor end.
  Definition disp_logic (o : logic) (x y : operand) : res :=
    match x, y with
    | OVar a, OVar b => if is_bool a && is_bool b then Ok (EBin (logic_bop o) TB (EArg SA) (EArg SB)) TB else Err EInference
    | _, _ => Err ETypeError
    end.
  Definition disp_unary (r : repairs) (o : uop) (x : operand) : res :=
    match x with
    | OVar a =>
        match o with
        | ONeg =>
            if fix_neg_unsigned r && is_uint a then Ok (EBin OSub a (EConst a (Some 0)) (EArg SA)) a   (* 0 - x *)
            else if uop_accepts ONeg a then Ok (EUn ONeg a (EArg SA)) a else Err EInference
        | _ => if uop_accepts o a then Ok (EUn o a (EArg SA)) a else Err EInference
        end
    | _ => Err ETypeError
    end.

  (* ------------------------------------------------------------------ Python's operator protocol around it *)
  (* x <op> y where at least one operand is a Var.  Both  Var.__op__(x, y)  and  Var.__rop__(y, x)  call the
     dispatcher method with the operands in source order (x, y).  Outside a block the dispatcher returns
     NotImplemented for both dunders, which Python turns into TypeError. *)
  Definition py_binop (r : repairs) (d : option setting) (o : pyop) (x y : operand) : res :=
    if negb (is_var x || is_var y) then RNoVar else
    match d with
    | None => Err ETypeError
    | Some s =>
        match o with
        | PArith a => disp_arith r s a x y
        | PLogic l => disp_logic l x y
        | _ => RNoVar
        end
    end.

  (* -x / ~x on a Var.  A unary dunder returning NotImplemented is NOT turned into TypeError by Python. *)
  Definition py_unop (r : repairs) (d : option setting) (o : pyop) (x : operand) : res :=
    if negb (is_var x) then RNoVar else
    match o with
    | PNeg | PInvert =>
        match d with
        | None => if fix_unary r then Err ETypeError else RNotImplemented
        | Some _ => disp_unary r (match o with PNeg => ONeg | _ => ONot end) x
        end
    | _ => RNoVar
    end.
End WithTable.

(* ---------------------------------------------------------------- integer semantics of the emitted operators *)
Definition b2z (b : bool) : Z := if b then 1 else 0.
Definition z2b (z : Z) : bool := negb (z =? 0).

Definition bin_sem (o : bop) (t : ety) (x y : Z) : option Z :=
  if is_float t then None else
  match o with
  | OAdd => Some (wrap t (x + y))
  | OSub => Some (wrap t (x - y))
  | OMul => Some (wrap t (x * y))
  | ODiv => if y =? 0 then None else Some (wrap t (Z.quot x y))       (* ONNX integer Div truncates *)
  | OEqual => Some (b2z (x =? y))
  | OLess => Some (b2z (x <? y))
  | OAnd => Some (b2z (z2b x && z2b y))
  | OOr => Some (b2z (z2b x || z2b y))
  | OXor => Some (b2z (xorb (z2b x) (z2b y)))
  end.
Definition un_sem (o : uop) (t : ety) (x : Z) : option Z :=
  if is_float t then None else
  match o with
  | ONeg => Some (wrap t (- x))
  | ONot => Some (b2z (negb (z2b x)))
  | OFloor => None
  end.

Fixpoint ieval (e : expr) (a b : Z) : option Z :=
  match e with
  | EArg SA => Some a
  | EArg SB => Some b
  | EConst _ v => v
  | ECast t e1 => if is_float t then None else option_map (wrap t) (ieval e1 a b)
  | EBin o t e1 e2 =>
      match ieval e1 a b, ieval e2 a b with
      | Some x, Some y => bin_sem o t x y
      | _, _ => None
      end
  | EUn o t e1 => match ieval e1 a b with Some x => un_sem o t x | None => None end
  end.

(* numpy's integer arithmetic on element type t, as a specification: exact result, then wrapped to t's width *)
Definition zarith (o : arith) (x y : Z) : Z :=
  match o with Add => x + y | Sub => x - y | Mul => x * y | TrueDiv => Z.quot x y | FloorDiv => x / y end.

(* the corrected floor division on Z (what floor_fix computes when nothing overflows) *)
Definition fix_floordiv_z (a b : Z) : Z :=
  let q := Z.quot a b in let r := a - q * b in
  if negb (r =? 0) && xorb (r <? 0) (b <? 0) then q - 1 else q.

(* ------------------------------------------------------------------------- structural helpers for statements *)
Fixpoint has_cast (e : expr) : bool :=
  match e with
  | EArg _ | EConst _ _ => false
  | ECast _ _ => true
  | EBin _ _ e1 e2 => has_cast e1 || has_cast e2
  | EUn _ _ e1 => has_cast e1
  end.

Definition res_dtype (r : res) : option ety := match r with Ok _ t => Some t | _ => None end.
Definition opt_ety_eqb (a b : option ety) : bool :=
  match a, b with Some x, Some y => ety_eqb x y | None, None => true | _, _ => false end.

(* decidable equality of results (used by the harness to compare the implementation's outcome inside Coq) *)
Definition bop_code o := match o with OAdd => 0 | OSub => 1 | OMul => 2 | ODiv => 3 | OAnd => 4 | OOr => 5 | OXor => 6
                                    | OEqual => 7 | OLess => 8 end.
Definition uop_code o := match o with ONeg => 0 | OFloor => 1 | ONot => 2 end.
Definition side_eqb a b := match a, b with SA, SA => true | SB, SB => true | _, _ => false end.
Definition optz_eqb (a b : option Z) := match a, b with Some x, Some y => x =? y | None, None => true | _, _ => false end.
Fixpoint expr_eqb (a b : expr) : bool :=
  match a, b with
  | EArg s, EArg s' => side_eqb s s'
  | EConst t v, EConst t' v' => ety_eqb t t' && optz_eqb v v'
  | ECast t e, ECast t' e' => ety_eqb t t' && expr_eqb e e'
  | EBin o t e1 e2, EBin o' t' e1' e2' => (bop_code o =? bop_code o') && ety_eqb t t' && expr_eqb e1 e1' && expr_eqb e2 e2'
  | EUn o t e, EUn o' t' e' => (uop_code o =? uop_code o') && ety_eqb t t' && expr_eqb e e'
  | _, _ => false
  end.
Definition err_eqb a b := match a, b with ETypeError, ETypeError => true | EOverflow, EOverflow => true
                                       | EInference, EInference => true | _, _ => false end.
Definition res_eqb (a b : res) : bool :=
  match a, b with
  | Ok e t, Ok e' t' => expr_eqb e e' && ety_eqb t t'
  | Err c, Err c' => err_eqb c c'
  | RNotImplemented, RNotImplemented => true
  | RNoVar, RNoVar => true
  | _, _ => false
  end.

(* one correspondence case: the model's outcome against the implementation's, plus runtime values (a, b, result)
   observed from onnxruntime for integer-typed trees.  0 = agree, 1 = outcome differs, 2 = a value differs *)
Definition values_ok (r : res) (vals : list (Z * Z * Z)) : bool :=
  match r with
  | Ok e _ => forallb (fun '(a, b, v) => optz_eqb (ieval e a b) (Some v)) vals
  | _ => match vals with [] => true | _ => false end
  end.
Definition case_code (model impl : res) (vals : list (Z * Z * Z)) : Z :=
  if negb (res_eqb model impl) then 1 else if values_ok model vals then 0 else 2.
Fixpoint bad_cases_from (i : Z) (l : list Z) : list (Z * Z) :=
  match l with [] => [] | c :: t => (if c =? 0 then [] else [(i, c)]) ++ bad_cases_from (i + 1) t end.
Definition bad_cases (l : list Z) : list (Z * Z) := bad_cases_from 0 l.

(* ---------------------------------------------------------------------------- finite families for statements *)
(* operand kinds that meet in a binary operator: at least one Var; scalars with a representative value 1 *)
Definition scalar_kinds (ts : list ety) : list operand := OPyInt 1 :: OPyFloat :: map (fun t => ONp t 1) ts.
Definition operand_pairs (ts : list ety) : list (operand * operand) :=
  list_prod (map OVar ts) (map OVar ts)
  ++ list_prod (map OVar ts) (scalar_kinds ts)
  ++ list_prod (scalar_kinds ts) (map OVar ts).

(* representative of an operand kind (scalar values replaced by 1) *)
Definition repr (x : operand) : operand :=
  match x with OVar t => OVar t | OPyInt _ => OPyInt 1 | OPyFloat => OPyFloat | ONp t _ => ONp t 1 end.

(* ------------------------------------------------------------- finite checks over the regenerated numpy tables *)
Section Checks.
  Variable rt : tk -> tk -> option ety.                    (* np.result_type *)
  Variable np : arith -> tk -> tk -> option ety.           (* dtype of numpy's own  x <op> y *)

  (* type promotion on: the dispatcher's result element type is numpy's, for every operator and operand-kind pair *)
  Definition promo_case_ok (r : repairs) (c : bool) (o : arith) (xy : operand * operand) : bool :=
    let '(x, y) := xy in
    if c || (is_var x && is_var y) then
      match disp_arith rt r (mk_setting true c) o x y with
      | Ok _ t => opt_ety_eqb (np o (tk_of x) (tk_of y)) (Some t)
      | _ => false
      end
    else true.
  Definition check_promo : bool :=
    forallb (fun r => forallb (fun c => forallb (fun o =>
      forallb (promo_case_ok r c o) (operand_pairs numeric_ety)) all_arith) [true; false]) [pinned; repaired].

  (* type promotion off: keeping the Var's element type agrees with numpy whenever the other operand is a Var of the
     same type or a Python scalar, except for / on integers (documented: integer Div; numpy gives float64) *)
  Definition numpy_claim (o : arith) (t : ety) : bool := match o with TrueDiv => is_float t | _ => true end.
  Definition nopromo_case_ok (o : arith) (t : ety) : bool :=
    if numpy_claim o t then
      opt_ety_eqb (np o (TE t) (TE t)) (Some t) && opt_ety_eqb (np o (TE t) TWI) (Some t) && opt_ety_eqb (np o TWI (TE t)) (Some t)
      && (if is_float t then opt_ety_eqb (np o (TE t) TWF) (Some t) && opt_ety_eqb (np o TWF (TE t)) (Some t) else true)
    else true.
  Definition check_nopromo : bool := forallb (fun o => forallb (nopromo_case_ok o) numeric_ety) all_arith.

  (* integer promotion never loses values: the integer result type contains both operand types *)
  Definition tk_fits (x : tk) (t : ety) : bool :=
    match x with TE a => (lo t <=? lo a) && (hi a <=? hi t) | _ => true end.
  Definition int_tks : list tk := map TE (int_ety ++ [TB]) ++ [TWI].
  Definition lossless_case_ok (xy : tk * tk) : bool :=
    let '(x, y) := xy in
    match rt x y with
    | Some t => if is_int t then tk_fits x t && tk_fits y t else true
    | None => true
    end.
  Definition check_lossless : bool := forallb lossless_case_ok (list_prod int_tks int_tks).

  (* diagnostics for the harness: the entries on which a check fails *)
  Definition promo_failures : list (Z * Z * Z * Z) :=
    flat_map (fun '(ri, r) => flat_map (fun c => flat_map (fun o =>
      flat_map (fun '(i, xy) => if promo_case_ok r c o xy then [] else [(ri, b2z c, arith_code o, i)])
               (combine (map Z.of_nat (seq 0 (length (operand_pairs numeric_ety)))) (operand_pairs numeric_ety)))
      all_arith) [true; false]) [(0, pinned); (1, repaired)].
End Checks.
