(* Subgraph.v — model of how spox turns subgraph callbacks into Graph attributes (C19).

   Anchors:  src/spox/_graph.py          subgraph(), enum_results(), Graph._arguments/_results/_constructor
             src/spox/opset/ai/onnx/v17.py (regenerated in v19.py, v21.py; re-exported by v18/v20)
                                          if_, loop, scan, sequence_map
             src/spox/_standard.py        to_singleton_onnx_model / _make_dummy_subgraph (typed dummies)
             src/spox/_build.py           build (subgraphs are compiled from the stored Graph)

   A callback is an abstract id with a declared behaviour.  Every constructor is a function returning
   (outcome, call trace); the call trace lists, in order, which callback was invoked with which argument types.
   [*_orig] is the code AS IT IS on the unchanged tree, the unsuffixed functions are the repaired code
   (fixes/F13.diff, fixes/F19.diff).  The ONNX prescription ([spec_*]) is written from the ONNX operator
   documentation, independently of the code.  No proofs in this file. *)
From Coq Require Import ZArith NArith List Bool String DecimalString.
Import ListNotations.
Open Scope Z_scope.

(* ------------------------------------------------------------------------------------------------ types *)
Inductive dim := DInt (n : N) | DSym (s : N) | DUnk.             (* 3 | 'N' | None *)
Definition shape := option (list dim).                           (* None = unknown rank *)
Inductive ty :=
| Tensor (e : N) (s : shape)      (* e = ONNX TensorProto.DataType number (FLOAT=1, INT64=7, BOOL=9, ...) *)
| Seq (t : ty)
| Opt (t : ty).
Definition e_int64 : N := 7%N.
Definition e_bool : N := 9%N.

Definition operand := option ty.   (* Var.type; None = a Var whose type is unknown *)

Inductive exn :=
| EType                 (* TypeError *)
| EAttr                 (* AttributeError *)
| EIndex                (* IndexError raised by the callback's own code (it indexed its arguments out of range) *)
| EUser (n : nat).      (* any other exception raised by the callback itself *)

Inductive result (A : Type) := Ok (a : A) | Err (e : exn).
Arguments Ok {A} a.
Arguments Err {A} e.
Definition bind {A B} (r : result A) (f : A -> result B) : result B :=
  match r with Ok a => f a | Err e => Err e end.

Fixpoint mapM {A B} (f : A -> result B) (l : list A) : result (list B) :=   (* a list comprehension: first raise wins *)
  match l with
  | [] => Ok []
  | x :: t => bind (f x) (fun y => bind (mapM f t) (fun ys => Ok (y :: ys)))
  end.

(* ------------------------------------------------------------------------------------------------ callbacks *)
Inductive relem :=
| RArg (i : nat)        (* the callback returns its i-th argument *)
| ROuter (t : ty)       (* ... a Var of type t that does not depend on the arguments (outer scope / constant / computed) *)
| RNonVar.              (* ... an object that is not a Var *)

Inductive behaviour :=
| BList (elems : list relem)      (* returns a list / tuple of these *)
| BOneShot (elems : list relem)   (* returns a generator (one-shot iterable) yielding these *)
| BNonIterable                    (* returns a non-iterable object *)
| BRaise (e : nat)                (* raises its own exception when called *)
| BNotCallable.                   (* the object passed as callback is not callable *)

Record callback := mkcb { cb_id : nat; cb_beh : behaviour }.

Definition call := (nat * list ty)%type.        (* callback id, types of the argument Vars it received *)

(* what a well-behaved callback hands back, however it is traversed *)
Definition yielded (b : behaviour) : option (list relem) :=
  match b with BList l => Some l | BOneShot l => Some l | _ => None end.

(* ------------------------------------------------------------------------------------------------ subgraph() *)
Record graph := mkgraph {
  g_args : list ty;            (* Graph._arguments  (fresh, unnamed Vars of these types) *)
  g_results : list ty;         (* Graph._results    (out0, out1, ...) *)
  g_ctor : nat                 (* Graph._constructor *)
}.

Inductive val := VVar (t : ty) | VOther.
Definition eval_elem (args : list ty) (r : relem) : result val :=
  match r with
  | RArg i => match nth_error args i with Some t => Ok (VVar t) | None => Err EIndex end
  | ROuter t => Ok (VVar t)
  | RNonVar => Ok VOther
  end.
Definition var_type (v : val) : result ty := match v with VVar t => Ok t | VOther => Err EType end.

(* [all(isinstance(out, Var) for out in outs)] over a generator: elements are produced and tested one at a time *)
Fixpoint lazy_validate (args : list ty) (elems : list relem) : result unit :=
  match elems with
  | [] => Ok tt
  | r :: t => bind (eval_elem args r) (fun v => bind (var_type v) (fun _ => lazy_validate args t))
  end.

Fixpoint all_types (types : list (option ty)) : option (list ty) :=     (* all(isinstance(typ, Type) ...) *)
  match types with
  | [] => Some []
  | None :: _ => None
  | Some t :: r => match all_types r with Some l => Some (t :: l) | None => None end
  end.

(* materialise: true = repaired subgraph() (F19): [outs = tuple(outs)] before validating.
   materialise: false = unchanged tree: the result is traversed by the validation and then again by enum_results. *)
Definition subgraph_gen (materialise : bool) (types : list (option ty)) (f : callback) : result graph * list call :=
  match all_types types with
  | None => (Err EType, [])                                  (* "Subgraph input types must be an Iterable of Type." *)
  | Some tys =>                                              (* enum_arguments of the types; every argument is renamed to None *)
    match cb_beh f with
    | BNotCallable => (Err EType, [])                        (* "Subgraph callback must be callable." *)
    | BRaise e => (Err (EUser e), [(cb_id f, tys)])
    | BNonIterable => (Err EType, [(cb_id f, tys)])          (* "Subgraph result must be an Iterable of Var." *)
    | BList elems =>
        (bind (mapM (eval_elem tys) elems) (fun vs => bind (mapM var_type vs) (fun rs => Ok (mkgraph tys rs (cb_id f)))),
         [(cb_id f, tys)])
    | BOneShot elems =>
        (if materialise
         then bind (mapM (eval_elem tys) elems) (fun vs => bind (mapM var_type vs) (fun rs => Ok (mkgraph tys rs (cb_id f))))
         else bind (lazy_validate tys elems) (fun _ => Ok (mkgraph tys [] (cb_id f))),   (* enum_results of the exhausted generator *)
         [(cb_id f, tys)])
    end
  end.
Definition subgraph := subgraph_gen true.
Definition subgraph_orig := subgraph_gen false.

(* ------------------------------------------------------------------------------------------------ constructors *)
Inductive kind := KIf | KLoop | KScan | KSeqMap.
(* the node-construction request issued after the subgraphs exist: Graph attributes (in attribute order) and out_variadic *)
Inductive outcome :=
| ONode (k : kind) (graphs : list graph) (out_variadic : Z)
| OErr (e : exn).

(* to_singleton_onnx_model (type inference at construction): _make_dummy_subgraph re-types the stored Graph,
   it never goes back to the callback *)
Definition proto := (list ty * list ty)%type.
Definition dummy_subgraph (g : graph) : proto := (g_args g, g_results g).
Definition singleton_model (graphs : list graph) : list proto * list call := (map dummy_subgraph graphs, []).

Definition unwrap_type (o : operand) : result ty := match o with Some t => Ok t | None => Err EType end.
Definition unwrap_tensor (o : operand) : result (N * shape) :=
  bind (unwrap_type o) (fun t => match t with Tensor e s => Ok (e, s) | _ => Err EType end).

(* one-callback constructors: compute the types, build the subgraph, issue the node *)
Definition ctor1 (mat : bool) (k : kind) (types : result (list ty)) (body : callback) (outv : nat -> Z)
  : outcome * list call :=
  match types with
  | Err e => (OErr e, [])
  | Ok tys =>
    let '(r, tr) := subgraph_gen mat (map Some tys) body in
    match r with
    | Err e => (OErr e, tr)
    | Ok g => (ONode k [g] (outv (List.length (g_results g))), (tr ++ snd (singleton_model [g]))%list)
    end
  end.

(* --- If: else_branch first, then then_branch; no arguments; out_variadic from the ELSE branch *)
Definition if_gen (mat : bool) (else_branch then_branch : callback) : outcome * list call :=
  let '(r1, t1) := subgraph_gen mat [] else_branch in
  match r1 with
  | Err e => (OErr e, t1)
  | Ok g1 =>
    let '(r2, t2) := subgraph_gen mat [] then_branch in
    match r2 with
    | Err e => (OErr e, (t1 ++ t2)%list)
    | Ok g2 => (ONode KIf [g1; g2] (Z.of_nat (List.length (g_results g1))),
                (t1 ++ t2 ++ snd (singleton_model [g1; g2]))%list)
    end
  end.
Definition if_ := if_gen true.
Definition if_orig := if_gen false.

(* --- Loop: [Tensor(int64, (1,)), Tensor(bool, (1,))] + [var.unwrap_type() for var in v_initial] *)
Definition loop_types (v_initial : list operand) : result (list ty) :=
  bind (mapM unwrap_type v_initial)
       (fun c => Ok (Tensor e_int64 (Some [DInt 1%N]) :: Tensor e_bool (Some [DInt 1%N]) :: c)).
Definition loop_gen (mat : bool) (v_initial : list operand) (body : callback) :=
  ctor1 mat KLoop (loop_types v_initial) body (fun n => Z.of_nat n - 1).
Definition loop := loop_gen true.
Definition loop_orig := loop_gen false.

(* --- Python slices l[:k] and l[k:] for any integer k *)
Definition py_take {A} (k : Z) (l : list A) : list A :=
  if 0 <=? k then firstn (Z.to_nat k) l else firstn (Z.to_nat (Z.of_nat (List.length l) + k)) l.
Definition py_drop {A} (k : Z) (l : list A) : list A :=
  if 0 <=? k then skipn (Z.to_nat k) l else skipn (Z.to_nat (Z.of_nat (List.length l) + k)) l.

(* --- Scan, unchanged tree:
       [Tensor(dtype, shape[1:] if shape is not None else None) for var in operands[:num_scan_inputs]]
     + [Tensor(dtype)                                            for var in operands[num_scan_inputs:]]
   scan_input_axes is not consulted. *)
Definition strip_first (s : shape) : shape := match s with None => None | Some l => Some (tl l) end.
Definition scan_types_orig (ops : list operand) (num_scan_inputs : Z) : result (list ty) :=
  bind (mapM (fun o => bind (unwrap_tensor o) (fun es => Ok (Tensor (fst es) (strip_first (snd es)))))
             (py_take num_scan_inputs ops))
       (fun a => bind (mapM (fun o => bind (unwrap_tensor o) (fun es => Ok (Tensor (fst es) None)))
                            (py_drop num_scan_inputs ops))
                      (fun b => Ok (a ++ b)%list)).

(* --- Scan, repaired (fixes/F13.diff):
       k = len(operands) - num_scan_inputs
       axes = tuple(scan_input_axes) if scan_input_axes is not None else (0,) * num_scan_inputs
       [var.unwrap_type() for var in operands[:k]]
     + [Tensor(dtype, x[:a % len(x)] + x[a % len(x) + 1:] if x else None) for var, a in zip(operands[k:], axes)] *)
Definition drop_axis (s : shape) (a : Z) : shape :=
  match s with
  | None => None
  | Some [] => None
  | Some l => let i := Z.to_nat (a mod Z.of_nat (List.length l)) in Some (firstn i l ++ skipn (S i) l)%list
  end.
Definition scan_types (ops : list operand) (num_scan_inputs : Z) (axes : option (list Z)) : result (list ty) :=
  let k := Z.of_nat (List.length ops) - num_scan_inputs in
  let ax := match axes with Some l => l | None => repeat 0 (Z.to_nat num_scan_inputs) end in
  bind (mapM unwrap_type (py_take k ops))
       (fun a => bind (mapM (fun oa : operand * Z =>
                               bind (unwrap_tensor (fst oa)) (fun es => Ok (Tensor (fst es) (drop_axis (snd es) (snd oa)))))
                            (combine (py_drop k ops) ax))
                      (fun b => Ok (a ++ b)%list)).

(* scan_input_directions / scan_output_axes / scan_output_directions only become attributes: [dirs] is ignored *)
Definition scan (ops : list operand) (num_scan_inputs : Z) (axes dirs : option (list Z)) (body : callback) :=
  ctor1 true KScan (scan_types ops num_scan_inputs axes) body Z.of_nat.
Definition scan_orig (ops : list operand) (num_scan_inputs : Z) (axes dirs : option (list Z)) (body : callback) :=
  ctor1 false KScan (scan_types_orig ops num_scan_inputs) body Z.of_nat.
(* the repaired split with the unrepaired subgraph(), and vice versa (each fix alone) *)
Definition scan_f13only (ops : list operand) (num_scan_inputs : Z) (axes dirs : option (list Z)) (body : callback) :=
  ctor1 false KScan (scan_types ops num_scan_inputs axes) body Z.of_nat.

(* --- SequenceMap, unchanged tree: typing_cast(Sequence, t).elem_type for EVERY operand (a cast does nothing at
   run time; Sequence and Optional have .elem_type, Tensor has not -> AttributeError) *)
Definition elem_type_attr (t : ty) : result ty :=
  match t with Seq t' => Ok t' | Opt t' => Ok t' | Tensor _ _ => Err EAttr end.
Definition seqmap_types_orig (input_sequence : operand) (additional : list operand) : result (list ty) :=
  bind (bind (unwrap_type input_sequence) elem_type_attr)
       (fun a => bind (mapM (fun o => bind (unwrap_type o) elem_type_attr) additional) (fun b => Ok (a :: b))).
(* repaired: additional operands: elem_type if the type is a Sequence, else the type itself *)
Definition elem_or_self (t : ty) : ty := match t with Seq t' => t' | _ => t end.
Definition seqmap_types (input_sequence : operand) (additional : list operand) : result (list ty) :=
  bind (bind (unwrap_type input_sequence) elem_type_attr)
       (fun a => bind (mapM (fun o => bind (unwrap_type o) (fun t => Ok (elem_or_self t))) additional)
                      (fun b => Ok (a :: b))).
Definition sequence_map (input_sequence : operand) (additional : list operand) (body : callback) :=
  ctor1 true KSeqMap (seqmap_types input_sequence additional) body Z.of_nat.
Definition sequence_map_orig (input_sequence : operand) (additional : list operand) (body : callback) :=
  ctor1 false KSeqMap (seqmap_types_orig input_sequence additional) body Z.of_nat.

(* ------------------------------------------------------------------------------------------------ histories *)
(* A session: constructor calls, then builds / inference re-runs of what was constructed.  The world keeps the
   global call trace (newest last) and the nodes constructed so far. *)
Inductive op :=
| OpIf (else_branch then_branch : callback)
| OpLoop (v_initial : list operand) (body : callback)
| OpScan (ops : list operand) (num_scan_inputs : Z) (axes dirs : option (list Z)) (body : callback)
| OpSeqMap (input_sequence : operand) (additional : list operand) (body : callback)
| OpBuild (i : nat)          (* spox.build of a model containing the i-th constructed node *)
| OpSingleton (i : nat).     (* to_singleton_onnx_model() of the i-th constructed node (inference re-run) *)

Record world := mkworld { w_trace : list call; w_nodes : list outcome; w_built : list (list proto) }.

(* build: Builder.compile_graph on each stored Graph: arguments and results are read from the Graph *)
Definition build_subgraphs (o : outcome) : list proto * list call :=
  match o with
  | ONode _ gs _ => (map (fun g => (g_args g, g_results g)) gs, [])
  | OErr _ => ([], [])
  end.
Definition singleton_of (o : outcome) : list proto * list call :=
  match o with ONode _ gs _ => singleton_model gs | OErr _ => ([], []) end.

Definition construct (o : op) : option (outcome * list call) :=
  match o with
  | OpIf e t => Some (if_ e t)
  | OpLoop v b => Some (loop v b)
  | OpScan ops m ax d b => Some (scan ops m ax d b)
  | OpSeqMap s a b => Some (sequence_map s a b)
  | _ => None
  end.

(* the same session on a tree with/without the two repairs (f13: Scan/SequenceMap argument types, f19: materialise) *)
Definition construct_gen (f13 f19 : bool) (o : op) : option (outcome * list call) :=
  match o with
  | OpIf e t => Some (if_gen f19 e t)
  | OpLoop v b => Some (loop_gen f19 v b)
  | OpScan ops m ax d b =>
      Some (ctor1 f19 KScan (if f13 then scan_types ops m ax else scan_types_orig ops m) b Z.of_nat)
  | OpSeqMap s a b =>
      Some (ctor1 f19 KSeqMap (if f13 then seqmap_types s a else seqmap_types_orig s a) b Z.of_nat)
  | _ => None
  end.

Section Step.
  Variable constr : op -> option (outcome * list call).
  Definition step_gen (w : world) (o : op) : world :=
    match constr o with
    | Some (oc, tr) => mkworld (w_trace w ++ tr) (w_nodes w ++ [oc]) (w_built w)
    | None =>
      match o with
      | OpBuild i =>
          match nth_error (w_nodes w) i with
          | Some n => let '(p, tr) := build_subgraphs n in mkworld (w_trace w ++ tr) (w_nodes w) (w_built w ++ [p])
          | None => w
          end
      | OpSingleton i =>
          match nth_error (w_nodes w) i with
          | Some n => let '(p, tr) := singleton_of n in mkworld (w_trace w ++ tr) (w_nodes w) (w_built w ++ [p])
          | None => w
          end
      | _ => w
      end
    end.
End Step.
Definition step := step_gen construct.
Definition run_ops (w : world) (l : list op) : world := fold_left step l w.
Definition empty_world := mkworld [] [] [].
Definition run_ops_on (f13 f19 : bool) (l : list op) : world := fold_left (step_gen (construct_gen f13 f19)) l empty_world.
Fixpoint iter {A} (n : nat) (f : A -> A) (a : A) : A := match n with O => a | S m => iter m f (f a) end.

(* the calls a single op is responsible for *)
Definition op_trace (o : op) : list call := match construct o with Some (_, tr) => tr | None => [] end.
(* the callbacks handed to an op, in the order the constructor reaches them *)
Definition op_callbacks (o : op) : list callback :=
  match o with
  | OpIf e t => [e; t]
  | OpLoop _ b => [b] | OpScan _ _ _ _ b => [b] | OpSeqMap _ _ b => [b]
  | _ => []
  end.

(* ------------------------------------------------------------------------------------------------ ONNX prescription *)
(* Written from the ONNX operator documentation (If-16, Loop-16, Scan-16, SequenceMap-17).

   If:   then_branch / else_branch have no inputs.
   Loop: "body ... has 2+N inputs: (iteration_num, condition, loop carried dependencies...)"; iteration_num is a
         tensor(int64) and condition a tensor(bool) holding a single element (the documentation's example declares
         them as scalars; a runtime accepts rank 0 or shape [1] and feeds what the body declares); the carried values
         keep the type of the corresponding v_initial operand, in order.
   Scan: "(init_1, ..., init_n, scan_1, ..., scan_m)", m = num_scan_inputs, n = len - m; body inputs are
         "(loop state variables..., scan_input_elts...)"; state variables keep their type; "the iterated element
         passed to the body subgraph does not have a sequence axis.  It will have a rank one less than the rank of
         the corresponding scan_input"; scan_input_axes: "the axis to be scanned for the i-th scan_input.  If omitted,
         0 ... Negative value means counting dimensions from the back.  Accepted range is [-r, r-1]".  Tensors only.
   SequenceMap: "Inputs can be either tensors or sequences, with the exception of the first input which must be a
         sequence"; "a sample will be extracted from the input sequence(s) at the i-th position and the sub-graph
         will be applied to it": sequence operands give their element type, tensor operands pass through. *)
Definition spec_if : list ty := [].

Definition single_element (e : N) (t : ty) : Prop :=
  t = Tensor e (Some []) \/ t = Tensor e (Some [DInt 1%N]).
Definition spec_loop (carried : list ty) (args : list ty) : Prop :=
  exists ti tc, args = ti :: tc :: carried /\ single_element e_int64 ti /\ single_element e_bool tc.

Fixpoint remove_nth {A} (n : nat) (l : list A) : list A :=
  match l, n with
  | [], _ => []
  | _ :: t, O => t
  | x :: t, S m => x :: remove_nth m t
  end.
Definition is_tensor (t : ty) : bool := match t with Tensor _ _ => true | _ => false end.
(* the element of a scan input of type t scanned along axis a; None: ONNX does not allow this operand/axis *)
Definition scan_element (t : ty) (a : Z) : option ty :=
  match t with
  | Tensor e None => Some (Tensor e None)
  | Tensor e (Some dims) =>
      let r := Z.of_nat (List.length dims) in
      if (- r <=? a) && (a <? r)
      then Some (Tensor e (Some (remove_nth (Z.to_nat (if a <? 0 then a + r else a)) dims)))
      else None
  | _ => None
  end.
Fixpoint scan_elements (ts : list ty) (axes : list Z) : option (list ty) :=
  match ts, axes with
  | [], [] => Some []
  | t :: ts', a :: axes' =>
      match scan_element t a, scan_elements ts' axes' with
      | Some x, Some xs => Some (x :: xs)
      | _, _ => None
      end
  | _, _ => None
  end.
Definition spec_scan (operands : list ty) (m : nat) (axes : option (list Z)) : option (list ty) :=
  if (m <=? List.length operands)%nat && forallb is_tensor operands
  then
    let n := (List.length operands - m)%nat in
    let axes' := match axes with Some l => l | None => repeat 0 m end in
    match scan_elements (skipn n operands) axes' with
    | Some els => Some (firstn n operands ++ els)%list
    | None => None
    end
  else None.

Definition seqmap_sample (t : ty) : option ty :=
  match t with
  | Seq (Tensor e s) => Some (Tensor e s)
  | Tensor e s => Some (Tensor e s)
  | _ => None
  end.
Fixpoint seqmap_samples (ts : list ty) : option (list ty) :=
  match ts with
  | [] => Some []
  | t :: r => match seqmap_sample t, seqmap_samples r with Some x, Some xs => Some (x :: xs) | _, _ => None end
  end.
Definition spec_seqmap (input_sequence : ty) (additional : list ty) : option (list ty) :=
  match input_sequence with
  | Seq (Tensor e s) => match seqmap_samples additional with Some xs => Some (Tensor e s :: xs) | None => None end
  | _ => None
  end.

(* output counts prescribed by ONNX, from the number r of values the body returns:
   If: r (both branches), Loop: r - 1 (the condition is not an output), Scan: r, SequenceMap: r *)
Definition spec_out_count (k : kind) (r : nat) : Z :=
  match k with KLoop => Z.of_nat r - 1 | _ => Z.of_nat r end.

(* ------------------------------------------------------------------------------------------------ printing *)
(* canonical strings compared with the implementation by harness/c19.py *)
Open Scope string_scope.
Definition show_N (n : N) : string := NilZero.string_of_uint (N.to_uint n).
Definition show_nat (n : nat) : string := NilZero.string_of_uint (Nat.to_uint n).
Definition show_Z (z : Z) : string := NilZero.string_of_int (Z.to_int z).
Fixpoint sep (s : string) (l : list string) : string :=
  match l with [] => "" | [x] => x | x :: t => x ++ s ++ sep s t end.
Definition show_dim (d : dim) : string :=
  match d with DInt n => show_N n | DSym s => "s" ++ show_N s | DUnk => "?" end.
Fixpoint show_ty (t : ty) : string :=
  match t with
  | Tensor e None => "T" ++ show_N e ++ "*"
  | Tensor e (Some l) => "T" ++ show_N e ++ "[" ++ sep "," (map show_dim l) ++ "]"
  | Seq t' => "S(" ++ show_ty t' ++ ")"
  | Opt t' => "O(" ++ show_ty t' ++ ")"
  end.
Definition show_tys (l : list ty) : string := "<" ++ sep ";" (map show_ty l) ++ ">".
Definition show_call (c : call) : string := show_nat (fst c) ++ show_tys (snd c).
Definition show_exn (e : exn) : string :=
  match e with EType => "TypeError" | EAttr => "AttributeError" | EIndex => "IndexError" | EUser n => "User" ++ show_nat n end.
Definition show_graph (g : graph) : string := show_nat (g_ctor g) ++ show_tys (g_args g) ++ "->" ++ show_tys (g_results g).
Definition show_outcome (o : outcome) : string :=
  match o with
  | ONode _ gs n => "node{" ++ sep "|" (map show_graph gs) ++ "}out=" ++ show_Z n
  | OErr e => "raise " ++ show_exn e
  end.
Definition show (r : outcome * list call) : string :=
  show_outcome (fst r) ++ " calls=" ++ sep " " (map show_call (snd r)).
Definition show_sub (r : result graph * list call) : string :=
  match fst r with Ok g => "graph{" ++ show_graph g ++ "}" | Err e => "raise " ++ show_exn e end
  ++ " calls=" ++ sep " " (map show_call (snd r)).
Definition show_proto (p : proto) : string := show_tys (fst p) ++ "->" ++ show_tys (snd p).
Definition show_world (w : world) : string :=
  "calls=" ++ sep " " (map show_call (w_trace w)) ++ " nodes=" ++ sep " / " (map show_outcome (w_nodes w))
  ++ " built=" ++ sep " / " (map (fun ps => sep "|" (map show_proto ps)) (w_built w)).
