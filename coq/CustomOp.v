(* CustomOp.v — model of the user-defined operator path (C18).  Emission is NodeProto.emit with s_min = None (generic
   Node: min_input = len(inputs), min_output = len(outputs), nothing trimmed).  This file adds
     Node.inference           (_node.py: merge of the hooks' results by output key, value kept only if it checks)
     Node.validate_types      (the missing-type / not-concrete warnings, default level INITIAL)
     Node.opset_req + _schemas.max_opset_policy   (one import per domain, highest version requested)
     _adapt.adapt_best_effort (decision only: which nodes are handed to the version converter)
   What hooks return is arbitrary (types T, values V, exceptions E): Section variables.  No proofs in this file. *)
From Coq Require Import List String Bool Arith NArith.
From Spox Require Import NodeProto.
Import ListNotations.
Local Open Scope list_scope.

Section Inference.
  Variables T V E : Type.
  Variable check : T -> V -> bool.          (* PropValue(type, value).check() *)
  Variable concrete : T -> bool.            (* Node._check_concrete_type(type) is None *)

  Inductive warning := WDropped (key : string) | WMissing (key : string) | WNotConcrete (key : string).
  Definition hook (R : Type) := (E + list (string * R))%type.     (* raises | returns a dict ({} when not overridden) *)

  (* for key, var in outputs: var.type = out_types.get(key) *)
  Definition merge_types (keys : list string) (types : list (string * T)) : list (string * option T) :=
    map (fun k => (k, dict_get types k)) keys.
  (* if var.type is not None and key in out_values: prop = PropValue(var.type, v); keep iff prop.check() *)
  Definition merge_value (values : list (string * V)) (kt : string * option T) : option V * list warning :=
    match snd kt, dict_get values (fst kt) with
    | Some t, Some v => if check t v then (Some v, []) else (None, [WDropped (fst kt)])
    | _, _ => (None, [])
    end.
  Definition validate (inputs_concrete : bool) (kt : string * option T) : list warning :=
    match snd kt with
    | None => [WMissing (fst kt)]
    | Some t => if inputs_concrete && negb (concrete t) then [WNotConcrete (fst kt)] else []
    end.

  Record outvar := { o_key : string; o_type : option T; o_value : option V }.
  (* Node.__init__: inference() then validate_types(); the type hook runs first, then the value hook *)
  Definition node_init (keys : list string) (inputs_concrete : bool) (th : hook T) (vh : hook V)
    : E + (list outvar * list warning) :=
    match th with
    | inl e => inl e
    | inr types =>
        let typed := merge_types keys types in
        match vh with
        | inl e => inl e
        | inr values =>
            inr (map (fun kt => {| o_key := fst kt; o_type := snd kt; o_value := fst (merge_value values kt) |}) typed,
                 flat_map (fun kt => snd (merge_value values kt)) typed ++ flat_map (validate inputs_concrete) typed)
        end
    end.
End Inference.
Arguments node_init {T V E} check concrete keys inputs_concrete th vh.

(* ------------------------------------------------------------------------------------------------ opset imports *)
Definition default_alias : string := "ai.onnx"%string.
Definition norm_domain (d : string) : string := if seqb d default_alias then EmptyString else d.
(* max_opset_policy: the version imported for domain d (None: no import) *)
Fixpoint policy_version (reqs : list (string * N)) (d : string) : option N :=
  match reqs with
  | [] => None
  | (d', v) :: t =>
      let r := policy_version t d in
      if seqb (norm_domain d') d then Some (match r with Some m => N.max v m | None => v end) else r
  end.
Definition call_req (c : call) : string * N := (s_domain (c_sig c), s_version (c_sig c)).      (* Node.opset_req *)

(* ------------------------------------------------------------------------------------------------ adapt_best_effort (decision) *)
Inductive adapt_result := Unchanged | UnchangedWarned | Converted | Crash.
(* reqs = {v for d, v in node.opset_req if d == domain}: compared WITHOUT normalising d *)
Fixpoint raw_max (reqs : list (string * N)) (d : string) : option N :=
  match reqs with
  | [] => None
  | (d', v) :: t => let r := raw_max t d in
                    if seqb d' d then Some (match r with Some m => N.max v m | None => v end) else r
  end.
Definition is_default (d : string) : bool := seqb d EmptyString || seqb d default_alias.
Definition adapt_decision (internal single_proto has_graph_attr : bool) (proto_domain : string)
           (node_reqs : list (string * N)) (target : N) (schemas_known_equal : bool) : adapt_result :=
  if internal || negb single_proto then Unchanged
  else if has_graph_attr then Unchanged
  else
    let domain := norm_domain proto_domain in
    match raw_max node_reqs domain with
    | None => Crash                                            (* max() of an empty set: ValueError *)
    | Some source =>
        let mismatch := negb (N.eqb source target) && negb schemas_known_equal in
        if negb mismatch then Unchanged
        else if negb (is_default proto_domain) then UnchangedWarned
        else Converted
    end.
