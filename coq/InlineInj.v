(* InlineInj.v — the renaming applied to an inlined model is a FUNCTION of the inner name and is INJECTIVE by construction: two
   different inner names are never merged into one outer name (except two inputs of the inlined model that the caller bound to the
   same outer value, which is what the caller asked for).  Together with InlineDefs this is the alpha-renaming claim of C08 without a
   validator: reserved names are fresh each time, outputs are distinct Vars of the Inline node, the Var table is injective, reserved
   names and Var names are disjoint.  (C08) *)
From Coq Require Import List String NArith Arith Bool Lia.
From Spox Require Import Base IR Show Build Sem Plan Named Validate BuildFacts CompilePres ScopeFacts InlineDefs.
Import ListNotations.
Open Scope list_scope.

Lemma index_last_spec x : forall l i acc k, index_last x l i acc = Some k ->
  (acc = Some k /\ forall y, In y l -> y <> x) \/ (i <= k /\ nth (k - i) l ""%string = x /\ k - i < List.length l).
Proof. induction l as [|y t IH]; intros i acc k H; cbn in H.
  - left. split; [exact H|intros y []].
  - destruct (IH _ _ _ H) as [[Ha Hn]|(Hle & Hnth & Hlt)].
    + destruct (String.eqb_spec x y) as [->|Hne].
      * inversion Ha; subst. right. rewrite Nat.sub_diag. cbn. split; [lia|]. split; [reflexivity|lia].
      * left. split; [exact Ha|]. intros z [<-|Hz]; [congruence|auto].
    + right. split; [lia|]. replace (k - i) with (S (k - S i)) by lia. cbn. split; [exact Hnth|lia]. Qed.
Lemma index_last_nth x l k : index_last x l 0 None = Some k -> nth k l ""%string = x.
Proof. intros H. destruct (index_last_spec _ _ _ _ _ H) as [[Ha _]|(_ & Hn & _)]; [discriminate|]. now rewrite Nat.sub_0_r in Hn. Qed.

Section Inj.
Variables (nm : String.string) (u : nref) (operands : list (option var)) (in_names out_names : list String.string).
Notation rv := (rename_val nm u operands in_names out_names).

(* the renaming is a function of the inner name *)
Lemma Rn_functional st d r r' : Rn u operands in_names out_names st d r -> Rn u operands in_names out_names st d r' -> r = r'.
Proof. destruct st as [[sc vt] nt]. cbn.
  destruct (index_last d in_names 0 None); [intros (v & E & H) (v' & E' & H'); congruence|].
  destruct (index_last d out_names 0 None); congruence. Qed.

(* at a state whose scope has injective tables: two inner names renamed to the same non-empty outer name are the same name, or
   both are inputs of the inlined model (bound by the caller to one outer value) *)
Theorem Rn_injective st d d' r :
  ScopeInv (fst (fst st)) -> InvVt st ->
  (forall i v k, nth i operands None = Some v -> v <> V u k) ->
  Rn u operands in_names out_names st d r -> Rn u operands in_names out_names st d' r -> r <> ""%string ->
  d = d' \/ (index_last d in_names 0 None <> None /\ index_last d' in_names 0 None <> None).
Proof.
  destruct st as [[sc vt] nt]. cbn [fst]. intros Hs [H1 H2] Hop Hd Hd' Hr. cbn in Hd, Hd'.
  destruct (index_last d in_names 0 None) as [i|] eqn:Ei; destruct (index_last d' in_names 0 None) as [i'|] eqn:Ei'.
  - right. split; discriminate.
  - exfalso. destruct Hd as (v & Ev & Hv). destruct (index_last d' out_names 0 None) as [k|].
    + destruct Hs as [[_ Hn] _]. apply (lookup_In var_eqb var_eqb_spec) in Hv. apply (lookup_In var_eqb var_eqb_spec) in Hd'.
      exact (Hop i v k Ev (table_fst_inj _ _ _ _ Hn Hv Hd')).
    + destruct (H1 d' r Hd') as [E|Hin]; [congruence|]. exact (reserved_is_no_var_name sc r v Hs Hin Hv).
  - exfalso. destruct Hd' as (v & Ev & Hv). destruct (index_last d out_names 0 None) as [k|].
    + destruct Hs as [[_ Hn] _]. apply (lookup_In var_eqb var_eqb_spec) in Hv. apply (lookup_In var_eqb var_eqb_spec) in Hd.
      exact (Hop i' v k Ev (table_fst_inj _ _ _ _ Hn Hv Hd)).
    + destruct (H1 d r Hd) as [E|Hin]; [congruence|]. exact (reserved_is_no_var_name sc r v Hs Hin Hv).
  - left. destruct (index_last d out_names 0 None) as [k|] eqn:Ek; destruct (index_last d' out_names 0 None) as [k'|] eqn:Ek'.
    + destruct Hs as [[_ Hn] _]. apply (lookup_In var_eqb var_eqb_spec) in Hd. apply (lookup_In var_eqb var_eqb_spec) in Hd'.
      pose proof (table_fst_inj _ _ _ _ Hn Hd Hd') as E. inversion E; subst k'. rewrite <- (index_last_nth _ _ _ Ek), <- (index_last_nth _ _ _ Ek'). reflexivity.
    + exfalso. destruct (H1 d' r Hd') as [E|Hin]; [congruence|]. exact (reserved_is_no_var_name sc r _ Hs Hin Hd).
    + exfalso. destruct (H1 d r Hd) as [E|Hin]; [congruence|]. exact (reserved_is_no_var_name sc r _ Hs Hin Hd').
    + eapply H2; eauto.
Qed.
End Inj.

(* the state in which an inlined block has been completely renamed (as in compile_step) satisfies the invariant, so the renaming
   relation of InlineDefs (every definition of the block comes from an inner definition through Rn) is functional and injective *)
Theorem inline_block_state_ok nm u operands gi go_ s2 body vi ri sri rb srb ro sro rvi srvi :
  mapS (rename_val nm u operands gi go_) (s2, [], []) gi = inl (ri, sri) ->
  (fix go (st : rstate) (l : list onode) {struct l} : res (list mraw * rstate) :=
     match l with
     | [] => ret ([], st)
     | n :: t => do rn <- rename_onode nm u operands gi go_ st n ;; do rt <- go (snd rn) t ;; ret (fst rn :: fst rt, snd rt)
     end) sri body = inl (rb, srb) ->
  mapS (rename_val nm u operands gi go_) srb go_ = inl (ro, sro) ->
  mapS (rename_val nm u operands gi go_) sro vi = inl (rvi, srvi) ->
  InvVt srvi /\ vname (fst (fst srvi)) = vname s2 /\
  Cov u operands gi go_ srvi (flat_map odefs_node body) (flat_map defs_raw rb).
Proof.
  intros Hri Hrb Hro Hrvi.
  assert (I0 : InvVt (s2, [], [])) by (cbn; split; [intros d r Hd; discriminate Hd|intros d d' r Hd; discriminate Hd]).
  destruct (mapS_rv_facts nm u operands gi go_ _ _ _ _ Hri I0) as (L1 & I1 & _).
  destruct (body_loop_defs nm u operands gi go_ _ _ _ _ Hrb I1) as (L2 & I2 & C2).
  destruct (mapS_rv_facts nm u operands gi go_ _ _ _ _ Hro I2) as (L3 & I3 & _).
  destruct (mapS_rv_facts nm u operands gi go_ _ _ _ _ Hrvi I3) as (L4 & I4 & _).
  split; [exact I4|]. split.
  - pose proof (St_le_trans _ _ _ L1 (St_le_trans _ _ _ L2 (St_le_trans _ _ _ L3 L4))) as L. destruct srvi as [[scf vtf] ntf]. cbn in L. cbn. tauto.
  - eapply Cov_mono; [exact (St_le_trans _ _ _ L3 L4)|exact C2].
Qed.
