(* ReqFacts.v — the default opset of a returned model is never below 14, BY CONSTRUCTION (no validator): a result identity
   (Introduce node) can only be named by the loop step that also records its opset requirement ("", 14), the value infos of the
   graph outputs need those names, and the import policy covers every recorded requirement (AdaptFacts.policy_covers).  (C09) *)
From Coq Require Import List String NArith Arith Bool Lia.
From Spox Require Import Base IR Show Build Sem Plan Named Validate BuildFacts CompilePres ScopeFacts EmitFacts IOFacts Adapt AdaptFacts.
Import ListNotations.
Open Scope list_scope.

Definition has (rq : req) (dv : String.string * nat) : Prop := mem req_eqb dv rq = true.
Lemma req_eqb_refl dv : req_eqb dv dv = true.
Proof. unfold req_eqb. now rewrite String.eqb_refl, Nat.eqb_refl. Qed.
Lemma req_eqb_spec a b : reflect (a = b) (req_eqb a b).
Proof. destruct a as [d v], b as [d' v']. unfold req_eqb. cbn. destruct (String.eqb_spec d d'), (Nat.eqb_spec v v'); cbn; constructor; congruence. Qed.
Lemma has_add_set rq x dv : has rq dv -> has (add_set req_eqb x rq) dv.
Proof. unfold has, add_set. destruct (mem req_eqb x rq); [auto|]. intros H. unfold mem in *. rewrite existsb_app. now rewrite H. Qed.
Lemma has_add_set_new rq x : has (add_set req_eqb x rq) x.
Proof. unfold has, add_set. destruct (mem req_eqb x rq) eqn:E; [exact E|]. unfold mem. rewrite existsb_app. cbn. rewrite req_eqb_refl. now rewrite orb_true_r. Qed.
Lemma has_union_l b : forall a dv, has a dv -> has (union req_eqb a b) dv.
Proof. unfold union. induction b as [|x t IH]; cbn; intros a dv H; [exact H|]. apply IH. now apply has_add_set. Qed.
Lemma has_union_r b : forall a dv, In dv b -> has (union req_eqb a b) dv.
Proof. unfold union. induction b as [|x t IH]; cbn; intros a dv H; [destruct H|]. destruct H as [->|H]; [|now apply IH].
  apply (has_union_l t). apply has_add_set_new. Qed.
Lemma has_In rq dv : has rq dv -> In dv rq.
Proof. unfold has. intros H. now apply (mem_In req_eqb req_eqb_spec) in H. Qed.

(* which bindings a Scope.update can add: only outputs of its own node *)
Lemma set_var_new s v n s' w m : set_var s v n = inl s' -> lookup var_eqb w (vname s') = Some m ->
  lookup var_eqb w (vname s) = Some m \/ w = v.
Proof. unfold set_var. destruct (find _ (vname s)) as [[v' n']|].
  - destruct (var_eqb v v'); [|discriminate]. intros H; inversion H; subst. now left.
  - destruct (mem String.eqb n (reserved s)); [discriminate|]. destruct (lookup var_eqb v (vname s)); [discriminate|].
    intros H; inversion H; subst. cbn. intros Hl. apply (lookup_snoc var_eqb var_eqb_spec) in Hl. destruct Hl as [Hl|(_ & -> & _)]; auto. Qed.
Lemma scope_update_new p un s u prefix s' w m : scope_update p un s u prefix = inl s' -> lookup var_eqb w (vname s') = Some m ->
  lookup var_eqb w (vname s) = Some m \/ vnode w = u.
Proof.
  unfold scope_update. destruct (enum (ncnt s) (prefix ++ node_ident p u))%string as [nm nc]. intros H.
  apply bind_ok in H. destruct H as [s1 [H1 H2]].
  assert (E1 : vname s1 = vname s).
  { unfold set_node in H1. destruct (find _ (nname (with_ncnt s nc))) as [[u' n']|].
    - destruct (nref_eqb u u'); [|discriminate]. now inversion H1.
    - destruct (lookup nref_eqb u (nname (with_ncnt s nc))); [discriminate|]. now inversion H1. }
  rewrite <- E1. clear H1 E1. revert s1 H2. generalize (combine (seqn 0 (List.length (node_outs p u))) (node_outs p u)) as l.
  induction l as [|[k f] t IH]; intros s1 H2 Hl; cbn [foldM] in H2; [inversion H2; subst; now left|].
  apply bind_ok in H2. destruct H2 as [s2 [Hf H2]]. cbn [fst snd] in Hf. destruct (IH s2 H2 Hl) as [Hl2|Hu]; [|now right].
  destruct (var_name p un (V u k)) as [x|].
  - destruct (set_var_new _ _ _ _ _ _ Hf Hl2) as [H0| ->]; [now left|now right].
  - destruct (maybe_enum (vcnt s1) (nm ++ "_" ++ f))%string as [x vc]. destruct (set_var_new _ _ _ _ _ _ Hf Hl2) as [H0| ->]; [now left|now right].
Qed.

Definition SameV (s0 s : scope) : Prop := vname s = vname s0.

Section Req.
Variables (p : prog) (un : names) (args_of : nat -> list var) (own_of : nat -> list nref)
          (fbuild : nat -> nat -> res (list mnode * req * list fdesc)).
Hypothesis Hargs : forall g a, In a (args_of g) -> exists n, vnode a = NReal n.

(* the requirement of a result identity: ("", 14), or ("", 16) when a result is of Optional type *)
Definition hasfloor (rq : req) : Prop := exists v, INTERNAL_MIN_OPSET <= v /\ has rq (""%string, v).
Lemma hasfloor_mono rq rq' : (forall dv, has rq dv -> has rq' dv) -> hasfloor rq -> hasfloor rq'.
Proof. intros Hm [v [Hv Hh]]. exists v. split; [exact Hv|now apply Hm]. Qed.
(* every result identity named since s0 has its requirement recorded in rq *)
Definition R (s0 s : scope) (rq : req) : Prop :=
  forall g k n, lookup var_eqb (V (NIntro g) k) (vname s) = Some n ->
    lookup var_eqb (V (NIntro g) k) (vname s0) = Some n \/ hasfloor rq.
Lemma R_mono s0 s rq rq' : (forall dv, has rq dv -> has rq' dv) -> R s0 s rq -> R s0 s rq'.
Proof. intros Hm Hr g k n Hl. destruct (Hr g k n Hl) as [|Hh]; [now left|right; eapply hasfloor_mono; eauto]. Qed.

Definition accR (s0 : scope) (acc : list mnode * scope * req * list fdesc * list fdesc) : Prop :=
  let '(ms, s, rq, fs, sfs) := acc in R s0 s rq.

Section Step.
Variable rec : scope -> nat -> String.string -> option bool -> res (mgraph * scope * req * list fdesc).
Hypothesis Hrec : forall s g pre vi mg s' rq fs, rec s g pre vi = inl (mg, s', rq, fs) -> R s s' rq.

Lemma attr_fold_R s0 nm : forall l a0 al sz rqz fz,
  foldM (fun (acc : list (String.string * option mgraph) * scope * req * list fdesc) (ka : String.string * attrv) =>
           let '(l, s, rq, fs) := acc in
           match snd ka with
           | AVal _ => ret ((l ++ [(fst ka, None)])%list, s, rq, fs)
           | AGraph sub =>
             do r <- rec s sub (nm ++ "_" ++ fst ka ++ "__")%string (Some false) ;;
             let '(mg, s', rq', fs') := r in
             ret ((l ++ [(fst ka, Some mg)])%list, s', union req_eqb rq rq', (fs ++ fs')%list)
           end) l a0 = inl (al, sz, rqz, fz) ->
  R s0 (snd (fst (fst a0))) (snd (fst a0)) -> R s0 sz rqz.
Proof. induction l as [|ka t IH]; intros [[[l0 sa] rqa] fsa] al sz rqz fz H Hr; cbn [foldM] in H; cbn [fst snd] in Hr.
  - inversion H; subst. exact Hr.
  - apply bind_ok in H. destruct H as [[[[l1 s1] rq1] fs1] [Hk H]]. eapply IH; [exact H|]. cbn [fst snd].
    destruct (snd ka) as [sub|x]; [|inversion Hk; subst; exact Hr].
    apply bind_ok in Hk. destruct Hk as [[[[mg0 sb] rqb] fsb] [Hc Hk]]. inversion Hk; subst.
    pose proof (Hrec _ _ _ _ _ _ _ _ Hc) as Hsub. intros g k n Hl. destruct (Hsub g k n Hl) as [Hb|Hh].
    + destruct (Hr g k n Hb) as [H0|Hh]; [now left|right; eapply hasfloor_mono; [|exact Hh]; intros dv0 Hd0; now apply has_union_l].
    + right. eapply hasfloor_mono; [|exact Hh]. intros dv0 Hd0. apply has_union_r. now apply has_In. Qed.

Lemma step_R prefix s0 acc u acc' : compile_step p un fbuild rec prefix acc u = inl acc' -> accR s0 acc -> accR s0 acc'.
Proof.
  destruct acc as [[[[ms s] rq] fs] sfs]. destruct acc' as [[[[ms' s'] rq'] fs'] sfs']. intros Hu Hr. unfold accR in *. unfold compile_step in Hu.
  destruct (is_arg p u) eqn:Ea; [inversion Hu; subst; exact Hr|].
  destruct u as [n|g'].
  - apply bind_ok in Hu. destruct Hu as [[rqm fsm] [Hmeta Hu]].
    assert (Hm : forall dv, has rq dv -> has rqm dv).
    { destruct (kind (getn p n)); try (inversion Hmeta; subst; intros dv; apply has_union_l).
      apply bind_ok in Hmeta. destruct Hmeta as [[[bn brq] bfs] [_ Hmeta]]. inversion Hmeta; subst. intros dv Hd. apply has_union_l. first [now apply has_union_l | now apply has_add_set]. }
    apply bind_ok in Hu. destruct Hu as [s2 [Hu2 Hu]].
    assert (Hr2 : R s0 s2 rqm).
    { intros g k x Hl. destruct (scope_update_new _ _ _ _ _ _ _ _ Hu2 Hl) as [Hl0|E]; [|discriminate E].
      destruct (Hr g k x Hl0) as [|Hh]; [now left|right; eapply hasfloor_mono; [exact Hm|exact Hh]]. }
    destruct (kind (getn p n)) as [| | |om imp|body fi fo fa] eqn:Hk.
    + inversion Hu; subst. exact Hr.
    + apply bind_ok in Hu. destruct Hu as [o [_ Hu]]. inversion Hu; subst. exact Hr2.
    + apply bind_ok in Hu. destruct Hu as [nm [_ Hu]]. apply bind_ok in Hu. destruct Hu as [inn [_ Hu]].
      apply bind_ok in Hu. destruct Hu as [outn [_ Hu]]. apply bind_ok in Hu. destruct Hu as [[[[al s3] rq3] sfs3] [Hsg Hu]].
      inversion Hu; subst. eapply attr_fold_R; [exact Hsg|exact Hr2].
    + apply bind_ok in Hu. destruct Hu as [nm [_ Hu]]. destruct om as [gi gin body go_ vi].
      apply bind_ok in Hu. destruct Hu as [[ri sri] [Hri Hu]]. apply bind_ok in Hu. destruct Hu as [[rb srb] [Hrb Hu]].
      apply bind_ok in Hu. destruct Hu as [[ro sro] [Hro Hu]]. apply bind_ok in Hu. destruct Hu as [[rvi srvi] [Hrvi Hu]].
      apply bind_ok in Hu. destruct Hu as [ids [_ Hu]]. apply bind_ok in Hu. destruct Hu as [inn [_ Hu]].
      apply bind_ok in Hu. destruct Hu as [outn [_ Hu]]. inversion Hu; subst. cbn [fst snd] in *.
      assert (Hvc : forall s c, SameV s2 s -> SameV s2 (with_vcnt s c)) by (intros; assumption).
      assert (Hres : forall s r, SameV s2 s -> name_taken s r = false -> SameV s2 (with_reserved s (reserved s ++ [r]))) by (intros; assumption).
      pose proof (CompilePres.rename_val_same (SameV s2) Hvc Hres nm (NReal n) (ins (getn p n)) gi go_) as Hrv.
      apply (@CompilePres.mapS_same (SameV s2) _ _ Hrv) in Hri. apply (CompilePres.body_loop_same (SameV s2) Hvc Hres) in Hrb.
      apply (@CompilePres.mapS_same (SameV s2) _ _ Hrv) in Hro. apply (@CompilePres.mapS_same (SameV s2) _ _ Hrv) in Hrvi.
      pose proof (Hrvi (Hro (Hrb (Hri eq_refl)))) as E. cbn [fst] in E. unfold SameV in E. intros g k x Hl. rewrite E in Hl. exact (Hr2 g k x Hl).
    + apply bind_ok in Hu. destruct Hu as [nm [_ Hu]]. apply bind_ok in Hu. destruct Hu as [inn [_ Hu]].
      apply bind_ok in Hu. destruct Hu as [outn [_ Hu]]. apply bind_ok in Hu. destruct Hu as [[[[al s3] rq3] sfs3] [Hsg Hu]].
      inversion Hu; subst. eapply attr_fold_R; [exact Hsg|exact Hr2].
  - apply bind_ok in Hu. destruct Hu as [s2 [Hu2 Hu]].
    apply bind_ok in Hu. destruct Hu as [nm [_ Hu]]. apply bind_ok in Hu. destruct Hu as [i [_ Hu]].
    apply bind_ok in Hu. destruct Hu as [o [_ Hu]]. inversion Hu; subst.
    intros g k x Hl. destruct (scope_update_new _ _ _ _ _ _ _ _ Hu2 Hl) as [Hl0|E].
    + destruct (Hr g k x Hl0) as [|Hh]; [now left|right; eapply hasfloor_mono; [|exact Hh]; intros dv0 Hd0; first [now apply has_union_l | now apply has_add_set]].
    + right. exists (intro_version p g'). split; [unfold intro_version, INTERNAL_MIN_OPSET; destruct (existsb _ _); lia|].
      first [apply has_union_r; cbn; now left | apply has_add_set_new].
Qed.
End Step.

Theorem compile_R : forall fuel s g prefix vi mg s' rq fs,
  compile p un args_of own_of fbuild fuel s g prefix vi = inl (mg, s', rq, fs) -> R s s' rq.
Proof.
  induction fuel as [|f IH]; intros s g prefix vi mg s' rq fs H; [discriminate H|]. cbn [Build.compile] in H.
  apply bind_ok in H. destruct H as [s1 [H1 H]].
  assert (Hr1 : R s s1 []).
  { revert H1. generalize (Hargs g). generalize (args_of g) as l. intros l Hl. revert s. induction l as [|a t IHt]; intros s H1; cbn [foldM] in H1.
    - inversion H1; subst. intros g0 k n Hx. now left.
    - apply bind_ok in H1. destruct H1 as [s2 [Hu H1]]. pose proof (IHt (fun a0 H0 => Hl a0 (or_intror H0)) s2 H1) as Hr.
      intros g0 k n Hx. destruct (Hr g0 k n Hx) as [Hb|Hh]; [|now right].
      destruct (scope_update_new _ _ _ _ _ _ _ _ Hu Hb) as [H0|E]; [now left|]. destruct (Hl a (or_introl eq_refl)) as [m Em]. cbn in E. congruence. }
  apply bind_ok in H. destruct H as [[[[[ms s3] rq3] fs0] sfs] [H2 H]].
  assert (Hr3 : accR s (ms, s3, rq3, fs0, sfs)).
  { assert (Hi : accR s ([], s1, [], [], [])) by exact Hr1. revert H2 Hi. apply (CompilePres.foldM_inv (accR s)). intros acc u acc' Hs. eapply step_R; [|exact Hs]. exact IH. }
  destruct (Nat.eqb (List.length (gres (getg p g))) 0); [discriminate H|].
  apply bind_ok in H. destruct H as [ai [_ H]]. apply bind_ok in H. destruct H as [ro [_ H]]. inversion H; subst. exact Hr3.
Qed.

(* a successfully compiled graph (it has at least one result, whose name the value infos needed) records ("", 14) *)
Theorem compile_records_floor fuel g prefix vi mg s' rq fs :
  compile p un args_of own_of fbuild fuel scope0 g prefix vi = inl (mg, s', rq, fs) -> hasfloor rq.
Proof.
  intros H. pose proof (compile_R _ _ _ _ _ _ _ _ _ H) as Hr.
  destruct fuel as [|f]; [discriminate|]. cbn [Build.compile] in H.
  apply bind_ok in H. destruct H as [s1 [_ H]]. apply bind_ok in H. destruct H as [[[[[ms s3] rq3] fs0] sfs] [_ H]].
  destruct (List.length (gres (getg p g))) as [|n] eqn:En; [discriminate H|]. cbn [Nat.eqb] in H.
  apply bind_ok in H. destruct H as [ai [_ H]]. apply bind_ok in H. destruct H as [ro [Hro H]]. inversion H; subst.
  cbn [seqn map mapM] in Hro. apply bind_ok in Hro. destruct Hro as [x [Hx _]].
  unfold value_info in Hx. apply bind_ok in Hx. destruct Hx as [nm [Hv _]]. unfold vlook in Hv.
  destruct (lookup var_eqb (V (NIntro g) 0) (vname s')) as [m|] eqn:El; [|discriminate].
  destruct (Hr g 0 m El) as [Hb|Hh]; [discriminate Hb|exact Hh].
Qed.
End Req.

(* ---------- arguments are outputs of real nodes (never of result identities) ---------- *)
Definition Qv (v : var) : Prop := exists n, vnode v = NReal n.
Definition AllQ (l : list (nat * list var)) : Prop := forall g vs, In (g, vs) l -> Forall Qv vs.
Definition DInv (st : dstate) : Prop := AllQ (d_all st) /\ AllQ (d_args st).
Definition wf_gargs (p : prog) : Prop := forall g l, gargs (getg p g) = Some l -> Forall Qv l.

Lemma Forall_add_set x l : Qv x -> Forall Qv l -> Forall Qv (add_set var_eqb x l).
Proof. unfold add_set. destruct (mem var_eqb x l); [auto|]. intros Hx Hl. apply Forall_app. split; [exact Hl|constructor; [exact Hx|constructor]]. Qed.
Lemma Forall_union b : forall a, Forall Qv a -> Forall Qv b -> Forall Qv (union var_eqb a b).
Proof. unfold union. induction b as [|x t IH]; cbn; intros a Ha Hb; [exact Ha|]. inversion Hb; subst. apply IH; [now apply Forall_add_set|assumption]. Qed.
Lemma getl_AllQ g l : AllQ l -> Forall Qv (getl g l).
Proof. unfold getl, lookup. intros H. destruct (find (fun kv => Nat.eqb g (fst kv)) l) as [[g' vs]|] eqn:E; cbn; [|constructor].
  apply find_some in E. destruct E as [Hin _]. exact (H _ _ Hin). Qed.

Lemma discover_DInv p : wf_gargs p -> forall fuel st g st', discover fuel p st g = inl st' -> DInv st -> DInv st'.
Proof.
  intros Hwf. induction fuel as [|f IH]; intros st g st' H Hd; [discriminate|]. cbn [discover] in H.
  destruct (mem Nat.eqb g (d_vis st)); [inversion H; subst; exact Hd|].
  destruct (match gres (getg p g) with [] => true | _ => false end); [discriminate|].
  apply bind_ok in H. destruct H as [[[[st1 all] claimed] used] [Hf H]].
  assert (Hinv : DInv st1 /\ Forall Qv all).
  { revert Hf. match goal with |- foldM ?F ?L ?A = _ -> _ => generalize L as nodes_post; set (A0 := A); set (FF := F) end.
    assert (Hi : DInv (fst (fst (fst A0))) /\ Forall Qv (snd (fst (fst A0)))) by (cbn; split; [exact Hd|constructor]).
    generalize A0 Hi. clear A0 Hi. intros A0 Hi nodes_post. revert A0 Hi. induction nodes_post as [|nd t IHn]; intros A0 Hi Hf; cbn [foldM] in Hf.
    - inversion Hf; subst. exact Hi.
    - apply bind_ok in Hf. destruct Hf as [A1 [Hs Hf]]. eapply IHn; [|exact Hf]. clear IHn Hf. subst FF. cbn beta in Hs.
      destruct A0 as [[[stx allx] clx] usx]. cbn [fst snd] in Hi.
      assert (Hall' : Forall Qv (fst (if is_arg p nd then (add_set var_eqb (argvar nd) allx, add_set var_eqb (argvar nd) usx) else (allx, usx)))).
      { destruct (is_arg p nd) eqn:Ea; cbn; [|tauto]. apply Forall_add_set; [|tauto]. destruct nd as [n|g0]; [exists n; reflexivity|cbn in Ea; discriminate]. }
      destruct (if is_arg p nd then (add_set var_eqb (argvar nd) allx, add_set var_eqb (argvar nd) usx) else (allx, usx)) as [all2 used2]. cbn [fst] in Hall'.
      revert Hs. generalize (subs_of p nd) as sl. destruct Hi as [Hdx _].
      assert (Hj : DInv stx /\ Forall Qv all2) by tauto. clear Hdx Hall'. revert Hj. generalize stx all2 clx used2. clear stx allx clx usx all2 used2.
      intros stx all2 clx used2 Hj sl. revert stx all2 clx used2 Hj. induction sl as [|kg t2 IHs]; intros stx all2 clx used2 Hj Hs; cbn [foldM] in Hs.
      + inversion Hs; subst. cbn. exact Hj.
      + apply bind_ok in Hs. destruct Hs as [[[[sty ally] cly] usy] [Hk Hs]]. eapply IHs; [|exact Hs]. clear IHs Hs.
        apply bind_ok in Hk. destruct Hk as [st2 [Hdisc Hk]]. destruct Hj as [Hdx Hax]. pose proof (IH _ _ _ Hdisc Hdx) as [Ha2 Hg2].
        assert (Hu : Forall Qv (union var_eqb all2 (getl (snd kg) (d_all st2)))) by (apply Forall_union; [exact Hax|now apply getl_AllQ]).
        destruct (lookup Nat.eqb (snd kg) (d_own st2)) as [o|].
        * destruct (nref_eqb o nd); [|discriminate]. inversion Hk; subst. split; [split; assumption|exact Hu].
        * inversion Hk; subst. split; [split; assumption|exact Hu]. }
  destruct Hinv as [[Ha1 Hg1] Hall].
  assert (Hcons : forall (l0 : list (nat * list var)) vs0, AllQ l0 -> Forall Qv vs0 -> AllQ ((g, vs0) :: l0)).
  { intros l0 vs0 Hl0 Hv g0 vs [E|Hin]; [inversion E; subst; exact Hv|exact (Hl0 _ _ Hin)]. }
  destruct (gargs (getg p g)) as [l|] eqn:Eg.
  - destruct (inter var_eqb l claimed); [|discriminate]. destruct (inter var_eqb claimed used); [|discriminate]. inversion H; subst.
    pose proof (Hwf g l Eg) as Hl. split; cbn [d_all d_args]; apply Hcons; auto. now apply Forall_union.
  - destruct (inter var_eqb (diff var_eqb all claimed) claimed); [|discriminate]. destruct (inter var_eqb claimed used); [|discriminate]. inversion H; subst.
    split; cbn [d_all d_args]; apply Hcons; auto.
    unfold diff. apply Forall_forall. intros x Hx. apply filter_In in Hx. rewrite Forall_forall in Hall. now apply Hall.
Qed.

(* ---------- the public build ---------- *)
Theorem build_main_records_floor vi ffuel p un main b :
  wf_gargs p -> build_main_gen vi ffuel p un main = inl b -> hasfloor (b_req b).
Proof. intros Hwf. destruct ffuel as [|ff]; [discriminate|]. cbn [build_main_gen]. intros H.
  apply bind_ok in H. destruct H as [d [Hd H]]. apply bind_ok in H. destruct H as [[[[mg s] rq] fs] [Hc H]].
  inversion H; subst. cbn [b_req]. eapply compile_records_floor; [|exact Hc].
  intros g a Hin. assert (Hdi : DInv d) by (eapply discover_DInv; [exact Hwf|exact Hd|split; intros g0 vs []]).
  destruct Hdi as [_ Hga]. pose proof (getl_AllQ g _ Hga) as HF. rewrite Forall_forall in HF. exact (HF a Hin). Qed.

Theorem build_public_floor p r m : wf_gargs p -> build_public p r = inl m ->
  exists v, lookup String.eqb ""%string (mimports m) = Some v /\ 14 <= v.
Proof.
  intros Hwf H. unfold build_public in H.
  destruct (all_vars (r_inputs r)) as [inputs|] eqn:Hi; [|discriminate]. destruct (all_vars (r_outputs r)) as [outputs|]; [|discriminate].
  destruct (negb _) eqn:Earg; [discriminate|]. destruct outputs as [|o os]; [discriminate|].
  apply negb_false_iff in Earg. rewrite forallb_forall in Earg.
  apply bind_ok in H. destruct H as [args [Ha H]]. apply bind_ok in H. destruct H as [b [Hb H]].
  apply bind_ok in H. destruct H as [m' [Hm H]]. pose proof (to_model_struct _ _ Hm) as (_ & _ & Himp).
  destruct (mmain m') as [gi body go_]. destruct (forallb _ gi); [|discriminate]. inversion H; subst m'. rewrite Himp.
  assert (Hsub : forall a, In a args -> In a (map snd inputs)).
  { destruct (r_drop r).
    - apply bind_ok in Ha. destruct Ha as [b1 [_ Ha]]. destruct (forallb _ (b_args b1)); [|discriminate]. inversion Ha; subst.
      intros a Hin. apply filter_In in Hin. tauto.
    - inversion Ha; subst. auto. }
  assert (Hwf' : wf_gargs (with_main p (Some args) (o :: os))).
  { intros [|g] l Hl; cbn [with_main getg graphs nth gargs] in Hl.
    - inversion Hl; subst l. apply Forall_forall. intros a Hin. apply Hsub in Hin. apply in_map_iff in Hin. destruct Hin as [kv [E Hk]].
      specialize (Earg kv Hk). rewrite E in Earg. destruct a as [[n|g0] j]; [exists n; reflexivity|cbn in Earg; discriminate].
    - apply (Hwf (S g) l). unfold getg. destruct (graphs p) as [|g0 gs]; [destruct g; cbn in Hl; discriminate Hl|exact Hl]. }
  pose proof (build_main_records_floor _ _ _ _ _ _ Hwf' Hb) as Hh. destruct Hh as [v0 [Hv0 Hh]]. apply has_In in Hh.
  destruct (policy_covers _ _ Hh) as [v [Hl Hv]]. exists v. split; [exact Hl|cbn [snd] in Hv; unfold INTERNAL_MIN_OPSET in Hv0; lia].
Qed.

(* the premise as an executable test on the program (evaluated on every program of the C09 check) *)
Definition wf_gargs_b (p : prog) : bool :=
  forallb (fun g : graph => match gargs g with
                            | Some l => forallb (fun a => match vnode a with NReal _ => true | NIntro _ => false end) l
                            | None => true end) (graphs p).
Lemma wf_gargs_b_sound p : wf_gargs_b p = true -> wf_gargs p.
Proof. unfold wf_gargs_b, wf_gargs. intros H g l Hl. rewrite forallb_forall in H.
  destruct (Nat.lt_ge_cases g (List.length (graphs p))) as [Hlt|Hge].
  - assert (Hin : In (getg p g) (graphs p)) by (unfold getg; apply nth_In; exact Hlt). specialize (H _ Hin). rewrite Hl in H.
    rewrite forallb_forall in H. apply Forall_forall. intros a Ha. specialize (H a Ha). destruct (vnode a) as [n|g0] eqn:E; [exists n; exact E|discriminate].
  - unfold getg in Hl. rewrite nth_overflow in Hl by exact Hge. cbn in Hl. discriminate. Qed.
