(* CoverageFacts.v — COVERAGE, by construction (no validator): every operator application that a requested output depends on IS
   emitted in the model that build_main returns.  Together with EmitFacts (only such applications are emitted, none twice) this is
   "exactly once if some requested output depends on it and not at all otherwise" (C04), and "nothing the program describes is
   dropped" (C01).
   Ingredients: DiscoverFacts (what discovery establishes: owners, finishing order, reachability), the scope resolution keeps every
   node of every traversed graph assigned to an already processed graph (update_scope_tree / the alternating-walk lca only ever
   return graphs met on the ancestor chains), the owner of a graph is therefore finally placed in a graph processed EARLIER, which gives
   a chain of (graph, owner node) pairs from the main graph down to every graph that holds a node; compile follows exactly these
   chains (EmitFacts.compile_srcs).  Premises: the object graph is acyclic (any rank function bounded by the builder's fuel) and only
   operator / function nodes carry subgraph attributes (decidable; evaluated on every generated program). *)
From Coq Require Import List String NArith Arith Bool Lia.
From Spox Require Import Base IR Show Build Sem Plan Named Validate DfsFacts ReachFacts DiscoverFacts ScopeFacts EmitFacts BuildFacts.
Import ListNotations.
Open Scope list_scope.

(* ---------- association lists ---------- *)
Section Assoc.
Context {A B : Type} (eqb : A -> A -> bool) (Heq : forall a b, reflect (a = b) (eqb a b)).
Lemma lookup_cons_g k k' (v : B) l : lookup eqb k ((k', v) :: l) = if eqb k k' then Some v else lookup eqb k l.
Proof. unfold lookup. cbn [find fst]. destruct (eqb k k'); reflexivity. Qed.
Lemma lookup_map_set k (v : B) u : forall l,
  lookup eqb u (map (fun kv => if eqb k (fst kv) then (k, v) else kv) l) =
  if eqb u k then (if Base.mem eqb k (map fst l) then Some v else None) else lookup eqb u l.
Proof.
  induction l as [|[k' v'] t IH]; cbn [map fst].
  - destruct (eqb u k); reflexivity.
  - unfold Base.mem. cbn [existsb]. fold (Base.mem eqb k (map fst t)). destruct (Heq k k') as [<-|Hn].
    + rewrite !lookup_cons_g. destruct (eqb u k); [reflexivity|exact IH].
    + rewrite !lookup_cons_g, IH. destruct (Heq u k) as [->|Hu].
      * destruct (Heq k k'); [contradiction|]. cbn [orb]. reflexivity.
      * reflexivity.
Qed.
Lemma lookup_snoc_g k (v : B) u : forall l, Base.mem eqb k (map fst l) = false ->
  lookup eqb u (l ++ [(k, v)]) = if eqb u k then Some v else lookup eqb u l.
Proof.
  induction l as [|[k' v'] t IH]; cbn [map fst app]; intros Hm.
  - rewrite lookup_cons_g. destruct (eqb u k); reflexivity.
  - unfold Base.mem in Hm. cbn [existsb] in Hm. apply orb_false_iff in Hm. destruct Hm as [Hk Hm]. rewrite !lookup_cons_g, (IH Hm).
    destruct (Heq u k') as [->|]; [|reflexivity]. destruct (Heq k' k) as [->|]; [|reflexivity].
    destruct (Heq k k); [discriminate|contradiction].
Qed.
Lemma lookup_set_assoc k (v : B) u l : lookup eqb u (set_assoc eqb k v l) = if eqb u k then Some v else lookup eqb u l.
Proof. unfold set_assoc. destruct (Base.mem eqb k (map fst l)) eqn:Hm.
  - rewrite lookup_map_set, Hm. reflexivity.
  - now apply lookup_snoc_g. Qed.
End Assoc.

Lemma NoDup_split_unique {A} (x : A) : forall a a' b b', NoDup (a ++ x :: b) -> a ++ x :: b = a' ++ x :: b' -> a = a'.
Proof.
  induction a as [|y a IH]; intros a' b b' Hn E.
  - destruct a' as [|z a']; [reflexivity|]. cbn in E. inversion E; subst. cbn in Hn. inversion Hn; subst.
    exfalso. apply H1. apply in_or_app. right. now left.
  - destruct a' as [|z a']; cbn in E; inversion E; subst.
    + cbn in Hn. inversion Hn; subst. exfalso. apply H1. apply in_or_app. right. now left.
    + f_equal. cbn in Hn. inversion Hn; subst. eapply IH; eauto.
Qed.

(* ---------- the scope resolution only ever assigns graphs that were already processed ---------- *)
Section ScopeTree.
Variable p : prog.
Variable own : list (nat * nref).

Lemma lca_in (P : nat -> Prop) sc : (forall u s, lookup nref_eqb u sc = Some s -> P s) ->
  forall fuel a b va vb, P a -> P b -> P (lca fuel own sc a b va vb).
Proof.
  intros Hsc. induction fuel as [|f IH]; intros a b va vb Ha Hb; cbn [lca]; [exact Ha|].
  destruct (Base.mem Nat.eqb a vb); [exact Ha|]. apply IH; [exact Hb|].
  unfold parent. destruct (lookup Nat.eqb a own) as [o|]; [|exact Ha].
  destruct (lookup nref_eqb o sc) as [s|] eqn:E; [eapply Hsc; exact E|exact Ha].
Qed.

Definition ust_step (g : nat) (sc : list (nref * nat)) (nd : nref) : list (nref * nat) :=
  let cur := match lookup nref_eqb nd sc with Some s => s | None => g end in
  set_assoc nref_eqb nd (lca (2 * fuel_of p) own sc g cur [g] [cur]) sc.
Lemma ust_unfold sc g : update_scope_tree p own sc g = fold_left (ust_step g) (trav p g) sc.
Proof. reflexivity. Qed.

Lemma ust_fold (P : nat -> Prop) g : P g -> forall ns sc, (forall u s, lookup nref_eqb u sc = Some s -> P s) ->
  let sc' := fold_left (ust_step g) ns sc in
  (forall u s, lookup nref_eqb u sc' = Some s -> P s) /\
  (forall u, In u ns -> exists s, lookup nref_eqb u sc' = Some s) /\
  (forall u, ~ In u ns -> lookup nref_eqb u sc' = lookup nref_eqb u sc) /\
  (forall u s, lookup nref_eqb u sc = Some s -> exists s', lookup nref_eqb u sc' = Some s').
Proof.
  intros Pg. induction ns as [|nd t IH]; intros sc Hsc; cbn [fold_left].
  - split; [exact Hsc|]. split; [intros u []|]. split; [reflexivity|]. intros u s H. eauto.
  - set (sc1 := ust_step g sc nd).
    assert (L : forall u, lookup nref_eqb u sc1 =
                if nref_eqb u nd then Some (lca (2 * fuel_of p) own sc g (match lookup nref_eqb nd sc with Some s => s | None => g end)
                                               [g] [match lookup nref_eqb nd sc with Some s => s | None => g end])
                else lookup nref_eqb u sc).
    { intros u. unfold sc1, ust_step. apply (lookup_set_assoc nref_eqb nref_eqb_spec). }
    assert (H1 : forall u s, lookup nref_eqb u sc1 = Some s -> P s).
    { intros u s H. rewrite L in H. destruct (nref_eqb u nd); [|eapply Hsc; exact H]. inversion H; subst.
      apply lca_in; [exact Hsc|exact Pg|]. destruct (lookup nref_eqb nd sc) as [s0|] eqn:E; [eapply Hsc; exact E|exact Pg]. }
    destruct (IH sc1 H1) as [A [B [C D]]]. split; [exact A|]. split; [|split].
    + intros u [<-|Hu]; [|now apply B]. pose proof (L nd) as E. destruct (nref_eqb_spec nd nd); [|contradiction].
      destruct (D nd _ E) as [s' Hs']. exists s'. exact Hs'.
    + intros u Hu. rewrite C; [|intros Hc; apply Hu; now right]. rewrite L. destruct (nref_eqb_spec u nd) as [->|]; [|reflexivity].
      exfalso. apply Hu. now left.
    + intros u s H. destruct (nref_eqb u nd) eqn:E.
      * eapply D. rewrite L, E. reflexivity.
      * eapply D. rewrite L, E. exact H.
Qed.

(* after processing the graphs [done] (in this order): every assigned scope is one of them, every node of their traversals is assigned *)
Definition K (done : list nat) (sc : list (nref * nat)) : Prop :=
  (forall u s, lookup nref_eqb u sc = Some s -> In s done) /\
  (forall E, In E done -> forall u, In u (trav p E) -> exists s, lookup nref_eqb u sc = Some s).

Lemma fold_K : forall l done sc, K done sc -> K (done ++ l) (fold_left (update_scope_tree p own) l sc).
Proof.
  induction l as [|g t IH]; intros done sc HK; cbn [fold_left]; [now rewrite app_nil_r|].
  replace (done ++ g :: t) with ((done ++ [g]) ++ t) by (rewrite <- app_assoc; reflexivity). apply IH.
  destruct HK as [K1 K2]. rewrite ust_unfold.
  destruct (ust_fold (fun s => In s (done ++ [g])) g ltac:(apply in_or_app; right; now left) (trav p g) sc) as [A [B [_ D]]].
  { intros u s H. apply in_or_app. left. eapply K1; exact H. }
  split; [exact A|]. intros E HE u Hu. apply in_app_or in HE. destruct HE as [HE|[<-|[]]]; [|now apply B].
  destruct (K2 E HE u Hu) as [s Hs]. eapply D; exact Hs.
Qed.

Lemma fold_frame u : forall l sc, (forall E, In E l -> ~ In u (trav p E)) ->
  lookup nref_eqb u (fold_left (update_scope_tree p own) l sc) = lookup nref_eqb u sc.
Proof.
  induction l as [|g t IH]; intros sc H; cbn [fold_left]; [reflexivity|].
  rewrite IH; [|intros E HE; apply H; now right]. rewrite ust_unfold.
  destruct (ust_fold (fun _ => True) g I (trav p g) sc (fun _ _ _ => I)) as [_ [_ [C _]]]. apply C. apply H. now left.
Qed.
End ScopeTree.

(* ---------- compile follows the chains of (graph, owner node) ---------- *)
Section Chains.
Variables (p : prog) (un : names) (args_of : nat -> list var) (own_of : nat -> list nref)
          (fbuild : nat -> nat -> res (list mnode * req * list fdesc)).

Definition sub_ids (u : nref) : list nat := node_subs p (fun s => [s]) u.

Lemma node_subs_In {T} (rec : nat -> list T) u x : In x (node_subs p rec u) <-> exists h, In h (sub_ids u) /\ In x (rec h).
Proof.
  unfold sub_ids, node_subs. destruct u as [n|g]; [|split; [intros []|intros [h [[] _]]]].
  assert (E : In x (flat_map (attr_spec rec) (attrs (getn p n))) <->
              exists h, In h (flat_map (attr_spec (fun s => [s])) (attrs (getn p n))) /\ In x (rec h)).
  { rewrite in_flat_map. split.
    - intros [ka [Hka Hx]]. unfold attr_spec in Hx. destruct (snd ka) as [sub|r] eqn:Es; [|destruct Hx].
      exists sub. split; [|exact Hx]. apply in_flat_map. exists ka. split; [exact Hka|]. unfold attr_spec. rewrite Es. now left.
    - intros [h [Hh Hx]]. apply in_flat_map in Hh. destruct Hh as [ka [Hka Hh]]. exists ka. split; [exact Hka|].
      unfold attr_spec in *. destruct (snd ka) as [sub|r]; [|destruct Hh]. destruct Hh as [<-|[]]. exact Hx. }
  destruct (kind (getn p n)); try exact E; (split; [intros []|intros [h [[] _]]]).
Qed.

Fixpoint spec_ok (fuel : nat) (g : nat) : Prop :=
  match fuel with
  | O => False
  | S f => forall o, In o (own_of g) -> is_arg p o = false -> forall h, In h (sub_ids o) -> spec_ok f h
  end.

Lemma foldM_each {A S} (f : S -> A -> res S) : forall l s s', foldM f l s = inl s' ->
  forall a, In a l -> exists s1 s2, f s1 a = inl s2.
Proof. induction l as [|x t IH]; intros s s' H a Ha; [destruct Ha|]. cbn [foldM] in H. apply bind_ok in H. destruct H as [s1 [H1 H2]].
  destruct Ha as [<-|Ha]; [eauto|eapply IH; eauto]. Qed.

Theorem compile_spec_ok : forall fuel s g prefix vi r, compile p un args_of own_of fbuild fuel s g prefix vi = inl r -> spec_ok fuel g.
Proof.
  induction fuel as [|f IH]; intros s g prefix vi r H; [discriminate H|].
  cbn [Build.compile] in H. apply bind_ok in H. destruct H as [s1 [_ H]]. apply bind_ok in H. destruct H as [acc [H2 _]].
  cbn [spec_ok]. intros o Ho Harg h Hh.
  destruct (foldM_each _ _ _ _ H2 o Ho) as [[[[[ms sa] rq] fs] sfs] [acc2 Hu]]. unfold compile_step in Hu. rewrite Harg in Hu.
  unfold sub_ids, node_subs in Hh. destruct o as [n|g']; [|destruct Hh].
  assert (Hsg : forall (l : list (String.string * attrv)) a0 az prefix0,
            foldM (fun (acc : list (String.string * option mgraph) * scope * req * list fdesc) (ka : String.string * attrv) =>
                     let '(l, s, rq, fs) := acc in
                     match snd ka with
                     | AVal _ => ret ((l ++ [(fst ka, None)])%list, s, rq, fs)
                     | AGraph sub =>
                       do r <- compile p un args_of own_of fbuild f s sub (prefix0 ++ "_" ++ fst ka ++ "__")%string (Some false) ;;
                       let '(mg, s', rq', fs') := r in
                       ret ((l ++ [(fst ka, Some mg)])%list, s', union req_eqb rq rq', (fs ++ fs')%list)
                     end) l a0 = inl az ->
            In h (flat_map (attr_spec (fun s => [s])) l) -> spec_ok f h).
  { intros l a0 az prefix0 Hf Hin. apply in_flat_map in Hin. destruct Hin as [ka [Hka Hin]].
    destruct (foldM_each _ _ _ _ Hf ka Hka) as [[[[l0 s0] rq0] fs0] [b2 Hstep]]. unfold attr_spec in Hin.
    destruct (snd ka) as [sub|x]; [|destruct Hin]. destruct Hin as [<-|[]].
    apply bind_ok in Hstep. destruct Hstep as [r0 [Hc _]]. eapply IH; exact Hc. }
  apply bind_ok in Hu. destruct Hu as [[rqm fsm] [_ Hu]]. apply bind_ok in Hu. destruct Hu as [s2 [_ Hu]].
  destruct (kind (getn p n)) as [| | |om imp|body fi fo fa] eqn:Hk; try (destruct Hh).
  - apply bind_ok in Hu. destruct Hu as [nm [_ Hu]]. apply bind_ok in Hu. destruct Hu as [inn [_ Hu]].
    apply bind_ok in Hu. destruct Hu as [outn [_ Hu]]. apply bind_ok in Hu. destruct Hu as [sg [Hal _]].
    eapply Hsg; [exact Hal|exact Hh].
  - apply bind_ok in Hu. destruct Hu as [nm [_ Hu]]. apply bind_ok in Hu. destruct Hu as [inn [_ Hu]].
    apply bind_ok in Hu. destruct Hu as [outn [_ Hu]]. apply bind_ok in Hu. destruct Hu as [sg [Hal _]].
    eapply Hsg; [exact Hal|exact Hh].
Qed.

(* a chain from graph g down to graph h: each link is a non-argument node owned by the upper graph that carries the lower one *)
Inductive Path : nat -> nat -> Prop :=
| Path_here g : Path g g
| Path_down g o h' h : In o (own_of g) -> is_arg p o = false -> In h' (sub_ids o) -> Path h' h -> Path g h.

Lemma Path_snoc g h' : Path g h' -> forall o h, In o (own_of h') -> is_arg p o = false -> In h (sub_ids o) -> Path g h.
Proof. intros HP. induction HP as [g|g o1 h1 h2 H1 H2 H3 _ IH]; intros o h Ho Ha Hh.
  - eapply Path_down; eauto. apply Path_here.
  - eapply Path_down; eauto. Qed.

Theorem path_covers g h : Path g h -> forall fuel, spec_ok fuel g ->
  forall u, In u (own_of h) -> is_arg p u = false -> In u (spec_srcs p own_of fuel g).
Proof.
  intros HP. induction HP as [g|g o h' h Ho Ha Hh' _ IH]; intros [|f] Hok u Hu Hua; try destruct Hok; cbn [spec_srcs]; apply in_flat_map.
  - exists u. split; [exact Hu|]. unfold node_spec. rewrite Hua. now left.
  - exists o. split; [exact Ho|]. unfold node_spec. rewrite Ha. right. apply node_subs_In. exists h'. split; [exact Hh'|].
    apply IH; [|exact Hu|exact Hua]. cbn [spec_ok] in Hok. eapply Hok; eauto.
Qed.
End Chains.

(* ---------- assembly at Builder.build_main ---------- *)
Definition wf_kinds_b (p : prog) : bool :=
  forallb (fun nd => match subs nd with [] => true | _ => match kind nd with KOp | KFunc _ _ _ _ => true | _ => false end end) (nodes p).
Definition wf_kinds (p : prog) : Prop :=
  forall n k h, In (k, h) (subs (getn p n)) -> match kind (getn p n) with KOp | KFunc _ _ _ _ => True | _ => False end.
Lemma wf_kinds_b_sound p : wf_kinds_b p = true -> wf_kinds p.
Proof.
  intros H n k h Hk. unfold wf_kinds_b in H. rewrite forallb_forall in H. unfold getn in *.
  destruct (nth_in_or_default n (nodes p) dnode) as [Hin|Hd]; [|rewrite Hd in Hk; destruct Hk].
  specialize (H _ Hin). destruct (subs (nth n (nodes p) dnode)); [destruct Hk|]. destruct (kind (nth n (nodes p) dnode)); try discriminate; exact I.
Qed.

Section Assembly.
Variable p : prog.
Variable rank : nref -> nat.
Hypothesis Hrank : forall u v, In v (full_adj p u) -> rank v < rank u.
Hypothesis Hfuel : forall u, rank u < fuel_of p.
Hypothesis Hkinds : wf_kinds p.
Variable main : nat.
Variable d : dstate.
Hypothesis Hd : discover (fuel_of p) p dstate0 main = inl d.

Let gt := rev (d_post d).
Let sc := scopes_of p d.
Let own_of := own_of_def p d main.

Lemma carrier_kind x k h : In (k, h) (subs_of p x) -> is_arg p x = false /\ In h (sub_ids p x).
Proof.
  intros H. destruct x as [n|g]; [|destruct H]. cbn [subs_of] in H. pose proof (Hkinds n k h H) as Hk.
  assert (Hh : In h (flat_map (attr_spec (fun s => [s])) (attrs (getn p n)))).
  { unfold subs in H. apply in_flat_map in H. destruct H as [ka [Hka H]]. apply in_flat_map. exists ka. split; [exact Hka|].
    unfold attr_spec. destruct (snd ka) as [g|r]; [|destruct H]. destruct H as [H|[]]. inversion H; subst. now left. }
  unfold sub_ids, node_subs, is_arg. destruct (kind (getn p n)); try destruct Hk; split; try reflexivity; exact Hh.
Qed.

Lemma in_topo x : reach (full_adj p) (NIntro main) x -> In x (topo_of p main).
Proof. intros H. unfold topo_of. eapply (postorder_complete (full_adj p) rank Hrank); [|exact H]. specialize (Hfuel (NIntro main)). lia. Qed.

(* the node that carries graph h is finally placed in a graph processed before h *)
Lemma owner_scope l1 h l2 x k : gt = l1 ++ h :: l2 -> In (k, h) (subs_of p x) ->
  (exists D, In D (d_post d) /\ In x (trav p D)) -> exists h', In h' l1 /\ lookup nref_eqb x sc = Some h'.
Proof.
  intros Egt Hk [D [HD Hx]].
  destruct (discover_facts p rank Hrank main d Hd) as [Hnd [_ [Hown _]]].
  assert (Hgtnd : NoDup (l1 ++ h :: l2)). { rewrite <- Egt. unfold gt. now apply NoDup_rev. }
  assert (Hearlier : forall E, In E (d_post d) -> In x (trav p E) -> In E l1).
  { intros E HE HxE. destruct (Hown E HE x k h HxE Hk) as [_ [a [b [c Eb]]]].
    assert (E2 : gt = (rev c ++ E :: rev b) ++ h :: rev a).
    { unfold gt. rewrite Eb. rewrite rev_app_distr. cbn [rev]. rewrite rev_app_distr. cbn [rev]. rewrite <- !app_assoc. cbn. reflexivity. }
    rewrite Egt in E2. apply NoDup_split_unique in E2; [|exact Hgtnd]. rewrite E2. apply in_or_app. right. now left. }
  unfold sc, scopes_of. fold gt. rewrite Egt, fold_left_app.
  set (sc1 := fold_left (update_scope_tree p (d_own d)) l1 []).
  assert (HK : K p l1 sc1). { apply (fold_K p (d_own d) l1 [] []). split; [intros u s H; discriminate H|intros E []]. }
  destruct HK as [K1 K2]. destruct (K2 D (Hearlier D HD Hx) x Hx) as [s Hs].
  exists s. split; [eapply K1; exact Hs|]. rewrite fold_frame; [exact Hs|].
  intros E HE HxE. assert (HEp : In E (d_post d)). { apply in_rev. fold gt. rewrite Egt. apply in_or_app. now right. }
  pose proof (Hearlier E HEp HxE) as HE1. eapply NoDup_app_disj; [exact Hgtnd|exact HE1|exact HE].
Qed.

Lemma all_paths : forall l1 l2, gt = l1 ++ l2 -> forall h, In h l1 -> Path p own_of main h.
Proof.
  destruct (discover_facts p rank Hrank main d Hd) as [_ [_ [Hown [Hjust Hreach]]]].
  induction l1 as [|h0 l IH] using rev_ind; intros l2 Egt h Hh; [destruct Hh|].
  rewrite <- app_assoc in Egt. cbn [app] in Egt. apply in_app_or in Hh. destruct Hh as [Hh|[<-|[]]]; [eapply IH; eauto|].
  assert (Hp : In h0 (d_post d)). { apply in_rev. fold gt. rewrite Egt. apply in_or_app. right. now left. }
  destruct (Hjust h0 Hp) as [->|[D [x [k [HD [Hx Hk]]]]]]; [apply Path_here|].
  destruct (owner_scope l h0 l2 x k Egt Hk (ex_intro _ D (conj HD Hx))) as [h' [Hh' Hs]].
  destruct (carrier_kind x k h0 Hk) as [Ha Hsub].
  eapply Path_snoc; [eapply IH; [exact Egt|exact Hh']| |exact Ha|exact Hsub].
  unfold own_of, own_of_def. apply filter_In. split.
  - apply in_topo. eapply reach_trans; [apply Hreach; exact HD|eapply trav_reach; exact Hx].
  - fold sc. rewrite Hs. apply Nat.eqb_refl.
Qed.

Theorem every_reachable_node_is_owned_on_a_chain u : In u (topo_of p main) ->
  exists h, Path p own_of main h /\ In u (own_of h).
Proof.
  intros Hu. assert (Hr : reach (full_adj p) (NIntro main) u) by (eapply postorder_sound; exact Hu).
  destruct (discovered_cover p rank Hrank main Hfuel d Hd u Hr) as [D [HD HuD]].
  assert (HK : K p gt sc). { unfold sc, scopes_of. fold gt. apply (fold_K p (d_own d) gt [] []). split; [intros x s H; discriminate H|intros E []]. }
  destruct HK as [K1 K2]. assert (HDg : In D gt) by (unfold gt; now apply -> in_rev).
  destruct (K2 D HDg u HuD) as [s Hs]. exists s. split.
  - apply (all_paths gt []); [now rewrite app_nil_r|eapply K1; exact Hs].
  - unfold own_of, own_of_def. apply filter_In. split; [exact Hu|]. fold sc. rewrite Hs. apply Nat.eqb_refl.
Qed.
End Assembly.

Theorem build_main_covers ffuel p un main b (rank : nref -> nat) :
  build_main ffuel p un main = inl b ->
  (forall u v, In v (full_adj p u) -> rank v < rank u) -> (forall u, rank u < fuel_of p) -> wf_kinds p ->
  forall u, In u (topo_of p main) -> is_arg p u = false -> In u (srcs_graph (b_graph b)).
Proof.
  intros H Hrank Hfuel Hk u Hu Ha. destruct ffuel as [|ff]; [discriminate|]. unfold build_main in H. cbn [build_main_gen] in H.
  apply bind_ok in H. destruct H as [d [Hd H]]. apply bind_ok in H. destruct H as [[[[mg s] rq] fs] [Hc H]].
  inversion H; subst. cbn [b_graph].
  rewrite (compile_srcs _ _ _ _ _ _ _ _ _ _ _ _ _ _ Hc).
  destruct (every_reachable_node_is_owned_on_a_chain p rank Hrank Hfuel Hk main d Hd u Hu) as [h [HP Hown]].
  eapply path_covers; [exact HP| |exact Hown|exact Ha].
  eapply compile_spec_ok. exact Hc.
Qed.

(* ---------- the acyclicity premise as an executable test (evaluated on every generated program: non-vacuity) ---------- *)
Definition all_refs (q : prog) : list nref :=
  map NReal (seq 0 (List.length (nodes q))) ++ map NIntro (seq 0 (List.length (graphs q))).
Definition gpost (q : prog) : list nref :=
  snd (fold_left (dfs (2 * fuel_of q) (full_adj q)) (all_refs q) ([], [])).
Fixpoint index_of (u : nref) (l : list nref) : option nat :=
  match l with [] => None | x :: t => if nref_eqb u x then Some 0 else option_map S (index_of u t) end.
Definition rankf (q : prog) (u : nref) : nat := match index_of u (gpost q) with Some i => S i | None => 0 end.
Definition acyclic_b (q : prog) : bool :=
  forallb (fun u => forallb (fun v => Nat.ltb (rankf q v) (rankf q u)) (full_adj q u)) (gpost q) &&
  forallb (fun u => Base.mem nref_eqb u (gpost q)) (all_refs q) &&
  Nat.ltb (List.length (gpost q)) (fuel_of q).

Lemma index_of_lt u : forall l i, index_of u l = Some i -> i < List.length l.
Proof. induction l as [|x t IH]; intros i H; cbn in *; [discriminate|]. destruct (nref_eqb u x); [inversion H; lia|].
  destruct (index_of u t) as [j|]; [|discriminate]. inversion H; subst. specialize (IH j eq_refl). lia. Qed.
Lemma index_of_In u : forall l, In u l -> exists i, index_of u l = Some i.
Proof. induction l as [|x t IH]; intros H; [destruct H|]. cbn. destruct (nref_eqb_spec u x) as [|Hn]; [eauto|].
  destruct H as [H|H]; [congruence|]. destruct (IH H) as [i Hi]. rewrite Hi. cbn. eauto. Qed.
Lemma index_of_None u : forall l, index_of u l = None -> ~ In u l.
Proof. intros l H Hin. destruct (index_of_In u l Hin) as [i Hi]. congruence. Qed.

Lemma out_of_range_leaf q u : ~ In u (all_refs q) -> full_adj q u = [].
Proof.
  intros H. unfold all_refs in H. destruct u as [n|g].
  - assert (Hn : List.length (nodes q) <= n).
    { destruct (le_lt_dec (List.length (nodes q)) n); [assumption|]. exfalso. apply H. apply in_or_app. left. apply in_map. apply in_seq. lia. }
    unfold full_adj, deps, subs_of, getn. rewrite (nth_overflow _ _ Hn). reflexivity.
  - assert (Hn : List.length (graphs q) <= g).
    { destruct (le_lt_dec (List.length (graphs q)) g); [assumption|]. exfalso. apply H. apply in_or_app. right. apply in_map. apply in_seq. lia. }
    unfold full_adj, deps, subs_of, getg. rewrite (nth_overflow _ _ Hn). reflexivity.
Qed.

Theorem acyclic_b_sound q : acyclic_b q = true ->
  forall q', (forall u, full_adj q' u = full_adj q u) -> fuel_of q' = fuel_of q ->
  (forall u v, In v (full_adj q' u) -> rankf q v < rankf q u) /\ (forall u, rankf q u < fuel_of q').
Proof.
  intros H q' Hadj Hf. unfold acyclic_b in H. apply andb_prop in H. destruct H as [H H3]. apply andb_prop in H. destruct H as [H1 H2].
  rewrite forallb_forall in H1, H2. apply Nat.ltb_lt in H3. split.
  - intros u v Hv. rewrite Hadj in Hv. destruct (in_dec (fun a b => match nref_eqb_spec a b with ReflectT _ e => left e | ReflectF _ n => right n end) u (gpost q)) as [Hu|Hu].
    + specialize (H1 u Hu). rewrite forallb_forall in H1. apply Nat.ltb_lt. now apply H1.
    + assert (Hl : ~ In u (all_refs q)). { intros Hc. apply Hu. specialize (H2 u Hc). now apply (BuildFacts.mem_In nref_eqb nref_eqb_spec) in H2. }
      rewrite (out_of_range_leaf q u Hl) in Hv. destruct Hv.
  - intros u. rewrite Hf. unfold rankf. destruct (index_of u (gpost q)) as [i|] eqn:E; [|lia]. apply index_of_lt in E. lia.
Qed.

Lemma full_adj_with_main p a a' o u : full_adj (with_main p a o) u = full_adj (with_main p a' o) u.
Proof. unfold full_adj, deps, subs_of, getn, getg, with_main. cbn [nodes graphs]. destruct u as [n|g]; [reflexivity|].
  destruct g as [|g]; reflexivity. Qed.

Definition cover_premises_b (q : prog) : bool := acyclic_b q && wf_kinds_b q.
Definition cover_premises_req (p : prog) (r : request) : bool :=
  match all_vars (r_outputs r) with Some o => cover_premises_b (with_main p None o) | None => false end.

(* ---------- the public build: emitted = exactly the applications a requested output depends on ---------- *)
Theorem build_public_emits_exactly p r m inputs outputs :
  build_public p r = inl m -> all_vars (r_inputs r) = Some inputs -> all_vars (r_outputs r) = Some outputs ->
  cover_premises_b (with_main p None outputs) = true ->
  exists args, (r_drop r = false -> args = map snd inputs) /\ (forall a, In a args -> In a (map snd inputs)) /\
    forall u, In u (srcs_graph (mmain m)) <->
      (In u (topo_of (with_main p (Some args) outputs) 0) /\ is_arg (with_main p (Some args) outputs) u = false).
Proof.
  intros H Hi Ho Hprem. destruct (build_public_emits_only_reachable p r m inputs outputs H Hi Ho) as [args0 [_ [_ _]]].
  unfold build_public in H. rewrite Hi, Ho in H.
  destruct (negb _); [discriminate|]. destruct outputs as [|o os]; [discriminate|].
  apply bind_ok in H. destruct H as [args [Ha H]]. apply bind_ok in H. destruct H as [b [Hb H]].
  apply bind_ok in H. destruct H as [m' [Hm H]]. pose proof (to_model_struct _ _ Hm) as (_ & Hmg & _).
  destruct (mmain m') as [gi body go_] eqn:Eg. destruct (forallb _ gi); [|discriminate]. inversion H; subst m'. rewrite Eg.
  exists args. split; [intros Hd; rewrite Hd in Ha; inversion Ha; reflexivity|]. split.
  - destruct (r_drop r).
    + apply bind_ok in Ha. destruct Ha as [b1 [_ Ha]]. destruct (forallb _ (b_args b1)); [|discriminate]. inversion Ha; subst.
      intros a Hin. apply filter_In in Hin. tauto.
    + inversion Ha; subst. auto.
  - intros u. rewrite Hmg. split; [intros Hu; eapply build_main_emits_only_reachable; eauto|]. intros [Hu Harg].
    unfold cover_premises_b in Hprem. apply andb_prop in Hprem. destruct Hprem as [Hac Hwk].
    destruct (acyclic_b_sound _ Hac (with_main p (Some args) (o :: os))) as [Hr Hf];
      [intros w; apply full_adj_with_main|reflexivity|].
    eapply build_main_covers; [exact Hb|exact Hr|exact Hf| |exact Hu|exact Harg].
    apply wf_kinds_b_sound. exact Hwk.
Qed.
