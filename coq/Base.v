(* Base.v — shared basics of the builder model: error classes, result monad, association lists, decimal printing. *)
From Coq Require Import List String NArith Arith Bool Ascii DecimalString DecimalN.
Import ListNotations.
Open Scope string_scope.

(* Python exception classes the model predicts (outcome class of spox.build / constructors) *)
Inductive err :=
| EType        (* TypeError *)
| EValue       (* ValueError *)
| EKey         (* KeyError *)
| EBuild       (* spox BuildError *)
| EScope       (* spox ScopeError *)
| EValidation  (* onnx.checker.ValidationError *)
| ERuntime     (* RuntimeError *)
| EInference   (* spox InferenceError *)
| EFuel        (* model ran out of fuel: never a prediction, excluded by theorems *)
| EInternal    (* a ghost validator of the model rejected the model's own output *).

Definition res (A : Type) := (A + err)%type.
Definition ret {A} (a : A) : res A := inl a.
Definition raise {A} (e : err) : res A := inr e.
Definition bind {A B} (m : res A) (f : A -> res B) : res B := match m with inl a => f a | inr e => inr e end.
Notation "'do' x <- m ;; k" := (bind m (fun x => k)) (at level 200, x pattern, right associativity).

Fixpoint mapM {A B} (f : A -> res B) (l : list A) : res (list B) :=
  match l with [] => ret [] | x :: t => do y <- f x ;; do ys <- mapM f t ;; ret (y :: ys) end.
Fixpoint foldM {A S} (f : S -> A -> res S) (l : list A) (s : S) : res S :=
  match l with [] => ret s | x :: t => do s' <- f s x ;; foldM f t s' end.

Definition mem {A} (eqb : A -> A -> bool) (x : A) (l : list A) : bool := existsb (eqb x) l.
Definition lookup {A B} (eqb : A -> A -> bool) (k : A) (l : list (A * B)) : option B :=
  option_map snd (find (fun kv => eqb k (fst kv)) l).
Definition set_assoc {A B} (eqb : A -> A -> bool) (k : A) (v : B) (l : list (A * B)) : list (A * B) :=
  if mem eqb k (map fst l) then map (fun kv => if eqb k (fst kv) then (k, v) else kv) l else (l ++ [(k, v)])%list.
Definition add_set {A} (eqb : A -> A -> bool) (x : A) (l : list A) : list A := if mem eqb x l then l else (l ++ [x])%list.
Definition union {A} (eqb : A -> A -> bool) (a b : list A) : list A := fold_left (fun acc x => add_set eqb x acc) b a.
Definition inter {A} (eqb : A -> A -> bool) (a b : list A) : list A := filter (fun x => mem eqb x b) a.
Definition diff {A} (eqb : A -> A -> bool) (a b : list A) : list A := filter (fun x => negb (mem eqb x b)) a.
Fixpoint nodupb {A} (eqb : A -> A -> bool) (l : list A) : bool :=
  match l with [] => true | x :: t => negb (mem eqb x t) && nodupb eqb t end.
Fixpoint list_eqb {A} (e : A -> A -> bool) (a b : list A) : bool :=
  match a, b with [], [] => true | x :: a', y :: b' => e x y && list_eqb e a' b' | _, _ => false end.
Fixpoint seqn (k n : nat) : list nat := match n with O => [] | S m => k :: seqn (S k) m end.

Definition dec (n : N) : string := NilEmpty.string_of_uint (N.to_uint n).
Definition decn (n : nat) : string := dec (N.of_nat n).
Definition join (sep : string) (l : list string) : string :=
  match l with [] => "" | x :: t => fold_left (fun a b => a ++ sep ++ b) t x end.

Definition show_err (e : err) : string :=
  match e with
  | EType => "ERR TypeError" | EValue => "ERR ValueError" | EKey => "ERR KeyError" | EBuild => "ERR BuildError"
  | EScope => "ERR ScopeError" | EValidation => "ERR ValidationError" | ERuntime => "ERR RuntimeError"
  | EInference => "ERR InferenceError" | EFuel => "ERR fuel" | EInternal => "ERR model-validator"
  end.
