(* NodeProto.v — model of the plumbing between an operator-constructor call and the NodeProto / one-node model that
   ONNX sees (C05, C18).  Anchors in /repo/src/spox:
     _fields.py    BaseVars.__post_init__ (kind checks), _flatten, get_vars, __iter__/__len__
     _node.py      Node.to_onnx (names, "" for omitted optionals, trimming to min_input/min_output, attributes),
                   Node._init_output_vars (every declared output materialised), Node.inference (merge by output key),
                   Node.min_input/min_output (generic nodes: nothing is trimmed), Node.opset_req
     _standard.py  StandardNode.to_singleton_onnx_model (scope naming: first key wins, value infos and initializers keyed
                   by field key, dummy typed subgraphs), infer_output_types_onnx (untyped guard, errors re-raised,
                   Type._from_onnx, _strip_dim_symbol)
     _type_system.py / _shape.py  Type._from_onnx / _to_onnx (a dim_param "" is an unknown dimension)
   ONNX's C++ inference is NOT modelled: it is a Section variable [infer]; every theorem holds for every [infer].
   ONNX's positional parameter binding is [bind_slots].  No proofs in this file. *)
From Coq Require Import List String Ascii Bool Arith ZArith NArith.
From Coq Require DecimalString.
Import ListNotations.
Local Open Scope list_scope.

Definition sapp := String.append.
Definition seqb := String.eqb.
Definition nat_str (n : nat) : string := DecimalString.NilEmpty.string_of_uint (Nat.to_uint n).     (* str(i) *)
Definition is_empty (s : string) : bool := seqb s EmptyString.

(* ------------------------------------------------------------------------------------------------ types *)
Inductive dim := DInt (n : Z) | DSym (s : string) | DUnk.                              (* int | str | None *)
Inductive ty := TTensor (elem : nat) (shape : option (list dim)) | TSeq (t : ty) | TOpt (t : ty).
(* TypeProto as ONNX hands it back *)
Inductive odim := OValue (n : Z) | OParam (s : string) | ONone.
Inductive oty := OTensor (elem : nat) (shape : option (list odim)) | OSeq (t : oty) | OOpt (t : oty)
               | OOther.                                                               (* map / sparse tensor / opaque *)

Definition dim_to_onnx (d : dim) : odim := match d with DInt n => OValue n | DSym s => OParam s | DUnk => ONone end.
Fixpoint to_onnx (t : ty) : oty :=
  match t with
  | TTensor e sh => OTensor e (option_map (map dim_to_onnx) sh)
  | TSeq t' => OSeq (to_onnx t')
  | TOpt t' => OOpt (to_onnx t')
  end.
(* Natural.from_onnx then to_simple: Unknown("") prints as None *)
Definition dim_from_onnx (d : odim) : dim :=
  match d with OValue n => DInt n | OParam s => if is_empty s then DUnk else DSym s | ONone => DUnk end.
Fixpoint from_onnx (t : oty) : option ty :=                                            (* None = ValueError *)
  match t with
  | OTensor e sh => Some (TTensor e (option_map (map dim_from_onnx) sh))
  | OSeq t' => option_map TSeq (from_onnx t')
  | OOpt t' => option_map TOpt (from_onnx t')
  | OOther => None
  end.
(* _strip_dim_symbol with pred = startswith("unk__") *)
Definition unk_prefix : string := "unk__"%string.
Definition is_invented (d : dim) : bool := match d with DSym s => String.prefix unk_prefix s | _ => false end.
Definition strip_dim (d : dim) : dim := if is_invented d then DUnk else d.
Fixpoint strip (t : ty) : ty :=
  match t with
  | TTensor e sh => TTensor e (option_map (map strip_dim) sh)
  | TSeq t' => TSeq (strip t')
  | TOpt t' => TOpt (strip t')
  end.

(* ------------------------------------------------------------------------------------------------ slots and arguments *)
Inductive kind := KSingle | KOptional | KVariadic.
Definition slot := (string * kind)%type.                                               (* dataclass field: name, annotation *)
Inductive arg (V : Type) := ASingle (v : V) | AOpt (o : option V) | AVariadic (l : list V).
Arguments ASingle {V} v. Arguments AOpt {V} o. Arguments AVariadic {V} l.

Definition amap {A B} (f : A -> B) (a : arg A) : arg B :=
  match a with ASingle v => ASingle (f v) | AOpt o => AOpt (option_map f o) | AVariadic l => AVariadic (map f l) end.
Definition kind_ok {V} (k : kind) (a : arg V) : bool :=                                (* BaseVars.__post_init__ *)
  match k, a with KSingle, ASingle _ | KOptional, AOpt _ | KVariadic, AVariadic _ => true | _, _ => false end.
Fixpoint args_ok {V} (sl : list slot) (al : list (arg V)) : bool :=
  match sl, al with
  | [], [] => true
  | s :: sl', a :: al' => kind_ok (snd s) a && args_ok sl' al'
  | _, _ => false
  end.
Definition arg_vars {V} (a : arg V) : list V :=
  match a with ASingle v => [v] | AOpt (Some v) => [v] | AOpt None => [] | AVariadic l => l end.

(* BaseVars._flatten: (key, value) pairs, variadic members are key_i *)
Fixpoint enum_from {V} (key : string) (i : nat) (l : list V) : list (string * option V) :=
  match l with [] => [] | v :: t => (sapp key (sapp "_" (nat_str i)), Some v) :: enum_from key (S i) t end.
Definition flatten1 {V} (key : string) (a : arg V) : list (string * option V) :=
  match a with ASingle v => [(key, Some v)] | AOpt o => [(key, o)] | AVariadic l => enum_from key 0 l end.
Fixpoint flatten {V} (sl : list slot) (al : list (arg V)) : list (string * option V) :=
  match sl, al with s :: sl', a :: al' => flatten1 (fst s) a ++ flatten sl' al' | _, _ => [] end.

(* get_vars: a dict comprehension over _flatten dropping None (a repeated key keeps its first position, last value) *)
Fixpoint dict_set {V} (d : list (string * V)) (k : string) (v : V) : list (string * V) :=
  match d with
  | [] => [(k, v)]
  | (k', v') :: t => if seqb k' k then (k', v) :: t else (k', v') :: dict_set t k v
  end.
Definition get_vars {V} (fl : list (string * option V)) : list (string * V) :=
  fold_left (fun d kv => match snd kv with Some v => dict_set d (fst kv) v | None => d end) fl [].
(* the same without dict semantics (equal when keys are distinct) *)
Fixpoint somes {V} (fl : list (string * option V)) : list (string * V) :=
  match fl with [] => [] | (k, Some v) :: t => (k, v) :: somes t | (_, None) :: t => somes t end.

(* ------------------------------------------------------------------------------------------------ the call *)
Record vinfo := { vi_ty : option ty;            (* Var.type *)
                  vi_const : option string }.   (* token of Var._value.value when it is an ndarray *)
Record sig := { s_op : string; s_domain : string; s_version : N;
                s_ins : list slot; s_outs : list slot;
                s_min : option (nat * nat) }.   (* Some (schema.min_input, schema.min_output) for a StandardNode;
                                                   None for a generic Node: len(inputs), len(outputs) *)
Inductive aval := AvData (kind : nat) (payload : string)                 (* every non-graph Attr kind; payload = canonical value *)
                | AvGraph (args res : list ty).                          (* AttrGraph: requested argument / result types *)
Record attr := { a_key : string;                                         (* field name in the Attributes dataclass *)
                 a_set : option (string * aval) }.                       (* None, or the Attr object: (Attr._name, value) *)
Record call := { c_sig : sig; c_ins : list (arg nat); c_outs : list (arg nat); c_attrs : list attr;
                 c_env : list (nat * vinfo) }.                           (* Vars are identified by a number *)

Fixpoint vlookup (env : list (nat * vinfo)) (v : nat) : vinfo :=
  match env with [] => Build_vinfo None None | (w, i) :: t => if Nat.eqb w v then i else vlookup t v end.

(* Node._init_output_vars: every declared output gets a fresh Var (optional outputs included); the variadic one
   gets out_variadic of them.  [fresh] = first unused number. *)
Fixpoint init_outputs (sl : list slot) (out_variadic fresh : nat) : list (arg nat) :=
  match sl with
  | [] => []
  | (_, KVariadic) :: t => AVariadic (seq fresh out_variadic) :: init_outputs t out_variadic (fresh + out_variadic)
  | (_, KOptional) :: t => AOpt (Some fresh) :: init_outputs t out_variadic (S fresh)
  | (_, KSingle) :: t => ASingle fresh :: init_outputs t out_variadic (S fresh)
  end.

Definition in_flat (c : call) := flatten (s_ins (c_sig c)) (c_ins c).
Definition out_flat (c : call) := flatten (s_outs (c_sig c)) (c_outs c).
Definition min_in (c : call) : nat := match s_min (c_sig c) with Some (m, _) => m | None => List.length (in_flat c) end.
Definition min_out (c : call) : nat := match s_min (c_sig c) with Some (_, m) => m | None => List.length (out_flat c) end.

(* ------------------------------------------------------------------------------------------------ Node.to_onnx *)
(* while len(names) > m and not names[-1]: names.pop()   — on the reversed list *)
Fixpoint pop_trailing (r : list string) (len m : nat) : list string :=
  match r with
  | x :: r' => if (m <? len) && is_empty x then pop_trailing r' (pred len) m else r
  | [] => []
  end.
Definition trim (m : nat) (names : list string) : list string := rev (pop_trailing (rev names) (List.length names) m).

Definition names_of (nm : nat -> string) (fl : list (string * option nat)) : list string :=
  map (fun kv => match snd kv with Some v => nm v | None => EmptyString end) fl.

Record graph := { g_name : string; g_inputs : list (string * oty); g_outputs : list (string * oty);
                  g_vinfo : list (string * oty); g_nodes : list (string * list string * list string) }.
Inductive oaval := OvData (kind : nat) (payload : string) | OvGraph (g : graph).
Record node := { n_op : string; n_domain : string; n_name : string;
                 n_inputs : list string; n_outputs : list string; n_attrs : list (string * oaval) }.

(* attributes: unset ones are skipped; a graph attribute is emitted under the FIELD key with the built subgraph, any
   other under the Attr object's own name (Attr._to_onnx uses self._name) *)
Definition emit_attr (build_subgraph : string -> list ty -> list ty -> graph) (a : attr) : list (string * oaval) :=
  match a_set a with
  | None => []
  | Some (_, AvGraph args res) => [(a_key a, OvGraph (build_subgraph (a_key a) args res))]
  | Some (name, AvData k p) => [(name, OvData k p)]
  end.
Definition emit (nm : nat -> string) (node_name : string) (build_subgraph : string -> list ty -> list ty -> graph)
           (c : call) : node :=
  {| n_op := s_op (c_sig c); n_domain := s_domain (c_sig c); n_name := node_name;
     n_inputs := trim (min_in c) (names_of nm (in_flat c));
     n_outputs := trim (min_out c) (names_of nm (out_flat c));
     n_attrs := flat_map (emit_attr build_subgraph) (c_attrs c) |}.

(* ------------------------------------------------------------------------------------------------ ONNX's positional binding *)
(* formal parameter i takes actual i; "" or a missing trailing actual = omitted (optional parameters only);
   a variadic parameter (necessarily last) takes everything that is left *)
Fixpoint bind_slots (sl : list slot) (names : list string) : option (list (arg string)) :=
  match sl with
  | [] => match names with [] => Some [] | _ => None end
  | (_, KVariadic) :: rest => match rest with [] => Some [AVariadic names] | _ => None end
  | (_, KSingle) :: rest =>
      match names with
      | n :: t => if is_empty n then None else option_map (cons (ASingle n)) (bind_slots rest t)
      | [] => None
      end
  | (_, KOptional) :: rest =>
      match names with
      | n :: t => option_map (cons (AOpt (if is_empty n then None else Some n))) (bind_slots rest t)
      | [] => option_map (cons (AOpt None)) (bind_slots rest [])
      end
  end.
(* the shape that makes positional binding well defined: a variadic parameter only in last position *)
Fixpoint variadic_last (sl : list slot) : bool :=
  match sl with
  | [] => true
  | (_, KVariadic) :: rest => match rest with [] => true | _ => false end
  | _ :: rest => variadic_last rest
  end.
(* ONNX's own, stricter shape (OpSchema::Finalize + the convention that optionals trail): singles, then optionals, then
   at most one variadic *)
Fixpoint onnx_shape_opt (sl : list slot) : bool :=
  match sl with [] => true | (_, KOptional) :: r => onnx_shape_opt r | (_, KVariadic) :: [] => true | _ => false end.
Fixpoint onnx_shape (sl : list slot) : bool :=
  match sl with
  | [] => true
  | (_, KSingle) :: r => onnx_shape r
  | _ => onnx_shape_opt sl
  end.

(* ------------------------------------------------------------------------------------------------ the singleton model *)
(* scope.var[var] = key for the first key under which the Var occurs (inputs first, then outputs);
   None = ScopeError (key already names another Var) *)
Fixpoint scope_name (sc : list (nat * string)) (v : nat) : option string :=
  match sc with [] => None | (w, k) :: t => if Nat.eqb w v then Some k else scope_name t v end.
Definition scope_has_key (sc : list (nat * string)) (k : string) : bool := existsb (fun e => seqb (snd e) k) sc.
Fixpoint scope_fill (sc : list (nat * string)) (kvs : list (string * nat)) : option (list (nat * string)) :=
  match kvs with
  | [] => Some sc
  | (k, v) :: t =>
      match scope_name sc v with
      | Some _ => scope_fill sc t
      | None => if scope_has_key sc k then None else scope_fill (sc ++ [(v, k)]) t
      end
  end.
Definition nm_of (sc : list (nat * string)) (v : nat) : string :=
  match scope_name sc v with Some k => k | None => EmptyString end.

(* _make_dummy_subgraph *)
Fixpoint dummy_infos (prefix : string) (i : nat) (tys : list ty) : list (string * oty) :=
  match tys with [] => [] | t :: r => (sapp prefix (nat_str i), to_onnx t) :: dummy_infos prefix (S i) r end.
Fixpoint dummy_nodes (i n : nat) : list (string * list string * list string) :=
  match n with
  | O => []
  | S n' => ("Identity"%string, [sapp "__dummy_outer_output" (nat_str i)], [sapp "__dummy_output" (nat_str i)])
            :: dummy_nodes (S i) n'
  end.
Definition dummy_subgraph (key : string) (args res : list ty) : graph :=
  {| g_name := sapp "__dummy_" key;
     g_inputs := dummy_infos "__dummy_input" 0 args;
     g_outputs := dummy_infos "__dummy_output" 0 res;
     g_vinfo := dummy_infos "__dummy_outer_output" 0 res;
     g_nodes := dummy_nodes 0 (List.length res) |}.

Record smodel := { m_node : node;
                   m_inputs : list (string * oty);              (* graph.input value infos *)
                   m_outputs : list (string * option oty);      (* graph.output; None = empty TypeProto placeholder *)
                   m_inits : list (string * string);            (* graph.initializer: name, value token *)
                   m_opset : string * N }.
Inductive sres := SOk (m : smodel) | SScopeError | STypeError.  (* TypeError: unwrap_type of an untyped input *)

Fixpoint input_infos (env : list (nat * vinfo)) (kvs : list (string * nat)) : option (list (string * oty)) :=
  match kvs with
  | [] => Some []
  | (k, v) :: t => match vi_ty (vlookup env v), input_infos env t with
                   | Some ty, Some r => Some ((k, to_onnx ty) :: r)
                   | _, _ => None
                   end
  end.
Fixpoint initializers (env : list (nat * vinfo)) (kvs : list (string * nat)) : list (string * string) :=
  match kvs with
  | [] => []
  | (k, v) :: t => match vi_const (vlookup env v) with Some a => (k, a) :: initializers env t | None => initializers env t end
  end.

Definition singleton (c : call) : sres :=
  let ins := get_vars (in_flat c) in
  let outs := get_vars (out_flat c) in
  match scope_fill [] (ins ++ outs) with
  | None => SScopeError
  | Some sc =>
      match input_infos (c_env c) ins with
      | None => STypeError
      | Some infos =>
          SOk {| m_node := emit (nm_of sc) "_this_" dummy_subgraph c;
                 m_inputs := infos;
                 m_outputs := map (fun kv => (fst kv, None)) outs;
                 m_inits := initializers (c_env c) ins;
                 m_opset := (s_domain (c_sig c), s_version (c_sig c)) |}
      end
  end.

(* ------------------------------------------------------------------------------------------------ the call's outcome *)
Definition input_vars (c : call) : list nat := map snd (get_vars (in_flat c)).
Definition some_input_untyped (c : call) : bool :=
  existsb (fun v => match vi_ty (vlookup (c_env c) v) with None => true | Some _ => false end) (input_vars c).
Definition out_keys (c : call) : list string := map fst (get_vars (out_flat c)).

(* results = {info.name: Type._from_onnx(info.type) for info in graph.output if info.type != TypeProto()} :
   a later entry of the same name replaces an earlier one; conversion errors surface *)
Fixpoint results_of (infos : list (string * option oty)) (acc : list (string * ty)) : option (list (string * ty)) :=
  match infos with
  | [] => Some acc
  | (_, None) :: t => results_of t acc
  | (k, Some o) :: t => match from_onnx o with Some ty => results_of t (dict_set acc k ty) | None => None end
  end.
Fixpoint dict_get {V} (d : list (string * V)) (k : string) : option V :=
  match d with [] => None | (k', v) :: t => if seqb k' k then Some v else dict_get t k end.

Inductive outcome (E : Type) :=
| Raised (e : E)                                  (* the exception of onnx.shape_inference.infer_shapes, same class *)
| RaisedOther                                     (* ScopeError / TypeError / ValueError of the plumbing itself *)
| Returned (tys : list (string * option ty)).     (* Var.type per output key *)
Arguments Raised {E} e. Arguments RaisedOther {E}. Arguments Returned {E} tys.

Section Infer.
  Variable E : Type.
  (* ONNX strict type-and-shape inference on a one-node model: an error, or graph.output of the typed model *)
  Variable infer : smodel -> E + list (string * option oty).

  (* infer_output_types_onnx *)
  Definition infer_output_types (c : call) : E + option (list (string * ty)) :=
    if some_input_untyped c then inr (Some [])
    else match singleton c with
         | SOk m => match infer m with
                    | inl e => inl e
                    | inr infos => inr (option_map (map (fun kt => (fst kt, strip (snd kt)))) (results_of infos []))
                    end
         | _ => inr None
         end.
  (* Node.inference (type part): var.type = out_types.get(key) for every output key *)
  Definition call_outcome (c : call) : outcome E :=
    match infer_output_types c with
    | inl e => Raised e
    | inr None => RaisedOther
    | inr (Some out_types) => Returned (map (fun k => (k, dict_get out_types k)) (out_keys c))
    end.
End Infer.
Arguments call_outcome {E} infer c.
Arguments infer_output_types {E} infer c.

(* The constructor as a whole: BaseVars.__post_init__ runs when the Inputs dataclass is created, i.e. BEFORE the node exists -
   an argument of the wrong kind for its field (None or a list where a Var is required, a non-Var object anywhere, a bare Var where a
   sequence is required) raises at the call and inference is never consulted.  [arg] can only express the kind errors whose payload is
   made of Vars; a non-Var object is modelled by the same [kind_ok = false]. *)
Definition construct {E} (infer : smodel -> E + list (string * option oty)) (c : call) : outcome E :=
  if args_ok (s_ins (c_sig c)) (c_ins c) then call_outcome infer c else RaisedOther.

(* ------------------------------------------------------------------------------------------------ well-formedness used by theorems *)
Fixpoint nodupb (l : list string) : bool :=
  match l with [] => true | x :: t => negb (existsb (seqb x) t) && nodupb t end.
Definition keys_ok (c : call) : bool :=           (* flattened input and output keys are pairwise distinct, non-empty *)
  nodupb (map fst (in_flat c) ++ map fst (out_flat c)) &&
  forallb (fun k => negb (is_empty k)) (map fst (in_flat c) ++ map fst (out_flat c)).
Definition call_ok (c : call) : bool :=
  args_ok (s_ins (c_sig c)) (c_ins c) && args_ok (s_outs (c_sig c)) (c_outs c).

(* ------------------------------------------------------------------------------------------------ rendering (for the correspondence run) *)
Definition nl : string := "~"%string.
Fixpoint join (sep : string) (l : list string) : string :=
  match l with [] => EmptyString | [x] => x | x :: t => sapp x (sapp sep (join sep t)) end.
Definition z_str (z : Z) : string :=
  match z with Z0 => "0"%string | Zpos p => nat_str (Pos.to_nat p) | Zneg p => sapp "-" (nat_str (Pos.to_nat p)) end.
Definition show_odim (d : odim) : string :=
  match d with OValue n => z_str n | OParam s => sapp "'" (sapp s "'") | ONone => "?"%string end.
Fixpoint show_oty (t : oty) : string :=
  match t with
  | OTensor e None => sapp "T" (sapp (nat_str e) "*")
  | OTensor e (Some sh) => sapp "T" (sapp (nat_str e) (sapp "[" (sapp (join "," (map show_odim sh)) "]")))
  | OSeq t' => sapp "S(" (sapp (show_oty t') ")")
  | OOpt t' => sapp "O(" (sapp (show_oty t') ")")
  | OOther => "other"%string
  end.
Definition show_ty (t : ty) : string := show_oty (to_onnx t).
Definition show_info (kv : string * oty) : string := sapp (fst kv) (sapp ":" (show_oty (snd kv))).
Definition show_gnode (n : string * list string * list string) : string :=
  let '(op, i, o) := n in sapp op (sapp "(" (sapp (join "," i) (sapp ")->" (join "," o)))).
Definition show_graph (g : graph) : string :=
  sapp "{" (sapp (g_name g) (sapp "|in " (sapp (join ";" (map show_info (g_inputs g)))
  (sapp "|out " (sapp (join ";" (map show_info (g_outputs g)))
  (sapp "|vi " (sapp (join ";" (map show_info (g_vinfo g)))
  (sapp "|nodes " (sapp (join ";" (map show_gnode (g_nodes g))) "}"))))))))).
Definition show_attr (a : string * oaval) : string :=
  match snd a with
  | OvData k p => sapp (fst a) (sapp "=" (sapp (nat_str k) (sapp ":" p)))
  | OvGraph g => sapp (fst a) (sapp "=G:" (show_graph g))
  end.
Definition show_node (n : node) : string :=
  join nl [sapp "op " (sapp (n_domain n) (sapp "::" (n_op n))); sapp "name " (n_name n);
           sapp "in " (join "," (n_inputs n)); sapp "out " (join "," (n_outputs n));
           sapp "attrs " (join nl (map show_attr (n_attrs n)))].
Definition show_model (m : smodel) : string :=
  join nl [show_node (m_node m);
           sapp "ginputs " (join ";" (map show_info (m_inputs m)));
           sapp "goutputs " (join ";" (map (fun kv => match snd kv with None => fst kv | Some t => show_info (fst kv, t) end) (m_outputs m)));
           sapp "inits " (join ";" (map (fun kv => sapp (fst kv) (sapp "=" (snd kv))) (m_inits m)));
           sapp "opset " (sapp (fst (m_opset m)) (sapp "@" (nat_str (N.to_nat (snd (m_opset m))))))].
Definition show_sres (r : sres) : string :=
  match r with SOk m => show_model m | SScopeError => "ScopeError"%string | STypeError => "TypeError"%string end.
Definition show_outcome (o : outcome string) : string :=
  match o with
  | Raised e => sapp "Raised " e
  | RaisedOther => "RaisedOther"%string
  | Returned tys => sapp "Returned " (join ";" (map (fun kt => sapp (fst kt) (sapp ":" (match snd kt with None => "-"%string | Some t => show_ty t end))) tys))
  end.

(* ------------------------------------------------------------------------------------------------ signature-level condition for keys_ok *)
Definition field_names (s : sig) : list string := map fst (s_ins s ++ s_outs s).
Definition is_variadic (sl : slot) : bool := match snd sl with KVariadic => true | _ => false end.
Definition no_prefix_clash (sl : list slot) : bool :=
  forallb (fun v => forallb (fun f => negb (String.prefix (sapp (fst v) "_") f)) (map fst sl)) (filter is_variadic sl).
(* distinct non-empty field names over inputs and outputs together, none starting with "<variadic field>_" *)
Definition sig_keys_ok (s : sig) : bool :=
  nodupb (field_names s) && forallb (fun k => negb (is_empty k)) (field_names s) && no_prefix_clash (s_ins s ++ s_outs s).
